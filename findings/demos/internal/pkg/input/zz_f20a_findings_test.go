package input

import "testing"

// F-20a: two handlers at the same physical location that report different input IDs (two Bluetooth gamepads behind one
// adapter, virtual devices with an empty Phys): the identity of the resulting device - which selects its configuration -
// must not depend on which handler was discovered first.
func TestFinding_F20a_DeviceIdentityIndependentOfDiscoveryOrder(t *testing.T) {
	a := DeviceInfo{Name: "pad a", Phys: "aa:bb", Uniq: "1", ID: InputID{Bus: 5, Vendor: 1, Product: 1}}
	b := DeviceInfo{Name: "pad b", Phys: "aa:bb", Uniq: "2", ID: InputID{Bus: 5, Vendor: 2, Product: 2}}
	x := Normalize([]DeviceInfo{a, b})
	y := Normalize([]DeviceInfo{b, a})
	if len(x) != 1 || len(y) != 1 {
		t.Fatalf("expected one device each, got %d and %d", len(x), len(y))
	}
	if x[0].ID != y[0].ID {
		t.Errorf("device ID depends on discovery order: %v vs %v", x[0].ID, y[0].ID)
	}
	for i := range x[0].Handlers {
		if x[0].Handlers[i].DeviceInfo.Name != y[0].Handlers[i].DeviceInfo.Name {
			t.Errorf("handler order depends on discovery order: #%d is %q vs %q", i, x[0].Handlers[i].DeviceInfo.Name, y[0].Handlers[i].DeviceInfo.Name)
		}
	}
}
