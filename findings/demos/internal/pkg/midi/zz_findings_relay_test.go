package midi

import (
	"context"
	"testing"
	"time"

	"github.com/gethiox/HIDI/internal/pkg/midi/driver"
)

type fakeOut struct{ c chan []byte }

func (f *fakeOut) Name() string               { return "fake" }
func (f *fakeOut) Open() error                { return nil }
func (f *fakeOut) Close() error               { return nil }
func (f *fakeOut) SendChannel() chan<- []byte { return f.c }

type fakeIn struct{ c chan []byte }

func (f *fakeIn) Name() string                   { return "fake" }
func (f *fakeIn) Open() error                    { return nil }
func (f *fakeIn) Close() error                   { return nil }
func (f *fakeIn) ReceiveChannel() <-chan []byte { return f.c }

// F-15b: closing the device output channel must not make the relay write empty events to the port.
func TestFinding_F15b_NoZeroEventAfterClose(t *testing.T) {
	out := &fakeOut{c: make(chan []byte, 64)}
	in := &fakeIn{c: make(chan []byte)}
	ctx, cancel := context.WithCancel(context.Background())
	defer cancel()
	evs := make(chan Event, 8)
	inEvs := make(chan Event, 8)
	score := Score{}
	ProcessMidiEvents(ctx, driver.Port{Input: in, Output: out}, evs, inEvs, &score)
	evs <- NoteEvent(NoteOn, 0, 60, 64)
	time.Sleep(50 * time.Millisecond)
	close(evs) // shutdown: nobody emits anymore
	time.Sleep(100 * time.Millisecond)
	n := 0
	for {
		select {
		case e := <-out.c:
			n++
			if len(e) == 0 {
				t.Fatalf("an empty event that no device emitted was written to the output port (message #%d)", n)
			}
			continue
		default:
		}
		break
	}
	if n != 1 {
		t.Fatalf("expected exactly the one emitted message on the port, got %d", n)
	}
}

// F-15c: the shutdown sequence of cmd/hidi/main.go. SIGINT cancels the context; the manager then ends every device, whose
// ProcessEvents emits the Note Off of every note still held; main closes the channel afterwards. Everything the devices
// emitted must reach the port, and the devices must not block.
func TestFinding_F15c_ShutdownCleanupReachesThePort(t *testing.T) {
	out := &fakeOut{c: make(chan []byte, 64)}
	in := &fakeIn{c: make(chan []byte)}
	ctx, cancel := context.WithCancel(context.Background())
	evs := make(chan Event, 8) // as in main.go
	inEvs := make(chan Event, 8)
	score := Score{}
	ProcessMidiEvents(ctx, driver.Port{Input: in, Output: out}, evs, inEvs, &score)
	evs <- NoteEvent(NoteOn, 0, 60, 64)
	<-out.c
	cancel() // SIGINT
	time.Sleep(100 * time.Millisecond)
	emitted := 0
	for note := uint8(60); note < 70; note++ { // the clean-up of a device holding ten notes
		select {
		case evs <- NoteEvent(NoteOff, 0, note, 0):
			emitted++
		case <-time.After(time.Second):
			t.Fatalf("the device blocked after %d of its 10 clean-up Note Offs: nobody reads the output channel any more", emitted)
		}
	}
	close(evs) // main: close(midiEventsOut) after manager.Run returned
	received := 0
	for received < emitted {
		select {
		case <-out.c:
			received++
		case <-time.After(500 * time.Millisecond):
			t.Fatalf("devices emitted %d Note Offs during shutdown, the output port received %d", emitted, received)
		}
	}
}
