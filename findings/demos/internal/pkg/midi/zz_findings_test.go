package midi

import "testing"

// F-06a: rest position of a pitch-bend axis must transmit the centre 8192.
func TestFinding_F06a_PitchBendCentre(t *testing.T) {
	e := PitchBendEvent(0, 0)
	if v := int(e[2])<<7 | int(e[1]); v != 8192 {
		t.Fatalf("value 0.0 encodes to %d, expected the centre 8192", v)
	}
	e = PitchBendEvent(0, 1)
	if v := int(e[2])<<7 | int(e[1]); v != 16383 {
		t.Fatalf("+1 encodes to %d", v)
	}
	e = PitchBendEvent(0, -1)
	if v := int(e[2])<<7 | int(e[1]); v != 0 {
		t.Fatalf("-1 encodes to %d", v)
	}
}
