package device

import (
	"testing"

	"github.com/gethiox/HIDI/internal/pkg/input"
	"github.com/gethiox/HIDI/internal/pkg/midi"
	"github.com/gethiox/HIDI/internal/pkg/midi/device/config"
	"github.com/holoplot/go-evdev"
)

const f08gCfg = `
collision_mode = "off"
exit_sequence = []
[identifier]
bus = 0
vendor = 0
product = 0
version = 0
[defaults]
octave = 0
semitone = 0
channel = 1
mapping = "A"
velocity = 64
[action_mapping]
[[mapping]]
name = "A"
[[mapping.analog]]
subhandler = ""
default_deadzone = 0.0
[mapping.analog.map]
ABS_RZ = { type = "key", note = 60, note_negative = 50 }
ABS_Z = { type = "cc", cc = 20, flip_axis = true }
`

func f08gDevice(t *testing.T) (*Device, chan midi.Event) {
	t.Helper()
	c, err := config.ParseData([]byte(f08gCfg))
	if err != nil {
		t.Fatalf("config: %v", err)
	}
	in := input.Device{Name: "Dummy", DeviceType: input.JoystickDevice,
		AbsInfos: map[string]map[evdev.EvCode]evdev.AbsInfo{"": {
			evdev.ABS_RZ: {Minimum: 0, Maximum: 255}, evdev.ABS_Z: {Minimum: 0, Maximum: 255}}}}
	out := make(chan midi.Event, 64)
	d := NewDevice(in, config.DeviceConfig{Config: c}, out, nil, true, 0, nil)
	return &d, out
}

// F-08g: an unsigned stick (0..255, centre 128) emulating keys whose very first report is the far negative stop (raw 0):
// the deflection is 100 % of the negative side, the negative note must come on. The position was dropped as a
// "repetition" of a value 0.0 that had never been reported.
func TestFinding_F08g_FirstReportOfAnAxisIsNotARepetition(t *testing.T) {
	d, out := f08gDevice(t)
	held := map[[2]byte]bool{}
	d.processEvent(abs(evdev.ABS_RZ, 0))
	sounding(drain(out), held)
	if !held[[2]byte{0, 50}] || len(held) != 1 {
		t.Errorf("stick at the negative stop as its first report: want note 50 sounding, got %v", held)
	}
	// and the repetition of a reported position is still suppressed
	d.processEvent(abs(evdev.ABS_RZ, 0))
	if evs := drain(out); len(evs) != 0 {
		t.Errorf("the same position reported again must send nothing, got %v", evs)
	}
}

// the same for a controller: a flipped unsigned axis resting at raw 0 stands for the value 127
func TestFinding_F08g_FirstReportOfAFlippedControllerAxis(t *testing.T) {
	d, out := f08gDevice(t)
	d.processEvent(abs(evdev.ABS_Z, 0))
	evs := drain(out)
	if len(evs) != 1 || evs[0][0]&0xf0 != midi.ControlChange || evs[0][1] != 20 || evs[0][2] != 127 {
		t.Errorf("flipped axis at raw 0 as its first report: want controller 20 = 127, got %v", evs)
	}
}
