package device

import (
	"testing"

	"github.com/gethiox/HIDI/internal/pkg/input"
	"github.com/gethiox/HIDI/internal/pkg/midi"
	"github.com/gethiox/HIDI/internal/pkg/midi/device/config"
	"github.com/holoplot/go-evdev"
)

const f07aCfg = `
collision_mode = "off"
exit_sequence = []
[identifier]
bus = 0
vendor = 0
product = 0
version = 0
[defaults]
octave = 0
semitone = 0
channel = 1
mapping = "A"
velocity = 64
[action_mapping]
[[mapping]]
name = "A"
[[mapping.analog]]
subhandler = ""
default_deadzone = 0.1
[mapping.analog.map]
ABS_X = { type = "cc", cc = 20, cc_negative = 21 }
`

// F-07a: CC learning is held, the stick goes fully positive (transmitted) and back to rest (swallowed by the learning
// gate), learning is released. The next report of the resting stick (jitter inside the deadzone) must bring the
// receiver back to rest: no controller may stay non-zero while the stick is deflected to neither side.
func TestFinding_F07a_PositionSwallowedByLearningIsNotRememberedAsSent(t *testing.T) {
	c, err := config.ParseData([]byte(f07aCfg))
	if err != nil {
		t.Fatalf("config: %v", err)
	}
	in := input.Device{Name: "Dummy", DeviceType: input.JoystickDevice,
		AbsInfos: map[string]map[evdev.EvCode]evdev.AbsInfo{"": {evdev.ABS_X: {Minimum: -32768, Maximum: 32767}}}}
	out := make(chan midi.Event, 16)
	d := NewDevice(in, config.DeviceConfig{Config: c}, out, nil, true, 0, nil)
	receiver := map[byte]byte{} // controller -> last value
	step := func(raw int32) {
		d.processEvent(abs(evdev.ABS_X, raw))
		for _, e := range drain(out) {
			if e[0]&0xf0 == midi.ControlChange {
				receiver[e[1]] = e[2]
			}
		}
	}
	d.CCLearningOn()
	step(32767) // beyond half travel: transmitted
	if receiver[20] != 127 {
		t.Fatalf("full deflection while learning: controller 20 = %d, want 127", receiver[20])
	}
	step(0) // back to rest: swallowed by the gate (by design)
	d.CCLearningOff()
	step(100) // the resting stick reports again (inside the deadzone)
	step(0)
	if receiver[20] != 0 || receiver[21] != 0 {
		t.Errorf("stick at rest, learning released: the receiver still holds controller 20 = %d, 21 = %d", receiver[20], receiver[21])
	}
}
