package device

import (
	"encoding/binary"
	"io"
	"net"
	"testing"
	"time"

	"github.com/gethiox/HIDI/internal/pkg/input"
	"github.com/gethiox/HIDI/internal/pkg/logger"
	"github.com/gethiox/HIDI/internal/pkg/midi"
)

// F-16b: the OpenRGB server is there but has no controller for the device: the TCP connection of the device stayed
// open after ProcessEvents has returned (nothing ever closes the client).
func TestFinding_F16b_OpenRGBConnectionClosedWhenDeviceEnds(t *testing.T) {
	go func() {
		for range logger.Messages {
		}
	}()

	l, err := net.Listen("tcp", "localhost:0")
	if err != nil {
		t.Skip(err)
	}
	defer l.Close()
	closed := make(chan struct{}, 16)
	accepted := make(chan struct{}, 16)
	go func() {
		for {
			c, err := l.Accept()
			if err != nil {
				return
			}
			accepted <- struct{}{}
			go func(c net.Conn) {
				defer func() { closed <- struct{}{} }()
				hdr := make([]byte, 16)
				for {
					if _, err := io.ReadFull(c, hdr); err != nil {
						return
					}
					cmd := binary.LittleEndian.Uint32(hdr[8:])
					n := binary.LittleEndian.Uint32(hdr[12:])
					if _, err := io.CopyN(io.Discard, c, int64(n)); err != nil {
						return
					}
					if cmd == 0 { // controller count: none
						out := append([]byte("ORGB"), make([]byte, 16)...)
						binary.LittleEndian.PutUint32(out[12:], 4)
						c.Write(out)
					}
				}
			}(c)
		}
	}()

	cfg, err := getFactoryKeyboardConfiguration()
	if err != nil {
		t.Fatal(err)
	}
	kbdEvents := make(chan *input.InputEvent)
	midiOut := make(chan midi.Event, 16)
	d := NewDevice(input.Device{Name: "Dummy", DeviceType: input.KeyboardDevice}, cfg, midiOut, nil, true,
		l.Addr().(*net.TCPAddr).Port, nil)
	done := make(chan struct{})
	go func() {
		d.ProcessEvents(kbdEvents)
		close(done)
	}()

	select {
	case <-accepted:
	case <-time.After(time.Second * 3):
		t.Fatal("device did not connect")
	}
	time.Sleep(time.Millisecond * 400)
	close(kbdEvents)
	select {
	case <-done:
	case <-time.After(time.Second * 5):
		t.Fatal("ProcessEvents did not return within 5s after the event stream has ended")
	}
	select {
	case <-closed:
	case <-time.After(time.Second * 2):
		t.Fatal("connection to OpenRGB server still open 2s after ProcessEvents returned")
	}
}
