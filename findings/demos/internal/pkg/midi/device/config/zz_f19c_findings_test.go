package config

import (
	"context"

	"github.com/gethiox/HIDI/internal/pkg/logger"
	"os"
	"path/filepath"
	"testing"
	"time"
)

// F-19c: after a burst of writes that overflows the kernel's notification queue while the consumer is late, later
// modifications must still be notified.
func TestFinding_F19c_NotificationsSurviveQueueOverflow(t *testing.T) {
	go func() { // the application drains the log queue; nothing does in a test
		for range logger.Messages {
		}
	}()
	root := t.TempDir()
	for _, d := range []string{"hidi-config/factory/keyboard", "hidi-config/factory/gamepad", "hidi-config/user/keyboard", "hidi-config/user/gamepad"} {
		if err := os.MkdirAll(filepath.Join(root, d), 0o777); err != nil {
			t.Fatal(err)
		}
	}
	old, _ := os.Getwd()
	defer os.Chdir(old)
	os.Chdir(root)
	a := "hidi-config/user/keyboard/a.toml"
	b := "hidi-config/user/keyboard/b.toml"
	os.WriteFile(a, []byte("x"), 0o666)
	os.WriteFile(b, []byte("x"), 0o666)

	ctx, cancel := context.WithCancel(context.Background())
	defer cancel()
	change := DetectDeviceConfigChanges(ctx)
	time.Sleep(200 * time.Millisecond)

	// the consumer is late: a burst of alternating writes (alternating names defeat the kernel's coalescing)
	fa, _ := os.OpenFile(a, os.O_WRONLY|os.O_APPEND, 0)
	fb, _ := os.OpenFile(b, os.O_WRONLY|os.O_APPEND, 0)
	for i := 0; i < 40000; i++ {
		fa.Write([]byte("y"))
		fb.Write([]byte("y"))
	}
	fa.Close()
	fb.Close()
	// now the consumer reads everything that is there
	drained := 0
drain:
	for {
		select {
		case _, ok := <-change:
			if !ok {
				t.Fatalf("notification stream ended")
			}
			drained++
		case <-time.After(1500 * time.Millisecond):
			break drain
		}
	}
	t.Logf("drained %d notifications after the burst", drained)
	// an isolated modification afterwards must be notified
	if err := os.WriteFile(a, []byte("z"), 0o666); err != nil {
		t.Fatal(err)
	}
	select {
	case <-change:
	case <-time.After(3 * time.Second):
		t.Fatalf("a modification after the burst was not notified: the watcher stopped delivering events (its error channel is never read)")
	}
}
