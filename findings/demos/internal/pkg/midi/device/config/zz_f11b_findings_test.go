package config

import "testing"

// F-11b: "c-0" (and every other "<pitch>-0") is not one of the 128 note names and must be rejected, not read as octave 0.
func TestFinding_F11b_MinusZeroOctaveIsNotANoteName(t *testing.T) {
	for _, name := range []string{"c-0", "C-0", "g#-0", "b-0"} {
		if n, err := StringToNote(name); err == nil {
			t.Errorf("%q is accepted as note %d; the only name of that note is %q", name, n, NoteToPitch(n)+"0")
		}
	}
	// the canonical spellings still work
	for name, want := range map[string]byte{"c0": 24, "c-1": 12, "c-2": 0, "g8": 127} {
		if n, err := StringToNote(name); err != nil || n != want {
			t.Errorf("%q = %d, %v; want %d", name, n, err, want)
		}
	}
}
