package config

import (
	"context"
	"os"
	"path/filepath"
	"runtime"
	"strings"
	"testing"
	"time"
)

const base = `
collision_mode = "off"
exit_sequence = []
[identifier]
bus = 0
vendor = 0
product = 0
version = 0
[defaults]
octave = 0
semitone = 0
channel = CHANNEL
mapping = "A"
velocity = 64
[[mapping]]
name = "A"
[[mapping.analog]]
subhandler = ""
default_deadzone = 0.1
[mapping.analog.map]
ANALOG
`

func cfg(channel, analog string) []byte {
	return []byte(strings.ReplaceAll(strings.ReplaceAll(base, "CHANNEL", channel), "ANALOG", analog))
}

// F-05a: default channel outside 1-16 must be rejected.
func TestFinding_F05a_DefaultChannelZeroRejected(t *testing.T) {
	if _, err := ParseData(cfg("0", "")); err == nil {
		t.Fatalf("defaults.channel = 0 was accepted")
	}
	if _, err := ParseData(cfg("17", "")); err == nil {
		t.Fatalf("defaults.channel = 17 was accepted")
	}
}

// F-09a: action axis without action_negative must not crash the parser.
func TestFinding_F09a_ActionWithoutNegativeDoesNotPanic(t *testing.T) {
	defer func() {
		if r := recover(); r != nil {
			t.Fatalf("parser panicked: %v", r)
		}
	}()
	ParseData(cfg("1", `ABS_X = { type = "action", action = "octave_up" }`))
}

// F-10b: unknown action_negative must be rejected.
func TestFinding_F10b_BogusNegativeActionRejected(t *testing.T) {
	if _, err := ParseData(cfg("1", `ABS_X = { type = "action", action = "octave_up", action_negative = "bogus" }`)); err == nil {
		t.Fatalf("action_negative = \"bogus\" was accepted")
	}
}

// F-10c: NoteNeg must come from note_negative.
func TestFinding_F10c_NoteNegative(t *testing.T) {
	c, err := ParseData(cfg("1", `ABS_X = { type = "key", note = 60, note_negative = 62 }`))
	if err != nil {
		t.Fatal(err)
	}
	for _, a := range c.KeyMappings[0].Analog[""] {
		if a.NoteNeg != 62 {
			t.Fatalf("NoteNeg = %d, file says 62", a.NoteNeg)
		}
	}
}

// F-10d: channel offsets of key-emulating axes must be kept.
func TestFinding_F10d_KeyAxisChannelOffsetKept(t *testing.T) {
	c, err := ParseData(cfg("1", `ABS_X = { type = "key", note = 60, note_negative = 62, channel_offset = 3, channel_offset_negative = 4 }`))
	if err != nil {
		t.Fatal(err)
	}
	for _, a := range c.KeyMappings[0].Analog[""] {
		if a.ChannelOffset != 3 || a.ChannelOffsetNeg != 4 {
			t.Fatalf("offsets = %d/%d, file says 3/4", a.ChannelOffset, a.ChannelOffsetNeg)
		}
	}
}

// F-10e: out-of-range analog channel offset must be rejected.
func TestFinding_F10e_AnalogChannelOffsetRange(t *testing.T) {
	if _, err := ParseData(cfg("1", `ABS_X = { type = "cc", cc = 1, channel_offset = 300 }`)); err == nil {
		t.Fatalf("channel_offset = 300 was accepted")
	}
}

// F-11a: names that are not note names must be rejected.
func TestFinding_F11a_BogusNoteNames(t *testing.T) {
	for _, s := range []string{"H4", "E#3", "B#-1", "x0"} {
		if n, err := StringToNote(s); err == nil {
			t.Fatalf("%q was accepted as note %d", s, n)
		}
	}
}

// F-12a: a missing configuration directory must produce an error (or count as empty), not a crash.
func TestFinding_F12a_MissingDirectoryDoesNotPanic(t *testing.T) {
	defer func() {
		if r := recover(); r != nil {
			t.Fatalf("loadDirectory panicked on a missing directory: %v", r)
		}
	}()
	_ = loadDirectory(filepath.Join(t.TempDir(), "does-not-exist"), "user", make(ConfigMap))
}

func watchIn(t *testing.T) (string, func()) {
	dir := t.TempDir()
	for _, d := range []string{factoryGamepad, factoryKeyboard, userGamepad, userKeyboard} {
		if err := os.MkdirAll(filepath.Join(dir, d), 0o777); err != nil {
			t.Fatal(err)
		}
	}
	old, _ := os.Getwd()
	os.Chdir(dir)
	return dir, func() { os.Chdir(old) }
}

// F-19a: a write to a non-.toml file must not trigger a reload.
func TestFinding_F19a_NonTomlWriteIsIgnored(t *testing.T) {
	_, back := watchIn(t)
	defer back()
	p := filepath.Join(userKeyboard, "notes.atoml")
	os.WriteFile(p, []byte("x"), 0o666)
	ctx, cancel := context.WithCancel(context.Background())
	defer cancel()
	ch := DetectDeviceConfigChanges(ctx)
	time.Sleep(100 * time.Millisecond)
	f, _ := os.OpenFile(p, os.O_WRONLY|os.O_APPEND, 0)
	f.Write([]byte("y"))
	f.Close()
	select {
	case <-ch:
		t.Fatalf("a write to notes.atoml (not a configuration) produced a change notification")
	case <-time.After(300 * time.Millisecond):
	}
}

// F-19b: cancellation while a notification is pending must still stop the watcher goroutine
// (the consumer stops receiving once the context is cancelled, as Manager.Run does).
func TestFinding_F19b_WatcherStopsWhenCancelledWithPendingNotification(t *testing.T) {
	_, back := watchIn(t)
	defer back()
	p := filepath.Join(userKeyboard, "a.toml")
	os.WriteFile(p, []byte("x"), 0o666)
	ctx, cancel := context.WithCancel(context.Background())
	_ = DetectDeviceConfigChanges(ctx) // nobody receives: the consumer is busy / already gone
	time.Sleep(100 * time.Millisecond)
	f, _ := os.OpenFile(p, os.O_WRONLY|os.O_APPEND, 0)
	f.Write([]byte("y"))
	f.Close()
	time.Sleep(200 * time.Millisecond) // the watcher is now trying to hand over the notification
	cancel()
	time.Sleep(500 * time.Millisecond)
	buf := make([]byte, 1<<20)
	n := runtime.Stack(buf, true)
	if strings.Contains(string(buf[:n]), "DetectDeviceConfigChanges.func1(") {
		t.Fatalf("the watcher goroutine is still alive after cancellation (blocked on `change <- true`): its deferred close(change) never runs")
	}
}

// F-09c: valid TOML with a date where a number is expected must yield an error, not a decoder panic.
func TestFinding_F09c_DateWhereNumberExpectedDoesNotPanic(t *testing.T) {
	defer func() {
		if r := recover(); r != nil {
			t.Fatalf("ParseData panicked: %v", r)
		}
	}()
	if _, err := ParseData([]byte("[defaults]\nvelocity = 1979-05-27\n")); err == nil {
		t.Fatalf("a date was accepted as velocity")
	}
}
