package device

import (
	"testing"

	"github.com/gethiox/HIDI/internal/pkg/input"
	"github.com/gethiox/HIDI/internal/pkg/midi"
	"github.com/gethiox/HIDI/internal/pkg/midi/device/config"
	"github.com/holoplot/go-evdev"
)

const f02bCfg = `
collision_mode = "off"
exit_sequence = []
[identifier]
bus = 0
vendor = 0
product = 0
version = 0
[defaults]
octave = 0
semitone = 0
channel = 1
mapping = "A"
velocity = 64
[action_mapping]
[[mapping]]
name = "A"
[[mapping.keys]]
subhandler = ""
[mapping.keys.map]
BTN_LEFT = "60"
[[mapping.keys]]
subhandler = "Touchpad"
[mapping.keys.map]
BTN_LEFT = "72"
[[mapping.analog]]
subhandler = ""
default_deadzone = 0.0
[mapping.analog.map]
ABS_X = { type = "key", note = 40 }
[[mapping.analog]]
subhandler = "Touchpad"
default_deadzone = 0.0
[mapping.analog.map]
ABS_X = { type = "key", note = 50 }
`

func f02bDevice(t *testing.T) (*Device, chan midi.Event) {
	t.Helper()
	c, err := config.ParseData([]byte(f02bCfg))
	if err != nil {
		t.Fatalf("config: %v", err)
	}
	in := input.Device{Name: "Dummy", DeviceType: input.JoystickDevice,
		AbsInfos: map[string]map[evdev.EvCode]evdev.AbsInfo{"": {evdev.ABS_X: {Minimum: -100, Maximum: 100}}}}
	out := make(chan midi.Event, 64)
	d := NewDevice(in, config.DeviceConfig{Config: c}, out, nil, true, 0, nil)
	return &d, out
}

func f02bEv(handler string, typ evdev.EvType, code evdev.EvCode, v int32) *input.InputEvent {
	return &input.InputEvent{Source: input.Handler{Name: handler}, Event: evdev.InputEvent{Type: typ, Code: code, Value: v}}
}

// F-02b: a device with two sub-handlers that both have a BTN_LEFT (a gamepad and its touchpad), each mapped to its own note.
// Every release must switch off the note its own press switched on.
func TestFinding_F02b_SameCodeInTwoSubhandlers(t *testing.T) {
	d, out := f02bDevice(t)
	steps := []struct {
		handler string
		v       int32
		want    midi.Event
	}{
		{"", 1, midi.NoteEvent(midi.NoteOn, 0, 60, 64)},
		{"Touchpad", 1, midi.NoteEvent(midi.NoteOn, 0, 72, 64)},
		{"", 0, midi.NoteEvent(midi.NoteOff, 0, 60, 0)},
		{"Touchpad", 0, midi.NoteEvent(midi.NoteOff, 0, 72, 0)},
	}
	for i, s := range steps {
		d.processEvent(f02bEv(s.handler, evdev.EV_KEY, evdev.BTN_LEFT, s.v))
		got := drain(out)
		if len(got) != 1 || string(got[0]) != string(s.want) {
			t.Errorf("step %d (%q BTN_LEFT value %d): sent %v, want [%v]", i, s.handler, s.v, got, s.want)
		}
	}
}

// F-02c: the same for two axes with the same code (stick and touchpad ABS_X) that emulate keys.
func TestFinding_F02c_SameAxisCodeInTwoSubhandlers(t *testing.T) {
	d, out := f02bDevice(t)
	steps := []struct {
		handler string
		v       int32
		want    []midi.Event
	}{
		{"", 100, []midi.Event{midi.NoteEvent(midi.NoteOn, 0, 40, 64)}},
		{"Touchpad", 100, []midi.Event{midi.NoteEvent(midi.NoteOn, 0, 50, 64)}},
		{"", 0, []midi.Event{midi.NoteEvent(midi.NoteOff, 0, 40, 0)}},
		{"Touchpad", 0, []midi.Event{midi.NoteEvent(midi.NoteOff, 0, 50, 0)}},
	}
	for i, s := range steps {
		d.processEvent(f02bEv(s.handler, evdev.EV_ABS, evdev.ABS_X, s.v))
		got := drain(out)
		if len(got) != len(s.want) || (len(got) == 1 && string(got[0]) != string(s.want[0])) {
			t.Errorf("step %d (%q ABS_X value %d): sent %v, want %v", i, s.handler, s.v, got, s.want)
		}
	}
}
