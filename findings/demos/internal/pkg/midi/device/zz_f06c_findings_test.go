package device

import (
	"testing"

	"github.com/gethiox/HIDI/internal/pkg/input"
	"github.com/gethiox/HIDI/internal/pkg/midi"
	"github.com/gethiox/HIDI/internal/pkg/midi/device/config"
	"github.com/holoplot/go-evdev"
)

const f06cCfg = `
collision_mode = "off"
exit_sequence = []
[identifier]
bus = 0
vendor = 0
product = 0
version = 0
[defaults]
octave = 0
semitone = 0
channel = 1
mapping = "A"
velocity = 64
[action_mapping]
[[mapping]]
name = "A"
[[mapping.analog]]
subhandler = ""
default_deadzone = 0.1
[mapping.analog.map]
ABS_X = { type = "cc", cc = 5, deadzone_at_center = true }
`

// F-06c: a signed stick axis (-32768..32767) mapped to a controller with deadzone_at_center: the transmitted value must
// stay a 7-bit value, rise monotonically with the position and reach 0 / 127 at the end stops.
func TestFinding_F06c_DeadzoneAtCenterOnSignedAxis(t *testing.T) {
	c, err := config.ParseData([]byte(f06cCfg))
	if err != nil {
		t.Fatalf("config: %v", err)
	}
	in := input.Device{Name: "Dummy", DeviceType: input.JoystickDevice,
		AbsInfos: map[string]map[evdev.EvCode]evdev.AbsInfo{"": {evdev.ABS_X: {Minimum: -32768, Maximum: 32767}}}}
	out := make(chan midi.Event, 16)
	d := NewDevice(in, config.DeviceConfig{Config: c}, out, nil, true, 0, nil)
	last := -1
	sent := map[int32]int{}
	for _, raw := range []int32{-32768, -30000, -20000, -10000, 10000, 20000, 30000, 32767} {
		d.processEvent(abs(evdev.ABS_X, raw))
		for _, e := range drain(out) {
			if e[0]&0xf0 != midi.ControlChange || e[2] > 127 {
				t.Fatalf("raw %d: malformed message % x", raw, []byte(e))
			}
			if int(e[2]) < last {
				t.Errorf("raw %d: controller value %d after %d: not monotonic", raw, e[2], last)
			}
			last = int(e[2])
			sent[raw] = last
		}
	}
	if v, ok := sent[-32768]; !ok || v != 0 {
		t.Errorf("low end stop transmitted %v (sent=%v), want 0", v, ok)
	}
	if sent[32767] != 127 {
		t.Errorf("high end stop transmitted %d, want 127", sent[32767])
	}
}
