package device

import (
	"testing"

	"github.com/gethiox/HIDI/internal/pkg/input"
	"github.com/gethiox/HIDI/internal/pkg/midi"
	"github.com/gethiox/HIDI/internal/pkg/midi/device/config"
	"github.com/holoplot/go-evdev"
)

const f08dCfg = `
collision_mode = "off"
exit_sequence = []
[identifier]
bus = 0
vendor = 0
product = 0
version = 0
[defaults]
octave = 0
semitone = 0
channel = 1
mapping = "A"
velocity = 64
[action_mapping]
BTN_TL = "cc_learning"
[[mapping]]
name = "A"
[[mapping.analog]]
subhandler = ""
default_deadzone = 0.0
[mapping.analog.map]
ABS_HAT0X = { type = "key", note = 60, note_negative = 62 }
ABS_HAT0Y = { type = "action", action = "octave_up", action_negative = "octave_down" }
`

func f08dDevice(t *testing.T) (*Device, chan midi.Event) {
	t.Helper()
	c, err := config.ParseData([]byte(f08dCfg))
	if err != nil {
		t.Fatalf("config: %v", err)
	}
	in := input.Device{Name: "Dummy", DeviceType: input.JoystickDevice,
		AbsInfos: map[string]map[evdev.EvCode]evdev.AbsInfo{"": {
			evdev.ABS_HAT0X: {Minimum: -1, Maximum: 1},
			evdev.ABS_HAT0Y: {Minimum: -1, Maximum: 1},
		}}}
	out := make(chan midi.Event, 64)
	d := NewDevice(in, config.DeviceConfig{Config: c}, out, nil, true, 0, nil)
	return &d, out
}

// F-08d: the d-pad emulates a key; it is released while the CC-learning button is held. Once everything is released
// (d-pad at rest, button up) nothing may be sounding.
func TestFinding_F08d_EmulatedKeyReleasedWhileLearningHeld(t *testing.T) {
	d, out := f08dDevice(t)
	held := map[[2]byte]bool{}
	step := func(ev *input.InputEvent) {
		d.processEvent(ev)
		sounding(drain(out), held)
	}
	step(abs(evdev.ABS_HAT0X, 1)) // d-pad right: Note On
	if len(held) != 1 {
		t.Fatalf("d-pad press did not start its note: %v", held)
	}
	step(&input.InputEvent{Event: evdev.InputEvent{Type: evdev.EV_KEY, Code: evdev.BTN_TL, Value: 1}}) // hold CC learning
	step(abs(evdev.ABS_HAT0X, 0))                                                                       // d-pad back to rest
	step(&input.InputEvent{Event: evdev.InputEvent{Type: evdev.EV_KEY, Code: evdev.BTN_TL, Value: 0}}) // release CC learning
	if len(held) != 0 {
		t.Errorf("d-pad at rest and no button held, but still sounding: %v", held)
	}
}

// F-08d (action emulation): d-pad up = octave_up; its release while CC learning is held must be seen, otherwise the
// next d-pad down is taken for "both directions held" and resets the octave instead of stepping down.
func TestFinding_F08d_EmulatedActionReleasedWhileLearningHeld(t *testing.T) {
	d, out := f08dDevice(t)
	d.processEvent(abs(evdev.ABS_HAT0Y, 1)) // octave_up pressed: octave 1
	d.processEvent(&input.InputEvent{Event: evdev.InputEvent{Type: evdev.EV_KEY, Code: evdev.BTN_TL, Value: 1}})
	d.processEvent(abs(evdev.ABS_HAT0Y, 0)) // released while learning is held
	d.processEvent(&input.InputEvent{Event: evdev.InputEvent{Type: evdev.EV_KEY, Code: evdev.BTN_TL, Value: 0}})
	drain(out)
	if got := len(d.actionTracker); got != 0 {
		t.Errorf("d-pad at rest, but %d action(s) still tracked as held: %v", got, d.actionTracker)
	}
}
