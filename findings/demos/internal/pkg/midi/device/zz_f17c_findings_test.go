package device

// F-17c (harness written by the round-6 C17 seeding sub-agent, who also observed the defect on the unchanged tree).
//
// The frames are observed end to end: a fake OpenRGB server listens on a loopback TCP port, the real
// (*Device).ProcessEvents / handleOpenrgb / handleInputEvents goroutines run against it, and the test looks at the
// colours carried by the UpdateLEDs packets the server receives.
//
// The only obstacle is resolveHidraw(): it looks into /sys/class/hidraw, which is empty in a sandbox and cannot be
// populated without privileges. The test therefore redirects that single function (and nothing else) to a stub that
// reports "the controller's hidraw node belongs to this input device" by overwriting its first bytes with a jump
// (linux/amd64 only; on other platforms the test is skipped).

import (
	"encoding/binary"
	"fmt"
	"io"
	"net"
	"reflect"
	"runtime"
	"sync"
	"syscall"
	"testing"
	"time"
	"unsafe"

	"github.com/gethiox/HIDI/internal/pkg/input"
	"github.com/gethiox/HIDI/internal/pkg/logger"
	"github.com/gethiox/HIDI/internal/pkg/midi"
	"github.com/holoplot/go-evdev"
	"github.com/realbucksavage/openrgb-go"
)

// ---------------------------------------------------------------------------------------------------------------------
// redirecting resolveHidraw

var f17cStub = func(dev string) (string, error) { return "", nil } // "" == Event() of a zero DeviceInfo
var f17cPatchOnce sync.Once
var f17cPatchErr error

func f17cRedirectResolveHidraw() error {
	f17cPatchOnce.Do(func() {
		if runtime.GOARCH != "amd64" || runtime.GOOS != "linux" {
			f17cPatchErr = fmt.Errorf("unsupported platform %s/%s", runtime.GOOS, runtime.GOARCH)
			return
		}
		target := reflect.ValueOf(resolveHidraw).Pointer()
		funcval := *(*uintptr)(unsafe.Pointer(&f17cStub)) // address of the closure object, its first word is the code address

		// movabs rdx, funcval ; jmp [rdx]     (rdx is the closure context register of the Go amd64 ABI)
		code := []byte{0x48, 0xBA, 0, 0, 0, 0, 0, 0, 0, 0, 0xFF, 0x22}
		binary.LittleEndian.PutUint64(code[2:], uint64(funcval))

		pageSize := uintptr(syscall.Getpagesize())
		start := target &^ (pageSize - 1)
		end := (target + uintptr(len(code)) + pageSize - 1) &^ (pageSize - 1)
		mem := unsafe.Slice((*byte)(unsafe.Pointer(start)), int(end-start))
		if err := syscall.Mprotect(mem, syscall.PROT_READ|syscall.PROT_WRITE|syscall.PROT_EXEC); err != nil {
			f17cPatchErr = fmt.Errorf("mprotect rwx: %w", err)
			return
		}
		copy(unsafe.Slice((*byte)(unsafe.Pointer(target)), len(code)), code)
		if err := syscall.Mprotect(mem, syscall.PROT_READ|syscall.PROT_EXEC); err != nil {
			f17cPatchErr = fmt.Errorf("mprotect rx: %w", err)
			return
		}
		if ev, err := resolveHidraw("/dev/hidraw0"); ev != "" || err != nil {
			f17cPatchErr = fmt.Errorf("redirection not effective: %q, %v", ev, err)
		}
	})
	return f17cPatchErr
}

// ---------------------------------------------------------------------------------------------------------------------
// fake OpenRGB server

type f17cServer struct {
	ln    net.Listener
	leds  []string
	mu    sync.Mutex
	count int
	last  []openrgb.Color
	all   [][]openrgb.Color
}

func f17cString(s string) []byte {
	b := make([]byte, 2, 3+len(s))
	binary.LittleEndian.PutUint16(b, uint16(len(s)+1))
	b = append(b, s...)
	return append(b, 0)
}

func f17cU16(v int) []byte { b := make([]byte, 2); binary.LittleEndian.PutUint16(b, uint16(v)); return b }
func f17cU32(v int) []byte { b := make([]byte, 4); binary.LittleEndian.PutUint32(b, uint32(v)); return b }

func (s *f17cServer) controllerData() []byte {
	var b []byte
	b = append(b, f17cU32(0)...) // data size, ignored by the client
	b = append(b, f17cU32(5)...) // type: keyboard
	for _, str := range []string{"Fake keyboard", "fake", "1", "0", "HID: /dev/hidraw0"} {
		b = append(b, f17cString(str)...)
	}
	b = append(b, f17cU16(0)...) // modes
	b = append(b, f17cU32(0)...) // active mode
	b = append(b, f17cU16(0)...) // zones
	b = append(b, f17cU16(len(s.leds))...)
	for _, name := range s.leds {
		b = append(b, f17cString(name)...)
		b = append(b, 0, 0, 0, 0)
	}
	b = append(b, f17cU16(len(s.leds))...)
	for range s.leds {
		b = append(b, 0, 0, 0, 0)
	}
	return b
}

func (s *f17cServer) reply(conn net.Conn, dev, cmd uint32, body []byte) {
	h := []byte("ORGB")
	h = append(h, f17cU32(int(dev))...)
	h = append(h, f17cU32(int(cmd))...)
	h = append(h, f17cU32(len(body))...)
	conn.Write(h)
	time.Sleep(time.Millisecond) // the client reads header and body with one Read call each
	conn.Write(body)
}

func (s *f17cServer) serve(conn net.Conn) {
	defer conn.Close()
	for {
		h := make([]byte, 16)
		if _, err := io.ReadFull(conn, h); err != nil {
			return
		}
		dev := binary.LittleEndian.Uint32(h[4:])
		cmd := binary.LittleEndian.Uint32(h[8:])
		body := make([]byte, binary.LittleEndian.Uint32(h[12:]))
		if _, err := io.ReadFull(conn, body); err != nil {
			return
		}
		switch cmd {
		case 0: // controller count
			s.reply(conn, dev, cmd, f17cU32(1))
		case 1: // controller data
			s.reply(conn, dev, cmd, s.controllerData())
		case 1050: // UpdateLEDs: u32 size, u16 count, count * (r g b pad)
			n := (len(body) - 6) / 4
			frame := make([]openrgb.Color, n)
			for i := 0; i < n; i++ {
				frame[i] = openrgb.Color{Red: body[6+4*i], Green: body[7+4*i], Blue: body[8+4*i]}
			}
			s.mu.Lock()
			s.count++
			s.last = frame
			s.all = append(s.all, frame)
			s.mu.Unlock()
		}
	}
}

func f17cStartServer(t *testing.T, leds []string) (*f17cServer, int) {
	ln, err := net.Listen("tcp", "127.0.0.1:0")
	if err != nil {
		t.Fatalf("listen: %v", err)
	}
	s := &f17cServer{ln: ln, leds: leds}
	go func() {
		for {
			conn, err := ln.Accept()
			if err != nil {
				return
			}
			go s.serve(conn)
		}
	}()
	return s, ln.Addr().(*net.TCPAddr).Port
}

func (s *f17cServer) frames() int {
	s.mu.Lock()
	defer s.mu.Unlock()
	return s.count
}

// settled waits until n further frames have arrived (so that everything done before the call is reflected) and returns
// the most recent one
func (s *f17cServer) settled(t *testing.T, n int) []openrgb.Color {
	t.Helper()
	start := s.frames()
	deadline := time.Now().Add(10 * time.Second)
	for s.frames() < start+n {
		if time.Now().After(deadline) {
			t.Fatalf("no LED frames arrive at the fake OpenRGB server (%d so far)", s.frames())
		}
		time.Sleep(5 * time.Millisecond)
	}
	s.mu.Lock()
	defer s.mu.Unlock()
	return s.last
}

func (s *f17cServer) led(name string) int {
	for i, l := range s.leds {
		if l == name {
			return i
		}
	}
	panic("no such LED: " + name)
}

// ---------------------------------------------------------------------------------------------------------------------

// an LED layout in an order of its own, with LEDs that HIDI has no key for in between
var f17cLayout = []string{
	"Key: Escape", "Logo", "Key: F1", "Key: F2", "Key: F3", "Key: F4", "Key: F5", "Key: F6", "Underglow 1",
	"Key: M", "Key: N", "Key: B", "Key: V", "Key: C", "Key: X", "Key: Z", "Underglow 2",
	"Key: Q", "Key: W", "Key: E", "Key: R", "Key: T", "Key: Y", "Key: U", "Key: I", "Key: F11", "Key: F12",
}

// F-17c: with a large transposition (21 octave steps: offset 252) every mapped key is out of the MIDI range and must show the
// 'unavailable' colour. A pitch sounding on MIDI input that is on no key at all (20 - 252 < 0) must not light a key:
// the highlight passes computed `note - byte(offset)` in 8 bits, 20 - 252 wrapped to 24 = the note of key Z.
func TestFinding_F17c_LargeTranspositionDoesNotAliasAnotherKey(t *testing.T) {
	if err := f17cRedirectResolveHidraw(); err != nil {
		t.Skipf("cannot redirect resolveHidraw: %v", err)
	}
	go func() {
		for range logger.Messages {
		}
	}()
	cfg, err := getFactoryKeyboardConfiguration()
	if err != nil {
		t.Fatal(err)
	}
	colors := &cfg.Config.OpenRGB.Colors
	colors.White = openrgb.Color{Green: 0x55}
	colors.Black = openrgb.Color{Blue: 0x55}
	colors.C = openrgb.Color{Red: 0x55, Green: 0x55}
	colors.Unavailable = openrgb.Color{Red: 0x44}
	colors.Active = openrgb.Color{Red: 0xff, Green: 0xff, Blue: 0xff}
	colors.ActiveExternal = openrgb.Color{Red: 0xee, Blue: 0xee}

	server, port := f17cStartServer(t, f17cLayout)
	defer server.ln.Close()
	inputDevice := input.Device{Name: "Dummy", DeviceType: input.KeyboardDevice, Handlers: []input.Handler{{Name: ""}}}
	kbdEvents := make(chan *input.InputEvent)
	midiOut := make(chan midi.Event, 4096)
	midiIn := make(chan midi.Event)
	d := NewDevice(inputDevice, cfg, midiOut, midiIn, true, port, nil)
	done := make(chan struct{})
	go func() {
		d.ProcessEvents(kbdEvents)
		close(done)
	}()
	defer func() {
		close(kbdEvents)
		select {
		case <-done:
		case <-time.After(10 * time.Second):
			t.Errorf("ProcessEvents does not return")
		}
	}()
	noteZ := byte(0)
	for code, k := range cfg.Config.KeyMappings[d.mapping].Midi[""] {
		if code == evdev.KEY_Z {
			noteZ = k.Note
		}
	}
	ledZ := server.led("Key: Z")
	server.settled(t, 3)

	d.eventProcessMutex.Lock()
	for i := 0; i < 21; i++ {
		d.OctaveUp()
	}
	d.eventProcessMutex.Unlock()
	frame := server.settled(t, 3)
	if frame[ledZ] != colors.Unavailable {
		t.Fatalf("21 octaves up: Z=%v, want the unavailable colour %v", frame[ledZ], colors.Unavailable)
	}
	// the pitch that wraps onto Z's note in 8-bit arithmetic: p - byte(252) == noteZ (mod 256)
	p := byte(int(noteZ) + 252 - 256)
	midiIn <- midi.NoteEvent(midi.NoteOn, 0, p, 100)
	frame = server.settled(t, 3)
	if frame[ledZ] != colors.Unavailable {
		t.Errorf("pitch %d sounds on MIDI input, it is on no key (transposition +252): Z=%v, want it to stay %v", p, frame[ledZ], colors.Unavailable)
	}
}
