package device

import (
	"fmt"
	"testing"

	"github.com/gethiox/HIDI/internal/pkg/input"
	"github.com/gethiox/HIDI/internal/pkg/midi"
	"github.com/gethiox/HIDI/internal/pkg/midi/device/config"
	"github.com/holoplot/go-evdev"
)

const f06bCfg = `
collision_mode = "off"
exit_sequence = []
[identifier]
bus = 0
vendor = 0
product = 0
version = 0
[defaults]
octave = 0
semitone = 0
channel = 1
mapping = "A"
velocity = 64
[action_mapping]
[[mapping]]
name = "A"
[[mapping.analog]]
subhandler = ""
default_deadzone = %s
[mapping.analog.map]
ABS_Z = { type = "cc", cc = 5 }
`

// F-06b: the positive end stop of an unsigned axis mapped to a controller must transmit 127 for every deadzone
// (R6.10: (1-dz)*(1/(1-dz)) is below 1.0 for deadzones such as 0.05, truncation then gives 126).
func TestFinding_F06b_EndStopIs127ForEveryDeadzone(t *testing.T) {
	for _, dz := range []string{"0.0", "0.05", "0.06", "0.09", "0.1", "0.13", "0.21", "0.5", "0.91"} {
		c, err := config.ParseData([]byte(fmt.Sprintf(f06bCfg, dz)))
		if err != nil {
			t.Fatalf("config: %v", err)
		}
		in := input.Device{Name: "Dummy", DeviceType: input.JoystickDevice,
			AbsInfos: map[string]map[evdev.EvCode]evdev.AbsInfo{"": {evdev.ABS_Z: {Minimum: 0, Maximum: 255}}}}
		out := make(chan midi.Event, 16)
		d := NewDevice(in, config.DeviceConfig{Config: c}, out, nil, true, 0, nil)
		d.processEvent(abs(evdev.ABS_Z, 255))
		evs := drain(out)
		if len(evs) != 1 || evs[0][0]&0xf0 != midi.ControlChange || evs[0][2] != 127 {
			t.Errorf("deadzone %s: axis at its end stop (255 of 0..255) transmitted %v, want controller 5 value 127", dz, evs)
		}
	}
}
