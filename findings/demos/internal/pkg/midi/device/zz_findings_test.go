package device

// Demonstrations of the defects found by the static checks in /verif (see /verif/known_findings.txt).
// Each test fails on the pinned snapshot (c175170) and passes after the corresponding "fix:" commit,
// (F-04b was a known finding until fix 3eb32e9).

import (
	"context"
	"sync"
	"testing"
	"time"

	"github.com/gethiox/HIDI/internal/pkg/input"
	"github.com/gethiox/HIDI/internal/pkg/midi"
	"github.com/gethiox/HIDI/internal/pkg/midi/device/config"
	"github.com/holoplot/go-evdev"
)

const findingsCfg = `
collision_mode = "off"
exit_sequence = []
[identifier]
bus = 0
vendor = 0
product = 0
version = 0
[defaults]
octave = 0
semitone = 0
channel = 1
mapping = "A"
velocity = 64
[action_mapping]
KEY_F1 = "mapping_down"
KEY_F2 = "mapping_up"
KEY_F3 = "octave_up"
[[mapping]]
name = "A"
[[mapping.keys]]
subhandler = ""
[mapping.keys.map]
KEY_Z = "127"
[[mapping.analog]]
subhandler = ""
default_deadzone = 0.0
[mapping.analog.map]
ABS_HAT0X = { type = "key", note = 60, note_negative = 62 }
ABS_HAT0Y = { type = "key", note = 64 }
[[mapping]]
name = "B"
[[mapping.keys]]
subhandler = ""
[mapping.keys.map]
KEY_Z = "0"
`

func findingsDevice(t *testing.T) (*Device, chan midi.Event) {
	t.Helper()
	c, err := config.ParseData([]byte(findingsCfg))
	if err != nil {
		t.Fatalf("config: %v", err)
	}
	in := input.Device{Name: "Dummy", DeviceType: input.JoystickDevice,
		AbsInfos: map[string]map[evdev.EvCode]evdev.AbsInfo{"": {
			evdev.ABS_HAT0X: {Minimum: -1, Maximum: 1},
			evdev.ABS_HAT0Y: {Minimum: -1, Maximum: 1},
		}}}
	out := make(chan midi.Event, 4096)
	d := NewDevice(in, config.DeviceConfig{Config: c}, out, nil, true, 0, nil)
	return &d, out
}

func abs(code evdev.EvCode, v int32) *input.InputEvent {
	return &input.InputEvent{Source: input.Handler{Name: ""}, Event: evdev.InputEvent{Type: evdev.EV_ABS, Code: code, Value: v}}
}

func drain(ch chan midi.Event) []midi.Event {
	var out []midi.Event
	for {
		select {
		case e := <-ch:
			out = append(out, e)
		default:
			return out
		}
	}
}

func sounding(evs []midi.Event, set map[[2]byte]bool) {
	for _, e := range evs {
		switch e[0] & 0xf0 {
		case midi.NoteOn:
			set[[2]byte{e[0] & 0x0f, e[1]}] = true
		case midi.NoteOff:
			delete(set, [2]byte{e[0] & 0x0f, e[1]})
		}
	}
}

// F-01a: emulated key held, mapping switched to one where the axis is unmapped, axis returns to centre.
func TestFinding_F01a_AnalogKeyStuckAfterMappingSwitch(t *testing.T) {
	d, out := findingsDevice(t)
	set := map[[2]byte]bool{}
	d.processEvent(abs(evdev.ABS_HAT0X, 1)) // note 60 on
	d.processEvent(key(evdev.KEY_F2, EV_KEY_PRESS))
	d.processEvent(key(evdev.KEY_F2, EV_KEY_RELEASE)) // mapping B: axis unmapped
	d.processEvent(abs(evdev.ABS_HAT0X, 0))           // back to centre
	sounding(drain(out), set)
	if len(set) != 0 {
		t.Fatalf("nothing is held but notes are still sounding: %v", set)
	}
}

// F-04a: base note 127 at octave 11 must be silent (127+132 > 127); the int8 product wraps to -124 -> note 3.
func TestFinding_F04a_Int8OctaveProductWraps(t *testing.T) {
	d, out := findingsDevice(t)
	for i := 0; i < 11; i++ {
		d.processEvent(key(evdev.KEY_F3, EV_KEY_PRESS))
		d.processEvent(key(evdev.KEY_F3, EV_KEY_RELEASE))
	}
	d.processEvent(key(evdev.KEY_Z, EV_KEY_PRESS))
	if evs := drain(out); len(evs) != 0 {
		t.Fatalf("pitch 127+11*12 is outside 0-127 and must be silent, got %v", evs)
	}
}

// F-04b: 128 net octave_up presses must move the octave to 128 (the int8 field wrapped to -128).
func TestFinding_F04b_OctaveWrapsAtInt8Boundary(t *testing.T) {
	d, _ := findingsDevice(t)
	for i := 0; i < 128; i++ {
		d.processEvent(key(evdev.KEY_F3, EV_KEY_PRESS))
		d.processEvent(key(evdev.KEY_F3, EV_KEY_RELEASE))
	}
	if int(d.octave) != 128 {
		t.Fatalf("128 octave_up presses moved the octave to %d instead of one step up each (128)", d.octave)
	}
}

// F-08a: axis with only `note` configured must stay silent when pushed the other way.
func TestFinding_F08a_NegativeDirectionWithoutNote(t *testing.T) {
	d, out := findingsDevice(t)
	d.processEvent(abs(evdev.ABS_HAT0Y, -1))
	for _, e := range drain(out) {
		if e[0]&0xf0 == midi.NoteOn {
			t.Fatalf("no note_negative configured, but pushing the axis negative sounded %v", e)
		}
	}
}

// F-10c (runtime side): both directions of a key-emulating axis must play their own note.
func TestFinding_F10c_NegativeNoteIsNoteNegative(t *testing.T) {
	d, out := findingsDevice(t)
	d.processEvent(abs(evdev.ABS_HAT0X, -1))
	evs := drain(out)
	if len(evs) == 0 || evs[0][1] != 62 {
		t.Fatalf("negative direction must play note_negative=62, got %v", evs)
	}
}

// F-17a: MIDI-in Note On with velocity 0 must clear the external highlight.
func TestFinding_F17a_NoteOnVelocityZeroClearsHighlight(t *testing.T) {
	c, _ := config.ParseData([]byte(findingsCfg))
	midiIn := make(chan midi.Event, 8)
	out := make(chan midi.Event, 64)
	d := NewDevice(input.Device{Name: "Dummy"}, config.DeviceConfig{Config: c}, out, midiIn, true, 0, nil)
	ctx, cancel := context.WithCancel(context.Background())
	wg := sync.WaitGroup{}
	wg.Add(1)
	go d.handleInputEvents(ctx, &wg)
	midiIn <- midi.NoteEvent(midi.NoteOn, 2, 60, 100)
	midiIn <- midi.NoteEvent(midi.NoteOn, 2, 60, 0) // running-status note off
	time.Sleep(50 * time.Millisecond)
	cancel()
	wg.Wait()
	if d.externalNoteTracker[2][60] {
		t.Fatalf("Note On with velocity 0 left the key highlighted")
	}
}
