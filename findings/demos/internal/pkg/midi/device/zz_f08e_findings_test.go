package device

import (
	"testing"

	"github.com/gethiox/HIDI/internal/pkg/input"
	"github.com/gethiox/HIDI/internal/pkg/midi"
	"github.com/gethiox/HIDI/internal/pkg/midi/device/config"
	"github.com/holoplot/go-evdev"
)

const f08eCfg = `
collision_mode = "off"
exit_sequence = []
[identifier]
bus = 0
vendor = 0
product = 0
version = 0
[defaults]
octave = 0
semitone = 0
channel = 1
mapping = "A"
velocity = 64
[action_mapping]
[[mapping]]
name = "A"
[[mapping.analog]]
subhandler = ""
default_deadzone = 0.0
[mapping.analog.map]
ABS_RX = { type = "key", note = 64, note_negative = 65 }
`

func f08eDevice(t *testing.T) (*Device, chan midi.Event) {
	t.Helper()
	c, err := config.ParseData([]byte(f08eCfg))
	if err != nil {
		t.Fatalf("config: %v", err)
	}
	in := input.Device{Name: "Dummy", DeviceType: input.JoystickDevice,
		AbsInfos: map[string]map[evdev.EvCode]evdev.AbsInfo{"": {evdev.ABS_RX: {Minimum: -32768, Maximum: 32767}}}}
	out := make(chan midi.Event, 64)
	d := NewDevice(in, config.DeviceConfig{Config: c}, out, nil, true, 0, nil)
	return &d, out
}

// F-08e: a stick flicked from fully negative straight to +49.5 % of travel (between the release threshold and the press
// threshold of the positive side): the negative note must go off, the stick is not deflected negatively at all any more.
func TestFinding_F08e_NoteOfTheSideLeftGoesOffInTheOtherSidesBand(t *testing.T) {
	for _, tc := range []struct {
		name       string
		first, gap int32
		note       byte
	}{{"negative note, jump to +49.5%", -32768, 16220, 65}, {"positive note, jump to -49.5%", 32767, -16220, 64}} {
		d, out := f08eDevice(t)
		held := map[[2]byte]bool{}
		d.processEvent(abs(evdev.ABS_RX, tc.first))
		sounding(drain(out), held)
		if len(held) != 1 {
			t.Fatalf("%s: full deflection did not start exactly one note: %v", tc.name, held)
		}
		d.processEvent(abs(evdev.ABS_RX, tc.gap))
		sounding(drain(out), held)
		if len(held) != 0 {
			t.Errorf("%s: note %d keeps sounding although the stick is on the other side: %v", tc.name, tc.note, held)
		}
	}
}

// the hysteresis of the same side is kept: 100 % -> 49.5 % of the same side leaves the note on, below 49 % it goes off
func TestFinding_F08e_SameSideBandKeepsTheNote(t *testing.T) {
	d, out := f08eDevice(t)
	held := map[[2]byte]bool{}
	d.processEvent(abs(evdev.ABS_RX, 32767))
	d.processEvent(abs(evdev.ABS_RX, 16220))
	sounding(drain(out), held)
	if len(held) != 1 {
		t.Errorf("positive note must still sound at +49.5%%: %v", held)
	}
	d.processEvent(abs(evdev.ABS_RX, 15000))
	sounding(drain(out), held)
	if len(held) != 0 {
		t.Errorf("positive note must be off below 49%%: %v", held)
	}
}

// F-08f: a stick or hat jumping from one direction straight to the other: the note of the direction that was left goes off
// before the note of the new direction comes on - the two directions never sound together at the receiver.
func TestFinding_F08f_DirectJumpNeverSoundsBothDirections(t *testing.T) {
	for _, jump := range [][2]int32{{32767, -32768}, {-32768, 32767}} {
		d, out := f08eDevice(t)
		sounding := map[byte]bool{}
		for _, raw := range jump {
			d.processEvent(abs(evdev.ABS_RX, raw))
			for _, ev := range drain(out) {
				switch ev[0] & 0xf0 {
				case midi.NoteOn:
					sounding[ev[1]] = true
				case midi.NoteOff:
					delete(sounding, ev[1])
				}
				if sounding[64] && sounding[65] {
					t.Errorf("jump %d -> %d: after %q both directions (64 and 65) sound together", jump[0], jump[1], ev.String())
				}
			}
		}
		if len(sounding) != 1 {
			t.Errorf("jump %d -> %d: exactly the new direction must sound, got %v", jump[0], jump[1], sounding)
		}
	}
}
