package device

import (
	"testing"
	"time"

	"github.com/gethiox/HIDI/internal/pkg/input"
	"github.com/gethiox/HIDI/internal/pkg/logger"
	"github.com/gethiox/HIDI/internal/pkg/midi"
	"github.com/realbucksavage/openrgb-go"
)

// F-17d: a mapped key shows its pitch-class colour, i.e. the colour the user configured for white / black / C keys. Every
// such colour went through shiftColor(colour, 0), an RGB -> HSV -> RGB round trip with byte truncation, and about half of
// all colours came back one lower in a component: white = rgb(0,5,30) was sent as rgb(0,4,30).
// (uses the fake OpenRGB server of zz_f17c_findings_test.go)
func TestFinding_F17d_KeyColoursAreSentAsConfigured(t *testing.T) {
	if err := f17cRedirectResolveHidraw(); err != nil {
		t.Skipf("cannot redirect resolveHidraw: %v", err)
	}
	go func() {
		for range logger.Messages {
		}
	}()
	cfg, err := getFactoryKeyboardConfiguration()
	if err != nil {
		t.Fatal(err)
	}
	colors := &cfg.Config.OpenRGB.Colors
	colors.White = openrgb.Color{Red: 0, Green: 5, Blue: 30}
	colors.Black = openrgb.Color{Red: 200, Green: 101, Blue: 7}
	colors.C = openrgb.Color{Red: 33, Green: 77, Blue: 150}

	server, port := f17cStartServer(t, f17cLayout)
	defer server.ln.Close()
	inputDevice := input.Device{Name: "Dummy", DeviceType: input.KeyboardDevice, Handlers: []input.Handler{{Name: ""}}}
	kbdEvents := make(chan *input.InputEvent)
	d := NewDevice(inputDevice, cfg, make(chan midi.Event, 4096), make(chan midi.Event), true, port, nil)
	done := make(chan struct{})
	go func() {
		d.ProcessEvents(kbdEvents)
		close(done)
	}()
	defer func() {
		close(kbdEvents)
		select {
		case <-done:
		case <-time.After(10 * time.Second):
			t.Errorf("ProcessEvents does not return")
		}
	}()
	frame := server.settled(t, 3)
	// in the factory mapping Z is a C, S a black key (c#), X a white key (d)
	for _, tc := range []struct {
		led  string
		want openrgb.Color
	}{{"Key: Z", colors.C}, {"Key: X", colors.White}} {
		if got := frame[server.led(tc.led)]; got != tc.want {
			t.Errorf("%s shows %v, configured %v", tc.led, got, tc.want)
		}
	}
}
