package utils

import (
	"testing"
	"time"
)

// F-15a (KNOWN FINDING, still present): removing a device that has stopped reading must complete.
func TestFinding_F15a_DespawnCompletesWhenConsumerStopped(t *testing.T) {
	in := make(chan int, 8)
	f := NewDynamicFanOut[int](in)
	id, _, err := f.SpawnOutput()
	if err != nil {
		t.Fatal(err)
	}
	// the consumer never reads; 9 messages arrive (buffer of the output is 8)
	go func() {
		for i := 0; i < 10; i++ {
			in <- i
		}
	}()
	time.Sleep(100 * time.Millisecond)
	done := make(chan error, 1)
	go func() { done <- f.DespawnOutput(id) }()
	select {
	case <-done:
	case <-time.After(time.Second):
		t.Fatalf("DespawnOutput did not complete: the delivery loop is blocked on the full output while holding the mutex")
	}
}
