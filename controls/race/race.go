// Package race holds controls for the lockset rule R16.1.
package race

import "sync"

// BadBox: the helper reads n under the mutex, Run writes it without.
type BadBox struct {
	mu sync.Mutex
	n  map[int]int
}

func (b *BadBox) helper(wg *sync.WaitGroup) {
	defer wg.Done()
	b.mu.Lock()
	_ = len(b.n)
	b.mu.Unlock()
}

func (b *BadBox) Run() {
	wg := sync.WaitGroup{}
	wg.Add(1)
	go b.helper(&wg)
	b.n[1] = 2
	wg.Wait()
}

// GoodBox: both sides hold the mutex.
type GoodBox struct {
	mu sync.Mutex
	n  map[int]int
}

func (b *GoodBox) helper(wg *sync.WaitGroup) {
	defer wg.Done()
	b.mu.Lock()
	_ = len(b.n)
	b.mu.Unlock()
}

func (b *GoodBox) Run() {
	wg := sync.WaitGroup{}
	wg.Add(1)
	go b.helper(&wg)
	b.mu.Lock()
	b.n[1] = 2
	b.mu.Unlock()
	wg.Wait()
}
