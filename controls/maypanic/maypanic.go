// Package maypanic holds positive (Bad*) and negative (Good*) controls for the may-panic
// inventory (rules R9.1 nil dereference, R9.2 division, R9.3 index, R9.4 map store).
package maypanic

type opt struct {
	A *int
	B *int
	N int
}

// BadDeref tests A but dereferences B.
func BadDeref(o opt) int {
	if o.A != nil {
		return *o.B
	}
	return 0
}

// GoodDeref tests the pointer it dereferences.
func GoodDeref(o opt) int {
	if o.B == nil {
		return 0
	}
	return *o.B
}

// BadDiv divides by an unchecked value.
func BadDiv(o opt) int {
	return 1000 / o.N
}

// GoodDiv rejects non-positive divisors first.
func GoodDiv(o opt) int {
	if o.N <= 0 {
		return 0
	}
	return 1000 / o.N
}

// BadIndex indexes past the known length.
func BadIndex(s []string) string {
	switch len(s) {
	case 2:
		return s[2]
	}
	return ""
}

// GoodIndex stays within the known length.
func GoodIndex(s []string) string {
	switch len(s) {
	case 2:
		return s[0] + s[1]
	}
	return ""
}

// BadMap stores into a map that was only declared.
func BadMap(k string) map[string]int {
	var m map[string]int
	m[k] = 1
	return m
}

// GoodMap makes the map first.
func GoodMap(k string) map[string]int {
	m := make(map[string]int)
	m[k] = 1
	return m
}
