// Package walk holds positive/negative controls for rule R12.4 (Walk-callback protocol).
package walk

import (
	"io/fs"
	"path/filepath"
)

// Bad uses info before looking at err: must be reported.
func Bad(root string) error {
	return filepath.Walk(root, func(path string, info fs.FileInfo, err error) error {
		if info.IsDir() {
			return nil
		}
		return err
	})
}

// Good tests err first: must not be reported.
func Good(root string) error {
	return filepath.Walk(root, func(path string, info fs.FileInfo, err error) error {
		if err != nil {
			return err
		}
		if info.IsDir() {
			return nil
		}
		return nil
	})
}
