// Package lockedsend holds controls for rule R15.4 (no blocking send while holding a lock).
package lockedsend

import "sync"

// BadFan sends to its outputs while holding the mutex.
type BadFan struct {
	mu   sync.Mutex
	outs map[int]chan int
	in   chan int
}

func (f *BadFan) run() {
	for e := range f.in {
		f.mu.Lock()
		for _, o := range f.outs {
			o <- e
		}
		f.mu.Unlock()
	}
}

// GoodFan copies the outputs under the mutex and sends outside of it.
type GoodFan struct {
	mu   sync.Mutex
	outs map[int]chan int
	in   chan int
}

func (f *GoodFan) run() {
	for e := range f.in {
		f.mu.Lock()
		var outs []chan int
		for _, o := range f.outs {
			outs = append(outs, o)
		}
		f.mu.Unlock()
		for _, o := range outs {
			o <- e
		}
	}
}

// NewBadFanByValue starts the goroutine on the local value and then returns a COPY of it: the copy has its own mutex
// but shares the map (control for R15.3 "a lock-carrying value is not copied once a goroutine uses it").
func NewBadFanByValue(in chan int) GoodFan {
	f := GoodFan{outs: map[int]chan int{}, in: in}
	go f.run()
	return f
}

// NewGoodFanByPointer hands out the address of the value the goroutine uses.
func NewGoodFanByPointer(in chan int) *GoodFan {
	f := GoodFan{outs: map[int]chan int{}, in: in}
	go f.run()
	return &f
}
