#!/bin/bash
# usage: rb.sh begin <old-rev> <patch> | rb.sh cont | rb.sh end <patch>
# manual re-basing of a stored patch over the fix commits old-rev..HEAD of /repo in a scratch clone /tmp/rb
set -u
case $1 in
begin) p=$(readlink -f "$3"); [ -d /tmp/rb ] || git clone -q /repo /tmp/rb; cd /tmp/rb; git cherry-pick --abort 2>/dev/null; git fetch -q origin; git config user.email x@x; git config user.name x
  git checkout -q -f $2; git clean -qfd; patch -p1 -s --no-backup-if-mismatch < "$p" || exit 1; git add -A; git commit -qm patch
  git cherry-pick $2..origin/HEAD 2>&1 | grep -i "^CONFLICT"; grep -n "<<<<<<<\|=======$\|>>>>>>>" $(git diff --name-only --diff-filter=U) /dev/null;;
cont) cd /tmp/rb; git add -A; GIT_EDITOR=true git cherry-pick --continue 2>&1 | grep -i "^CONFLICT"; grep -n "<<<<<<<\|=======$\|>>>>>>>" $(git diff --name-only --diff-filter=U) /dev/null;;
end) p=$(readlink -f "$2"); cd /tmp/rb; git status --short | head -3; gofmt -l internal cmd; GOFLAGS=-mod=mod GOPROXY=off GOSUMDB=off go vet ./internal/pkg/midi/device/... ./internal/pkg/input/ ./internal/pkg/utils/ 2>&1 | grep -v "^#" | head; git diff origin/HEAD HEAD > "$p"; grep -c "^[+-][^+-]" "$p";;
esac
