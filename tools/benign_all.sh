#!/bin/bash
# usage: benign_all.sh [out]  — every benign patch and every equivalent mutant through try_all.sh, 6 at a time; prints the ones that alarm
out=${1:-/tmp/benign_all.txt}
cd /verif
ls benign/*.diff mutants/*/equivalent/*.diff | xargs -P 6 -I{} sh -c 'r=$(tools/try_all.sh {}); if [ -n "$r" ]; then printf "== %s\n%s\n" {} "$r"; fi' > $out 2>&1
echo "alarming: $(grep -c '^== ' $out)"
