#!/bin/bash
# usage: run_findings_demos.sh <git-rev of /repo>   — runs /verif/findings/demos against a scratch checkout of that revision
set -u
rev=${1:-HEAD}
d=$(mktemp -d /tmp/hidifind.XXXXXX)
git -C /repo archive $rev | tar -x -C $d
cp -r /verif/findings/demos/. $d/
# F-09b: LoadHIDIConfig lives in package main (cannot be linked here): extract it verbatim into a scratch package
python3 - "$d" <<'PY'
import re,sys
d=sys.argv[1]
src=open(d+'/cmd/hidi/config.go').read()
def grab(pattern):
    m=re.search(pattern, src, re.S|re.M)
    return m.group(0)
parts=[grab(r'^type HIDI struct \{.*?^\}'), grab(r'^type HIDIConfig struct \{.*?^\}'), grab(r'^type HIDIConfigRaw struct \{.*?^\}'), grab(r'^func LoadHIDIConfig\(.*?^\}')]
if re.search(r'^func unmarshalTOML\(', src, re.M):
    parts.append(grab(r'^func unmarshalTOML\(.*?^\}'))
open(d+'/internal/demo_hidiconfig/extracted.go','w').write('package demo_hidiconfig\n\nimport (\n\t"fmt"\n\t"os"\n\t"time"\n\n\t"github.com/pelletier/go-toml/v2"\n)\n\n'+'\n\n'.join(parts)+'\n')
open(d+'/internal/demo_hidiconfig/zz_findings_test.go','w').write('''package demo_hidiconfig

import (
	"os"
	"path/filepath"
	"testing"
)

// F-09b: hidi.toml without pool_rate must yield an error, not an integer divide by zero.
func TestFinding_F09b_MissingRateDoesNotPanic(t *testing.T) {
	p := filepath.Join(t.TempDir(), "hidi.toml")
	os.WriteFile(p, []byte("[HIDI]\\ndiscovery_rate = 1\\n"), 0o666)
	defer func() {
		if r := recover(); r != nil {
			t.Fatalf("LoadHIDIConfig panicked: %v", r)
		}
	}()
	if _, err := LoadHIDIConfig(p); err == nil {
		t.Fatalf("a configuration without pool_rate was accepted")
	}
}
''')
PY
# F-15a: the device teardown sequence lives in Manager.Run (package main, cannot be linked here): the statements between
# "Device disconnected" and the DespawnOutput call are extracted verbatim (log lines dropped) into a test of package utils
python3 - "$d" <<'PY'
import re,sys
d=sys.argv[1]
src=open(d+'/cmd/hidi/manager.go').read()
m=re.search(r'log\.Info\("Device disconnected"[^\n]*\n((?:[^\n]*\n)*?[^\n]*midiEventsInSpawner\.DespawnOutput\(id\)\n)', src)
block=m.group(1)
block="\n".join(l for l in block.split("\n") if "log.Info" not in l)
open(d+'/internal/pkg/utils/zz_f15a_teardown_test.go','w').write('''package utils

import (
	"testing"
	"time"
)

// F-15a: removing a device that has stopped reading its MIDI input must complete (teardown statements of Manager.Run,
// extracted verbatim from cmd/hidi/manager.go of the revision under test).
func TestFinding_F15a_DespawnCompletesWhenConsumerStopped(t *testing.T) {
	in := make(chan int, 8)
	midiEventsInSpawner := NewDynamicFanOut[int](in)
	id, midiIn, err := midiEventsInSpawner.SpawnOutput()
	if err != nil {
		t.Fatal(err)
	}
	_ = midiIn
	// the device has stopped reading; 10 messages arrive (buffer of the output is 8)
	go func() {
		for i := 0; i < 10; i++ {
			in <- i
		}
	}()
	time.Sleep(100 * time.Millisecond)
	done := make(chan error, 1)
	go func() {
'''+block+'''
		done <- err
	}()
	select {
	case <-done:
	case <-time.After(2 * time.Second):
		t.Fatalf("DespawnOutput did not complete: the delivery loop is blocked on the full output while holding the mutex")
	}
}
''')
PY
export GOFLAGS=-mod=mod GOPROXY=off GOSUMDB=off GOTOOLCHAIN=local; unset GOWORK
(cd $d && go test -vet=off -count=1 -run 'TestFinding_' -json ./internal/... 2>/dev/null) | python3 -c "
import json,sys
res={}
for l in sys.stdin:
    try: e=json.loads(l)
    except: continue
    if e.get('Test','').startswith('TestFinding_') and e.get('Action') in ('pass','fail','skip'):
        res[e['Test']]=e['Action']
for k in sorted(res): print('%-70s %s'%(k,res[k]))
print('pass',sum(1 for v in res.values() if v=='pass'),'fail',sum(1 for v in res.values() if v=='fail'))
"
rm -rf $d
