#!/bin/bash
# usage: refit_manual.sh begin <old-rev> <patch>   -> /tmp/rf/b = old-rev + patch, /tmp/rf/a = HEAD ; edit /tmp/rf/b by hand
#        refit_manual.sh end <patch>               -> builds /tmp/rf/b, writes diff(a,b) to <patch>, removes /tmp/rf
set -eu
case $1 in
begin) rm -rf /tmp/rf; mkdir -p /tmp/rf/a /tmp/rf/b; git -C /repo archive HEAD | tar -x -C /tmp/rf/a; git -C /repo archive $2 | tar -x -C /tmp/rf/b
  p=$(readlink -f "$3"); (cd /tmp/rf/b && patch -p1 -s --no-backup-if-mismatch < "$p");;
end) (cd /tmp/rf/b && gofmt -l internal cmd; GOFLAGS=-mod=mod GOPROXY=off GOSUMDB=off go build ./internal/pkg/... 2>&1 | grep -v "alsa\|asoundlib\|compilation terminated\|rtmidi\|^\s*[0-9]* |\|\^~" || true)
  (cd /tmp/rf && diff -ruN a b | sed -E 's|^diff -ruN (a/[^ ]+) (b/[^ ]+)|diff --git \1 \2|; s|^(--- a/[^\t]+)\t.*|\1|; s|^(\+\+\+ b/[^\t]+)\t.*|\1|') > $(readlink -f $2) || true
  rm -rf /tmp/rf; grep -c "^[+-][^+-]" $2;;
esac
