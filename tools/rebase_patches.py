#!/usr/bin/env python3
"""usage: rebase_patches.py <old-rev> [<new-rev>=HEAD] [--write]
Re-bases every stored patch (mutants, seeded, benign) that no longer applies to <new-rev> of /repo: the patch is applied to
<old-rev> in a scratch clone, committed, and the commits old..new are cherry-picked on top; the new patch is the difference
to <new-rev>.  Patches with conflicts are listed for manual work.  Without --write only reports."""
import subprocess, sys, os, glob, json, shutil, tempfile
old = sys.argv[1]
new = sys.argv[2] if len(sys.argv) > 2 and not sys.argv[2].startswith('--') else 'HEAD'
write = '--write' in sys.argv
V = '/verif'
def sh(cmd, cwd=None, check=False, inp=None):
    r = subprocess.run(cmd, shell=True, cwd=cwd, input=inp, capture_output=True, text=True)
    if check and r.returncode != 0:
        raise SystemExit(f"{cmd}: {r.stderr}")
    return r
patches = sorted(glob.glob(V + '/mutants/*/*.diff') + glob.glob(V + '/seeded/*/patch.diff') + glob.glob(V + '/benign/*.diff'))
tmp = tempfile.mkdtemp(prefix='hidirebase.')
sh(f'git clone -q /repo {tmp}/r', check=True)
R = tmp + '/r'
sh('git config user.email x@x; git config user.name x', cwd=R)
newsha = sh(f'git rev-parse {new}', cwd='/repo', check=True).stdout.strip()
oldsha = sh(f'git rev-parse {old}', cwd='/repo', check=True).stdout.strip()
ok = rebased = 0
manual = []
for p in patches:
    meta = os.path.join(os.path.dirname(p), 'meta.json')
    if p.endswith('patch.diff') and os.path.exists(meta) and json.load(open(meta)).get('obsolete_since'):
        continue
    sh(f'git checkout -q -f {newsha} && git clean -qfd', cwd=R, check=True)
    if sh(f'patch -p1 -s --dry-run < {p}', cwd=R).returncode == 0:
        ok += 1
        continue
    sh(f'git checkout -q -f {oldsha} && git clean -qfd', cwd=R, check=True)
    if sh(f'patch -p1 -s --no-backup-if-mismatch < {p}', cwd=R).returncode != 0:
        manual.append((p, 'does not apply to old rev either'))
        continue
    sh('git add -A && git commit -q -m patch', cwd=R, check=True)
    r = sh(f'git cherry-pick {oldsha}..{newsha}', cwd=R)
    if r.returncode != 0:
        sh('git cherry-pick --abort', cwd=R)
        manual.append((p, 'conflict'))
        continue
    d = sh(f'git diff {newsha} HEAD', cwd=R, check=True).stdout
    if not d.strip():
        manual.append((p, 'empty after rebase (the fix subsumes it)'))
        continue
    rebased += 1
    if write:
        open(p, 'w').write(d)
    print('rebased', p)
shutil.rmtree(tmp)
print(f'applies: {ok}, rebased: {rebased}, manual: {len(manual)}')
for p, why in manual:
    print('MANUAL', p, why)
