#!/bin/bash
# usage: try_all.sh <patch.diff>  — applies the patch to a scratch copy of /repo and runs every property's rules on it (one load)
set -u
patch=$(readlink -f "$1")
d=$(mktemp -d /tmp/hidimut.XXXXXX)
rsync -a --exclude .git /repo/ $d/
if ! (cd $d && patch -p1 -s --no-backup-if-mismatch < "$patch"); then echo "PATCH FAILED"; rm -rf $d; exit 3; fi
${HIDICHECK:-/verif/bin/hidicheck} -repo $d -verif /verif -property all 2>&1 | grep -E "VIOLATED|UNDECIDED|VIOLATION|CHECKER" | cut -c1-400
rm -rf $d
