#!/bin/bash
# runs the repository's test-suite (the command of /root/.vp/BASELINE.json) in the given dir and compares with the baseline
d=${1:-/repo}
export GOFLAGS=-mod=mod GOPROXY=off GOSUMDB=off GOTOOLCHAIN=local
unset GOWORK
cd $d && go test -mod=mod -json -vet=off -count=1 -timeout 25m ./... 2>/dev/null > /tmp/baseline_run.json
python3 - <<'PY'
import json
base=json.load(open('/root/.vp/BASELINE.json'))
stable=set(base['stable_pass']); 
res={}
for l in open('/tmp/baseline_run.json'):
    try: e=json.loads(l)
    except: continue
    if e.get('Test') and e.get('Action') in ('pass','fail'):
        res[e['Package']+'::'+e['Test']]=e['Action']
passed={k for k,v in res.items() if v=='pass'}
failed={k for k,v in res.items() if v=='fail'}
print("passed",len(passed),"failed",len(failed),"stable missing",sorted(stable-passed)[:10],"failed:",sorted(failed))
PY
