#!/usr/bin/env python3
"""Confirms every seeded change under /verif/seeded independently and records what was run in its meta.json:
   the patch applies to the current /repo, the tree still loads/type-checks (all 12 packages), the existing suite
   gives the baseline result, the demonstration passes without and fails with the patch, and which rules of the
   property's check report it.  Scratch copies live under $TMPDIR and are removed."""
import json, os, re, shutil, subprocess, sys, tempfile, glob

ENV = dict(os.environ, GOFLAGS="-mod=mod", GOPROXY="off", GOSUMDB="off", GOTOOLCHAIN="local")
ENV.pop("GOWORK", None)
BASE = json.load(open("/root/.vp/BASELINE.json"))
STABLE = set(BASE["stable_pass"])

def sh(cmd, cwd=None, timeout=900):
    p = subprocess.run(cmd, shell=True, cwd=cwd, env=ENV, stdout=subprocess.PIPE, stderr=subprocess.STDOUT, text=True, timeout=timeout)
    return p.returncode, p.stdout

def copy_repo():
    d = tempfile.mkdtemp(prefix="hidiseed.")
    sh(f"rsync -a --exclude .git /repo/ {d}/")
    return d

def suite(d):
    rc, out = sh("go test -vet=off -count=1 -json ./internal/... 2>/dev/null", cwd=d)
    res = {}
    for l in out.splitlines():
        try: e = json.loads(l)
        except Exception: continue
        if e.get("Test") and e.get("Action") in ("pass", "fail"):
            res[e["Package"] + "::" + e["Test"]] = e["Action"]
    return res

def run_demo(sdir, tree):
    demo = os.path.join(sdir, "demo")
    scripts = glob.glob(os.path.join(demo, "run_demo*.sh"))
    if scripts:
        rc, out = sh(f"sh {scripts[0]} {tree}", cwd=tree)
        return ("pass" if rc == 0 else "fail"), f"sh demo/{os.path.basename(scripts[0])} <tree>"
    pkgs = set()
    copied = []
    names = set()
    for root, _, files in os.walk(demo):
        for f in files:
            rel = os.path.relpath(root, demo)
            os.makedirs(os.path.join(tree, rel), exist_ok=True)
            dst = os.path.join(tree, rel, f)
            if not os.path.lexists(dst):
                srcf = os.path.join(root, f)
                if os.path.islink(srcf):
                    os.symlink(os.readlink(srcf), dst)  # e.g. a demo package whose config.go links to cmd/hidi/config.go
                else:
                    shutil.copy(srcf, dst)
                copied.append(dst)
            if f.endswith("_test.go") and not os.path.islink(os.path.join(root, f)):
                src = open(os.path.join(root, f)).read()
                if re.search(r"^//go:build", src, re.M):
                    continue  # helper package of a nested demo, built by the outer test with its own tag
                pkgs.add("./" + rel)
                names.update(re.findall(r"^func (Test\w+)\(", src, re.M))
    pat = "^(" + "|".join(sorted(names)) + ")$"
    cmd = f"go test -vet=off -count=1 -run '{pat}' {' '.join(sorted(pkgs))}"
    rc, out = sh(cmd, cwd=tree, timeout=1800)
    for dst in copied:
        try: os.remove(dst)
        except OSError: pass
    return ("pass" if rc == 0 else "fail"), cmd

def main():
    only = sys.argv[1:]
    rows = []
    for sdir in sorted(glob.glob("/verif/seeded/*/")):
        sid = os.path.basename(sdir.rstrip("/"))
        if only and sid not in only: continue
        meta = json.load(open(sdir + "meta.json"))
        prop = meta["property"]
        orig, mut = copy_repo(), copy_repo()
        try:
            rc, out = sh(f"patch -p1 -s --no-backup-if-mismatch -i {sdir}patch.diff", cwd=mut)
            conf = {"applies_to_repo_head": rc == 0}
            if rc != 0:
                meta["confirmed"] = conf
                json.dump(meta, open(sdir + "meta.json", "w"), indent=1)
                rows.append((sid, "PATCH DOES NOT APPLY")); continue
            s = suite(mut)
            passed = {k for k, v in s.items() if v == "pass"}
            failed = sorted(k for k, v in s.items() if v == "fail")
            conf["existing_suite"] = f"{len(passed & STABLE)} of {len(STABLE)} baseline tests pass, failing: {[f.split('::')[1] for f in failed]}"
            conf["existing_suite_unchanged"] = (STABLE <= passed) and failed == ["github.com/gethiox/HIDI/internal/pkg/midi/device/config::TestParseGamepadDeadzoneAtCenter"]
            rc, out = sh(f"/verif/bin/hidicheck -repo {mut} -verif /verif -property {prop} -no-evidence")
            d0, cmd = run_demo(sdir, orig)
            d1, _ = run_demo(sdir, mut)
            conf["demo_cmd"] = cmd
            conf["demo_without_change"] = d0
            conf["demo_with_change"] = d1
            conf["compiles_and_loads"] = "CHECKER FAILURE: load failed" not in out
            rep = []
            for l in out.splitlines():
                m = re.match(r"\s+(VIOLATED|UNDECIDED) (\S+) (.*?) (\S+:\d+|-): (.*)", l)
                if m: rep.append(f"{m.group(2)} {m.group(3)}")
            meta["confirmed"] = conf
            meta["ran"] = f"/verif/tools/confirm_seeded.py {sid}  (scratch copies of /repo under $TMPDIR, removed afterwards)"
            meta["detected_by_check"] = {"property": prop, "detected": rc == 1 and bool(rep), "reported": sorted(set(rep))[:12]}
            json.dump(meta, open(sdir + "meta.json", "w"), indent=1)
            rows.append((sid, f"suite_unchanged={conf['existing_suite_unchanged']} demo {d0}->{d1} detected={meta['detected_by_check']['detected']} {sorted(set(r.split()[0] for r in rep))}"))
        finally:
            shutil.rmtree(orig, ignore_errors=True); shutil.rmtree(mut, ignore_errors=True)
    for r in rows: print(*r)

main()
