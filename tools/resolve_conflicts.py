import sys,re
# usage: resolve.py file  (reads replacements from stdin separated by lines "-----")
p=sys.argv[1]
s=open(p).read()
reps=sys.stdin.read().split('\n-----\n')
pat=re.compile(r'<<<<<<< [^\n]*\n.*?>>>>>>> [^\n]*\n', re.S)
ms=list(pat.finditer(s))
assert len(ms)==len(reps), (len(ms),len(reps))
out=[];last=0
for m,r in zip(ms,reps):
    out.append(s[last:m.start()]); out.append(r if r.endswith('\n') else r+'\n'); last=m.end()
out.append(s[last:])
open(p,'w').write(''.join(out))
