#!/usr/bin/env python3
"""One-off: re-fit stored patches across fix 109b417 (trackers keyed by sub-handler and code) where a textual 3-way merge
conflicts.  The patch is applied to the old tree, the fix is re-done on the patched files as tolerant substitutions, and the
new patch is the difference to the new tree.  usage: refit_f02b.py <patch>... (writes in place; prints what it could not do)"""
import subprocess, sys, os, re, tempfile, shutil
OLD, NEW = '92d2b6c', '109b417'
def sh(cmd, cwd=None):
    return subprocess.run(cmd, shell=True, cwd=cwd, capture_output=True, text=True)
def export(rev, d):
    os.makedirs(d)
    subprocess.run(f'git -C /repo archive {rev} | tar -x -C {d}', shell=True, check=True)
def fix_device(s):
    s = s.replace('map[evdev.EvCode][2]byte', 'map[trackedKey][2]byte')
    if 'type trackedKey struct' not in s:
        s = s.replace('type Device struct {', '''// trackedKey identifies a key of the device: mappings are per sub-handler, the same code may exist in several of them
type trackedKey struct {
	handler string
	code    evdev.EvCode
}

type Device struct {''', 1)
    s = re.sub(r'(\w+)\.noteTracker\[(\w+)\.Event\.Code\] = ', r'\1.noteTracker[trackedKey{\2.Source.Name, \2.Event.Code}] = ', s)
    s = re.sub(r'^(\s*)(\w+), ok := (\w+)\.noteTracker\[(\w+)\.Event\.Code\]\n', r'\1key := trackedKey{\4.Source.Name, \4.Event.Code}\n\1\2, ok := \3.noteTracker[key]\n', s, flags=re.M)
    s = re.sub(r'delete\((\w+)\.noteTracker, (\w+)\.Event\.Code\)', r'delete(\1.noteTracker, key)', s)
    return s
def fix_events(s):
    s = re.sub(r'(\w+)\.noteTracker\[(\w+)\.Event\.Code\]', r'\1.noteTracker[trackedKey{\2.Source.Name, \2.Event.Code}]', s)
    s = re.sub(r'fmt\.Sprintf\("%d(_neg)?", (\w+)\.Event\.Code\)', r'fmt.Sprintf("%s/%d\1", \2.Source.Name, \2.Event.Code)', s)
    s = re.sub(r'for evcode := range (\w+)\.noteTracker \{', r'for key := range \1.noteTracker {', s)
    s = re.sub(r'(Name:\s*)"",(\n\s*DeviceInfo: input\.DeviceInfo\{Name: "shutdown cleanup"\})', r'\1key.handler,\2', s)
    s = re.sub(r'(Code:\s*)evcode,', r'\1key.code,', s)
    return s
for p in sys.argv[1:]:
    p = os.path.abspath(p)
    tmp = tempfile.mkdtemp(prefix='hidirefit.')
    try:
        export(OLD, tmp + '/a'); export(NEW, tmp + '/new')
        r = sh(f'patch -p1 -s < {p}', cwd=tmp + '/a')
        if r.returncode != 0:
            print('CANNOT-APPLY-OLD', p, r.stdout[:200]); continue
        sh('find . -name "*.orig" -delete; find . -name "*.rej" -delete', cwd=tmp + '/a')
        for rel, fx in (('internal/pkg/midi/device/device.go', fix_device), ('internal/pkg/midi/device/events.go', fix_events)):
            f = tmp + '/a/' + rel
            if os.path.exists(f):
                src = open(f).read()
                open(f, 'w').write(fx(src))
        # any other file of the device package that mentions the trackers in the old way
        sh('gofmt -w internal/pkg/midi/device/*.go', cwd=tmp + '/a')
        b = sh('GOFLAGS=-mod=mod GOPROXY=off GOSUMDB=off go build ./internal/pkg/midi/device/ && GOFLAGS=-mod=mod GOPROXY=off GOSUMDB=off go vet ./internal/pkg/midi/device/', cwd=tmp + '/a')
        if b.returncode != 0:
            print('BUILD-FAILS', p, (b.stderr or b.stdout)[:600]); continue
        left = sh(r'grep -n "noteTracker\[[a-z]*\.Event\.Code\]\|Sprintf(\"%d\|range d.noteTracker" -r internal/pkg/midi/device --include=*.go | grep -v _test', cwd=tmp + '/a').stdout
        sh('mv a b && mv new a', cwd=tmp)
        d = sh('diff -ruN a b', cwd=tmp).stdout
        d = re.sub(r'^diff -ruN (a/\S+) (b/\S+)\n--- a/(\S+)\s.*\n\+\+\+ b/(\S+)\s.*\n', r'diff --git \1 \2\n--- a/\3\n+++ b/\4\n', d, flags=re.M)
        if not d.strip():
            print('EMPTY', p); continue
        open(p, 'w').write(d)
        print('refit', p, ('LEFTOVER:\n' + left) if 'Sprintf("%d' in left or 'Event.Code]' in left else '')
    finally:
        shutil.rmtree(tmp)
