#!/usr/bin/env python3
"""usage: seeded_table.py <round> [notes.json]  — prints the DESIGN.md table of one seeded round from seeded/*/meta.json.
notes.json: {"C05-15": "missed at first contact → R5.8", ...}"""
import json, glob, sys, os
rnd = int(sys.argv[1])
notes = json.load(open(sys.argv[2])) if len(sys.argv) > 2 else {}
print("| seeded | what | caught by | note |")
print("|--------|------|-----------|------|")
for p in sorted(glob.glob(os.path.join(os.path.dirname(__file__), '..', 'seeded', 'C*', 'meta.json'))):
    m = json.load(open(p))
    if m.get('round') != rnd:
        continue
    rep = m.get('detected_by_check', {}).get('reported', [])
    rep = sorted(rep)
    shown = ', '.join(rep[:4]) + (', … (%d obligations)' % len(rep) if len(rep) > 4 else '')
    what = m['what'].replace('|', '/').replace('\n', ' ')[:230]
    print("| %s | %s | %s | %s |" % (m['id'], what, shown.replace('|', '/'), notes.get(m['id'], '')))
