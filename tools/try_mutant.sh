#!/bin/bash
# usage: try_mutant.sh <patch.diff> <property>...   — applies patch to a scratch copy of /repo and runs checks on it
set -u
patch=$(readlink -f "$1"); shift
d=$(mktemp -d /tmp/hidimut.XXXXXX)
rsync -a --exclude .git /repo/ $d/
if ! (cd $d && patch -p1 -s < "$patch"); then echo "PATCH FAILED"; rm -rf $d; exit 3; fi
rc=0
for p in "$@"; do
  /verif/bin/hidicheck -repo $d -verif /verif -property $p -no-evidence 2>&1 | grep -E "VIOLATED|UNDECIDED|VIOLATION|CHECKER|^property=" | cut -c1-300
done
rm -rf $d
