#!/usr/bin/env python3
"""usage: ingest_seeded.py <src-root> <round> <first-index>
Copies <src-root>/Cxx-out/{1,2}/ (patch.diff, demo/, notes.md, summary.txt, needs.txt) written by seeding sub-agents
to /verif/seeded/Cxx-<first-index + n - 1>/ and writes meta.json (confirmation is done by confirm_seeded.py)."""
import json, os, shutil, subprocess, sys
src, rnd, first = sys.argv[1], int(sys.argv[2]), int(sys.argv[3])
ids = []
for p in range(1, 21):
    pid = f"C{p:02d}"
    for n in (1, 2):
        s = f"{src}/{pid}-out/{n}"
        if not os.path.isfile(s + "/patch.diff"):
            print("missing", pid, n); continue
        sid = f"{pid}-{first + n - 1}"
        d = f"/verif/seeded/{sid}"
        os.makedirs(d, exist_ok=True)
        shutil.copy(s + "/patch.diff", d + "/patch.diff")
        if os.path.isdir(d + "/demo"): shutil.rmtree(d + "/demo")
        subprocess.run(["cp", "-a", s + "/demo", d + "/demo"])
        if os.path.isfile(s + "/notes.md"): shutil.copy(s + "/notes.md", d + "/notes.md")
        def rd(f):
            try: return " ".join(open(s + "/" + f).read().split())
            except Exception: return ""
        json.dump({"id": sid, "property": pid, "round": rnd,
                   "author": "independent sub-agent (given only the property record and a scratch worktree)",
                   "what": rd("summary.txt"), "needs_to_manifest": rd("needs.txt")}, open(d + "/meta.json", "w"), indent=1)
        ids.append(sid)
    pre = f"{src}/{pid}-out/preexisting.md"
    if os.path.isfile(pre):
        os.makedirs("/verif/seeded/_preexisting", exist_ok=True)
        shutil.copy(pre, f"/verif/seeded/_preexisting/{pid}-round{rnd}.md")
print(" ".join(ids))
