# -*- python -*-
PENDING = "static check not built yet in this round (see DESIGN.md section 3 for the planned rules); not claimed until the rule exists and passes both ways"
for i in range(1, 21):
    NOT_APPLICABLE["C%02d" % i] = PENDING

EXTRA = {
 "C16": " The MIDI-input fan-out keeps delivery and removal in one critical section (R16.7).",
 "C11": " A rejected name rejects the configuration (R11.6).",
 "C09": " Nothing in the load chain writes package-level state (R9.10): a load is a function of the files.",
 "C04": " Defaults.* are computed from exactly the defaults.* fields of the file (R4.8b, imported field-source rule); every action key press reaches the key handler (R4.9).",
 "C03": " The transport relay rules are imported as R3.6 (the per-mode emission must arrive as emitted).",
 "C01": " Also: every key press/release and every axis report (whatever its raw value) reaches its handler under the event mutex (paths of processEvent under representative type/value assumptions), every received event is handed to processEvent, and the holder table is one fresh zeroed note table per channel. The transport rules (relays forward every message exactly once, unaltered; R15.1/R15.2/R15.5) are imported as R1.9.",
 "C02": " Also: the holder table that decides whether the pinned Note Off is sent is a fresh note table per channel (never shared between channels).",
 "C06": " Also: the Bidirectional flag that selects the transfer function is derived by the parser from the presence of the negative field, and the position compared with the deadzone is the un-flipped one (flip applies after the deadzone).",
 "C08": " Also: every axis report reaches the key-emulation switch whatever its raw value (dispatch of processEvent). Only the analog note functions write the trackers (R8.8).",
 "C10": " Also: no failed conversion in the parser region can reach a success return (except a fallback that re-validates the same operand), and event codes come only from a table hit or a full-string strconv parse. The parser is analysed as a region (ParseData plus the config-package helpers it calls), so splitting it into helpers changes nothing.",
 "C12": " Also: every failure in the parse chain (decoder, conversions, file read) is returned, so a file that fails to parse can never be registered. A file is registered only with the configuration ParseData accepted for it (R12.6).",
 "C13": " Also: the channel the burst is addressed to (used unmasked) is within 0..15: every store to Device.channel preserves it and the parser establishes defaults.channel in 1..16. Every message of the burst is a fresh 3-byte value (R13.6) and reaches the port once, unaltered (R13.7).",
 "C15": " Also: a relay that parks a received message in a variable and writes it from a later select iteration must have its receive case gated. Constructors return fresh values (R15.6): the transport queues references.",
 "C17": " R17.1 is decided on the paths of one iteration of the MIDI-input loop under representative (type, velocity) assumptions, and the map written must be re-read from the Device field inside the critical section (Panic replaces it). R17.7 decides the layer precedence of the painted frame (unavailable < pitch-class < channel colour < external(current channel); pitch-class < active; all before UpdateLEDs) from the order of the classified LED write sites in the refresh loop body; R17.9: every refresh iteration sends the frame it computed unless a comparison of that frame decides the skip.",
 "C18": " Also: every file of the shipped hidi-config tree is matched by a //go:embed pattern of the template (go/packages EmbedFiles vs the source tree).",
 "C19": " The consumer is decided on paths: every path that takes the change-notification case cancels the per-cycle context before waiting again or returning. The loader only reads (R19.6): it never creates directories the watcher could not have been watching.",
 "C20": " Also: nothing reachable from grouping/classification reads package-level state that the program modifies (caches, counters).",
}

def claim(pid, text, note, technique):
    text = text + EXTRA.get(pid, "")
    CLAIMED[pid] = dict(text=text, note=note, technique=technique)
    NOT_APPLICABLE.pop(pid, None)

COMMON_NOTE = ("Trusted: go/types and go/ssa (x/tools v0.29.0) model of the program, Go semantics of maps/channels/integers, "
               "the reviewed rule tables in /verif/checker. Assumed: the kernel alternates press/release per key; configurations reach devices only through ParseData. "
               "Paths are enumerated with loops unrolled once and pruned only on syntactic contradictions (no solver); unrecognised idioms fail the check (undecided), they never pass it.")

claim("C01",
      "Decides, for every path of NoteOn/NoteOff/AnalogNoteOn/AnalogNoteOff, the key and axis handlers and the disconnect clean-up, the pairing discipline that makes 'nothing held => nothing sounding' hold: record-what-you-emit, release-what-was-recorded, tracker writers, tracker consult on every release path (keys and axes, also after a mapping switch), clean-up on every exit path, exhaustive mode cases. Structural necessary conditions for all histories; not a proof of the behavioural statement (alternation of press/release is assumed).",
      COMMON_NOTE, "path-effect enumeration over go/ssa (no solver) + who-may-write table + must-pass-through")
claim("C02",
      "Decides that channel and note of every Note Off come from the tracker entry of the released key only (no read of octave/semitone/channel/mapping/config), that the entry is exactly what the press emitted, that a tracked key reaches NoteOff whatever the current mapping, and that none of the 17 state-action functions can reach a MIDI send or event constructor or writes anything but its own parameter.",
      COMMON_NOTE, "backward provenance of event operands on enumerated SSA paths + call-graph effect confinement (who-may-send / who-may-write)")
claim("C03",
      "Decides the complete per-mode emission skeleton of NoteOn and NoteOff (all paths, grouped by collision-mode constant and holder-counter guard), that guard/event/counter use the same (channel, note), that the counter is inc-once/dec-once with no other writer and zero-initialised for 16x128, and that the case sets equal the supported-mode table.",
      COMMON_NOTE, "path-effect enumeration over go/ssa grouped by mode/guard atoms; counted-loop recognition; constant table comparison")

claim("C04",
      "Decides that the pitch tested against 0..127 is base + 12*octave + semitone computed without any 8/16-bit intermediate, that every emission is guarded by that range, channel = (channel+offset) mod 16, velocity = configured velocity; that every up/down/reset action stores exactly load±1 / the neutral constant into its own field with saturation guards for channel and mapping (inductive invariants channel in [0,15], mapping >= 0), the pair table of checkDoubleActions, the record->detect->invoke protocol of action presses, and initialisation from Defaults. Known finding: int8 octave/semitone wrap after 128 net steps.",
      COMMON_NOTE, "affine-form and interval reasoning over enumerated SSA paths (no solver), inductive field invariants, table cross-check")

claim("C05",
      "Decides that every value a device sends is the direct result of one of the three constructors, that each constructor builds a 3-byte `kind|channel, b1, b2` message with a channel-voice kind, and that at every constructor call site the channel nibble is <= 15 and note / velocity / controller-number / pitch-bend bytes are within 0..127 - by dominating range guards, mod-16, counted loops, the tracker container invariant and the Device.channel / velocity field invariants, each of which is established at all its store sites and back to the parser's checks. NOT decided: the value byte of analog Control Change messages (floating-point bound).",
      COMMON_NOTE, "interval reasoning with dominating guards over go/ssa, inductive field/container invariants, who-may-construct/send")

claim("C13",
      "Decides the exact effect list of Panic (one ControlChange AllNotesOff and a counted loop sending Note Off for exactly notes 0..127, both on the unmodified current channel, executed on every path; nothing else that sends is reachable), that its transitive write set is the MIDI-input highlight map only (replaced by a fresh 16-channel map under its mutex), so trackers/counters/parameters are untouched, and the dispatch table entry. Almost entirely structural; receivers honouring CC 123 is outside.",
      COMMON_NOTE, "SSA effect inventory + counted-loop range + transitive write-set (call graph) + dominance")
claim("C14",
      "Decides on all paths of the key handler and checkExitSequence: insert-before-check on presses, delete and no check on non-presses, signal only after every key of the sequence was found tracked (first miss returns false, empty sequence returns false first, loop covers the whole sequence), the completing press returns without any further effect, other presses proceed to note/action handling, single raiser of the signal.",
      COMMON_NOTE, "path-effect enumeration over go/ssa with one-level loop unrolling + loop-shape check + who-may-send")

claim("C12",
      "Decides on all paths of FindConfig the lookup order user[id], user[default], factory[id], factory[default] per device class (keyboard directories for keyboards, gamepad directories for joysticks), hit -> that entry with nil error, all-miss and other device types -> error; the directory/map/label table of the loader; per-file isolation in the walk callback (parse failure: skipped, nothing stored, walk continues; directories and non-.toml files unread); and the Walk-callback protocol (FileInfo used only after the error parameter was tested), with a positive/negative control.",
      COMMON_NOTE, "path-effect enumeration over go/ssa + constant-table cross-check + dominating-guard rule for Walk callbacks (with controls)")

claim("C11",
      "Decides the premises from which the 128-name bijection follows: the name pattern is anchored and consists of exactly a pitch and an octave group with small finite languages (regexp/syntax), the pitch lookup is checked on its miss edge (or the group's language is a subset of the table keys), the two tables are inverse bijections over the 12 chromatic names, the 8-bit formula with its range test accepts exactly the (octave, pitch) pairs whose mathematical value is in 0..127 and returns that value (the returned SSA term and its guards are evaluated abstractly over the groups' finite languages), and NoteToPitch/NoteToOctave invert it on 0..127.",
      COMMON_NOTE + " regexp/syntax is used to read the constant pattern; strconv.Atoi and regexp matching semantics are trusted.",
      "constant-table and regex-language analysis (go/ast, regexp/syntax) + abstract evaluation of SSA path terms over finite value sets")

claim("C09",
      "A complete inventory of the instructions that can raise a Go run-time panic in the HIDI-owned code reachable from ParseData / readDeviceConfig / LoadHIDIConfig (nil dereference of optional decoded pointers, integer division, indexing, nil-map stores, explicit panics, unchecked assertions), each discharged by a dominating guard on the same access path, an interval fact or a length fact (incl. regexp submatch lengths from the constant pattern); plus a termination shape rule (only range / counted loops, no recursion, no channel operations) and an error-discipline rule (every error result is tested and its failure edge cannot reach a success return). Positive/negative controls keep the generic rules alive. NOT decided: panics or hangs inside the third-party TOML decoder, which is called without a recover guard.",
      COMMON_NOTE + " The TOML decoder, strconv and regexp are trusted to return for every input.",
      "may-panic inventory over go/ssa discharged by dominating guards/intervals keyed by access path; CFG loop classification; error-edge reachability (with controls)")

claim("C10",
      "Decides (a) field correspondence: every scalar destination field of the configuration built by ParseData is computed from exactly the TOML leaf field(s) that must determine it (backward slice over SSA, with control sources at phis), every one of the 37 decoded leaf fields reaches the result, and per analog mapping type the runtime's reads of config.Analog are a subset of the parser's writes; (b) validation before acceptance: notes, controllers, key and analog channel offsets, velocity, default channel, default mapping index are proven within their range at the store (dominating guards), closed vocabularies (action, mapping type, collision mode) are looked up in their Supported* table with that very value, DisallowUnknownFields precedes Decode, every error return hands out the zero Config and configurations are only built by ParseData.",
      COMMON_NOTE + " go-toml's decoding of TOML spellings into the struct is trusted.",
      "per-field backward slicing (taint) over go/ssa against a reviewed correspondence table + interval/guard proofs at store sites + reader/writer set agreement")

claim("C07",
      "Decides, on every path of the axis handler's cc case, the per-event template that makes 'at most one side non-zero, the side left behind is zeroed' an invariant: each of the four side branches (signed / centred-unsigned x negative / positive) sends the active controller with the deflection magnitude on its own channel, sends an explicit 0 to the opposite controller on the opposite channel unless that controller is already flagged zero, sets that flag, and clears the active side's flag; side selection compares the shaped value with 0 resp. 0.5; the CC-learning gate precedes every send, passes only |value| > 0.5 and comes after the last-value bookkeeping; the flags have no other writer.",
      COMMON_NOTE, "path-effect enumeration over go/ssa of the handler (value-only diamonds collapsed) matched against a per-side effect template; who-may-write")
claim("C08",
      "Decides the region template of the key-emulation branch (<= -0.5: Note On of the negative direction unless tracked and only if a negative note is configured, release positive; (-0.49, 0.49): release both; >= 0.5: mirror image; distinct tracker identifiers), the on/off pairing and tracker-only provenance of AnalogNoteOn/AnalogNoteOff, the affine int transposition with range guard, the release when an axis stops emulating keys, and that the parser fills Note / NoteNeg / Bidirectional from note / note_negative.",
      COMMON_NOTE, "path-effect enumeration over go/ssa matched against region templates + shared note-lifecycle, arithmetic and field-correspondence rules")

claim("C16",
      "Decides (a) static lockset race freedom of every Device field over the three per-device goroutine roots (event loop and disconnect clean-up in the window between the go statements and wg.Wait; LED refresh; MIDI-input tracking): any two accesses from different roots, one of them a write, hold a common mutex on all paths (must-lockset, interprocedural, action tables resolved), and the lock order is acyclic; (b) the termination structure: helpers counted by wg.Add, each deferring wg.Done first and receiving the cancelled context, cancel() then wg.Wait() on every path from the end of the input loop to return, every blocking select/loop of the helpers observing ctx.Done(), sleeps bounded constants; (c) no cross-talk: no run-time writes to package-level variables, reference-typed Device fields created fresh per device, shared configuration never written. 'Promptly' (progress, third-party call durations) is NOT decided.",
      COMMON_NOTE + " OpenRGB client calls are assumed to return.",
      "interprocedural must-lockset analysis over go/ssa with goroutine roots and a go..Wait window; dominance-based termination-structure rules; who-may-write (with a positive/negative lockset control)")

claim("C15",
      "Decides the structure from which 'in order, exactly once' follows given FIFO channels: a whole-program channel-flow analysis identifies each hop of the MIDI path and shows exactly one receiving function per hop, started once; every relay forwards a value iff one was actually received (ok checked on closable channels) and exactly once; the fan-out touches its output map only under its mutex, delivers each element to every output within one critical section, closes and removes an output in one critical section, releases the lock on every realisable path; channels are closed only after their senders are done (Manager.Run passes wg.Wait over all device goroutines). Known finding: the fan-out sends while holding the mutex that DespawnOutput needs, so removal of a device that stopped reading can block forever. Schedules, fairness, the ALSA driver and draining at shutdown are NOT decided.",
      COMMON_NOTE + " Go channels are FIFO and deliver each value once.",
      "whole-program channel-flow unification (Steensgaard) + path-effect enumeration of relay loops + must-lockset analysis of the fan-out (with a positive/negative control)")

claim("C19",
      "Decides the structure of the watcher: it observes exactly the four directories the loader reads (constant sets compared), a notification is sent iff the event is a write and the lower-cased file name has the suffix the loader filters on (sibling agreement), the hand-off is a select that also observes ctx.Done(), close(change) is deferred first in the only sender, a goroutine closes the watcher on cancellation, the event loop ranges over the watcher's channel; on the consumer side every case of the manager's select cancels the per-cycle device context and the outer loop reloads the configurations. Kernel notification timing is NOT decided.",
      COMMON_NOTE + " fsnotify and inotify behaviour are trusted.",
      "constant-set comparison between sibling tables + dominating-guard rule at the notification send + channel-flow (single sender/closer) + select-shape rules")

claim("C18",
      "Effect-confinement analysis of updateHIDIConfiguration and its two walk callbacks on all their paths: complete inventory of file-system mutating calls (Mkdir x2, write-OpenFile x4, Write x4; none of the removing/renaming/overwriting APIs); the whole-tree generation runs only when the directory was found missing; when it exists only paths handed out by the walk of the embedded factory tree are written; the blacklist is created only on a not-exist edge, with O_CREATE and without O_TRUNC/O_APPEND; every Write writes exactly the embedded template read for the very path that was opened; an existing factory file is compared (disk content vs template of the same path) and either left alone when equal or replaced whole with O_TRUNC; a missing one is created; errors of mutating calls and template reads are returned. OS-level atomicity, permissions and symlinks are NOT decided.",
      COMMON_NOTE + " os/io/fs semantics (OpenFile flags, WalkDir callback contract) are trusted as documented.",
      "path-effect enumeration over go/ssa with constant folding of paths and open flags, matched against region/content templates; call inventory; error-edge reachability")

claim("C20",
      "Decides that handlers are grouped under a key that depends on the physical location only, that every discovered handler is appended exactly once to its group (unconditional append on every iteration over the whole input, no overwrite), that every member of a group becomes a handler of the device and takes part in the type decision, one device per group; that DetermineDeviceType and the capability predicates use their slice arguments only through len() and whole-slice iteration (no positional selection, so the type cannot depend on discovery order) and that the precedence is joystick, then standard keyboard, then not playable. ID/name/handler order of a device follow discovery order (noted, not constrained by the statement).",
      COMMON_NOTE, "loop-structure (dominance of the append over the latch) and use-def rules over go/ssa + path-effect enumeration of the type decision")

claim("C17",
      "Decides the clauses of the LED statement that are not a colour function: MIDI-input tracking marks a key only under a dominating velocity != 0 test and clears it for Note Off and for Note On with velocity 0, under the tracker mutex; no write into the LED array goes through the zero default of a failed map lookup (indices are loop indices or come from the hit edge of a comma-ok lookup); after the refresh loop every LED is set to red and the frame is sent on every exit; panic replaces the external highlight map; all device-state reads of a frame and the UpdateLEDs call lie in one critical section of the event mutex (external notes under their own mutex); the LED transposition offset has the same affine int form as NoteOn's. The colour function itself (which colour each LED shows in each state/layout) is NOT decided: that would be evaluating a 170-line value-level function, i.e. testing.",
      COMMON_NOTE + " len(dev.Colors) == len(dev.LEDs) per the OpenRGB protocol.",
      "dominating-guard rules, index-origin classification and must-lockset analysis over go/ssa; affine-form comparison between sibling computations")

claim("C06",
      "Decides the structural parts of the analog transfer function: deadzone precedence (axis-specific, then sub-handler default, then global default, each only after the previous miss; the parser writes a default for every sub-handler it writes mappings for), the literal rest value 0 inside the deadzone, the final scaling stage (Control Change value = trunc(127*a) with a = |v|, (v+1)/2, |2v-1|, v for the four signed x bidirectional cases; the pitch-bend argument v resp. 2v-1; the 14-bit encoder mapping -1 -> 0, 0 -> 8192, +1 -> 16383 - each evaluated abstractly on the SSA return/argument terms at the end points and centre), and consistent keying of duplicate suppression. NOT decided: accuracy within one step, monotonicity and exact end stops through the floating-point deadzone rescale, 16-bit/hat sampling.",
      COMMON_NOTE + " IEEE-754 evaluation of the final affine stage at three points uses Go's float64.",
      "path-effect enumeration over go/ssa + abstract evaluation of numeric SSA terms at end points/centre + phi-edge constant rule")
