# -*- python -*-
PENDING = "static check not built yet in this round (see DESIGN.md section 3 for the planned rules); not claimed until the rule exists and passes both ways"
for i in range(1, 21):
    NOT_APPLICABLE["C%02d" % i] = PENDING
