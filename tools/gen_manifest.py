#!/usr/bin/env python3
"""Generates /verif/MANIFEST.json from the table below (single source of truth for the interface)."""
import json, os, sys

HERE = os.path.dirname(os.path.dirname(os.path.abspath(__file__)))
ENV = "GOFLAGS=-mod=mod GOPROXY=off GOSUMDB=off GOTOOLCHAIN=local GOWORK=off"

# property -> dict(text, note, technique, design_ref)  (claimed checks)
CLAIMED = {}
# property -> reason (not claimed)
NOT_APPLICABLE = {}

exec(open(os.path.join(HERE, "tools", "manifest_table.py")).read())

props = [json.loads(l)["id"] for l in open(os.path.join(HERE, "properties.jsonl"))]
checks = []
for pid in props:
    if pid in CLAIMED:
        c = CLAIMED[pid]
        checks.append({
            "property_id": pid,
            "quick_cmd": f"/verif/bin/hidicheck -repo /repo -verif /verif -property {pid} -tier quick",
            "thorough_cmd": f"/verif/bin/hidicheck -repo /repo -verif /verif -property {pid} -tier thorough",
            "evidence_file": f"/verif/evidence/{pid}.json",
            "replay_cmd_template": f"/verif/bin/hidicheck -repo /repo -verif /verif -property {pid} -tier quick -explain {{path}}",
            "engine": "hidicheck",
            "level_claimed": {"category": "other", "text": c["text"], "design_ref": c.get("design_ref", "DESIGN.md section 3, " + pid)},
            "level_note": c["note"],
            "technique": c["technique"],
        })
na = [{"property_id": p, "reason": NOT_APPLICABLE[p]} for p in props if p not in CLAIMED]
for p in props:
    if p not in CLAIMED and p not in NOT_APPLICABLE:
        sys.exit(f"{p} neither claimed nor not_applicable")
manifest = {
    "version": 1,
    "setup_cmd": f"cd /verif/checker && env {ENV} go build -o /verif/bin/hidicheck .",
    "hooks": {
        "guard": "verif",
        "enable": "no source hooks are needed: the checker loads /repo's working tree with go/packages (an in-memory overlay replaces only a third-party C++ file of the module cache so that cgo type-checks)",
        "baseline_off_cmd": "cd /repo && go test -mod=mod -json -vet=off -count=1 -timeout 25m ./...",
        "source_commits": [],
        "add_only": True,
    },
    "engines": [{
        "name": "hidicheck",
        "path": "/verif/checker",
        "serves_properties": sorted(CLAIMED.keys()),
        "kind_free_text": "repository-specific static analyser over go/packages + go/ssa (x/tools v0.29.0): path-effect enumeration without solver, access-path terms, interval/guard facts, who-may-write tables, lockset and channel-flow rules; nothing from /repo is executed",
    }],
    "checks": checks,
    "notes": "All checks decide structural necessary conditions of the properties from source (level 'other'); each evidence file states which clauses are decided and which are not. Known findings file: /verif/known_findings.txt (23 defects found, all repaired by fix: commits in /repo; no known: entry at present).",
    "not_applicable": na,
}
json.dump(manifest, open(os.path.join(HERE, "MANIFEST.json"), "w"), indent=1)
print("claimed:", sorted(CLAIMED.keys()))
print("not_applicable:", [x["property_id"] for x in na])
