#!/bin/bash
# usage: eval_seeded.sh <dir with patch.diff and demo/> <property> [more properties...]
# Confirms a seeded change independently: applies, compiles, existing suite unchanged, demo fails with / passes without,
# then runs the given properties' checks on the changed tree.
set -u
src=$1; shift
export GOFLAGS=-mod=mod GOPROXY=off GOSUMDB=off GOTOOLCHAIN=local; unset GOWORK
base=$(mktemp -d /tmp/hidiseed.XXXXXX)
rsync -a --exclude .git /repo/ $base/orig/
rsync -a --exclude .git /repo/ $base/mut/
if ! (cd $base/mut && patch -p1 -s --no-backup-if-mismatch < $src/patch.diff); then echo "RESULT applies=NO"; rm -rf $base; exit 3; fi
# demo files into both trees
if [ -d $src/demo ]; then cp -r $src/demo/. $base/orig/; cp -r $src/demo/. $base/mut/; fi
demos=$(cd $src/demo 2>/dev/null && find . -name '*_test.go' -o -name '*.go' | sed 's#^\./##' | xargs -n1 dirname 2>/dev/null | sort -u | sed 's#^#./#' | tr '\n' ' ')
runsuite() { (cd $1 && go test -vet=off -count=1 -json ./internal/... 2>/dev/null) | python3 -c "
import json,sys
res={}
for l in sys.stdin:
    try: e=json.loads(l)
    except: continue
    if e.get('Test') and e.get('Action') in ('pass','fail'): res[e['Package'].split('HIDI/')[-1]+'::'+e['Test']]=e['Action']
import re
demo=[k for k in res if re.search(r'(?i)demo|C\d\d|zz_|seed', k.split('::')[1]) ]
base={k:v for k,v in res.items()}
print(json.dumps(res))
"; }
runsuite $base/orig > $base/orig.json
runsuite $base/mut > $base/mut.json
python3 - $base/orig.json $base/mut.json <<'PY'
import json,sys
o=json.load(open(sys.argv[1])); m=json.load(open(sys.argv[2]))
basel=json.load(open('/root/.vp/BASELINE.json'))
stable=set(s.split('HIDI/')[-1] for s in basel['stable_pass'])
def suite(r): return {k:v for k,v in r.items() if k in stable or k.endswith('TestParseGamepadDeadzoneAtCenter')}
so,sm=suite(o),suite(m)
same = so==sm and sum(1 for v in sm.values() if v=='pass')==307
demo_o={k:v for k,v in o.items() if k not in so}
demo_m={k:v for k,v in m.items() if k not in sm}
fails_with=[k for k,v in demo_m.items() if v=='fail']
pass_without=all(v=='pass' for v in demo_o.values()) and len(demo_o)>0
print("RESULT applies=yes suite_unchanged=%s (pass %d) demo_tests=%d demo_pass_without=%s demo_fail_with=%d %s" % (same, sum(1 for v in sm.values() if v=='pass'), len(demo_o), pass_without, len(fails_with), fails_with[:4]))
PY
# non-test demos (programs) are not run here
rm -rf $base/orig
# remove demo files from the mutated tree before running the checker (they are tests anyway)
for p in "$@"; do
  /verif/bin/hidicheck -repo $base/mut -verif /verif -property $p -no-evidence 2>&1 | grep -E "VIOLATED|UNDECIDED|CHECKER|^property=" | grep -v KNOWN | cut -c1-260
done
rm -rf $base
