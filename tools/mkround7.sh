mkdir -p /tmp/ws7 /tmp/wb7 && for d in ws7 wb7; do echo "// stub" > /tmp/$d/empty.cpp; cat > /tmp/$d/overlay.json <<EOF
{"Replace": {"/root/go/pkg/mod/gitlab.com/gomidi/midi/v2@v2.0.23/drivers/rtmididrv/imported/rtmidi/rtmidi_stub.cpp": "/tmp/$d/empty.cpp"}}
EOF
done; for i in $(seq -w 1 20); do git -C /repo worktree add -q --detach /tmp/ws7/C$i HEAD; done; for i in 1 2 3 4; do git -C /repo worktree add -q --detach /tmp/wb7/R$i HEAD; mkdir -p /tmp/wb7/R$i-out; done; python3 - <<'EOF'
import json
props = {json.loads(l)['id']: json.loads(l) for l in open('/verif/properties.jsonl')}
tmpl=open('/root/.claude/projects/-verif/17272bda-140e-4a53-a54c-3cc1988a5a65.jsonl') if False else None
for pid,p in props.items():
    txt = f"""You are helping to evaluate a verification tool for the open-source Go project gethiox/HIDI (a Linux application that translates HID keyboard/gamepad evdev events into MIDI messages). You have your own scratch git worktree of the project at /tmp/ws7/{pid} (work ONLY there; do not read or touch /repo, /verif, /root/.claude, /root/.vp or any other /tmp/ws7/* or /tmp/wb7/* directory - your result must be independent of anything that exists elsewhere).

Here is one semantic property that the project is supposed to satisfy (JSON record; line numbers in it may be slightly off because the tree has had small bug fixes since it was written):

{json.dumps(p, indent=1)}

YOUR TASK: produce TWO different, realistic source changes to the project (each as its own patch, each made from the unchanged tree) that BREAK this property while the project still compiles and its existing test-suite still passes exactly as before. Think of the kind of regression a well-meaning contributor could introduce in a refactoring, an optimisation, a bug fix for something else, a small new feature, or a 'cleanup' and that code review could plausibly miss. Prefer changes that need something specific to manifest - a particular interleaving, a fault at a particular point, a multi-step sequence of operations, an unusual input, or two cooperating sites that each look fine alone. The two changes should differ in kind (different mechanism / different code site). Keep each change small (a few lines up to ~30) and plausible; do not merely delete a block of code. Known over-used ideas that you should AVOID because they have been tried already in earlier rounds: sharing one counter map between MIDI channels, making Panic() clear the note trackers or counters, caching a map/field reference outside a lock, computing arithmetic in a narrow integer type, replacing a free-id search by len(map), turning an optional TOML pointer field into a plain value, regex octave `\\d+`, moving recover() into a helper, filepath.SkipDir for files, a second value-based CC dedupe cache, flipping before the deadzone, dropping the key-repeat filter; and from the two most recent rounds: a send helper that drops messages on timeout, de-duplicating the disconnect clean-up, a NoteOff fallback computed from the current state, lazily implemented multinote, resetting a holder counter in interrupt mode, downgrading the collision mode, folding semitones into octaves, consuming a detected up/down pair, a jitter/rate filter on axes, an unparenthesised channel mask, pitch bend from an explicit centre, replacing ccZeroed by the last value, early return/break in the key-emulation switch, integer tracker identifiers, flat note spellings, memoising StringToNote, overlaying user and factory maps, tolerating unlistable directories, sending the panic burst from a goroutine or from a pre-built sequence, diverting unassigned keys before the exit-sequence check, an incrementally maintained exit-key counter, a stats ticker in a relay, a two-phase SpawnOutput, reversed lock order, Velocity()>0 stored as bool, a partial in-place panic reset, writing factory files via rename, testing for hidi.toml instead of the directory, a reload throttle, one select loop for the watcher, last-wins device typing, merging Normalize's loops, parsing only part of a file, reusing a decode target or a relay buffer, a context made inside a helper, returning from the watcher goroutine on an Add failure. Find something else.

For EACH change also write a demonstration: a Go test (a new *_test.go file placed in the relevant package directory) that FAILS with your change applied and PASSES on the unchanged worktree, showing the concrete input/sequence/schedule that violates the property. The demonstration must test the property's observable behaviour, not the code shape. Keep demonstrations simple: a plain `go test -run <Name> ./<pkg>` must run them (no root privileges, no mount namespaces, no nested go test, no symlinks). If a test starts many devices, drain `logger.Messages` (package internal/pkg/logger) in a goroutine, otherwise logging blocks after 128 messages.

Practical facts about this sandbox:
- No network. Use in every shell command: export GOFLAGS=-mod=mod GOPROXY=off GOSUMDB=off GOTOOLCHAIN=local
- Run the existing suite with: cd /tmp/ws7/{pid} && go test -vet=off -count=1 ./internal/...   (expected on the unchanged tree: everything passes EXCEPT the pre-existing failure TestParseGamepadDeadzoneAtCenter in internal/pkg/midi/device/config, which must stay as it is, and internal/pkg/midi/driver/alsa which cannot be built here (cgo/ALSA headers missing); package cmd/hidi cannot be linked for the same reason - expected).
- To type-check cmd/hidi after editing it use: go vet -overlay /tmp/ws7/overlay.json ./cmd/hidi/   (it prints four pre-existing printf warnings about manager.go; anything else is a problem). If your demonstration concerns code in cmd/hidi (package main), it may copy the relevant function(s) into a scratch package inside the worktree (e.g. /tmp/ws7/{pid}/internal/demo_xxx/) with the minimal stubs needed, as long as the copied code is taken verbatim from the (changed / unchanged) source; say so in your notes.
- The unchanged worktree is a detached checkout; `git -C /tmp/ws7/{pid} diff` shows your change; go back with `git -C /tmp/ws7/{pid} checkout -- .` (and delete your untracked files). Do NOT use `git stash`.

DELIVERABLES - write them to /tmp/ws7/{pid}-out/ (create it):
  /tmp/ws7/{pid}-out/1/patch.diff      (output of `git diff` for change 1, source files only, applies with `git apply` on the unchanged worktree)
  /tmp/ws7/{pid}-out/1/demo/...        (the demonstration file(s), with their path relative to the repository root preserved, e.g. demo/internal/pkg/midi/device/zz_demo_test.go; use unique test function names starting with Test{pid}R7)
  /tmp/ws7/{pid}-out/1/notes.md        (what the change does, why it breaks the property, what it needs in order to manifest, the exact commands you ran and their observed results with and without the change)
  /tmp/ws7/{pid}-out/1/summary.txt     (ONE line: what the change is)   and   /tmp/ws7/{pid}-out/1/needs.txt (ONE line: what it needs to manifest)
  and the same under /tmp/ws7/{pid}-out/2/ for change 2.
Before finishing, verify for each change, from a clean worktree: (a) patch applies, (b) `go build ./internal/...` succeeds apart from the alsa package (and the vet command above if cmd/hidi was touched), (c) the existing suite gives the same result as before, (d) the demonstration fails with the patch and passes without it. Leave the worktree clean when you are done. If, while reading the code, you notice that the UNCHANGED tree already violates the property for some input or history, describe it in /tmp/ws7/{pid}-out/preexisting.md (what fails and how to see it). In your final answer, summarise in a few lines what the two changes are and confirm (a)-(d)."""
    open(f'/tmp/ws7/{pid}.prompt.txt','w').write(txt)

focus = {
 1: "internal/pkg/midi/device/device.go (NoteOn, NoteOff, AnalogNoteOn/Off, actions, checkDoubleActions, checkExitSequence, Panic, NewDevice)",
 2: "internal/pkg/midi/device/events.go (handleKEYEvent, handleABSEvent, processEvent, ProcessEvents, handleInputEvents)",
 3: "internal/pkg/midi/device/config/ (parser.go incl. ParseData/TomlKeyToEvCode/readDeviceConfig, loader.go, monitor.go, event.go) and cmd/hidi/config.go (updateHIDIConfiguration, LoadHIDIConfig)",
 4: "internal/pkg/midi/process.go, internal/pkg/midi/event.go, internal/pkg/utils/fan.go, internal/pkg/midi/device/open_rgb.go (handleOpenrgb), internal/pkg/input/ (Normalize, DetermineDeviceType, info.go), cmd/hidi/manager.go",
}
for i, f in focus.items():
    open(f"/tmp/wb7/R{i}.prompt.txt","w").write(f"""You are refactoring a Go project (gethiox/HIDI: a Linux tool translating HID keyboard/gamepad events into MIDI messages). You have your own git worktree at /tmp/wb7/R{i} (detached HEAD). Work ONLY inside /tmp/wb7/R{i} and write results ONLY to /tmp/wb7/R{i}-out/. Do not touch /repo, /verif or any other directory. Do NOT use `git stash`. To return to the unchanged tree use `git -C /tmp/wb7/R{i} checkout -- . && git -C /tmp/wb7/R{i} clean -fdq`.

TASK: produce 8 independent, STRICTLY behaviour-preserving rewrites of the non-test code, each as its own patch made from the UNCHANGED tree (patches are alternatives, not a series). Focus area for you: {f}.

This is a late round of this exercise. Already done many times (so do NOT do these as the main point of a patch): extracting a block into a helper, closures<->named functions, generic helpers with callbacks, method values bound to locals, tables of function values, local struct types for parallel variables, variadic emit helpers, recursion instead of a loop, predicates for range checks, renaming locals, named constants, guard clauses, switch<->if, `defer Unlock`, `if v, ok := m[k]; ok`, hoisting a repeated lookup, range<->index loops, De Morgan.
Wanted now are LARGER or MORE UNUSUAL but still exactly equivalent rewrites that a maintainer could plausibly make, e.g. (use at least 6 different kinds across your 8 patches):
 - changing the representation of a LOCAL/intermediate value without changing what reaches the outside (e.g. a small struct instead of two parallel variables, a bool flag replaced by a sentinel or vice versa, an array instead of a slice literal, a method on a small new local type);
 - replacing a chain of conditions by a table/loop over a fixed small table in the same order, or a table/loop by explicit code;
 - splitting one function into a pipeline of two or three functions that pass values (not shared state) between them, or merging two tiny functions;
 - moving a computation earlier or later where nothing it reads can change in between (say why), e.g. computing a value before taking a lock only if it reads nothing the lock protects - be careful;
 - rewriting a loop with `continue`/`break` into a loop with a single structured body, or unrolling a two-iteration loop;
 - passing a struct by pointer instead of by value (or the reverse) where it is not modified and not retained;
 - replacing a map used as a set with map[K]struct{{}} or the reverse, ONLY for maps that are local to one function (do not touch Device fields that other code ranges over);
 - using a different but equivalent standard-library call (strings.Cut instead of Split+len check where equivalent for all inputs, strings.EqualFold is NOT equivalent to ToLower==..., errors.Is vs ==, bytes.Equal vs string compare, sort.Slice vs slices.SortFunc, fmt.Errorf vs errors.New for constant texts);
 - converting method receivers' style consistently within a small type, adding an interface for an existing concrete dependency without changing the calls;
 - early computation of a result variable + single return instead of multiple returns (or the reverse), named results <-> plain results.

HARD REQUIREMENT - the observable behaviour must be EXACTLY the same for every possible input, configuration file, event sequence and goroutine schedule: same MIDI messages in the same order, same state changes, same accepted/rejected configurations and same error/no-error outcomes, same files written with the same content, same locks protecting the same data for the same extent, same goroutines and channel operations. If you are not certain a change is behaviour-preserving in all cases, do not make it. Do not fix bugs (known oddities stay), do not change log texts or error texts, do not add features, do not rename existing functions, methods, struct fields or types (new ones may be added), do not touch any *_test.go file, go.mod or go.sum.

For EACH patch, starting from the clean tree:
 1. make the change;
 2. run `gofmt -l .` (must print nothing for your changed files);
 3. run `cd /tmp/wb7/R{i} && env GOFLAGS=-mod=mod GOPROXY=off GOSUMDB=off GOTOOLCHAIN=local go vet -overlay /tmp/wb7/overlay.json ./...` - the only diagnostics allowed are the 4 pre-existing printf warnings in cmd/hidi/manager.go (possibly at shifted lines);
 4. run `cd /tmp/wb7/R{i} && env GOFLAGS=-mod=mod GOPROXY=off GOSUMDB=off GOTOOLCHAIN=local go test -vet=off -count=1 ./internal/... 2>&1 | tail -20` - expected result identical to the unchanged tree: every package ok except that `internal/pkg/midi/device/config` FAILS with exactly one failing test `TestParseGamepadDeadzoneAtCenter` (pre-existing) and `internal/pkg/midi/driver/alsa` fails to build (cgo, pre-existing);
 5. save the patch: `git -C /tmp/wb7/R{i} diff > /tmp/wb7/R{i}-out/N.diff` (N = 1..8; use `git add -N` for new files);
 6. reset the tree before the next patch.

Finally write /tmp/wb7/R{i}-out/README.md with, per patch: file/function, what was changed, and a 2-4 sentence argument why behaviour is preserved for all inputs and schedules. There is no network. Your final message should list the 8 patches in one or two lines each.
""")
print("ok")
EOF