#!/bin/bash
# usage: scratch.sh <patch.diff> <dir> — scratch copy of /repo with the patch applied (remove it yourself)
set -u
pp=$(readlink -f "$1")
rm -rf "$2"; mkdir -p "$2"; rsync -a --exclude .git /repo/ "$2"/
(cd "$2" && patch -p1 -s --no-backup-if-mismatch < "$pp")
