package main

import (
	"go/token"
	"go/types"
	"sort"
	"strings"

	"golang.org/x/tools/go/ssa"
)

// ---------------------------------------------------------------------------------------
// E4: must-lockset analysis.  For a root function and an initial lockset it walks the
// CFG with a forward must-hold dataflow (intersection at joins), follows static calls
// into repository functions context-sensitively by lockset, and records every access to
// a field of the watched struct type together with the locks certainly held.
// ---------------------------------------------------------------------------------------

type lockset map[string]bool

func (l lockset) clone() lockset {
	n := lockset{}
	for k := range l {
		n[k] = true
	}
	return n
}

func (l lockset) key() string {
	var ks []string
	for k := range l {
		ks = append(ks, k)
	}
	sort.Strings(ks)
	return strings.Join(ks, ",")
}

func intersect(a, b lockset) lockset {
	n := lockset{}
	for k := range a {
		if b[k] {
			n[k] = true
		}
	}
	return n
}

type access struct {
	Field *types.Var
	Write bool
	Locks lockset
	Instr ssa.Instruction
	Fn    *ssa.Function
	Root  string
}

type lockEdge struct {
	Held, Acquired string
	Instr          ssa.Instruction
}

type lockAnalysis struct {
	p        *Program
	owner    *types.Named // struct whose fields are watched
	fields   map[*types.Var]bool
	dynamic  func(call *ssa.CallCommon) []*ssa.Function // resolution of dynamic calls
	accesses []access
	edges    []lockEdge
	blocking []blockingOp
	memo     map[string]bool
	filter   func(in ssa.Instruction) bool // nil or: only record instructions accepted
	root     string
	unres    []ssa.Instruction
}

type blockingOp struct {
	Kind  string // send | recv | select | wait
	Locks lockset
	Instr ssa.Instruction
	Fn    *ssa.Function
	Root  string
}

func newLockAnalysis(p *Program, owner *types.Named) *lockAnalysis {
	la := &lockAnalysis{p: p, owner: owner, fields: map[*types.Var]bool{}, memo: map[string]bool{}}
	if owner != nil {
		// the owner's fields, including those promoted from embedded structs of the same package
		var add func(st *types.Struct, depth int)
		add = func(st *types.Struct, depth int) {
			for i := 0; i < st.NumFields(); i++ {
				f := st.Field(i)
				la.fields[f] = true
				if f.Embedded() && depth < 3 {
					t := f.Type()
					if p, isPtr := t.(*types.Pointer); isPtr {
						t = p.Elem()
					}
					if n, isNamed := t.(*types.Named); isNamed && n.Obj().Pkg() == owner.Obj().Pkg() {
						if es, isStruct := n.Underlying().(*types.Struct); isStruct {
							add(es, depth+1)
						}
					}
				}
			}
		}
		add(owner.Underlying().(*types.Struct), 0)
	}
	return la
}

// lockName identifies the mutex a Lock/Unlock call operates on.
func lockName(recv ssa.Value) string {
	v := recv
	for i := 0; i < 6; i++ {
		switch x := v.(type) {
		case *ssa.UnOp:
			if x.Op == token.MUL {
				v = x.X
				continue
			}
		case *ssa.FieldAddr:
			return "field:" + fieldOfAddr(x).Name()
		case *ssa.Field:
			return "field:" + x.X.Type().Underlying().(*types.Struct).Field(x.Field).Name()
		case *ssa.Alloc:
			return "local:" + x.Parent().Name() + "." + x.Name()
		case *ssa.FreeVar:
			return "captured:" + x.Name()
		case *ssa.Parameter:
			return "param:" + x.Name()
		case *ssa.Global:
			return "global:" + x.Name()
		}
		break
	}
	return "unknown:" + recv.Name()
}

func mutexOp(call *ssa.CallCommon) (op string, name string) {
	callee := call.StaticCallee()
	if callee == nil || callee.Pkg == nil || callee.Pkg.Pkg.Path() != "sync" || len(call.Args) == 0 {
		return "", ""
	}
	recvT := deref(call.Args[0].Type())
	n, ok := recvT.(*types.Named)
	if !ok || (n.Obj().Name() != "Mutex" && n.Obj().Name() != "RWMutex") {
		return "", ""
	}
	switch callee.Name() {
	case "Lock", "RLock":
		return "lock", lockName(call.Args[0])
	case "Unlock", "RUnlock":
		return "unlock", lockName(call.Args[0])
	}
	return "", ""
}

// Walk analyses fn (and what it calls) as part of goroutine root `root`, entered with lockset in.
func (la *lockAnalysis) Walk(root string, fn *ssa.Function, in lockset, filter func(ssa.Instruction) bool) {
	la.root = root
	la.filter = filter
	la.walk(fn, in, 0)
	la.filter = nil
}

func (la *lockAnalysis) walk(fn *ssa.Function, in lockset, depth int) {
	if fn == nil || fn.Blocks == nil || depth > 12 {
		return
	}
	if !la.p.OwnedFunc(fn) && fn.Synthetic == "" {
		return
	}
	key := la.root + "|" + fn.String() + "|" + in.key()
	if la.filter == nil || depth > 0 {
		if la.memo[key] {
			return
		}
		la.memo[key] = true
	}
	// forward must dataflow
	inSets := map[*ssa.BasicBlock]lockset{}
	outSets := map[*ssa.BasicBlock]lockset{}
	inSets[fn.Blocks[0]] = in.clone()
	work := []*ssa.BasicBlock{fn.Blocks[0]}
	visited := map[*ssa.BasicBlock]bool{}
	transfer := func(b *ssa.BasicBlock, ls lockset, record bool) lockset {
		cur := ls.clone()
		for _, instr := range b.Instrs {
			rec := record && (la.filter == nil || depth > 0 || la.filter(instr))
			switch x := instr.(type) {
			case *ssa.Defer:
				// defer mu.Unlock(): the lock stays held until return; nothing to do
			case *ssa.Go:
				// a new goroutine is a separate root: not followed here
			case *ssa.Send:
				if rec {
					la.blocking = append(la.blocking, blockingOp{"send", cur.clone(), instr, fn, la.root})
				}
			case *ssa.Select:
				if rec && x.Blocking {
					la.blocking = append(la.blocking, blockingOp{"select", cur.clone(), instr, fn, la.root})
				}
			case *ssa.UnOp:
				if x.Op == token.ARROW && rec {
					la.blocking = append(la.blocking, blockingOp{"recv", cur.clone(), instr, fn, la.root})
				} else if rec {
					la.recordAccess(instr, cur, fn)
				}
			case *ssa.Call:
				cc := &x.Call
				if op, name := mutexOp(cc); op != "" {
					if op == "lock" {
						if rec {
							for h := range cur {
								la.edges = append(la.edges, lockEdge{h, name, instr})
							}
						}
						cur[name] = true
					} else {
						delete(cur, name)
					}
					continue
				}
				if _, isB := cc.Value.(*ssa.Builtin); isB {
					if rec {
						la.recordBuiltin(x, cur, fn)
					}
					continue
				}
				if rec {
					if callee := cc.StaticCallee(); callee != nil {
						if callee.Pkg != nil && callee.Pkg.Pkg.Path() == "sync" && callee.Name() == "Wait" {
							la.blocking = append(la.blocking, blockingOp{"wait", cur.clone(), instr, fn, la.root})
						}
						saved := la.filter
						la.filter = nil
						la.walk(callee, cur, depth+1)
						la.filter = saved
					} else if !cc.IsInvoke() {
						var targets []*ssa.Function
						if mc := closureOf(cc.Value); mc != nil {
							targets = []*ssa.Function{mc}
						} else if la.dynamic != nil {
							targets = la.dynamic(cc)
						}
						if targets == nil && !isCancelFunc(cc.Value) {
							la.unres = append(la.unres, instr)
						}
						saved := la.filter
						la.filter = nil
						for _, t := range targets {
							la.walk(t, cur, depth+1)
						}
						la.filter = saved
					}
				}
			default:
				if rec {
					la.recordAccess(instr, cur, fn)
				}
			}
		}
		return cur
	}
	for len(work) > 0 {
		b := work[0]
		work = work[1:]
		out := transfer(b, inSets[b], false)
		if old, ok := outSets[b]; ok && old.key() == out.key() && visited[b] {
			continue
		}
		visited[b] = true
		outSets[b] = out
		for _, s := range b.Succs {
			var ns lockset
			if prev, ok := inSets[s]; ok {
				ns = intersect(prev, out)
				if ns.key() == prev.key() && visited[s] {
					continue
				}
			} else {
				ns = out.clone()
			}
			inSets[s] = ns
			work = append(work, s)
		}
	}
	// record pass with the fixpoint in-sets
	for _, b := range fn.Blocks {
		if ls, ok := inSets[b]; ok {
			transfer(b, ls, true)
		}
	}
}

func (la *lockAnalysis) ownerField(v ssa.Value) *types.Var {
	var f *types.Var
	switch x := v.(type) {
	case *ssa.FieldAddr:
		f = fieldOfAddr(x)
	case *ssa.Field:
		f = x.X.Type().Underlying().(*types.Struct).Field(x.Field)
	}
	if f != nil && la.fields[f] {
		return f
	}
	if f != nil {
		for g := range la.fields {
			if sameField(f, g) {
				return g
			}
		}
	}
	return nil
}

// derivedOwnerField: v is (derived from) the content of a watched field.
func (la *lockAnalysis) derivedOwnerField(v ssa.Value) *types.Var {
	for f := range la.fields {
		if derivesFromField(v, f, map[ssa.Value]bool{}) {
			return f
		}
	}
	return nil
}

func (la *lockAnalysis) add(f *types.Var, write bool, ls lockset, in ssa.Instruction, fn *ssa.Function) {
	la.accesses = append(la.accesses, access{f, write, ls.clone(), in, fn, la.root})
}

func (la *lockAnalysis) recordAccess(in ssa.Instruction, ls lockset, fn *ssa.Function) {
	switch x := in.(type) {
	case *ssa.UnOp:
		if x.Op == token.MUL {
			if f := la.ownerField(x.X); f != nil {
				la.add(f, false, ls, in, fn)
			}
		}
	case *ssa.Field:
		if f := la.ownerField(x); f != nil {
			la.add(f, false, ls, in, fn)
		}
	case *ssa.Store:
		if f := la.ownerField(x.Addr); f != nil {
			la.add(f, true, ls, in, fn)
		} else if ia, ok := x.Addr.(*ssa.IndexAddr); ok {
			if f := la.derivedOwnerField(ia.X); f != nil {
				la.add(f, true, ls, in, fn)
			}
		}
	case *ssa.MapUpdate:
		if f := la.derivedOwnerField(x.Map); f != nil {
			la.add(f, true, ls, in, fn)
		}
	case *ssa.Lookup:
		if f := la.derivedOwnerField(x.X); f != nil {
			la.add(f, false, ls, in, fn)
		}
	case *ssa.Range:
		if f := la.derivedOwnerField(x.X); f != nil {
			la.add(f, false, ls, in, fn)
		}
	}
}

func (la *lockAnalysis) recordBuiltin(call *ssa.Call, ls lockset, fn *ssa.Function) {
	b := call.Call.Value.(*ssa.Builtin)
	if len(call.Call.Args) == 0 {
		return
	}
	f := la.derivedOwnerField(call.Call.Args[0])
	if f == nil {
		return
	}
	switch b.Name() {
	case "delete", "clear", "append", "copy":
		la.add(f, true, ls, call, fn)
	case "len", "cap":
		la.add(f, false, ls, call, fn)
	}
}

// isCancelFunc: a context.CancelFunc value (calling it touches no watched state).
func isCancelFunc(v ssa.Value) bool {
	if n, ok := v.Type().(*types.Named); ok && n.Obj().Name() == "CancelFunc" && n.Obj().Pkg() != nil && n.Obj().Pkg().Path() == "context" {
		return true
	}
	if ex, ok := v.(*ssa.Extract); ok {
		if call, ok := ex.Tuple.(*ssa.Call); ok {
			if callee := call.Call.StaticCallee(); callee != nil && callee.Pkg != nil && callee.Pkg.Pkg.Path() == "context" {
				return true
			}
		}
	}
	return false
}
