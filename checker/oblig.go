package main

import (
	"bufio"
	"encoding/json"
	"fmt"
	"os"
	"path/filepath"
	"sort"
	"strings"
	"time"
)

// Obligation: one thing a rule had to establish about one construct of the repository.
type Obligation struct {
	Property   string `json:"property"`
	Rule       string `json:"rule"`
	Key        string `json:"key"` // pkg.Func/descriptor - never a line number
	Pos        string `json:"pos"`
	Verdict    string `json:"verdict"` // discharged | violated | undecided
	Fact       string `json:"fact"`    // discharging fact or the reason of the violation
	Nontrivial bool   `json:"nontrivial"`
	Known      string `json:"known,omitempty"`
}

type Ctx struct {
	P         *Program
	Property  string
	Tier      string
	Obs       []*Obligation
	Funcs     map[string]bool
	Paths     int
	Notes     []string
	Decided   []string
	Undecided []string
	Assume    []string
	Counts    map[string]int
	keys      map[string]int
}

func NewCtx(p *Program, prop, tier string) *Ctx {
	return &Ctx{P: p, Property: prop, Tier: tier, Funcs: map[string]bool{}, Counts: map[string]int{}, keys: map[string]int{}}
}

func (c *Ctx) add(rule, key, pos, verdict, fact string, nontrivial bool) *Obligation {
	full := rule + "|" + key
	c.keys[full]++
	if n := c.keys[full]; n > 1 {
		key = fmt.Sprintf("%s#%d", key, n)
	}
	o := &Obligation{Property: c.Property, Rule: rule, Key: key, Pos: pos, Verdict: verdict, Fact: fact, Nontrivial: nontrivial}
	c.Obs = append(c.Obs, o)
	c.Counts[rule]++
	return o
}

func (c *Ctx) OK(rule, key, pos, fact string)      { c.add(rule, key, pos, "discharged", fact, true) }
func (c *Ctx) Trivial(rule, key, pos, fact string) { c.add(rule, key, pos, "discharged", fact, false) }
func (c *Ctx) Bad(rule, key, pos, fact string)     { c.add(rule, key, pos, "violated", fact, true) }
func (c *Ctx) Undec(rule, key, pos, fact string)   { c.add(rule, key, pos, "undecided", fact, true) }

// Check adds a discharged or violated obligation depending on cond.
func (c *Ctx) Check(cond bool, rule, key, pos, okFact, badFact string) bool {
	if cond {
		c.OK(rule, key, pos, okFact)
	} else {
		c.Bad(rule, key, pos, badFact)
	}
	return cond
}

// Require: a structural prerequisite of the analysis itself (anchor found, count matches).
func (c *Ctx) Require(cond bool, rule, key, fact string) bool {
	if !cond {
		c.Undec(rule, key, "-", "analysis prerequisite failed: "+fact)
	}
	return cond
}

// MinCount fails the run when a rule matched fewer instances than confirmed by hand.
func (c *Ctx) MinCount(rule string, min int) {
	n := c.Counts[rule]
	if n < min {
		c.Undec(rule, "instance-count", "-", fmt.Sprintf("rule matched %d instances, at least %d were confirmed by reading: the rule would pass vacuously", n, min))
	}
}

func (c *Ctx) Note(f string, a ...any)  { c.Notes = append(c.Notes, fmt.Sprintf(f, a...)) }
func (c *Ctx) Fn(name string)           { c.Funcs[name] = true }
func (c *Ctx) DecidedClause(s string)   { c.Decided = append(c.Decided, s) }
func (c *Ctx) UndecidedClause(s string) { c.Undecided = append(c.Undecided, s) }
func (c *Ctx) Assumption(s string)      { c.Assume = append(c.Assume, s) }

// ---- known findings -----------------------------------------------------------------------

type knownEntry struct {
	Kind     string // known | fixed
	Property string
	Rule     string
	Key      string
	Commit   string
	Text     string
}

func loadKnown(path string) ([]knownEntry, error) {
	f, err := os.Open(path)
	if err != nil {
		if os.IsNotExist(err) {
			return nil, nil
		}
		return nil, err
	}
	defer f.Close()
	var out []knownEntry
	sc := bufio.NewScanner(f)
	sc.Buffer(make([]byte, 1<<20), 1<<20)
	for sc.Scan() {
		line := strings.TrimSpace(sc.Text())
		if line == "" || strings.HasPrefix(line, "#") {
			continue
		}
		head, text, _ := strings.Cut(line, " :: ")
		fs := strings.Fields(head)
		if len(fs) == 0 {
			continue
		}
		e := knownEntry{Kind: strings.TrimSuffix(fs[0], ":"), Text: text}
		for _, f := range fs[1:] {
			switch {
			case strings.HasPrefix(f, "property="):
				e.Property = strings.TrimPrefix(f, "property=")
			case strings.HasPrefix(f, "rule="):
				e.Rule = strings.TrimPrefix(f, "rule=")
			case strings.HasPrefix(f, "key="):
				e.Key = strings.TrimPrefix(f, "key=")
			default:
				if e.Kind == "fixed" && e.Commit == "" {
					e.Commit = f
				}
			}
		}
		out = append(out, e)
	}
	return out, sc.Err()
}

// ---- evidence -------------------------------------------------------------------------------

type evidence struct {
	PropertyID  string         `json:"property_id"`
	Tier        string         `json:"tier"`
	Seed        int            `json:"seed"`
	Level       string         `json:"level"`
	Coverage    map[string]any `json:"coverage"`
	Assumptions []string       `json:"assumptions"`
	WallS       float64        `json:"wall_s"`
	Violations  int            `json:"violations"`
}

func (c *Ctx) Finish(verifDir string, seed int, start time.Time, known []knownEntry, extra map[string]any) int {
	// match known findings
	violated := 0
	var viol []*Obligation
	var knownLines []string
	for _, o := range c.Obs {
		if o.Verdict == "discharged" {
			continue
		}
		if o.Verdict == "violated" {
			matched := false
			for _, k := range known {
				if k.Kind == "known" && k.Property == c.Property && k.Rule == o.Rule && k.Key == o.Key {
					o.Known = k.Text
					knownLines = append(knownLines, fmt.Sprintf("KNOWN-FINDING: property=%s rule=%s key=%s (%s) %s", c.Property, o.Rule, o.Key, o.Pos, k.Text))
					matched = true
					break
				}
			}
			if matched {
				continue
			}
		}
		violated++
		viol = append(viol, o)
	}
	discharged, nontrivial := 0, 0
	distinct := map[string]bool{}
	for _, o := range c.Obs {
		if o.Verdict == "discharged" {
			discharged++
			if o.Nontrivial && !distinct[o.Rule+"|"+o.Key] {
				distinct[o.Rule+"|"+o.Key] = true
				nontrivial++
			}
		}
	}
	var samples []any
	seenRule := map[string]int{}
	for _, o := range c.Obs {
		if seenRule[o.Rule] < 2 && len(samples) < 24 {
			seenRule[o.Rule]++
			samples = append(samples, o)
		}
	}
	var fnames []string
	for f := range c.Funcs {
		fnames = append(fnames, f)
	}
	sort.Strings(fnames)
	rules := map[string]int{}
	for k, v := range c.Counts {
		rules[k] = v
	}
	expl := "Static analysis of /repo's current source (go/packages + go/ssa, nothing executed). Decided: " + strings.Join(c.Decided, "; ") +
		". NOT decided by this check: " + strings.Join(c.Undecided, "; ") + "."
	cov := map[string]any{
		"explanation":            expl,
		"obligations":            len(c.Obs),
		"discharged":             discharged,
		"evaluations":            len(c.Obs),
		"distinct_nontrivial":    nontrivial,
		"rule":                   "one obligation per (rule, construct) found in the type-checked SSA program; non-trivial = discharged by a path enumeration, dominating guard, interval, lockset or data-flow argument (not a mere presence test); distinct by rule+construct key",
		"samples":                samples,
		"rules":                  rules,
		"functions_analysed":     fnames,
		"paths_enumerated":       c.Paths,
		"packages":               len(c.P.Pkgs),
		"ssa_functions":          len(c.P.Funcs),
		"checker_cmd":            fmt.Sprintf("/verif/bin/hidicheck -repo %s -property %s -tier %s", c.P.Repo, c.Property, c.Tier),
		"trusted_base":           []string{"go/types + go/ssa (x/tools v0.29.0)", "Go language semantics (channels FIFO, mutex exclusion, map/integer semantics)", "rule tables in /verif/checker (each row confirmed by reading)"},
		"known_findings_matched": knownLines,
		"notes":                  c.Notes,
		"violations_list":        viol,
		"exhaustive":             true,
	}
	for k, v := range extra {
		cov[k] = v
	}
	ev := evidence{PropertyID: c.Property, Tier: c.Tier, Seed: seed, Level: "other", Coverage: cov, Assumptions: c.Assume, WallS: time.Since(start).Seconds(), Violations: violated}
	if ev.Assumptions == nil {
		ev.Assumptions = []string{}
	}
	os.MkdirAll(filepath.Join(verifDir, "evidence"), 0o755)
	data, _ := json.MarshalIndent(ev, "", " ")
	os.WriteFile(filepath.Join(verifDir, "evidence", c.Property+".json"), data, 0o644)

	for _, l := range knownLines {
		fmt.Println(l)
	}
	fmt.Printf("property=%s tier=%s obligations=%d discharged=%d known=%d violations=%d paths=%d wall=%.1fs\n",
		c.Property, c.Tier, len(c.Obs), discharged, len(knownLines), violated, c.Paths, time.Since(start).Seconds())
	if violated > 0 {
		vp := filepath.Join(verifDir, "evidence", c.Property+".violations.json")
		vd, _ := json.MarshalIndent(map[string]any{"property": c.Property, "violations": viol, "checker_failure": false}, "", " ")
		os.WriteFile(vp, vd, 0o644)
		for _, o := range viol {
			fmt.Printf("  %s %s %s %s: %s\n", strings.ToUpper(o.Verdict), o.Rule, o.Key, o.Pos, o.Fact)
		}
		fmt.Printf("VIOLATION property=%s replay=%s\n", c.Property, vp)
		return 1
	}
	os.Remove(filepath.Join(verifDir, "evidence", c.Property+".violations.json"))
	return 0
}

// checkerFailure reports that the checker could not do its job: never a silent pass.
func checkerFailure(verifDir, prop, tier string, seed int, start time.Time, reason string) int {
	os.MkdirAll(filepath.Join(verifDir, "evidence"), 0o755)
	vp := filepath.Join(verifDir, "evidence", prop+".violations.json")
	vd, _ := json.MarshalIndent(map[string]any{"property": prop, "checker_failure": true, "reason": reason}, "", " ")
	os.WriteFile(vp, vd, 0o644)
	ev := evidence{PropertyID: prop, Tier: tier, Seed: seed, Level: "other", Coverage: map[string]any{
		"explanation": "checker failure: " + reason, "obligations": 0, "discharged": 0, "evaluations": 0, "distinct_nontrivial": 0, "samples": []any{},
	}, Assumptions: []string{}, WallS: time.Since(start).Seconds(), Violations: 1}
	data, _ := json.MarshalIndent(ev, "", " ")
	os.WriteFile(filepath.Join(verifDir, "evidence", prop+".json"), data, 0o644)
	fmt.Printf("CHECKER FAILURE: %s\n", reason)
	fmt.Printf("VIOLATION property=%s replay=%s\n", prop, vp)
	return 1
}

// importRules runs another property's rule set on a scratch context and files those of its obligations whose rule id is
// listed in `only` under rule id `as` of this property (key prefixed with the original rule id).  Used where a rule
// decided for one property is a necessary condition of another one too (e.g. the transport relays for "no stuck notes").
func (c *Ctx) importRules(from func(*Ctx), only []string, as string) {
	c.importRulesWhere(from, only, as, nil)
}

// importRulesWhere: as importRules, restricted to the obligations whose key keep accepts.
func (c *Ctx) importRulesWhere(from func(*Ctx), only []string, as string, keep func(key string) bool) {
	sub := NewCtx(c.P, c.Property, c.Tier)
	from(sub)
	want := map[string]bool{}
	for _, r := range only {
		want[r] = true
	}
	n := 0
	for _, o := range sub.Obs {
		if !want[o.Rule] {
			continue
		}
		if o.Rule == "count" || strings.HasPrefix(o.Key, "instance-count") {
			continue
		}
		if keep != nil && !keep(o.Key) {
			continue
		}
		o.Key = o.Rule + ":" + o.Key
		o.Rule = as
		c.Obs = append(c.Obs, o)
		c.Counts[as]++
		n++
	}
	c.Paths += sub.Paths
	for f := range sub.Funcs {
		c.Funcs[f] = true
	}
	if n == 0 {
		c.Undec(as, "imported("+strings.Join(only, ",")+")", "-", "the imported rules produced no obligation")
	}
}
