package main

// Log writes before the log consumer exists (R9.11 for LoadHIDIConfig, R18.10 for updateHIDIConfiguration).
//
// Every write to the zap logger is a send into logger.Messages, a channel of fixed capacity whose only consumer is a
// goroutine that main starts (processLogs). Code that main runs BEFORE that goroutine exists may therefore log only a
// number of messages that the program itself bounds: a log call on a loop whose trip count comes from a file (one warning
// per unknown option, per differing line, ...) blocks start-up for good once the file is large enough - reading hidi.toml
// "hangs" (C09) and the upkeep never restores the factory files (C18). Decided here:
//   1. in main, is the call that reaches the root dominated by the call that starts the consumer goroutine? then nothing
//      is demanded (the consumer drains whatever is logged);
//   2. otherwise, in the root and everything it reaches (closures included), a call that logs (directly, or through an owned
//      function that logs) must not lie on a loop unless everything that decides the loop's exits derives from constants
//      and the embedded template tree; a logging callback may only be handed to a walk of the embedded tree.
// Not decided: the absolute number of messages (a constant number of call sites times the size of the embedded tree is
// taken to fit the channel), and logging in code that is not reached from the two roots (the device blacklist).

import (
	"fmt"
	"go/token"
	"go/types"
	"sort"
	"strings"

	"golang.org/x/tools/go/ssa"
)

type logBound struct {
	c      *Ctx
	p      *Program
	region map[*ssa.Function]bool
	logs   map[*ssa.Function]bool
	// call sites of region functions, for parameters
	callers map[*ssa.Function][]ssa.CallInstruction
}

func isZapWrite(common *ssa.CallCommon) bool {
	callee := common.StaticCallee()
	if callee == nil || callee.Signature.Recv() == nil {
		return false
	}
	n, ok := deref(callee.Signature.Recv().Type()).(*types.Named)
	if !ok || n.Obj().Pkg() == nil || n.Obj().Pkg().Path() != "go.uber.org/zap" {
		return false
	}
	if n.Obj().Name() != "Logger" && n.Obj().Name() != "SugaredLogger" {
		return false
	}
	switch callee.Name() {
	case "With", "WithOptions", "WithLazy", "Named", "Sugar", "Desugar", "Core", "Check", "Sync", "Level", "Name":
		return false
	}
	return true
}

func isLoggerMessages(v ssa.Value) bool {
	u, ok := v.(*ssa.UnOp)
	if !ok || u.Op != token.MUL {
		return false
	}
	g, ok := u.X.(*ssa.Global)
	return ok && g.Pkg != nil && g.Pkg.Pkg.Path() == pkgLogger && g.Name() == "Messages"
}

// consumesLog: fn receives from logger.Messages (range or <-).
func consumesLog(fn *ssa.Function) bool {
	for _, b := range fn.Blocks {
		for _, in := range b.Instrs {
			switch x := in.(type) {
			case *ssa.UnOp:
				if x.Op == token.ARROW && isLoggerMessages(x.X) {
					return true
				}
			case *ssa.Range:
				if isLoggerMessages(x.X) {
					return true
				}
			case *ssa.Select:
				for _, st := range x.States {
					if st.Dir == types.RecvOnly && isLoggerMessages(st.Chan) {
						return true
					}
				}
			}
		}
	}
	return false
}

func goTarget(g *ssa.Go) *ssa.Function {
	if f := g.Call.StaticCallee(); f != nil {
		return f
	}
	if mc, ok := g.Call.Value.(*ssa.MakeClosure); ok {
		if f, ok := mc.Fn.(*ssa.Function); ok {
			return f
		}
	}
	return nil
}

// startsConsumer: fn (or an owned function it calls, three levels) starts a goroutine that consumes logger.Messages.
func startsConsumer(p *Program, fn *ssa.Function, depth int, seen map[*ssa.Function]bool) bool {
	if fn == nil || seen[fn] || depth > 3 || !p.OwnedFunc(fn) {
		return false
	}
	seen[fn] = true
	for _, b := range fn.Blocks {
		for _, in := range b.Instrs {
			switch x := in.(type) {
			case *ssa.Go:
				if t := goTarget(x); t != nil && (consumesLog(t) || reachesConsumer(p, t, 0, map[*ssa.Function]bool{})) {
					return true
				}
			case *ssa.Call:
				if startsConsumer(p, x.Call.StaticCallee(), depth+1, seen) {
					return true
				}
			}
		}
	}
	return false
}

func reachesConsumer(p *Program, fn *ssa.Function, depth int, seen map[*ssa.Function]bool) bool {
	if fn == nil || seen[fn] || depth > 2 || !p.OwnedFunc(fn) {
		return false
	}
	seen[fn] = true
	if consumesLog(fn) {
		return true
	}
	for _, b := range fn.Blocks {
		for _, in := range b.Instrs {
			if x, ok := in.(*ssa.Call); ok && reachesConsumer(p, x.Call.StaticCallee(), depth+1, seen) {
				return true
			}
		}
	}
	return false
}

func instrIndex(in ssa.Instruction) int {
	for i, x := range in.Block().Instrs {
		if x == in {
			return i
		}
	}
	return -1
}

func instrDominates(a, b ssa.Instruction) bool {
	if a.Block() == b.Block() {
		return instrIndex(a) < instrIndex(b)
	}
	return a.Block().Dominates(b.Block())
}

func ruleLogBound(c *Ctx, rule string, root *ssa.Function) {
	p := c.P
	key := shortFn(root)
	mainFn := p.Func(pkgMain, "", "main")
	if mainFn == nil {
		c.Undec(rule, key+"/log-consumer", "-", "function main not found: whether the log consumer runs before "+key+" is not decided")
		return
	}
	reach := p.Reachable(p.CallGraph(), root)
	// 1. order in main
	var rootCalls, consumerStarts []ssa.Instruction
	for _, b := range mainFn.Blocks {
		for _, in := range b.Instrs {
			switch x := in.(type) {
			case *ssa.Call:
				callee := x.Call.StaticCallee()
				if callee == nil {
					continue
				}
				if callee == root || p.Reachable(p.CallGraph(), callee)[root] {
					rootCalls = append(rootCalls, in)
				}
				if startsConsumer(p, callee, 0, map[*ssa.Function]bool{}) {
					consumerStarts = append(consumerStarts, in)
				}
			case *ssa.Go:
				if t := goTarget(x); t != nil && (consumesLog(t) || reachesConsumer(p, t, 0, map[*ssa.Function]bool{})) {
					consumerStarts = append(consumerStarts, in)
				}
			}
		}
	}
	if len(rootCalls) == 0 {
		c.Trivial(rule, key+"/log-consumer", "-", key+" is not called from main: no log write before the consumer on this route")
		return
	}
	before := false
	for _, rc := range rootCalls {
		dominated := false
		for _, cs := range consumerStarts {
			if instrDominates(cs, rc) {
				dominated = true
			}
		}
		if !dominated {
			before = true
		}
	}
	if !before {
		c.OK(rule, key+"/log-consumer", p.Pos(rootCalls[0].Pos()), "main starts the consumer of logger.Messages before it calls "+key+": log writes there are drained")
		return
	}
	lb := &logBound{c: c, p: p, region: reach, logs: map[*ssa.Function]bool{}, callers: map[*ssa.Function][]ssa.CallInstruction{}}
	// 2. which region functions log
	for changed := true; changed; {
		changed = false
		for fn := range reach {
			if lb.logs[fn] {
				continue
			}
			for _, b := range fn.Blocks {
				for _, in := range b.Instrs {
					if lb.siteLogs(in) != "" {
						lb.logs[fn] = true
						changed = true
					}
				}
			}
		}
	}
	for fn := range reach {
		for _, b := range fn.Blocks {
			for _, in := range b.Instrs {
				if ci, ok := in.(ssa.CallInstruction); ok {
					if callee := ci.Common().StaticCallee(); callee != nil && reach[callee] {
						lb.callers[callee] = append(lb.callers[callee], ci)
					}
				}
			}
		}
	}
	fns := make([]*ssa.Function, 0, len(reach))
	for fn := range reach {
		fns = append(fns, fn)
	}
	sort.Slice(fns, func(i, j int) bool { return fns[i].String() < fns[j].String() })
	sites, inLoops := 0, 0
	for _, fn := range fns {
		loops := naturalLoops(fn)
		for _, b := range fn.Blocks {
			for _, in := range b.Instrs {
				what := lb.siteLogs(in)
				if what == "" {
					continue
				}
				sites++
				for _, lp := range loops {
					if !lp.body[b] {
						continue
					}
					inLoops++
					k := fmt.Sprintf("%s/log-in-loop/%s", shortFn(fn), what)
					if bad := lb.loopOrigins(fn, lp); len(bad) > 0 {
						c.Bad(rule, k, p.Pos(in.Pos()), fmt.Sprintf("%s runs before main starts the consumer of logger.Messages (capacity fixed), and this log write is on a loop whose number of rounds is decided by %s: a large enough file blocks the write for good", key, strings.Join(bad, ", ")))
					} else {
						c.OK(rule, k, p.Pos(in.Pos()), "log write on a loop whose exits are decided by constants and the embedded template tree only")
					}
				}
			}
		}
		// logging callbacks handed to code that is not ours
		for _, b := range fn.Blocks {
			for _, in := range b.Instrs {
				ci, ok := in.(ssa.CallInstruction)
				if !ok {
					continue
				}
				callee := ci.Common().StaticCallee()
				if callee == nil || p.OwnedFunc(callee) {
					continue
				}
				for ai, a := range ci.Common().Args {
					cb := lbClosureOf(a)
					if cb == nil || !lb.logs[cb] {
						continue
					}
					name := calleeName(callee)
					k := fmt.Sprintf("%s/logging-callback/%s", shortFn(fn), name)
					switch name {
					case "io/fs.WalkDir":
						if bad := lb.origins(ci.Common().Args[0], 0, map[ssa.Value]bool{}); len(bad) > 0 {
							c.Bad(rule, k, p.Pos(in.Pos()), fmt.Sprintf("%s runs before the consumer of logger.Messages exists, and a callback that logs is called once per entry of a tree decided by %s", key, strings.Join(bad, ", ")))
						} else {
							c.OK(rule, k, p.Pos(in.Pos()), "logging callback runs once per entry of the embedded template tree")
						}
					default:
						_ = ai
						c.Bad(rule, k, p.Pos(in.Pos()), fmt.Sprintf("%s runs before the consumer of logger.Messages exists, and a callback that logs is handed to %s: the number of log writes is not bounded by the program", key, name))
					}
				}
			}
		}
	}
	c.OK(rule, key+"/log-consumer", p.Pos(rootCalls[0].Pos()), fmt.Sprintf("%s runs before main starts the consumer of logger.Messages; %d log call sites in the %d functions it reaches, %d of them on loops", key, sites, len(reach), inLoops))
}

func lbClosureOf(v ssa.Value) *ssa.Function {
	switch x := v.(type) {
	case *ssa.MakeClosure:
		f, _ := x.Fn.(*ssa.Function)
		return f
	case *ssa.Function:
		return x
	case *ssa.ChangeType:
		return lbClosureOf(x.X)
	case *ssa.MakeInterface:
		return lbClosureOf(x.X)
	}
	return nil
}

// siteLogs: "" or a short name of what is logged through at this instruction.
func (lb *logBound) siteLogs(in ssa.Instruction) string {
	switch x := in.(type) {
	case *ssa.Send:
		if isLoggerMessages(x.Chan) {
			return "send(logger.Messages)"
		}
	case ssa.CallInstruction:
		if _, isGo := in.(*ssa.Go); isGo {
			return ""
		}
		com := x.Common()
		if isZapWrite(com) {
			return "zap." + com.StaticCallee().Name()
		}
		if callee := com.StaticCallee(); callee != nil && lb.region[callee] && lb.logs[callee] {
			return shortFn(callee)
		}
		if com.IsInvoke() {
			for _, t := range lb.p.InvokeTargets(x) {
				if lb.region[t] && lb.logs[t] {
					return shortFn(t)
				}
			}
		} else if com.StaticCallee() == nil {
			// call of a function value made here
			if f := lbClosureOf(com.Value); f != nil && lb.logs[f] {
				return shortFn(f)
			}
		}
	}
	return ""
}

type natLoop struct {
	header *ssa.BasicBlock
	body   map[*ssa.BasicBlock]bool
}

func naturalLoops(fn *ssa.Function) []natLoop {
	byHeader := map[*ssa.BasicBlock]map[*ssa.BasicBlock]bool{}
	var order []*ssa.BasicBlock
	for _, b := range fn.Blocks {
		for _, s := range b.Succs {
			if s.Dominates(b) {
				if byHeader[s] == nil {
					byHeader[s] = map[*ssa.BasicBlock]bool{}
					order = append(order, s)
				}
				for x := range loopBody(s, b) {
					byHeader[s][x] = true
				}
			}
		}
	}
	var out []natLoop
	for _, h := range order {
		out = append(out, natLoop{h, byHeader[h]})
	}
	return out
}

// loopOrigins: what, other than constants and the embedded tree, decides the loop's exits.
func (lb *logBound) loopOrigins(fn *ssa.Function, lp natLoop) []string {
	seen := map[ssa.Value]bool{}
	var bad []string
	for b := range lp.body {
		exits := false
		for _, s := range b.Succs {
			if !lp.body[s] {
				exits = true
			}
		}
		if !exits || len(b.Instrs) == 0 {
			continue
		}
		if iff, ok := b.Instrs[len(b.Instrs)-1].(*ssa.If); ok {
			bad = append(bad, lb.origins(iff.Cond, 0, seen)...)
		}
	}
	sort.Strings(bad)
	var out []string
	for i, s := range bad {
		if i == 0 || bad[i-1] != s {
			out = append(out, s)
		}
	}
	return out
}

var pureStdPkgs = map[string]bool{"strings": true, "bytes": true, "path": true, "path/filepath": true, "strconv": true, "fmt": true, "sort": true, "slices": true, "maps": true, "unicode": true, "unicode/utf8": true, "math": true, "errors": true}

func (lb *logBound) origins(v ssa.Value, depth int, seen map[ssa.Value]bool) []string {
	if v == nil || seen[v] {
		return nil
	}
	seen[v] = true
	if depth > 40 {
		return []string{"a value too far from its source to follow"}
	}
	var out []string
	rec := func(x ssa.Value) { out = append(out, lb.origins(x, depth+1, seen)...) }
	switch x := v.(type) {
	case *ssa.Const, *ssa.Function, *ssa.Builtin:
	case *ssa.Global:
		if !(x.Pkg != nil && lb.p.owned(x.Pkg.Pkg.Path()) && isEmbedFS(x.Type())) {
			out = append(out, "package variable "+x.Name())
		}
	case *ssa.BinOp:
		rec(x.X)
		rec(x.Y)
	case *ssa.UnOp:
		if x.Op == token.MUL {
			out = append(out, lb.loadOrigins(x.X, depth, seen)...)
		} else if x.Op == token.ARROW {
			out = append(out, "a channel receive")
		} else {
			rec(x.X)
		}
	case *ssa.Phi:
		for _, e := range x.Edges {
			rec(e)
		}
	case *ssa.Convert:
		rec(x.X)
	case *ssa.ChangeType:
		rec(x.X)
	case *ssa.ChangeInterface:
		rec(x.X)
	case *ssa.MakeInterface:
		rec(x.X)
	case *ssa.SliceToArrayPointer:
		rec(x.X)
	case *ssa.TypeAssert:
		rec(x.X)
	case *ssa.Extract:
		rec(x.Tuple)
	case *ssa.Field:
		rec(x.X)
	case *ssa.Index:
		rec(x.X)
	case *ssa.Lookup:
		rec(x.X)
	case *ssa.Slice:
		rec(x.X)
		if x.Low != nil {
			rec(x.Low)
		}
		if x.High != nil {
			rec(x.High)
		}
	case *ssa.Next:
		rec(x.Iter)
	case *ssa.Range:
		rec(x.X)
	case *ssa.MakeSlice:
		rec(x.Len)
	case *ssa.MakeMap, *ssa.MakeChan:
		// contents come from stores, which are followed where the value is loaded through an Alloc; a fresh map read
		// directly is empty
	case *ssa.MakeClosure:
	case *ssa.Alloc, *ssa.FieldAddr, *ssa.IndexAddr:
		out = append(out, lb.loadOrigins(v, depth, seen)...)
	case *ssa.Parameter:
		fn := x.Parent()
		idx := -1
		for i, prm := range fn.Params {
			if prm == x {
				idx = i
			}
		}
		sites := lb.callers[fn]
		if len(sites) == 0 || idx < 0 {
			if lb.walkCallbackOfEmbedded(fn) {
				break
			}
			out = append(out, fmt.Sprintf("parameter %s of %s", x.Name(), shortFn(fn)))
			break
		}
		for _, s := range sites {
			args := s.Common().Args
			if idx < len(args) {
				rec(args[idx])
			}
		}
	case *ssa.FreeVar:
		fn := x.Parent()
		idx := -1
		for i, fv := range fn.FreeVars {
			if fv == x {
				idx = i
			}
		}
		found := false
		if par := fn.Parent(); par != nil && idx >= 0 {
			for _, b := range par.Blocks {
				for _, in := range b.Instrs {
					if mc, ok := in.(*ssa.MakeClosure); ok && mc.Fn == fn && idx < len(mc.Bindings) {
						found = true
						rec(mc.Bindings[idx])
					}
				}
			}
		}
		if !found {
			out = append(out, "captured variable "+x.Name())
		}
	case *ssa.Call:
		com := x.Common()
		if b, ok := com.Value.(*ssa.Builtin); ok {
			switch b.Name() {
			case "len", "cap", "min", "max", "append", "copy":
				for _, a := range com.Args {
					rec(a)
				}
			default:
				out = append(out, "builtin "+b.Name())
			}
			break
		}
		callee := com.StaticCallee()
		if callee == nil {
			out = append(out, "the result of a dynamic call")
			break
		}
		if lb.p.OwnedFunc(callee) && len(callee.Blocks) > 0 {
			if depth > 12 {
				out = append(out, "the result of "+shortFn(callee))
				break
			}
			if lb.callers[callee] == nil {
				lb.callers[callee] = []ssa.CallInstruction{x}
			}
			for _, b := range callee.Blocks {
				for _, in := range b.Instrs {
					if r, ok := in.(*ssa.Return); ok {
						for _, res := range r.Results {
							rec(res)
						}
					}
				}
			}
			break
		}
		name := calleeName(callee)
		pkg := ""
		if callee.Pkg != nil {
			pkg = callee.Pkg.Pkg.Path()
		} else if o := callee.Object(); o != nil && o.Pkg() != nil {
			pkg = o.Pkg().Path()
		}
		switch {
		case pureStdPkgs[pkg] && name != "errors.As":
			for _, a := range com.Args {
				rec(a)
			}
		case pkg == "embed" || pkg == "io/fs":
			// reading the embedded tree: bounded when the file system argument is the embedded one
			for _, a := range com.Args {
				rec(a)
			}
		default:
			out = append(out, "the result of "+name)
		}
	default:
		out = append(out, fmt.Sprintf("%T", v))
	}
	return out
}

// loadOrigins: what may have been stored where addr points.
func (lb *logBound) loadOrigins(addr ssa.Value, depth int, seen map[ssa.Value]bool) []string {
	var out []string
	switch a := addr.(type) {
	case *ssa.Global:
		return lb.origins(a, depth+1, seen)
	case *ssa.FieldAddr:
		return lb.loadOrigins(a.X, depth+1, seen)
	case *ssa.IndexAddr:
		out = append(out, lb.origins(a.X, depth+1, seen)...)
		return out
	case *ssa.Alloc:
		if seen[a] {
			return nil
		}
		seen[a] = true
		if a.Referrers() == nil {
			return nil
		}
		var visitRefs func(v ssa.Value)
		visitRefs = func(v ssa.Value) {
			refs := v.Referrers()
			if refs == nil {
				return
			}
			for _, r := range *refs {
				switch x := r.(type) {
				case *ssa.Store:
					if x.Addr == v {
						out = append(out, lb.origins(x.Val, depth+1, seen)...)
					} else {
						out = append(out, "an address that is stored elsewhere")
					}
				case *ssa.FieldAddr:
					visitRefs(x)
				case *ssa.IndexAddr:
					if x.X == v {
						visitRefs(x)
					}
				case *ssa.UnOp, *ssa.DebugRef:
				case *ssa.Slice:
					// slicing an array: contents unchanged
				case ssa.CallInstruction:
					callee := x.Common().StaticCallee()
					if callee != nil {
						out = append(out, "what "+calleeName(callee)+" stores through a pointer")
					} else {
						out = append(out, "what a dynamic call stores through a pointer")
					}
				case *ssa.MakeClosure:
					// a captured variable: stores inside the closure
					if f, ok := x.Fn.(*ssa.Function); ok {
						for i, bnd := range x.Bindings {
							if bnd == v && i < len(f.FreeVars) {
								visitRefs(f.FreeVars[i])
							}
						}
					}
				case *ssa.MakeInterface, *ssa.Phi, *ssa.Return, *ssa.MapUpdate, *ssa.Send:
					out = append(out, "an address that escapes")
				}
			}
		}
		visitRefs(a)
		return out
	}
	return lb.origins(addr, depth+1, seen)
}

func isEmbedFS(t types.Type) bool {
	n, ok := deref(t).(*types.Named)
	return ok && n.Obj().Pkg() != nil && n.Obj().Pkg().Path() == "embed" && n.Obj().Name() == "FS"
}

// walkCallbackOfEmbedded: fn is a closure that is handed to io/fs.WalkDir over the embedded tree (its parameters are then
// entries of that tree).
func (lb *logBound) walkCallbackOfEmbedded(fn *ssa.Function) bool {
	par := fn.Parent()
	if par == nil {
		return false
	}
	for _, b := range par.Blocks {
		for _, in := range b.Instrs {
			ci, ok := in.(ssa.CallInstruction)
			if !ok {
				continue
			}
			callee := ci.Common().StaticCallee()
			if callee == nil || calleeName(callee) != "io/fs.WalkDir" {
				continue
			}
			for _, a := range ci.Common().Args {
				if lbClosureOf(a) == fn {
					return len(lb.origins(ci.Common().Args[0], 0, map[ssa.Value]bool{})) == 0
				}
			}
		}
	}
	return false
}
