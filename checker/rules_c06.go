package main

import (
	"fmt"
	"go/constant"
	"go/token"
	"go/types"
	"math"
	"sort"
	"strings"

	"golang.org/x/tools/go/ssa"
)

func init() {
	registry["C06"] = checkC06
}

// evalNum evaluates a numeric term with Go semantics (integer wrap-around, truncating
// float->int conversion) under an assignment of its leaves.
func evalNum(t *Term, env map[string]float64) (float64, bool) {
	if v, ok := env[t.String()]; ok {
		return v, true
	}
	if c, ok := t.IsConst(); ok {
		switch c.Kind() {
		case constant.Int, constant.Float:
			f, _ := constant.Float64Val(constant.ToFloat(c))
			return f, true
		case constant.Bool:
			if constant.BoolVal(c) {
				return 1, true
			}
			return 0, true
		}
		return 0, false
	}
	isInt := func(ty types.Type) bool { return ty != nil && isIntegerType(ty) }
	switch t.Op {
	case "convert":
		v, ok := evalNum(t.Args[0], env)
		if !ok {
			return 0, false
		}
		if isInt(t.Type) {
			v = math.Trunc(v)
			return float64(wrapTo(int64(v), t.Type)), true
		}
		return v, true
	case "unop":
		v, ok := evalNum(t.Args[0], env)
		if !ok {
			return 0, false
		}
		if t.Aux == "-" {
			return -v, true
		}
	case "call":
		if len(t.Args) != 1 {
			return 0, false
		}
		v, ok := evalNum(t.Args[0], env)
		if !ok {
			return 0, false
		}
		switch {
		case strings.HasPrefix(t.Aux, "math.Round"):
			return math.Round(v), true
		case strings.HasPrefix(t.Aux, "math.Abs"):
			return math.Abs(v), true
		case strings.HasPrefix(t.Aux, "math.Floor"):
			return math.Floor(v), true
		case strings.HasPrefix(t.Aux, "math.Trunc"):
			return math.Trunc(v), true
		case strings.HasPrefix(t.Aux, "math.Ceil"):
			return math.Ceil(v), true
		}
	case "binop":
		x, ok1 := evalNum(t.Args[0], env)
		y, ok2 := evalNum(t.Args[1], env)
		if !ok1 || !ok2 {
			return 0, false
		}
		if isInt(t.Type) {
			xi, yi := int64(x), int64(y)
			var r int64
			switch t.Aux {
			case "+":
				r = xi + yi
			case "-":
				r = xi - yi
			case "*":
				r = xi * yi
			case "/":
				if yi == 0 {
					return 0, false
				}
				r = xi / yi
			case "%":
				if yi == 0 {
					return 0, false
				}
				r = xi % yi
			case "&":
				r = xi & yi
			case "|":
				r = xi | yi
			case ">>":
				r = xi >> uint(yi)
			case "<<":
				r = xi << uint(yi)
			default:
				return 0, false
			}
			return float64(wrapTo(r, t.Type)), true
		}
		switch t.Aux {
		case "+":
			return x + y, true
		case "-":
			return x - y, true
		case "*":
			return x * y, true
		case "/":
			return x / y, true
		}
	}
	return 0, false
}

// forgetsOnly: the write removes remembered positions and records none: delete/clear, or a fresh map that is empty (made
// here and used for nothing but this assignment).
func forgetsOnly(w writeSite) bool {
	fresh := func(v ssa.Value) bool {
		mk, ok := v.(*ssa.MakeMap)
		if !ok || mk.Referrers() == nil {
			return false
		}
		for _, r := range *mk.Referrers() {
			if _, isDbg := r.(*ssa.DebugRef); isDbg || r == w.Instr {
				continue
			}
			return false
		}
		return true
	}
	switch x := w.Instr.(type) {
	case *ssa.Call:
		return w.What == "delete" || w.What == "clear"
	case *ssa.MapUpdate:
		return fresh(x.Value)
	case *ssa.Store:
		return fresh(x.Val)
	}
	return false
}

// shiftRules: R6.11 / R6.13 / R6.19 alone (imported by C08).
func shiftRules(c *Ctx) {
	dv := newDev(c, "R6.0")
	if dv.ok && dv.need("R6.0", []string{"handleABSEvent"}, nil) {
		ruleShiftOnlyUnsigned(c, dv, "R6.11")
	}
}

// repetitionRules: R6.4 / R6.17 / R6.21 alone (imported by C07 and C08: the first report of a key-emulating axis must reach the thresholds).
func repetitionRules(c *Ctx) {
	dv := newDev(c, "R6.0")
	if !dv.ok || !dv.need("R6.0", []string{"handleABSEvent"}, []string{"lastAnalogValue"}) {
		return
	}
	if paths, err := absPaths(c, dv); err == nil {
		ruleDedupeKeying(c, dv, paths)
		ruleNoMappingMemo(c, dv, paths, "R6.21")
	}
}

func checkC06(c *Ctx) {
	dv := newDev(c, "R6.0")
	if !dv.ok || !dv.need("R6.0", []string{"handleABSEvent", "NewDevice"}, []string{"lastAnalogValue", "outputEvents", "config"}) {
		return
	}
	rulePitchBendEncoding(c)
	paths, err := absPaths(c, dv)
	if c.Require(err == nil, "R6.1", "device.handleABSEvent", fmt.Sprint(err)) {
		ruleDeadzonePrecedence(c, dv, paths)
		ruleCCScaling(c, dv, paths)
		rulePitchBendArgument(c, dv, paths)
		ruleDedupeKeying(c, dv, paths)
		ruleNoMappingMemo(c, dv, paths, "R6.21")
	}
	ruleRestValueConstant(c, dv)
	ruleNormalisation(c, dv, "R6.5")
	// R6.6 which of the four transfer functions applies is decided by Analog.Bidirectional: the parser must derive it
	// from the presence of the negative field
	if pf := newParserFacts(c); pf.err == nil {
		ruleFieldCorrespondenceFor(c, pf, tomlLeaves(c), "R6.6", func(dest string) bool { return dest == "Analog.Bidirectional" })
	}
	// R6.16 positions are recorded as transmitted by the axis handler only (the memory is created in NewDevice); elsewhere
	// they may at most be forgotten, which R6.17 makes harmless (before fix F-08g a missing entry read as the position 0.0 and
	// the next return to rest was swallowed as a repetition)
	if f := dv.fields["lastAnalogValue"]; f != nil {
		n := 0
		for _, w := range c.P.writersOfField(f) {
			n++
			name := dv.refName(dv.ownerOf(w.Fn))
			key := "write(Device.lastAnalogValue)@" + shortFn(w.Fn)
			if sameAnchorName(name, "handleABSEvent") || sameAnchorName(name, "NewDevice") {
				c.OK("R6.16", key, c.P.Pos(w.Instr.Pos()), "allowed writer")
			} else if forgetsOnly(w) {
				// since R6.17 a missing entry is "nothing reported yet", not the position 0.0: forgetting is harmless
				c.OK("R6.16", key, c.P.Pos(w.Instr.Pos()), "only forgets positions ("+w.What+"); a missing entry is not taken for a position (R6.17)")
			} else {
				c.Bad("R6.16", key, c.P.Pos(w.Instr.Pos()), "a position is recorded as transmitted outside the axis handler: the next report of that position is suppressed as a repetition although the handler never sent it")
			}
		}
		if n == 0 {
			c.Undec("R6.16", "writers(Device.lastAnalogValue)", "-", "no writer of Device.lastAnalogValue found")
		}
	}
	c.importRules(configIntactRules, []string{"R3.7"}, "R6.12")    // deadzones, flip and axis mappings are read from an unmodified copy of the parsed configuration
	c.importRules(emulationReachRules, []string{"R8.9b"}, "R6.14") // every new position of a controller / pitch-bend axis reaches the transfer function (only the repeated value and the CC-learning filter may drop it): a jitter or rate filter leaves the receiver with a stale value
	c.MinCount("R6.6", 3)
	ruleDispatch(c, dv, "R6.8", false, true) // every axis position reaches the transfer function
	ruleFlipAfterDeadzone(c, dv, "R6.7")
	ruleRescaleExact(c, dv, "R6.10")
	ruleShiftOnlyUnsigned(c, dv, "R6.11")
	if pf := newParserFacts(c); pf.err == nil {
		ruleNoSilentSkip(c, pf, "R6.20") // every deadzone (and axis) entry of the file reaches the tables the handler looks up
	}
	ruleNoStaleRangeFlag(c, dv, "R6.18")
	c.importRules(checkC07, []string{"R7.9"}, "R6.15") // the rest value is transmitted for a resting axis also after CC learning: a swallowed position is not remembered as sent
	c.importRules(checkC07, []string{"R7.1"}, "R6.9")  // every position that passes the gates is transmitted: each controller path sends the active controller (no second, value-based suppression)
	c.MinCount("R6.1", 2)
	c.MinCount("R6.2", 2)
	c.MinCount("R6.3", 6)
	c.MinCount("R6.4", 1)
	c.MinCount("R6.17", 1)
	c.DecidedClause("the deadzone is taken from the axis-specific table, then the sub-handler default, then the global default, in this order; positions inside the deadzone are assigned the literal rest value 0 (not a computed quantity); the final scaling stage is the right map: the Control Change value is trunc(127*a) with a = |v|, (v+1)/2, |2v-1| or v for the four signed x bidirectional cases (end points 0 -> 0, 1 -> 127) and the pitch-bend encoder maps -1 -> 0, 0 -> 8192, +1 -> 16383 (evaluated abstractly on the constructor's return term); duplicate suppression compares and stores under the same [sub-handler][code] key")
	c.UndecidedClause("accuracy within one step, monotonicity and exact end stops THROUGH the floating-point deadzone rescale (v-dz)*(1/(1-dz)): they depend on IEEE-754 rounding at particular positions; 16-bit and hat sampling; the learning gate and side logic are C07")
}

// rulePitchBendEncoding: R6.3 pitch-bend constructor end points and centre.
func rulePitchBendEncoding(c *Ctx) {
	fn := c.P.Func(pkgMidi, "", "PitchBendEvent")
	if !c.Require(fn != nil, "R6.3", "anchor:midi.PitchBendEvent", "constructor not found") {
		return
	}
	c.Fn(shortFn(fn))
	paths, err := Enumerate(fn, SymConfig{Prog: c.P, MaxDepth: 1, Collapse: true})
	pos := c.P.Pos(fn.Pos())
	if err != nil || len(paths) != 1 || len(paths[0].Ret) != 1 {
		c.Undec("R6.3", "midi.PitchBendEvent/encoding", pos, "constructor is not a single straight-line path")
		return
	}
	c.Paths++
	ev := decodeEvent(builtLiteral(paths[0], paths[0].Ret[0]))
	if ev.Len != 3 {
		c.Undec("R6.3", "midi.PitchBendEvent/encoding", pos, "not a 3-byte event")
		return
	}
	valName := fn.Params[len(fn.Params)-1].Name()
	for _, tc := range []struct {
		v    float64
		want int64
		name string
	}{{-1, 0, "low end stop (-1 -> 0)"}, {0, 8192, "rest position (0 -> centre 8192)"}, {1, 16383, "high end stop (+1 -> 16383)"}, {0.5, 12287, "+50% (12287 or 12288)"}} {
		env := map[string]float64{valName: tc.v}
		lsb, ok1 := evalNum(ev.B1, env)
		msb, ok2 := evalNum(ev.B2, env)
		key := "midi.PitchBendEvent/" + tc.name
		if !ok1 || !ok2 {
			c.Undec("R6.3", key, pos, "cannot evaluate "+ev.B1.String())
			continue
		}
		got := int64(msb)<<7 | int64(lsb)
		okv := got == tc.want
		if tc.v == 0.5 {
			okv = got == 12287 || got == 12288
		}
		c.Check(okv && lsb >= 0 && lsb <= 127 && msb >= 0 && msb <= 127, "R6.3", key, pos, fmt.Sprintf("encodes to %d (lsb %d, msb %d)", got, int64(lsb), int64(msb)),
			fmt.Sprintf("value %.1f is transmitted as %d, expected %d: the 14-bit encoding `int(16383 * (val+1)/2)` truncates, so the rest position of a pitch-bend axis sends 8191 instead of the centre 8192", tc.v, got, tc.want))
	}
}

// ruleDeadzonePrecedence: R6.1.
func ruleDeadzonePrecedence(c *Ctx, dv *dev, paths []*Path) {
	fn := dv.fn["handleABSEvent"]
	pos := c.P.Pos(fn.Pos())
	want := []string{"Deadzones[handler][code]", "DefaultDeadzone[handler]", `DefaultDeadzone[""]`}
	seen := map[string]bool{}
	bad := ""
	for _, p := range paths {
		var chain []string
		lastHit, lastCond := false, ""
		for _, a := range p.Atoms {
			cnd, taken := a.Cond, a.Taken
			for cnd.Op == "unop" {
				cnd, taken = cnd.Args[0], !taken
			}
			if cnd.Op != "lookupok" {
				continue
			}
			if cs := cnd.String(); cs == lastCond && taken == lastHit {
				continue // the outcome of the same lookup tested again (a loop condition, a final check of the ok flag)
			} else {
				lastCond = cs
			}
			ms := cnd.Args[0].String()
			var d string
			switch {
			case strings.Contains(ms, ".Deadzones["):
				d = "Deadzones[handler][code]"
				if !strings.HasSuffix(ms, ".Deadzones[ie.Source.Name]") || !strings.HasSuffix(cnd.Args[1].String(), "ie.Event.Code") {
					bad = "axis-specific deadzone looked up with the wrong keys: " + cnd.String()
				}
			case strings.HasSuffix(ms, ".DefaultDeadzone"):
				if s, isS := cnd.Args[1].IsStringConst(); isS && s == "" {
					d = `DefaultDeadzone[""]`
				} else if strings.HasSuffix(cnd.Args[1].String(), "ie.Source.Name") {
					d = "DefaultDeadzone[handler]"
				} else {
					bad = "default deadzone looked up with an unexpected key: " + cnd.Args[1].String()
				}
			default:
				continue
			}
			if lastHit {
				bad = "a further deadzone lookup follows a hit"
			}
			chain = append(chain, d)
			lastHit = taken
		}
		if len(chain) == 0 {
			continue
		}
		for i := range chain {
			if i >= len(want) || chain[i] != want[i] {
				bad = fmt.Sprintf("deadzone lookups happen in the order %v, required %v", chain, want)
			}
		}
		seen[fmt.Sprintf("%d-hit=%v", len(chain), lastHit)] = true
		if !lastHit && p.End != "panic" && len(chain) == 3 {
			bad = "all three deadzone lookups miss and the handler continues with a zero deadzone"
		}
	}
	for _, need := range []string{"1-hit=true", "2-hit=true", "3-hit=true"} {
		if !seen[need] {
			bad = "no path takes the deadzone from candidate number " + need[:1]
		}
	}
	c.Check(bad == "", "R6.1", "device.handleABSEvent/deadzone-precedence", pos, "axis-specific -> sub-handler default -> global default, each consulted only after the previous miss", bad)
	// the final miss is unreachable for parser-built configurations: the parser writes a default for every sub-handler it writes mappings for
	pf := newParserFacts(c)
	if pf.err == nil {
		var amap, dmap ssa.Value
		var aFS, dFS fieldStore
		for _, fs := range pf.fieldStores("KeyMapping") {
			switch fs.Field.Name() {
			case "Analog":
				amap, aFS = fs.Val, fs
			case "DefaultDeadzone":
				dmap, dFS = fs.Val, fs
			}
		}
		// the map itself, or the same map read back from the field of the mapping under construction
		isMap := func(m ssa.Value, val ssa.Value, fs fieldStore) bool {
			if m == val {
				return true
			}
			if ld, ok := m.(*ssa.UnOp); ok && ld.Op == token.MUL {
				if fa, ok := ld.X.(*ssa.FieldAddr); ok && fs.Lit != nil && fa.X == fs.Lit && fieldOfAddr(fa) == fs.Field {
					return true
				}
			}
			return false
		}
		okCo := false
		if amap != nil && dmap != nil {
			var aKeys, dKeys []ssa.Value
			var aBlk, dBlk *ssa.BasicBlock
			for _, b := range pf.regionBlocks() { // (the conversion may live in a stage function of the parser)
				for _, in := range b.Instrs {
					if mu, ok := in.(*ssa.MapUpdate); ok {
						if isMap(mu.Map, amap, aFS) {
							aKeys, aBlk = append(aKeys, mu.Key), b
						}
						if isMap(mu.Map, dmap, dFS) {
							dKeys, dBlk = append(dKeys, mu.Key), b
						}
					}
				}
			}
			if len(aKeys) == 1 && len(dKeys) == 1 && aBlk == dBlk {
				vw := pf.view(aBlk.Parent())
				okCo = vw.Term(aKeys[0]).String() == vw.Term(dKeys[0]).String()
			}
		}
		c.Check(okCo, "R6.1", "config.ParseData/default-deadzone-for-every-analog-subhandler", c.P.Pos(pf.fn.Pos()),
			"analogMapping[sub] and defaultDeadzone[sub] are written together under the same key (the all-miss branch of the runtime is unreachable)",
			"the parser does not write a default deadzone for every sub-handler it writes analog mappings for: the runtime's all-miss branch (panic) becomes reachable")
	}
}

// ruleCCScaling: R6.3 Control Change value = trunc(127*a) with the right a.
func ruleCCScaling(c *Ctx, dv *dev, paths []*Path) {
	fn := dv.fn["handleABSEvent"]
	pos := c.P.Pos(fn.Pos())
	ccType, _ := c.P.constString(pkgConfig, "AnalogCC")
	forms := map[string][3]float64{ // value at v = a, b, c
		"|v| (signed, bidirectional)":      {127, 0, 127}, // v = -1, 0, 1
		"(v+1)/2 (signed, unidirectional)": {0, 63, 127},  // v = -1, 0, 1
		"|2v-1| (unsigned, bidirectional)": {127, 0, 127}, // v = 0, .5, 1
		"v (unsigned, unidirectional)":     {0, 63, 127},  // v = 0, .5, 1
	}
	seen := map[string]bool{}
	bad := ""
	for _, p := range paths {
		if sel, _ := mappingTypeOf(p); sel != ccType || p.End != "return" {
			continue
		}
		bidir, bt := analogBool(p, "Bidirectional")
		if !bt {
			continue
		}
		for _, e := range p.Effects {
			if e.Kind != "send" || !dv.isFieldLoad(e.Args[0], "outputEvents") {
				continue
			}
			ev := decodeEvent(e.Args[1])
			if !ev.ok || ev.Kind != midiCC {
				continue
			}
			if _, isConst := ev.B2.IsConst(); isConst {
				continue // the explicit zero of the side being left
			}
			// the single float leaf of the value term
			leaf := shapedLeaf(dv, p, ev.B2)
			if leaf == nil {
				if _, closed := evalNum(ev.B2, map[string]float64{}); closed {
					continue // a position inside the deadzone, known to be the rest value on this path (R6.2)
				}
				bad = "value byte is not a function of the shaped axis value: " + ev.B2.String()
				continue
			}
			at := func(v float64) float64 {
				r, ok := evalNum(ev.B2, map[string]float64{leaf.String(): v})
				if !ok {
					return -1
				}
				return r
			}
			signed := [3]float64{at(-1), at(0), at(1)}
			unsigned := [3]float64{at(0), at(0.5), at(1)}
			matched := ""
			for name, w := range forms {
				isBi := strings.Contains(name, "bidirectional") && !strings.Contains(name, "unidirectional")
				if isBi != bidir {
					continue
				}
				if strings.Contains(name, "unsigned") {
					if unsigned == w && (at(-1) != w[0] || !bidir) {
						matched = name
					}
				} else if signed == w {
					matched = name
				}
			}
			// disambiguate |v| vs |2v-1|: |v| at 0.5 is 63, |2v-1| at 0.5 is 0
			if bidir {
				switch {
				case at(0.5) == 63 && signed == [3]float64{127, 0, 127}:
					matched = "|v| (signed, bidirectional)"
				case at(0.5) == 0 && unsigned == [3]float64{127, 0, 127}:
					matched = "|2v-1| (unsigned, bidirectional)"
				default:
					matched = ""
				}
			} else {
				switch {
				case signed == [3]float64{0, 63, 127}:
					matched = "(v+1)/2 (signed, unidirectional)"
				case unsigned == [3]float64{0, 63, 127} && at(-1) < 0 || unsigned == [3]float64{0, 63, 127}:
					matched = "v (unsigned, unidirectional)"
				default:
					matched = ""
				}
			}
			if matched == "" {
				bad = fmt.Sprintf("Control Change value %s does not scale the deflection onto 0..127 (at -1/0/1: %v, at 0/.5/1: %v, bidirectional=%v)", ev.B2, signed, unsigned, bidir)
				continue
			}
			seen[matched] = true
		}
	}
	var names []string
	for n := range forms {
		names = append(names, n)
	}
	sort.Strings(names)
	for _, n := range names {
		key := "device.handleABSEvent/cc-value[" + n + "]"
		if seen[n] {
			c.OK("R6.3", key, pos, "value = trunc(127*a) with a = "+n+": 0 -> 0, 1 -> 127")
		} else {
			c.Bad("R6.3", key, pos, "no Control Change path scales the deflection as "+n+" onto 0..127"+ifs(bad != "", ": "+bad))
		}
	}
	if bad != "" {
		c.Bad("R6.3", "device.handleABSEvent/cc-value/other", pos, bad)
	}
}

// shapedLeaf: the shaped axis position inside t. Where the deadzone arms are merged by an SSA phi that is the (opaque) phi
// term; where the position travels in a struct or through helpers the arms are separate paths and the position is the
// explicit term the path records as the axis' last position.
func shapedLeaf(dv *dev, p *Path, t *Term) *Term {
	var leaf *Term
	t.Walk(func(x *Term) bool {
		if x.Op == "phi" && leaf == nil {
			leaf = x
		}
		return true
	})
	if leaf != nil {
		return leaf
	}
	for _, e := range p.Effects {
		if e.Kind == "mapset" && e.Args[0].Op == "lookup" && dv.isFieldLoad(e.Args[0].Args[0], "lastAnalogValue") {
			s := e.Args[2]
			if _, isK := s.IsConst(); isK {
				continue
			}
			key := s.String()
			// the position as the transfer stage sees it: after the flip (-v on a signed range, 1-v on an unsigned one), which
			// is a separate path condition here and not hidden in the phi
			var flipped *Term
			t.Walk(func(x *Term) bool {
				if x.Op == "unop" && x.Aux == "-" && x.Args[0].String() == key {
					flipped = x
				}
				if x.Op == "binop" && x.Aux == "-" && len(x.Args) == 2 && x.Args[1].String() == key {
					if k, ok := x.Args[0].IsConst(); ok {
						if f, _ := constant.Float64Val(constant.ToFloat(k)); f == 1 {
							flipped = x
						}
					}
				}
				if leaf == nil && x.String() == key {
					leaf = x
				}
				return true
			})
			if flipped != nil {
				leaf = flipped
			}
		}
	}
	return leaf
}

func ifs(b bool, s string) string {
	if b {
		return s
	}
	return ""
}

// rulePitchBendArgument: the value handed to PitchBendEvent is v (signed) resp. 2v-1 (unsigned).
func rulePitchBendArgument(c *Ctx, dv *dev, paths []*Path) {
	fn := dv.fn["handleABSEvent"]
	pos := c.P.Pos(fn.Pos())
	pbType, _ := c.P.constString(pkgConfig, "AnalogPitchBend")
	seen := map[string]bool{}
	bad := ""
	for _, p := range paths {
		if sel, _ := mappingTypeOf(p); sel != pbType || p.End != "return" {
			continue
		}
		for _, e := range p.Effects {
			if e.Kind != "call" || e.Callee == nil || e.Callee.Name() != "PitchBendEvent" {
				continue
			}
			arg := e.Args[1]
			leaf := shapedLeaf(dv, p, arg)
			if leaf == nil {
				if _, closed := evalNum(arg, map[string]float64{}); closed {
					continue // a position inside the deadzone, known to be the rest value on this path (R6.2)
				}
				bad = "pitch-bend argument is not a function of the shaped axis value"
				continue
			}
			at := func(v float64) float64 {
				r, _ := evalNum(arg, map[string]float64{leaf.String(): v})
				return r
			}
			switch {
			case at(-1) == -1 && at(0) == 0 && at(1) == 1:
				seen["v (signed axis)"] = true
			case at(0) == -1 && at(0.5) == 0 && at(1) == 1:
				seen["2v-1 (unsigned axis)"] = true
			default:
				bad = "pitch-bend argument " + arg.String() + " does not map the axis onto -1..1"
			}
		}
	}
	for _, n := range []string{"v (signed axis)", "2v-1 (unsigned axis)"} {
		c.Check(seen[n] && bad == "", "R6.3", "device.handleABSEvent/pitch-bend-argument["+n+"]", pos, "PitchBendEvent receives "+n, "no pitch-bend path passes "+n+ifs(bad != "", ": "+bad))
	}
}

// ruleDedupeKeying: R6.4.
func ruleDedupeKeying(c *Ctx, dv *dev, paths []*Path) {
	fn := dv.fn["handleABSEvent"]
	pos := c.P.Pos(fn.Pos())
	bad, badEq := "", ""
	n, nEq := 0, 0
	for _, p := range paths {
		var set *Effect
		for i := range p.Effects {
			e := &p.Effects[i]
			if e.Kind == "mapset" && e.Args[0].Op == "lookup" && dv.isFieldLoad(e.Args[0].Args[0], "lastAnalogValue") {
				set = e
			}
		}
		var cmp, cmpEq *Term
		for _, a := range p.Atoms {
			op, x, y, ok := normAtom(a)
			if !ok || (op != "==" && op != "!=") {
				continue
			}
			for _, t := range []*Term{x, y} {
				if t.Op == "lookup" && t.Args[0].Op == "lookup" && dv.isFieldLoad(t.Args[0].Args[0], "lastAnalogValue") {
					cmp = t
					if op == "==" {
						cmpEq = t
					}
					other := y
					if t == y {
						other = x
					}
					if set != nil && other.String() != set.Args[2].String() {
						bad = "the value compared with the last one is not the value stored as the new last one"
					}
				}
			}
		}
		// R6.17 a position is a repetition only of a position that was recorded: where the path finds the new value equal to the
		// remembered one, it has also found the entry present (a missing entry reads as 0.0, the shaped value of the
		// negative end stop of an unsigned stick and of every resting position)
		if cmpEq != nil {
			nEq++
			present := false
			for _, a := range p.Atoms {
				t, taken := a.Cond, a.Taken
				for t.Op == "unop" && t.Aux == "!" {
					t, taken = t.Args[0], !taken
				}
				if !taken || len(t.Args) < 2 {
					continue
				}
				// the entry itself, or a presence table kept beside it, under the same axis key
				if !(t.Op == "lookupok" || (t.Op == "lookup" && isBoolType(t.Type))) || t.Args[1].String() != cmpEq.Args[1].String() {
					continue
				}
				root := t.Args[0]
				if root.Op == "lookup" {
					root = root.Args[0]
				}
				for name := range dv.fields {
					if name != "config" && name != "InputDevice" && dv.isFieldLoad(root, name) {
						present = true
					}
				}
			}
			if !present {
				badEq = "a position equal to the remembered one is dropped as a repetition although no position of the axis has been recorded yet (the missing entry reads as 0.0): the first report of an unsigned stick at its negative stop, or of a flipped axis at rest, is lost"
			}
		}
		if set == nil {
			continue
		}
		n++
		if cmp == nil {
			// an axis that has not reported yet has nothing to be compared with: the path tested the entry's presence under
			// the same key and found none
			absent := false
			for _, a := range p.Atoms {
				t, taken := a.Cond, a.Taken
				for t.Op == "unop" && t.Aux == "!" {
					t, taken = t.Args[0], !taken
				}
				if t.Op == "lookupok" && !taken && t.Args[0].Op == "lookup" && dv.isFieldLoad(t.Args[0].Args[0], "lastAnalogValue") &&
					t.Args[0].Args[1].String() == set.Args[0].Args[1].String() && t.Args[1].String() == set.Args[1].String() {
					absent = true
				}
			}
			if !absent {
				bad = "last value stored without having been compared"
			}
			continue
		}
		if cmp.Args[0].Args[1].String() != set.Args[0].Args[1].String() || cmp.Args[1].String() != set.Args[1].String() {
			bad = fmt.Sprintf("compare key [%s][%s] differs from store key [%s][%s]", cmp.Args[0].Args[1], cmp.Args[1], set.Args[0].Args[1], set.Args[1])
		}
	}
	c.Check(badEq == "" && nEq > 0, "R6.17", "device.handleABSEvent/repetition-only-of-a-recorded-position", pos, fmt.Sprintf("%d path(s) drop a repeated position, each after finding the axis' entry present", nEq), badEq+ifs(nEq == 0, "no path compares the new position with the remembered one"))
	c.Check(bad == "" && n > 0, "R6.4", "device.handleABSEvent/duplicate-suppression-keying", pos, fmt.Sprintf("%d path(s): compare and store use the same [sub-handler][code] key and the same value", n), bad)
}

// ruleRestValueConstant: R6.2 inside the deadzone the shaped value is the literal 0.
func ruleRestValueConstant(c *Ctx, dv *dev) {
	fn := dv.fn["handleABSEvent"]
	// find the comparisons of the value with (±) the deadzone and the phi that merges their arms
	n := 0
	var hostBlocks []*ssa.BasicBlock
	views := map[*ssa.Function]*FnView{}
	for _, h := range dv.hostsOf(fn) {
		hostBlocks = append(hostBlocks, h.Blocks...)
		views[h] = NewFnView(c.P, h)
	}
	for _, b := range hostBlocks {
		vw := views[b.Parent()]
		for _, in := range b.Instrs {
			phi, ok := in.(*ssa.Phi)
			if !ok {
				continue
			}
			if bt, ok := phi.Type().Underlying().(*types.Basic); !ok || bt.Info()&types.IsFloat == 0 {
				continue
			}
			for i, e := range phi.Edges {
				k, isK := e.(*ssa.Const)
				if !isK || k.Value == nil || constant.Sign(k.Value) != 0 {
					continue
				}
				pred := phi.Block().Preds[i]
				// the edge must be conditioned on a comparison with the deadzone
				guarded := false
				atoms := vw.GuardsAt(pred)
				if ifi, ok := pred.Instrs[len(pred.Instrs)-1].(*ssa.If); ok {
					atoms = append(atoms, Atom{Cond: vw.Term(ifi.Cond), Taken: pred.Succs[0] == phi.Block()})
				}
				for _, a := range atoms {
					s := a.Cond.String()
					if a.Cond.Op == "binop" && (a.Cond.Aux == "<" || a.Cond.Aux == ">") && strings.Contains(strings.ToLower(s), "deadzone") {
						guarded = true
					}
				}
				if !guarded {
					continue
				}
				n++
				c.OK("R6.2", fmt.Sprintf("device.handleABSEvent/in-deadzone-rest-value#%d", n), c.P.Pos(phi.Pos()), "inside the deadzone the shaped value is the constant 0")
			}
		}
	}
	// the same in a shaping helper that returns from inside the branches: `return 0` under a comparison with the deadzone
	for _, b := range hostBlocks {
		if b.Parent() == fn {
			continue
		}
		ret, ok := b.Instrs[len(b.Instrs)-1].(*ssa.Return)
		if !ok || len(ret.Results) != 1 {
			continue
		}
		k, isK := ret.Results[0].(*ssa.Const)
		if !isK || k.Value == nil || constant.Sign(k.Value) != 0 {
			continue
		}
		if bt, isB := k.Type().Underlying().(*types.Basic); !isB || bt.Info()&types.IsFloat == 0 {
			continue
		}
		for _, a := range NewFnViewBound(c.P, b.Parent(), fn, 0).GuardsAt(b) {
			s := a.Cond.String()
			if a.Cond.Op == "binop" && (a.Cond.Aux == "<" || a.Cond.Aux == ">") && strings.Contains(strings.ToLower(s), "deadzone") {
				n++
				c.OK("R6.2", fmt.Sprintf("device.handleABSEvent/in-deadzone-rest-value#%d", n), c.P.Pos(ret.Pos()), "inside the deadzone the shaping helper returns the constant 0")
				break
			}
		}
	}
	// the same where the position is a field of a small struct (`p.value = 0` under a comparison with the deadzone)
	for _, b := range hostBlocks {
		for _, in := range b.Instrs {
			st, ok := in.(*ssa.Store)
			if !ok {
				continue
			}
			k, isK := st.Val.(*ssa.Const)
			if !isK || k.Value == nil {
				continue
			}
			if bt, isB := k.Type().Underlying().(*types.Basic); !isB || bt.Info()&types.IsFloat == 0 {
				continue
			}
			if constant.Sign(k.Value) != 0 {
				continue
			}
			if _, isField := st.Addr.(*ssa.FieldAddr); !isField {
				continue
			}
			vw := views[b.Parent()]
			if b.Parent() != fn {
				vw = NewFnViewBound(c.P, b.Parent(), fn, 0)
			}
			for _, a := range vw.GuardsAt(b) {
				s := a.Cond.String()
				if a.Cond.Op == "binop" && (a.Cond.Aux == "<" || a.Cond.Aux == ">") && strings.Contains(strings.ToLower(s), "deadzone") {
					n++
					c.OK("R6.2", fmt.Sprintf("device.handleABSEvent/in-deadzone-rest-value#%d", n), c.P.Pos(st.Pos()), "inside the deadzone the position is assigned the constant 0")
					break
				}
			}
		}
	}
	if n < 2 {
		c.Bad("R6.2", "device.handleABSEvent/in-deadzone-rest-value", c.P.Pos(fn.Pos()), fmt.Sprintf("found %d in-deadzone branches assigning the literal 0 (expected one per sign): positions inside the deadzone may transmit a computed value instead of exactly the rest value", n))
	}
	_ = token.NoPos
}

// limitChosenBySign: the divisor is math.Abs of a value picked by the sign of the raw position: a phi whose edge from the
// `raw < 0` side carries .Minimum and whose other edge carries .Maximum.
func limitChosenBySign(vw *FnView, den ssa.Value) bool {
	v := den
	abs := false
	for i := 0; i < 6; i++ {
		switch x := v.(type) {
		case *ssa.Convert:
			v = x.X
			continue
		case *ssa.Call:
			if callee := x.Call.StaticCallee(); callee != nil && callee.Name() == "Abs" && pkgPathOf(callee) == "math" && len(x.Call.Args) == 1 {
				abs = true
				v = x.Call.Args[0]
				continue
			}
		}
		break
	}
	phi, ok := v.(*ssa.Phi)
	if !ok || !abs || len(phi.Edges) != 2 {
		return false
	}
	okNeg, okPos := false, false
	for i, e := range phi.Edges {
		pred := phi.Block().Preds[i]
		atoms := vw.GuardsAt(pred)
		if ifi, isIf := pred.Instrs[len(pred.Instrs)-1].(*ssa.If); isIf {
			atoms = append(atoms, Atom{Cond: vw.Term(ifi.Cond), Taken: pred.Succs[0] == phi.Block()})
		}
		sign := ""
		for _, a := range atoms {
			op, l, r, ok := normAtom(a)
			if !ok || !strings.Contains(l.String(), "Event.Value") {
				continue
			}
			if k, isK := r.IsIntConst(); isK && k == 0 {
				switch op {
				case "<":
					sign = "neg"
				case ">=":
					sign = "nonneg"
				}
			}
		}
		et := vw.Term(e).String()
		switch {
		case sign == "neg" && strings.HasSuffix(et, ".Minimum"):
			okNeg = true
		case sign == "nonneg" && strings.HasSuffix(et, ".Maximum"):
			okPos = true
		}
	}
	return okNeg && okPos
}

// ruleNormalisation: the raw value is divided by |min| when negative and by |max| otherwise,
// so that positions within the reported range normalise into [-1, 1] (necessary for every later stage,
// in particular for the Control Change value byte staying within 0..127).
func ruleNormalisation(c *Ctx, dv *dev, rule string) {
	fn := dv.fn["handleABSEvent"]
	okNeg, okPos := false, false
	bad := ""
	var pos token.Pos
	var hostBlocks []*ssa.BasicBlock
	hviews := map[*ssa.Function]*FnView{}
	for _, h := range dv.hostsOf(fn) {
		hostBlocks = append(hostBlocks, h.Blocks...)
		hviews[h] = NewFnViewBound(c.P, h, fn, 0)
	}
	for _, b := range hostBlocks {
		vw := hviews[b.Parent()]
		for _, in := range b.Instrs {
			bo, ok := in.(*ssa.BinOp)
			if !ok || bo.Op != token.QUO {
				continue
			}
			if bt, ok := bo.Type().Underlying().(*types.Basic); !ok || bt.Info()&types.IsFloat == 0 {
				continue
			}
			numT := vw.Term(bo.X)
			den := vw.Term(bo.Y).String()
			if numT.Op != "convert" || !strings.HasSuffix(numT.Args[0].String(), "Event.Value") {
				continue // not the normalisation of the raw position
			}
			pos = bo.Pos()
			// the sign of the raw value established by the dominating conditions
			sign := ""
			for _, a := range vw.GuardsAt(b) {
				op, l, r, ok := normAtom(a)
				if !ok || !strings.Contains(l.String(), "Event.Value") {
					continue
				}
				if k, isK := r.IsIntConst(); isK && k == 0 {
					switch op {
					case "<":
						sign = "neg"
					case ">=":
						sign = "nonneg"
					}
				}
			}
			switch {
			case sign == "neg" && strings.Contains(den, ".Minimum") && strings.Contains(den, "math.Abs"):
				okNeg = true
			case sign == "nonneg" && strings.Contains(den, ".Maximum"):
				okPos = true
			case sign == "" && limitChosenBySign(vw, bo.Y):
				// one division by a limit that was chosen first: |Minimum| for a negative raw value, Maximum otherwise
				okNeg, okPos = true, true
			case sign == "":
				bad = "the raw position is divided by " + den + " without distinguishing negative from non-negative positions: on two's-complement axes (min = -128, max = 127) the minimum end stop normalises below -1.0 and the Control Change value byte leaves 0..127"
			default:
				bad = fmt.Sprintf("%s positions are divided by %s", sign, den)
			}
		}
	}
	// the range is the one the kernel reported for THIS handler and THIS axis code: a device is a group of handlers that may
	// report the same code with different ranges (the sticks and the touchpad of one gamepad both have ABS_X)
	if bad == "" {
		for _, b := range hostBlocks {
			vw := hviews[b.Parent()]
			for _, in := range b.Instrs {
				bo, ok := in.(*ssa.BinOp)
				if !ok || bo.Op != token.QUO {
					continue
				}
				numT := vw.Term(bo.X)
				if numT.Op != "convert" || !strings.HasSuffix(numT.Args[0].String(), "Event.Value") {
					continue
				}
				for _, leaf := range rangeLeaves(bo.Y) {
					lt := vw.Term(leaf)
					var keys []string
					for t := lt; t != nil && (t.Op == "lookup" || t.Op == "lookupok" || t.Op == "lookup2") && len(t.Args) == 2; t = t.Args[0] {
						keys = append(keys, t.Args[1].String())
					}
					hasHandler, hasCode := false, false
					for _, k := range keys {
						if strings.Contains(k, "ie.Source") {
							hasHandler = true
						}
						if strings.HasSuffix(k, "ie.Event.Code") || strings.Contains(k, "ie.Event.Code)") {
							hasCode = true
						}
					}
					if len(keys) == 0 {
						bad = "the axis range used for the normalisation is not looked up for the reporting handler and axis code: " + lt.String()
					} else if !hasHandler || !hasCode {
						bad = fmt.Sprintf("the axis range used for the normalisation is looked up as %s, i.e. not by both the reporting handler and the axis code: two handlers of one device that report the same code with different ranges (stick ABS_X 0..255, touchpad ABS_X 0..1919) are normalised with one range, positions leave [-1,1] and the data byte leaves 0..127", lt)
					}
				}
			}
		}
	}
	key := "device.handleABSEvent/normalisation-by-min-and-max"
	if bad == "" && okNeg && okPos {
		c.OK(rule, key, c.P.Pos(pos), "negative positions / |min|, non-negative positions / |max|")
	} else {
		if bad == "" {
			bad = fmt.Sprintf("normalisation of negative positions by |Minimum| found=%v, of non-negative positions by |Maximum| found=%v", okNeg, okPos)
		}
		c.Bad(rule, key, c.P.Pos(pos), bad)
	}
}

// ruleFlipAfterDeadzone: R6.7 "deadzone-shaped, optionally flipped": the position that is compared with the deadzone
// is the un-flipped one; flipping first moves the deadzone of an unsigned axis to the wrong physical end.  Decided on
// the SSA: no operand of a comparison with the deadzone value is computed inside a branch controlled by FlipAxis.
func ruleFlipAfterDeadzone(c *Ctx, dv *dev, rule string) {
	fn := dv.fn["handleABSEvent"]
	hosts := []*ssa.Function{fn}
	for h := range dv.newHelpers() {
		if dv.ownerOf(h) == fn {
			hosts = append(hosts, h)
		}
	}
	pos := c.P.Pos(fn.Pos())
	isFlipLoad := func(v ssa.Value) bool {
		for i := 0; i < 4; i++ {
			switch x := v.(type) {
			case *ssa.UnOp:
				if x.Op == token.NOT {
					v = x.X
					continue
				}
				if f := fieldOfAddr(x.X); f != nil && f.Name() == "FlipAxis" {
					return true
				}
				return false
			case *ssa.Field:
				return x.X.Type().Underlying().(*types.Struct).Field(x.Field).Name() == "FlipAxis"
			default:
				return false
			}
		}
		return false
	}
	n, bad := 0, ""
	flipRegions := map[*ssa.Function]map[*ssa.BasicBlock]bool{}
	var fnDependsOnFlip func(ssa.Value) bool
	for _, host := range hosts { // (the handler comes first)
		// blocks controlled by a FlipAxis test
		region := map[*ssa.BasicBlock]bool{}
		for _, b := range host.Blocks {
			ifi, ok := b.Instrs[len(b.Instrs)-1].(*ssa.If)
			if !ok || !isFlipLoad(ifi.Cond) {
				continue
			}
			for _, s := range b.Succs {
				if len(s.Preds) != 1 {
					continue // the join
				}
				for _, d := range host.Blocks {
					if s.Dominates(d) {
						region[d] = true
					}
				}
			}
		}
		vw := NewFnView(c.P, host)
		if host != fn {
			vw = NewFnViewBound(c.P, host, fn, 0) // a helper's `deadzone` parameter is what the handler passes
		}
		mentionsDeadzone := func(v ssa.Value) bool {
			s := vw.Term(v).String()
			return strings.Contains(s, "Deadzones[") || strings.Contains(s, "DefaultDeadzone[") || strings.Contains(s, "call:") && strings.Contains(strings.ToLower(s), "deadzone")
		}
		dependsOnFlip := func(v ssa.Value) bool {
			seen := map[ssa.Value]bool{}
			var rec func(v ssa.Value, depth int) bool
			rec = func(v ssa.Value, depth int) bool {
				if v == nil || seen[v] || depth > 20 {
					return false
				}
				seen[v] = true
				in, ok := v.(ssa.Instruction)
				if !ok {
					return false
				}
				if region[in.Block()] {
					return true
				}
				switch x := v.(type) {
				case *ssa.Phi:
					for _, e := range x.Edges {
						if rec(e, depth+1) {
							return true
						}
					}
				case *ssa.BinOp:
					return rec(x.X, depth+1) || rec(x.Y, depth+1)
				case *ssa.UnOp:
					if a, isAlloc := x.X.(*ssa.Alloc); isAlloc {
						for _, r := range *a.Referrers() {
							// (an assignment that cannot be executed before this read does not count: `pos = pos.flipped()` after
							// `pos = pos.withDeadzone(dz)` in straight-line code)
							if st, ok := r.(*ssa.Store); ok && st.Addr == a && mayPrecede(st, x) && (region[st.Block()] || rec(st.Val, depth+1)) {
								return true
							}
						}
						return false
					}
					return rec(x.X, depth+1)
				case *ssa.Convert:
					return rec(x.X, depth+1)
				case *ssa.Call:
					for _, a := range x.Call.Args {
						if rec(a, depth+1) {
							return true
						}
					}
				}
				return false
			}
			return rec(v, 0)
		}
		flipRegions[host] = region
		if host == fn {
			fnDependsOnFlip = dependsOnFlip
		}
		for _, b := range host.Blocks {
			for _, in := range b.Instrs {
				bo, ok := in.(*ssa.BinOp)
				if !ok {
					continue
				}
				switch bo.Op {
				case token.LSS, token.LEQ, token.GTR, token.GEQ:
				default:
					continue
				}
				var other ssa.Value
				switch {
				case mentionsDeadzone(bo.Y) && !mentionsDeadzone(bo.X):
					other = bo.X
				case mentionsDeadzone(bo.X) && !mentionsDeadzone(bo.Y):
					other = bo.Y
				default:
					continue
				}
				n++
				flippedBefore := dependsOnFlip(other)
				if host != fn {
					// a comparison inside a shaping helper: it sees a flipped position when the handler calls the helper inside
					// the flip branch or hands it a position that was flipped before
					if sites, all := staticCallSites(c.P, host); all {
						for _, cs := range sites {
							if hostRegion := flipRegions[cs.Parent()]; hostRegion != nil && hostRegion[cs.Block()] {
								flippedBefore = true
							}
							if cs.Parent() == fn {
								for _, arg := range cs.Common().Args {
									if fnDependsOnFlip != nil && fnDependsOnFlip(arg) {
										flippedBefore = true
									}
								}
							}
						}
					}
				}
				if flippedBefore {
					bad = fmt.Sprintf("the position compared with the deadzone at %s has already been flipped (it is computed inside a branch controlled by FlipAxis): for an unsigned axis the deadzone then sits at the wrong physical end and the end stop no longer maps to the end of the range", c.P.Pos(bo.Pos()))
				}
			}
		}
	}
	if n == 0 {
		c.Undec(rule, "device.handleABSEvent/deadzone-before-flip", pos, "no comparison with the deadzone value found")
		return
	}
	c.Check(bad == "", rule, "device.handleABSEvent/deadzone-before-flip", pos, fmt.Sprintf("%d comparison(s) with the deadzone, none on a flipped position", n), bad)
}

// mayPrecede: st can be executed before ld (earlier in the same block, or in a block from which ld's block is reachable).
func mayPrecede(st, ld ssa.Instruction) bool {
	if st.Block() == ld.Block() {
		for _, in := range st.Block().Instrs {
			if in == st {
				return true
			}
			if in == ld {
				break
			}
		}
	}
	return reachesBlock(st.Block(), ld.Block())
}

// ruleRescaleExact: R6.10 "the physical end stops map exactly to the ends of the range" through the deadzone rescale:
// the shaped value is (v -/+ dz) DIVIDED by (1 - dz) with the very same dz.  At the end stop v = +/-1 numerator and
// denominator are then the same floating-point number (IEEE subtraction is sign-symmetric), the quotient is exactly
// +/-1 and the scaling reaches 127 / 16383.  Multiplying by the reciprocal 1/(1-dz) instead rounds twice and gives
// 0.99999999999999989 for many deadzones (0.05, 0.06, 0.09, 0.13, ...): the end stop then transmits 126.
func ruleRescaleExact(c *Ctx, dv *dev, rule string) {
	fn := dv.fn["handleABSEvent"]
	hosts := []*ssa.Function{fn}
	for _, h := range c.P.Funcs {
		if dv.newHelpers()[h] && dv.ownerOf(h) == fn {
			hosts = append(hosts, h)
		}
	}
	pos := c.P.Pos(fn.Pos())
	okSites, bad := 0, ""
	for _, host := range hosts {
		vw := NewFnView(c.P, host)
		isDz := func(v ssa.Value) bool {
			s := vw.Term(v).String()
			return strings.Contains(s, "Deadzones[") || strings.Contains(s, "DefaultDeadzone[") || strings.Contains(s, "call:") && strings.Contains(strings.ToLower(s), "deadzone")
		}
		isOne := func(v ssa.Value) bool {
			k, ok := v.(*ssa.Const)
			if !ok || k.Value == nil {
				return false
			}
			f, _ := constant.Float64Val(constant.ToFloat(k.Value))
			return f == 1
		}
		oneMinusDz := func(v ssa.Value) (ssa.Value, bool) { // (1 - dz) -> dz
			bo, ok := v.(*ssa.BinOp)
			if ok && bo.Op == token.SUB && isOne(bo.X) && (isDz(bo.Y) || host != fn) {
				return bo.Y, true
			}
			return nil, false
		}
		for _, b := range host.Blocks {
			for _, in := range b.Instrs {
				bo, ok := in.(*ssa.BinOp)
				if !ok {
					continue
				}
				if bt, isB := bo.Type().Underlying().(*types.Basic); !isB || bt.Info()&types.IsFloat == 0 {
					continue
				}
				if (bo.Op == token.SUB || bo.Op == token.ADD) && host == fn && isDz(bo.Y) && !isOne(bo.X) {
					// (v -/+ dz): whatever scales it must be the division by (1 - the same dz)
					for _, r := range *bo.Referrers() {
						sc, isSc := r.(*ssa.BinOp)
						if !isSc || (sc.Op != token.MUL && sc.Op != token.QUO) {
							continue
						}
						dz, isDiv := oneMinusDz(sc.Y)
						if !(sc.Op == token.QUO && sc.X == ssa.Value(bo) && isDiv && vw.Term(dz).String() == vw.Term(bo.Y).String()) && bad == "" {
							bad = fmt.Sprintf("the deadzone-shifted value is scaled at %s by something other than a division by (1 - the same deadzone): the end stop does not map to exactly +/-1", c.P.Pos(sc.Pos()))
						}
					}
				}
				switch bo.Op {
				case token.QUO:
					if isOne(bo.X) {
						if _, isRecip := oneMinusDz(bo.Y); isRecip {
							bad = fmt.Sprintf("the shaped value is multiplied by the reciprocal 1/(1 - deadzone) (%s): (1-dz)*(1/(1-dz)) is 0.99999999999999989 for many deadzones, so the physical end stop transmits 126 instead of 127", c.P.Pos(bo.Pos()))
						}
						continue
					}
					if dz, isDiv := oneMinusDz(bo.Y); isDiv {
						// numerator (v -/+ dz) with the same dz
						num, isBO := bo.X.(*ssa.BinOp)
						if isBO && (num.Op == token.SUB || num.Op == token.ADD) && vw.Term(num.Y).String() == vw.Term(dz).String() {
							okSites++
						} else {
							bad = fmt.Sprintf("the division by (1 - deadzone) at %s is not applied to (value -/+ the same deadzone)", c.P.Pos(bo.Pos()))
						}
					}
				}
			}
		}
	}
	if bad == "" && okSites == 0 {
		c.Undec(rule, "device.handleABSEvent/deadzone-rescale-exact-at-end-stops", pos, "no rescale of the form (v -/+ dz) / (1 - dz) found")
		return
	}
	c.Check(bad == "", rule, "device.handleABSEvent/deadzone-rescale-exact-at-end-stops", pos, fmt.Sprintf("%d rescale site(s) of the form (v -/+ dz) / (1 - dz): exactly +/-1 at the end stops", okSites), bad)
}

// rescaleRules: R6.10 alone, for import by C05 (the same structural fact bounds the shaped value by 1 in magnitude).
func rescaleRules(c *Ctx) {
	dv := newDev(c, "R6.0")
	if !dv.ok || dv.fn["handleABSEvent"] == nil {
		return
	}
	ruleRescaleExact(c, dv, "R6.10")
	ruleShiftOnlyUnsigned(c, dv, "R6.11")
}

// ruleShiftOnlyUnsigned: R6.11 the centre shift 2v-1 (which maps the unsigned range [0,1] onto [-1,1]) is applied only where
// the axis is known to be unsigned (minimum >= 0).  Applied to a signed axis, whose position is already in [-1,1], it yields
// [-3,1]: the low end stop leaves the range, the controller byte wraps and the transfer function is no longer monotonic.
func ruleShiftOnlyUnsigned(c *Ctx, dv *dev, rule string) {
	fn := dv.fn["handleABSEvent"]
	hosts := []*ssa.Function{fn}
	for _, h := range c.P.Funcs {
		if dv.newHelpers()[h] && dv.ownerOf(h) == fn {
			hosts = append(hosts, h)
		}
	}
	isConstF := func(v ssa.Value, want float64) bool {
		k, ok := v.(*ssa.Const)
		if !ok || k.Value == nil {
			return false
		}
		f, _ := constant.Float64Val(constant.ToFloat(k.Value))
		return f == want
	}
	isMin := func(v ssa.Value) bool {
		for i := 0; i < 3; i++ {
			if cv, ok := v.(*ssa.Convert); ok {
				v = cv.X
			}
		}
		return isFieldNamed(v, "Minimum")
	}
	// does (v == want) imply minimum >= 0 ?
	var implies func(v ssa.Value, want bool, depth int) bool
	var guardedAt func(b *ssa.BasicBlock, depth int) bool
	edgeImplies := func(pred, to *ssa.BasicBlock, depth int) bool {
		for hop := 0; hop < 4; hop++ {
			if ifi, ok := pred.Instrs[len(pred.Instrs)-1].(*ssa.If); ok {
				if pred.Succs[0] == pred.Succs[1] {
					return false
				}
				return implies(ifi.Cond, pred.Succs[0] == to, depth+1)
			}
			if len(pred.Preds) != 1 {
				return false
			}
			pred, to = pred.Preds[0], pred
		}
		return false
	}
	implies = func(v ssa.Value, want bool, depth int) bool {
		if depth > 12 {
			return false
		}
		switch x := v.(type) {
		case *ssa.UnOp:
			if x.Op == token.NOT {
				return implies(x.X, !want, depth+1)
			}
		case *ssa.BinOp:
			switch {
			case isMin(x.X) && isConstF(x.Y, 0):
				return x.Op == token.LSS && !want || x.Op == token.GEQ && want
			case isMin(x.Y) && isConstF(x.X, 0):
				return x.Op == token.GTR && !want || x.Op == token.LEQ && want
			}
		case *ssa.Parameter:
			// a flag handed to a helper (zoneOf(value, canBeNegative)): what every caller passes
			sites, all := staticCallSites(c.P, x.Parent())
			idx := paramIndex(x)
			if !all || len(sites) == 0 || idx < 0 {
				return false
			}
			for _, cs := range sites {
				if idx >= len(cs.Common().Args) || !implies(cs.Common().Args[idx], want, depth+1) {
					return false
				}
			}
			return true
		case *ssa.Extract, *ssa.Call:
			// the flag computed by a stage function (value, canBeNegative := d.analogPosition(...)): every return of it
			rets, ok := helperReturns(c.P, x)
			if !ok {
				return false
			}
			for _, r := range rets {
				if !implies(r, want, depth+1) {
					return false
				}
			}
			return true
		case *ssa.Phi:
			// every edge that can deliver the wanted value must imply it: by the value it delivers, by the branch the
			// edge leaves, or by the conditions under which its source block runs at all (a && b built as a value)
			for i, e := range x.Edges {
				pred := x.Block().Preds[i]
				if k, ok := e.(*ssa.Const); ok && k.Value != nil && k.Value.Kind() == constant.Bool {
					if constant.BoolVal(k.Value) != want {
						continue // this edge cannot produce the wanted value
					}
					if !edgeImplies(pred, x.Block(), depth) && !guardedAt(pred, depth+1) {
						return false
					}
					continue
				}
				if !implies(e, want, depth+1) && !guardedAt(pred, depth+1) {
					return false
				}
			}
			return true
		}
		return false
	}
	views := map[*ssa.Function]*FnView{}
	guardedAt = func(b *ssa.BasicBlock, depth int) bool {
		if depth > 12 {
			return false
		}
		vw := views[b.Parent()]
		if vw == nil {
			vw = NewFnView(c.P, b.Parent())
			views[b.Parent()] = vw
		}
		for _, a := range vw.GuardsAt(b) {
			if a.Instr != nil && implies(a.Instr.Cond, a.Taken, depth+1) {
				return true
			}
		}
		return false
	}
	guarded := func(_ *FnView, b *ssa.BasicBlock) bool { return guardedAt(b, 0) }
	pos := c.P.Pos(fn.Pos())
	n, bad := 0, ""
	nKeyShift, keyShiftBad := 0, ""
	keyRegion := map[*ssa.BasicBlock]bool{}
	for _, tn := range []string{"AnalogKeySim", "AnalogActionSim"} {
		if tv, ok := c.P.constString(pkgConfig, tn); ok {
			for b := range caseRegion(fn, dv, tv) {
				keyRegion[b] = true
			}
		}
	}
	defer func() {
		if nKeyShift > 0 {
			c.Check(keyShiftBad == "", "R6.19", "device.handleABSEvent/emulation-shift-depends-on-the-range-only", pos, fmt.Sprintf("%d conversion(s) 2v-1 in the emulation cases, each conditioned on the range flag alone", nKeyShift), keyShiftBad)
		} else {
			c.Trivial("R6.19", "device.handleABSEvent/emulation-shift-depends-on-the-range-only", pos, "no conversion 2v-1 inside the emulation cases themselves (it happens before the switch or in a helper): judged by R6.11 and the region template R8.1")
		}
	}()
	fnView := NewFnView(c.P, fn)
	for _, host := range hosts {
		vw := NewFnView(c.P, host)
		for _, b := range host.Blocks {
			for _, in := range b.Instrs {
				sub, ok := in.(*ssa.BinOp)
				if !ok || sub.Op != token.SUB || !isConstF(sub.Y, 1) {
					continue
				}
				mul, ok := sub.X.(*ssa.BinOp)
				if !ok || mul.Op != token.MUL || !(isConstF(mul.X, 2) || isConstF(mul.Y, 2)) {
					continue
				}
				if bt, isB := sub.Type().Underlying().(*types.Basic); !isB || bt.Info()&types.IsFloat == 0 {
					continue
				}
				n++
				// R6.19 inside the key-emulation (and action) case the conversion 2v-1 is what brings an unsigned position into the
				// range the thresholds are written for: there it depends on the range alone, no further condition (a "triggers
				// only have one key" exception leaves an unsigned stick at +0.5 at rest)
				calledFromKeyRegion := false
				if host != fn {
					if sites, all := staticCallSites(c.P, host); all {
						for _, cs := range sites {
							if cs.Parent() == fn && keyRegion[cs.Block()] {
								calledFromKeyRegion = true
							}
						}
					}
				}
				if calledFromKeyRegion {
					// the conversion lives in a helper the emulation case calls (`pos.bipolar()`): inside the helper it may depend
					// on the range flag it was handed, and on nothing else
					nKeyShift++
					for _, a := range vw.GuardsAt(b) {
						if a.Instr != nil && !implies(a.Instr.Cond, a.Taken, 0) && !loadsField(condOperandAny(a.Instr.Cond)) && keyShiftBad == "" {
							keyShiftBad = fmt.Sprintf("the conversion 2v-1 at %s, used by the emulation case, is applied under a condition (%s) that is not the range being unsigned", c.P.Pos(sub.Pos()), truncate(a.Cond.String(), 80))
						}
					}
				}
				if host == fn && keyRegion[b] {
					nKeyShift++
					for _, a := range vw.GuardsAt(b) {
						if a.Instr == nil || !keyRegion[a.Instr.Block()] || len(b.Succs) != 1 {
							continue
						}
						// only conditions whose other branch goes on to the thresholds without the conversion count (not an early
						// return in front of the whole case)
						gb := a.Instr.Block()
						other := gb.Succs[1]
						if !a.Taken {
							other = gb.Succs[0]
						}
						if other != b.Succs[0] && !reaches(other, b.Succs[0], b) {
							continue
						}
						if !implies(a.Instr.Cond, a.Taken, 0) && keyShiftBad == "" {
							keyShiftBad = fmt.Sprintf("the conversion 2v-1 at %s in the emulation case is applied under a further condition (%s) besides the range being unsigned: unsigned positions it skips meet thresholds written for -1..1", c.P.Pos(sub.Pos()), truncate(a.Cond.String(), 80))
						}
					}
				}
				ok = guarded(vw, b)
				if !ok && host != fn {
					// a helper: every call from the handler must be guarded
					sites, all := staticCallSites(c.P, host)
					ok = all && len(sites) > 0
					for _, cs := range sites {
						if cs.Parent() != fn || !guarded(fnView, cs.Block()) {
							ok = false
						}
					}
				}
				if !ok && (loadsField(mul.X) || loadsField(mul.Y)) {
					// the position (and its range flag) travels in a small struct: no def-use chain from the flag to the range,
					// but the path engine keeps such memory apart, so the shift and the test of the range are explicit on its paths
					pfacts := pathShiftFlipFacts(c, dv)
					ok = pfacts.nShift > 0 && pfacts.badShift == ""
				}
				if !ok && bad == "" {
					bad = fmt.Sprintf("the centre shift 2v-1 at %s is applied without the axis being known to be unsigned (minimum >= 0): on a signed axis (position already in [-1,1]) it yields [-3,1] - with deadzone_at_center on a stick the low end stop leaves the MIDI range and the transfer function is not monotonic", c.P.Pos(sub.Pos()))
				}
			}
		}
	}
	if n == 0 {
		c.Trivial(rule, "device.handleABSEvent/centre-shift-only-on-unsigned-axes", pos, "no centre shift 2v-1 in the handler")
		return
	}
	c.Check(bad == "", rule, "device.handleABSEvent/centre-shift-only-on-unsigned-axes", pos, fmt.Sprintf("%d centre shift(s) 2v-1, each guarded by a condition that implies minimum >= 0", n), bad)

	// R6.13 the unsigned flip `1 - v` mirrors a position in [0,1]; it is applied only where the position is known to be in
	// that range: the axis is unsigned (minimum >= 0) AND the centre shift, which moves the position to [-1,1], was not
	// applied on the way.  The second part can only be known through a flag that is set where the shift is applied
	// (canBeNegative): a test of the sign of the range alone does not say it.
	shiftBlocks := map[*ssa.BasicBlock]bool{}
	var flips []*ssa.BinOp
	var hostBlocks []*ssa.BasicBlock
	for _, h := range hosts {
		hostBlocks = append(hostBlocks, h.Blocks...)
	}
	for _, b := range hostBlocks {
		for _, in := range b.Instrs {
			bo, ok := in.(*ssa.BinOp)
			if !ok || bo.Op != token.SUB {
				continue
			}
			if bt, isB := bo.Type().Underlying().(*types.Basic); !isB || bt.Info()&types.IsFloat == 0 {
				continue
			}
			if mul, ok := bo.X.(*ssa.BinOp); ok && isConstF(bo.Y, 1) && mul.Op == token.MUL && (isConstF(mul.X, 2) || isConstF(mul.Y, 2)) {
				shiftBlocks[b] = true
				continue
			}
			if isConstF(bo.X, 1) {
				if _, yConst := bo.Y.(*ssa.Const); yConst {
					continue
				}
				// 1 - deadzone: used as a divisor only
				divisorOnly := len(*bo.Referrers()) > 0
				for _, r := range *bo.Referrers() {
					if q, ok := r.(*ssa.BinOp); !ok || q.Op != token.QUO || q.Y != ssa.Value(bo) {
						divisorOnly = false
					}
				}
				if divisorOnly {
					continue
				}
				flips = append(flips, bo)
			}
		}
	}
	reachesFromShift := func(p *ssa.BasicBlock) bool {
		for s := range shiftBlocks {
			if s == p || reaches(s, p, nil) {
				return true
			}
		}
		return false
	}
	var noShift func(v ssa.Value, want bool, depth int) bool
	noShift = func(v ssa.Value, want bool, depth int) bool {
		if depth > 8 {
			return false
		}
		switch x := v.(type) {
		case *ssa.UnOp:
			if x.Op == token.NOT {
				return noShift(x.X, !want, depth+1)
			}
		case *ssa.Parameter:
			sites, all := staticCallSites(c.P, x.Parent())
			idx := paramIndex(x)
			if !all || len(sites) == 0 || idx < 0 {
				return false
			}
			for _, cs := range sites {
				if idx >= len(cs.Common().Args) || !noShift(cs.Common().Args[idx], want, depth+1) {
					return false
				}
			}
			return true
		case *ssa.Extract, *ssa.Call:
			rets, ok := helperReturns(c.P, x)
			if !ok {
				return false
			}
			for _, r := range rets {
				if !noShift(r, want, depth+1) {
					return false
				}
			}
			return true
		case *ssa.Phi:
			for i, e := range x.Edges {
				if k, ok := e.(*ssa.Const); ok && k.Value != nil && k.Value.Kind() == constant.Bool && constant.BoolVal(k.Value) != want {
					continue // this edge cannot deliver the wanted value
				}
				if reachesFromShift(x.Block().Preds[i]) {
					return false
				}
			}
			return true
		}
		return false
	}
	flipBad := ""
	for _, fl := range flips {
		// only flips that the shift can precede
		relevant := false
		for s := range shiftBlocks {
			if s.Parent() != fl.Parent() || reaches(s, fl.Block(), nil) {
				relevant = true // (a shift in an earlier stage function precedes the flip of a later one)
			}
		}
		if !relevant {
			continue
		}
		unsignedOK, noShiftOK := false, false
		var flagVals []ssa.Value // the tested values that say "no shift was applied"
		for _, a := range NewFnView(c.P, fl.Parent()).GuardsAt(fl.Block()) {
			if a.Instr == nil {
				continue
			}
			if implies(a.Instr.Cond, a.Taken, 0) {
				unsignedOK = true
			}
			if noShift(a.Instr.Cond, a.Taken, 0) {
				noShiftOK = true
				fv := ssa.Value(a.Instr.Cond)
				for {
					u, ok := fv.(*ssa.UnOp)
					if !ok || u.Op != token.NOT {
						break
					}
					fv = u.X
				}
				flagVals = append(flagVals, fv)
			}
		}
		// a shift made after the flag was computed is not recorded in it: unless the shift's own guards exclude the
		// flip's, it reaches the flip unnoticed (a conversion `if !canBeNegative { v = 2v-1 }` put in front of the flip)
		if unsignedOK && noShiftOK {
			rootPol := func(b *ssa.BasicBlock) map[string]bool {
				out := map[string]bool{}
				vw := NewFnView(c.P, b.Parent())
				var add func(v ssa.Value, pol bool, depth int)
				add = func(v ssa.Value, pol bool, depth int) {
					for {
						u, ok := v.(*ssa.UnOp)
						if !ok || u.Op != token.NOT {
							break
						}
						v, pol = u.X, !pol
					}
					// `a || b` / `a && b`: a phi of a constant (from the block that tested a) and b; when the phi's value
					// differs from the constant, b has that value and a went the way that did not select the constant
					if phi, ok := v.(*ssa.Phi); ok && depth < 4 {
						var rest []ssa.Value
						okShape := true
						var tests []struct {
							cond ssa.Value
							pol  bool
						}
						for i, e := range phi.Edges {
							k, isK := e.(*ssa.Const)
							if !isK || k.Value == nil || k.Value.Kind() != constant.Bool {
								rest = append(rest, e)
								continue
							}
							if constant.BoolVal(k.Value) == pol {
								okShape = false // this edge can deliver the value: nothing follows
								continue
							}
							pr := phi.Block().Preds[i]
							if ifi, isIf := pr.Instrs[len(pr.Instrs)-1].(*ssa.If); isIf {
								tests = append(tests, struct {
									cond ssa.Value
									pol  bool
								}{ifi.Cond, pr.Succs[0] != phi.Block()})
							}
						}
						if okShape && len(rest) == 1 {
							add(rest[0], pol, depth+1)
							for _, t := range tests {
								add(t.cond, t.pol, depth+1)
							}
							return
						}
					}
					out[vw.Term(v).String()] = pol
				}
				for _, a := range vw.GuardsAt(b) {
					if a.Instr == nil {
						continue
					}
					add(a.Instr.Cond, a.Taken, 0)
				}
				return out
			}
			flipG := rootPol(fl.Block())
			for sb := range shiftBlocks {
				if sb.Parent() != fl.Parent() || sb == fl.Block() || !reaches(sb, fl.Block(), nil) {
					continue
				}
				recorded := false // does a flag the flip tests get (re)defined at or after the shift?
				for _, v := range flagVals {
					if in, ok := v.(ssa.Instruction); ok && (in.Block() == sb || reaches(sb, in.Block(), nil)) {
						recorded = true
					}
				}
				if recorded {
					continue
				}
				exclusive := false
				for v, pol := range rootPol(sb) {
					if fp, ok := flipG[v]; ok && fp != pol {
						exclusive = true
					}
				}
				if !exclusive {
					noShiftOK = false
				}
			}
		}
		if !(unsignedOK && noShiftOK) && loadsField(fl.Y) {
			if pfacts := pathShiftFlipFacts(c, dv); pfacts.nFlip > 0 && pfacts.badFlip == "" {
				unsignedOK, noShiftOK = true, true
			}
		}
		if !(unsignedOK && noShiftOK) && flipBad == "" {
			flipBad = fmt.Sprintf("the unsigned flip 1 - v at %s is not guarded by a condition that excludes the centre shift (unsigned range known: %v, centre shift excluded: %v): an unsigned axis with deadzone_at_center works in [-1,1] after the shift, 1 - v then yields [0,2] - controller bytes above 127, wrapped pitch bend, misplaced end stops", c.P.Pos(fl.Pos()), unsignedOK, noShiftOK)
		}
	}
	if len(flips) > 0 {
		c.Check(flipBad == "", "R6.13", "device.handleABSEvent/unsigned-flip-only-on-an-unshifted-unsigned-position", pos, fmt.Sprintf("%d flip site(s) of the form 1 - v checked", len(flips)), flipBad)
	}
}

// condOperandAny: the value a condition tests, through negations (the flag of `if !p.signed`).
func condOperandAny(v ssa.Value) ssa.Value {
	for {
		u, ok := v.(*ssa.UnOp)
		if !ok || u.Op != token.NOT {
			return v
		}
		v = u.X
	}
}

func loadsField(v ssa.Value) bool {
	ld, ok := v.(*ssa.UnOp)
	if !ok || ld.Op != token.MUL {
		return false
	}
	_, isField := ld.X.(*ssa.FieldAddr)
	return isField
}

type shiftFlipFacts struct {
	nShift, nFlip     int
	badShift, badFlip string
}

// pathShiftFlipFacts: decided on the paths of the handler, for positions carried in memory (which the path engine never
// merges): every occurrence of the centre shift 2N-1 of the normalised position N lies on a path that has found the
// range unsigned (Minimum >= 0), and every unsigned flip 1-P mirrors a P that contains no centre shift, on such a path.
func pathShiftFlipFacts(c *Ctx, dv *dev) shiftFlipFacts {
	var f shiftFlipFacts
	paths, err := absPaths(c, dv)
	if err != nil {
		f.badShift, f.badFlip = fmt.Sprint(err), fmt.Sprint(err)
		return f
	}
	isK := func(t *Term, want float64) bool {
		k, ok := t.IsConst()
		if !ok || (k.Kind() != constant.Float && k.Kind() != constant.Int) {
			return false
		}
		v, _ := constant.Float64Val(constant.ToFloat(k))
		return v == want
	}
	isPos := func(t *Term) bool { return strings.Contains(t.String(), "AbsInfos[") }
	isShift := func(x *Term) bool {
		if x.Op != "binop" || x.Aux != "-" || len(x.Args) != 2 || !isK(x.Args[1], 1) {
			return false
		}
		m := x.Args[0]
		if m.Op != "binop" || m.Aux != "*" || len(m.Args) != 2 {
			return false
		}
		return isK(m.Args[1], 2) && isPos(m.Args[0]) || isK(m.Args[0], 2) && isPos(m.Args[1])
	}
	for _, p := range paths {
		unsignedKnown := false
		for _, a := range p.Atoms {
			op, x, y, ok := normAtom(a)
			if !ok {
				continue
			}
			if _, xc := x.IsConst(); xc {
				x, y, op = y, x, flipOp(op)
			}
			if isK(y, 0) && strings.HasSuffix(x.StripConv().String(), ".Minimum") && op == ">=" {
				unsignedKnown = true
			}
		}
		var terms []*Term
		for _, a := range p.Atoms {
			terms = append(terms, a.Cond)
		}
		for _, e := range p.Effects {
			terms = append(terms, e.Args...)
		}
		for _, t := range terms {
			if t == nil {
				continue
			}
			t.Walk(func(x *Term) bool {
				if isShift(x) {
					f.nShift++
					if !unsignedKnown && f.badShift == "" {
						f.badShift = "a path applies the centre shift without having found the range unsigned: " + truncate(x.String(), 120)
					}
				}
				if x.Op == "binop" && x.Aux == "-" && len(x.Args) == 2 && isK(x.Args[0], 1) && isPos(x.Args[1]) {
					f.nFlip++
					shifted := false
					x.Args[1].Walk(func(y *Term) bool {
						if isShift(y) {
							shifted = true
						}
						return true
					})
					if (!unsignedKnown || shifted) && f.badFlip == "" {
						f.badFlip = "a path mirrors a position with 1 - v that is not known to be in [0,1]: " + truncate(x.String(), 120)
					}
				}
				return true
			})
		}
	}
	return f
}

// rangeLeaves: the map lookups that can supply the struct whose field the divisor v reads (through math.Abs, conversions,
// a spilled local assigned on several paths, phis and comma-ok extracts).
func rangeLeaves(v ssa.Value) []ssa.Value {
	var out []ssa.Value
	seen := map[ssa.Value]bool{}
	var rec func(v ssa.Value, depth int)
	rec = func(v ssa.Value, depth int) {
		if v == nil || seen[v] || depth > 12 {
			return
		}
		seen[v] = true
		switch x := v.(type) {
		case *ssa.Call:
			for _, a := range x.Call.Args {
				rec(a, depth+1)
			}
		case *ssa.Convert:
			rec(x.X, depth+1)
		case *ssa.ChangeType:
			rec(x.X, depth+1)
		case *ssa.BinOp:
			rec(x.X, depth+1)
			rec(x.Y, depth+1)
		case *ssa.Field:
			rec(x.X, depth+1)
		case *ssa.FieldAddr:
			rec(x.X, depth+1)
		case *ssa.UnOp:
			rec(x.X, depth+1)
		case *ssa.Phi:
			for _, e := range x.Edges {
				rec(e, depth+1)
			}
		case *ssa.Extract:
			rec(x.Tuple, depth+1)
		case *ssa.Parameter:
			// the range handed to a helper (axis.Normalize(raw, info.Minimum, info.Maximum)): what its call sites pass
			if sites, ok := staticCallSitesAny(x.Parent()); ok {
				idx := paramIndex(x)
				for _, cs := range sites {
					if idx >= 0 && idx < len(cs.Common().Args) {
						rec(cs.Common().Args[idx], depth+1)
					}
				}
			}
		case *ssa.Lookup:
			out = append(out, x)
		case *ssa.Alloc:
			if refs := x.Referrers(); refs != nil {
				for _, r := range *refs {
					if st, ok := r.(*ssa.Store); ok && st.Addr == ssa.Value(x) {
						rec(st.Val, depth+1)
					}
				}
			}
		}
	}
	rec(v, 0)
	return out
}

// staticCallSitesAny: the static call sites of fn found through its referrers-free scan of the whole program (fn's own
// program is reached through its package).
func staticCallSitesAny(fn *ssa.Function) ([]ssa.CallInstruction, bool) {
	if fn == nil || fn.Prog == nil {
		return nil, false
	}
	var out []ssa.CallInstruction
	for _, pkg := range fn.Prog.AllPackages() {
		for _, m := range pkg.Members {
			f, ok := m.(*ssa.Function)
			if !ok {
				if t, isT := m.(*ssa.Type); isT {
					for _, typ := range []types.Type{t.Type(), types.NewPointer(t.Type())} {
						ms := fn.Prog.MethodSets.MethodSet(typ)
						for i := 0; i < ms.Len(); i++ {
							if mf := fn.Prog.MethodValue(ms.At(i)); mf != nil {
								out = append(out, callsTo(mf, fn)...)
							}
						}
					}
				}
				continue
			}
			out = append(out, callsTo(f, fn)...)
		}
	}
	return out, len(out) > 0
}

func callsTo(in *ssa.Function, target *ssa.Function) []ssa.CallInstruction {
	var out []ssa.CallInstruction
	var scan func(f *ssa.Function)
	scan = func(f *ssa.Function) {
		for _, b := range f.Blocks {
			for _, i := range b.Instrs {
				if ci, ok := i.(ssa.CallInstruction); ok && ci.Common().StaticCallee() == target {
					out = append(out, ci)
				}
			}
		}
		for _, af := range f.AnonFuncs {
			scan(af)
		}
	}
	scan(in)
	return out
}

// ruleNoStaleRangeFlag: R6.18. The centre shift moves an unsigned position from [0,1] to [-1,1], and the handler keeps the
// range in a flag that the shift sets (`canBeNegative = true`). What was decided from the flag's value *before* the shift
// - a bound to clamp with, a sign to expect - describes coordinates the position no longer has: nothing decided by the old
// value may be used once the shift has happened.
func ruleNoStaleRangeFlag(c *Ctx, dv *dev, rule string) {
	fn := dv.fn["handleABSEvent"]
	key := "device.handleABSEvent/no-range-decision-from-before-the-centre-shift"
	pos := c.P.Pos(fn.Pos())
	isConstF := func(v ssa.Value, want float64) bool {
		k, ok := v.(*ssa.Const)
		if !ok || k.Value == nil {
			return false
		}
		f, _ := constant.Float64Val(constant.ToFloat(k.Value))
		return f == want
	}
	n, bad := 0, ""
	for _, host := range dv.hostsOf(fn) {
		for _, b := range host.Blocks {
			for _, in := range b.Instrs {
				sub, ok := in.(*ssa.BinOp)
				if !ok || sub.Op != token.SUB || !isConstF(sub.Y, 1) {
					continue
				}
				mul, ok := sub.X.(*ssa.BinOp)
				if !ok || mul.Op != token.MUL || !(isConstF(mul.X, 2) || isConstF(mul.Y, 2)) {
					continue
				}
				// the flag phi: merges the constant true set beside the shift with the flag's earlier value
				for _, j := range host.Blocks {
					for _, pin := range j.Instrs {
						y, isPhi := pin.(*ssa.Phi)
						if !isPhi {
							break
						}
						if bt, isB := y.Type().Underlying().(*types.Basic); !isB || bt.Info()&types.IsBoolean == 0 {
							continue
						}
						var old ssa.Value
						set := false
						for i, e := range y.Edges {
							pred := j.Preds[i]
							if k, isK := e.(*ssa.Const); isK && k.Value != nil && k.Value.Kind() == constant.Bool && constant.BoolVal(k.Value) && (pred == b || b.Dominates(pred)) {
								set = true
							} else {
								old = e
							}
						}
						if !set || old == nil {
							continue
						}
						n++
						if why := staleUses(c, old, y, j); why != "" && bad == "" {
							bad = why
						}
					}
				}
			}
		}
	}
	if n == 0 {
		c.Trivial(rule, key, pos, "no range flag that the centre shift sets")
		return
	}
	c.Check(bad == "", rule, key, pos, fmt.Sprintf("%d range flag(s) set by the centre shift; nothing decided by the earlier value is used afterwards", n), bad)
}

// staleUses: old is the flag before the shift, y the flag after it (defined in block j). A branch on old behind j, or a
// value chosen by a branch on old (a phi at the join of such a branch) that is used behind j, is a stale decision.
func staleUses(c *Ctx, old ssa.Value, y *ssa.Phi, j *ssa.BasicBlock) string {
	if old.Referrers() == nil {
		return ""
	}
	after := func(b *ssa.BasicBlock) bool { return b == j || j.Dominates(b) }
	var conds []ssa.Value
	conds = append(conds, old)
	for i := 0; i < len(conds); i++ {
		if conds[i].Referrers() == nil {
			continue
		}
		for _, r := range *conds[i].Referrers() {
			if u, ok := r.(*ssa.UnOp); ok && u.Op == token.NOT {
				conds = append(conds, u)
			}
		}
	}
	for _, cv := range conds {
		for _, r := range *cv.Referrers() {
			ifi, ok := r.(*ssa.If)
			if !ok {
				continue
			}
			hb := ifi.Block()
			if after(hb) && hb != j {
				return fmt.Sprintf("the range flag from before the centre shift is tested again at %s, after the shift has set it", c.P.Pos(ifi.Pos()))
			}
			// values chosen by this branch
			for _, jb := range hb.Parent().Blocks {
				if jb.Idom() != hb || len(jb.Preds) < 2 {
					continue
				}
				for _, pin := range jb.Instrs {
					p, isPhi := pin.(*ssa.Phi)
					if !isPhi {
						break
					}
					if p == y || p.Referrers() == nil {
						continue
					}
					for _, use := range *p.Referrers() {
						if _, isDbg := use.(*ssa.DebugRef); isDbg {
							continue
						}
						if use.Block() != nil && after(use.Block()) && !(use.Block() == j && isPhiInstr(use)) {
							return fmt.Sprintf("%s, chosen at %s by the range flag as it was before the centre shift, is used at %s after the shift: it describes the range [0,1] for a position that is in [-1,1] by then (a clamp bound, a sign expectation)", p.Comment, c.P.Pos(ifi.Pos()), c.P.Pos(use.Pos()))
						}
					}
				}
			}
		}
	}
	return ""
}

func isPhiInstr(in ssa.Instruction) bool { _, ok := in.(*ssa.Phi); return ok }
