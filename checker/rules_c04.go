package main

import (
	"fmt"
	"go/types"
	"sort"
	"strings"

	"golang.org/x/tools/go/ssa"
)

func init() {
	registry["C04"] = checkC04
}

func checkC04(c *Ctx) {
	dv := newDev(c, "R4.0")
	if !dv.ok || !dv.need("R4.0", []string{"NoteOn", "AnalogNoteOn", "NewDevice", "checkDoubleActions", "handleKEYEvent",
		"OctaveUp", "OctaveDown", "OctaveReset", "SemitoneUp", "SemitoneDown", "SemitoneReset", "ChannelUp", "ChannelDown", "ChannelReset", "MappingUp", "MappingDown", "MappingReset"},
		[]string{"octave", "semitone", "channel", "mapping", "velocity", "actionTracker", "outputEvents", "config"}) {
		return
	}
	ruleNoteArithmetic(c, dv, "NoteOn", "noteTracker", true)
	ruleNoteArithmetic(c, dv, "AnalogNoteOn", "analogNoteTracker", false)
	ruleVelocityWriters(c, dv)
	ruleStateActions(c, dv)
	at := readActionTable(c, dv, "R4.7")
	if c.Require(at.ok, "R4.7", "device.NewDevice/action-table", "action table not found") {
		rulePairReset(c, dv, at)
		rulePressProtocol(c, dv)
	}
	ruleDefaultsInitial(c, dv)
	c.importRules(configIntactRules, []string{"R3.7"}, "R4.11") // defaults, action keys and mappings are read from an unmodified copy of the parsed configuration
	c.MinCount("R4.1", 2)
	c.MinCount("R4.2", 2)
	c.MinCount("R4.3", 2)
	c.MinCount("R4.4", 2)
	c.MinCount("R4.6", 12)
	if pf := newParserFacts(c); pf.err == nil { // "the configured defaults are the initial state": Defaults.* come from exactly the defaults.* fields
		ruleFieldCorrespondenceFor(c, pf, tomlLeaves(c), "R4.8b", func(dest string) bool { return strings.HasPrefix(dest, "Defaults.") })
	}
	c.importRules(emulationReachRules, []string{"R8.9a"}, "R4.10") // an action emulated by an axis always sees its release: a swallowed release leaves the action tracked and the next opposite press is taken for a pair
	ruleAxisNoSelfPair(c, dv, "R4.12")                             // an axis flicked from one side to the other moves its parameter by one: it is not a pair with itself
	ruleDispatch(c, dv, "R4.9", true, false)                       // an action key press that never reaches the key handler changes nothing
	c.MinCount("R4.7", 4)
	c.MinCount("R4.8", 5)
	c.DecidedClause("the pitch compared with 0..127 in NoteOn/AnalogNoteOn is the affine form base + 12*octave + semitone computed in int (no 8/16-bit intermediate), every emission is guarded by that value being in [0,127], the channel is (channel + offset) mod 16 and key presses use the configured velocity")
	c.DecidedClause("each up/down action stores exactly load±1 of its own field, channel and mapping stores are guarded so they saturate at the ends, resets store the neutral constant, the pair table of checkDoubleActions matches up/down writers with their reset, and NewDevice initialises the five parameters from Defaults")
	c.UndecidedClause("'no third action while a pair is held' is assumed as in the quantifier")
	c.Assumption("Defaults.Channel in [1,16] and Defaults.Mapping a valid index are established by the parser (C10)")
}

// onPaths returns the note paths that emit a Note On.
func onEvent(np *notePath) (midiEvent, Effect, bool) {
	for i, s := range np.Sends {
		if s.ok && s.Kind == midiNoteOn {
			return s, np.SendEffects[i], true
		}
	}
	return midiEvent{}, Effect{}, false
}

func ruleNoteArithmetic(c *Ctx, dv *dev, fnName, tracker string, isKey bool) {
	m := dv.noteModel(fnName, tracker)
	if !c.Require(m.err == nil, "R4.1", "device."+fnName, fmt.Sprint(m.err)) {
		return
	}
	type res struct {
		ok  bool
		msg string
		pos string
	}
	agg := map[string]*res{}
	set := func(rule, msg string, ok bool, pos string) {
		k := rule
		if a := agg[k]; a == nil || (a.ok && !ok) {
			agg[k] = &res{ok, msg, pos}
		}
	}
	n := 0
	for _, np := range m.paths {
		ev, eff, ok := onEvent(np)
		if !ok {
			continue
		}
		n++
		pos := c.P.Pos(eff.Instr.Pos())
		note := ev.B1
		calc := note
		if note.Op == "convert" {
			calc = note.Args[0]
		}
		// R4.1 arithmetic width
		var narrow *Term
		calc.Walk(func(t *Term) bool {
			if t.Op == "binop" && (t.Aux == "+" || t.Aux == "-" || t.Aux == "*") && isNarrow(t.Type) {
				narrow = t
			}
			return true
		})
		if narrow != nil {
			set("R4.1", fmt.Sprintf("the pitch %s contains %s computed at type %s: it wraps for reachable octave/semitone values (e.g. octave 11: 11*12 = 132 -> -124), so an out-of-range sum can come back into 0..127 and sound a wrong note instead of staying silent", calc, narrow, narrow.Type), false, pos)
		} else {
			set("R4.1", "no +,-,* at an 8/16-bit type inside "+calc.String(), true, pos)
		}
		// R4.2 affine form
		l := linearize(calc)
		if !l.ok {
			set("R4.2", "pitch is not an affine form over int: "+l.why, false, pos)
		} else {
			want := map[string]int64{}
			bad := ""
			for k, coef := range l.coef {
				t := l.terms[k]
				switch {
				case dv.isFieldLoad(t, "octave"):
					want["octave"] += coef
				case dv.isFieldLoad(t, "semitone"):
					want["semitone"] += coef
				case isKey && (t.Op == "field" || t.Op == "load") && strings.HasSuffix(k, ".Note"):
					want["base"] += coef
				case !isKey && t.Op == "param":
					want["base"] += coef
				default:
					bad = "unexpected operand " + k
				}
			}
			if bad == "" && (want["octave"] != 12 || want["semitone"] != 1 || want["base"] != 1 || l.k != 0) {
				bad = fmt.Sprintf("coefficients base=%d octave=%d semitone=%d const=%d, expected 1/12/1/0", want["base"], want["octave"], want["semitone"], l.k)
			}
			if bad != "" {
				set("R4.2", "pitch formula is "+l.String()+": "+bad, false, pos)
			} else {
				set("R4.2", "pitch = base + 12*octave + semitone ("+l.String()+")", true, pos)
			}
		}
		// R4.3 range guard
		b := boundsOf(np.P.Atoms, calc.String())
		if b.hasLo && b.hasHi && b.lo >= 0 && b.hi <= 127 {
			set("R4.3", "emission guarded by pitch in "+b.String(), true, pos)
		} else {
			set("R4.3", fmt.Sprintf("a Note On is emitted on a path where the pitch is only known to be in %s (must be within [0,127])", b), false, pos)
		}
		if note.Op != "convert" && note != calc {
			set("R4.3", "note byte is not the narrowed pitch", false, pos)
		}
		// R4.4 channel formula
		set("R4.4", channelFormula(dv, ev.Channel, isKey), channelFormula(dv, ev.Channel, isKey) == "", pos)
		// R4.5 velocity
		if isKey {
			if dv.isFieldLoad(ev.B2, "velocity") {
				set("R4.5", "velocity byte is Device.velocity", true, pos)
			} else {
				set("R4.5", "Note On velocity is "+ev.B2.String()+", not the configured velocity", false, pos)
			}
		}
	}
	if !c.Require(n > 0, "R4.1", "device."+fnName+"/note-on-paths", "no path emitting a Note On found") {
		return
	}
	var ks []string
	for k := range agg {
		ks = append(ks, k)
	}
	sort.Strings(ks)
	for _, rule := range ks {
		a := agg[rule]
		key := "device." + fnName + "/" + map[string]string{"R4.1": "pitch-arithmetic-width", "R4.2": "pitch-affine-form", "R4.3": "pitch-range-guard", "R4.4": "channel-formula", "R4.5": "velocity"}[rule]
		if a.ok {
			msg := a.msg
			if rule == "R4.4" {
				msg = "channel = (Device.channel + offset) mod 16"
			}
			c.OK(rule, key, a.pos, msg)
		} else {
			c.Bad(rule, key, a.pos, a.msg)
		}
	}
}

// channelFormula returns "" when ch is (d.channel + <offset>) % 16 (or & 15), else a diagnosis.
func channelFormula(dv *dev, ch *Term, isKey bool) string {
	if ch == nil {
		return "event without channel operand"
	}
	t := ch.StripConv()
	if t.Op != "binop" {
		return "channel operand is " + ch.String() + ", expected (channel + offset) % 16"
	}
	k, ok := t.Args[1].IsIntConst()
	if !((t.Aux == "%" && ok && k == 16) || (t.Aux == "&" && ok && k == 15)) {
		return "channel operand " + ch.String() + " is not reduced modulo 16"
	}
	sum := t.Args[0].StripConv()
	if sum.Op != "binop" || sum.Aux != "+" {
		return "channel operand " + ch.String() + " is not a sum of current channel and offset"
	}
	a, b := sum.Args[0].StripConv(), sum.Args[1].StripConv()
	if !dv.isFieldLoad(a, "channel") {
		a, b = b, a
	}
	if !dv.isFieldLoad(a, "channel") {
		return "channel operand " + ch.String() + " does not use Device.channel"
	}
	if isKey {
		if !((b.Op == "field" || b.Op == "load") && strings.HasSuffix(b.String(), ".ChannelOffset")) {
			return "offset operand " + b.String() + " is not the mapped key's ChannelOffset"
		}
	} else if b.Op != "param" {
		return "offset operand " + b.String() + " is not the channelOffset parameter"
	}
	return ""
}

func ruleVelocityWriters(c *Ctx, dv *dev) {
	sites := storesToField(c.P, dv.fields["velocity"])
	for _, s := range sites {
		key := "store(Device.velocity)@" + shortFn(s.Fn)
		if s.Fn == dv.fn["NewDevice"] {
			c.OK("R4.5", key, c.P.Pos(s.Instr.Pos()), "initialised in NewDevice")
		} else {
			c.Bad("R4.5", key, c.P.Pos(s.Instr.Pos()), "velocity is written outside NewDevice")
		}
	}
}

func storesToField(p *Program, f *types.Var) []writeSite {
	var out []writeSite
	for _, fn := range p.Funcs {
		for _, b := range fn.Blocks {
			for _, in := range b.Instrs {
				if st, ok := in.(*ssa.Store); ok && fieldOfAddr(st.Addr) == f {
					out = append(out, writeSite{fn, in, "store"})
				}
			}
		}
	}
	return out
}

type actionSpec struct {
	fn, field string
	delta     int64  // +1, -1, 0 = reset
	saturate  string // "", "hi15", "lo0", "hiLen"
}

var stateActionSpecs = []actionSpec{
	{"OctaveUp", "octave", +1, ""}, {"OctaveDown", "octave", -1, ""}, {"OctaveReset", "octave", 0, ""},
	{"SemitoneUp", "semitone", +1, ""}, {"SemitoneDown", "semitone", -1, ""}, {"SemitoneReset", "semitone", 0, ""},
	{"ChannelUp", "channel", +1, "hi15"}, {"ChannelDown", "channel", -1, "lo0"}, {"ChannelReset", "channel", 0, ""},
	{"MappingUp", "mapping", +1, "hiLen"}, {"MappingDown", "mapping", -1, "lo0"}, {"MappingReset", "mapping", 0, ""},
}

// ruleStateActions: R4.6 store shapes and saturation, per action function and per path.
func ruleStateActions(c *Ctx, dv *dev) {
	// all store sites of the four fields, program wide, must be in the table (or NewDevice)
	allowed := map[string]map[string]bool{}
	for _, s := range stateActionSpecs {
		if allowed[s.field] == nil {
			allowed[s.field] = map[string]bool{"NewDevice": true}
		}
		allowed[s.field][s.fn] = true
	}
	for field, fns := range allowed {
		for _, s := range storesToField(c.P, dv.fields[field]) {
			if o := dv.ownerOf(s.Fn); !fns[dv.refName(o)] || (topFunc(s.Fn) != s.Fn && o == topFunc(s.Fn)) {
				c.Bad("R4.6", "store(Device."+field+")@"+shortFn(s.Fn), c.P.Pos(s.Instr.Pos()), "Device."+field+" is written outside its action functions and NewDevice")
			}
		}
	}
	for _, spec := range stateActionSpecs {
		fn := dv.fn[spec.fn]
		c.Fn(shortFn(fn))
		paths, err := Enumerate(fn, SymConfig{Prog: c.P, MaxDepth: 2, Collapse: true})
		if !c.Require(err == nil, "R4.6", "device."+spec.fn, fmt.Sprint(err)) {
			continue
		}
		c.Paths += len(paths)
		f := dv.fields[spec.field]
		key := "device." + spec.fn + "/store(Device." + spec.field + ")"
		pos := c.P.Pos(fn.Pos())
		bad := ""
		stored, skipped := 0, 0
		for _, p := range paths {
			var stores []Effect
			for _, e := range p.Effects {
				if e.Kind == "store" && !e.Local {
					stores = append(stores, e)
				}
				if e.Kind == "mapset" || e.Kind == "mapdel" || e.Kind == "send" {
					bad = "unexpected effect " + e.String()
				}
			}
			cur := (&Term{Op: "load", Args: []*Term{{Op: "fieldaddr", Args: []*Term{{Op: "param", Aux: "d"}}, Obj: f}}}).String()
			// inductive invariant assumed at entry (established by NewDevice + parser, preserved by every store site checked here)
			inv := bound{}
			switch spec.field {
			case "channel":
				inv = bound{lo: 0, hi: 15, hasLo: true, hasHi: true}
			case "mapping":
				inv = bound{lo: 0, hasLo: true}
			}
			if len(stores) == 0 {
				skipped++
				// only legal when saturating and the atoms say we are at the end
				b := boundsFrom(p.Atoms, cur, inv)
				switch spec.saturate {
				case "hi15":
					if !(b.hasLo && b.lo >= 15) {
						bad = fmt.Sprintf("a path leaves %s unchanged although it is only known to be in %s (may skip only at 15)", spec.field, b)
					}
				case "lo0":
					if !(b.hasHi && b.hi <= 0) {
						bad = fmt.Sprintf("a path leaves %s unchanged although it is only known to be in %s (may skip only at 0)", spec.field, b)
					}
				case "hiLen":
					if !atLastMapping(dv, p, cur, true) {
						bad = "a path leaves mapping unchanged without having established mapping == len(KeyMappings)-1"
					}
				default:
					bad = "a path of " + spec.fn + " does not store " + spec.field
				}
				continue
			}
			if len(stores) != 1 {
				bad = fmt.Sprintf("%d stores on one path", len(stores))
				continue
			}
			st := stores[0]
			if lastField(st.Args[0]) != f || rootOp(st.Args[0]) != "param" {
				bad = "stores to " + st.Args[0].String() + " instead of its own parameter"
				continue
			}
			stored++
			v := st.Args[1]
			if spec.delta == 0 {
				if k, ok := v.IsIntConst(); !ok || k != 0 {
					bad = "reset stores " + v.String() + ", not the neutral constant 0"
				}
				continue
			}
			l := linearize(v)
			// the arithmetic is at the field's own (narrow) type by construction: examine shape directly
			if !(v.Op == "binop" && (v.Aux == "+" || v.Aux == "-")) {
				bad = "stored value " + v.String() + " is not current value ± 1"
				continue
			}
			_ = l
			k, ok := v.Args[1].IsIntConst()
			if v.Aux == "-" {
				k = -k
			}
			if !ok || k != spec.delta || v.Args[0].String() != cur {
				bad = fmt.Sprintf("stored value %s is not %s %+d", v, cur, spec.delta)
				continue
			}
			b := boundsFrom(p.Atoms, cur, inv)
			switch spec.saturate {
			case "hi15":
				if !(b.hasHi && b.hi <= 14) {
					bad = fmt.Sprintf("channel is incremented on a path where it is only known to be in %s: it can leave 0..15", b)
				}
			case "lo0":
				if !(b.hasLo && b.lo >= 1) {
					bad = fmt.Sprintf("%s is decremented on a path where it is only known to be in %s: it can go below 0", spec.field, b)
				}
			case "hiLen":
				if !atLastMapping(dv, p, cur, false) {
					bad = "mapping is incremented on a path that has not excluded mapping == len(KeyMappings)-1"
				}
			case "":
				// unguarded ±1 on an 8-bit field wraps at the type boundary
				if isNarrow(f.Type()) {
					lim := int64(127)
					if spec.delta < 0 {
						lim = -128
					}
					if !((spec.delta > 0 && b.hasHi && b.hi < lim) || (spec.delta < 0 && b.hasLo && b.lo > lim)) {
						c.Bad("R4.6", key+"/type-boundary", c.P.Pos(st.Instr.Pos()),
							fmt.Sprintf("%s %+d on %s without a guard: after 128 net steps the value wraps (%d -> %d), i.e. the action does not move by exactly one at the type boundary", spec.field, spec.delta, f.Type(), lim, -lim-1))
					}
				}
			}
		}
		if bad != "" {
			c.Bad("R4.6", key, pos, bad)
		} else {
			c.OK("R4.6", key, pos, fmt.Sprintf("%d path(s) store %s%+d (guarded: %q), %d saturated path(s) skip at the end", stored, spec.field, spec.delta, spec.saturate, skipped))
		}
	}
}

// atLastMapping: do the atoms establish mapping == len(KeyMappings)-1 (want=true) or exclude it (want=false)?
func atLastMapping(dv *dev, p *Path, cur string, want bool) bool {
	for _, a := range p.Atoms {
		op, x, y, ok := normAtom(a)
		if !ok {
			continue
		}
		if y.String() == cur {
			x, y, op = y, x, flipOp(op)
		}
		if x.String() != cur {
			continue
		}
		// y must be len(d.config.KeyMappings) - 1
		isLast := false
		if y.Op == "binop" && y.Aux == "-" {
			if k, ok := y.Args[1].IsIntConst(); ok && k == 1 && y.Args[0].Op == "len" && strings.HasSuffix(y.Args[0].Args[0].String(), ".KeyMappings") {
				isLast = true
			}
		}
		if !isLast {
			continue
		}
		if want && op == "==" {
			return true
		}
		if want && op == ">=" {
			return true
		}
		if !want && (op == "!=" || op == "<") {
			return true
		}
	}
	return false
}

// rulePairReset: R4.7 pair table of checkDoubleActions.
func rulePairReset(c *Ctx, dv *dev, at actionTable) {
	fn := dv.fn["checkDoubleActions"]
	c.Fn(shortFn(fn))
	only := dv.withHelpers(map[*ssa.Function]bool{})
	paths, err := Enumerate(fn, SymConfig{Prog: c.P, MaxDepth: 2, Collapse: true, OnlyInline: only, MaxVisits: 7}) // a pair table written as a loop unrolls completely
	if !c.Require(err == nil, "R4.7", "device.checkDoubleActions", fmt.Sprint(err)) {
		return
	}
	c.Paths += len(paths)
	resets := map[*ssa.Function]string{}
	for _, s := range stateActionSpecs {
		if s.delta == 0 {
			resets[dv.fn[s.fn]] = s.field
		}
	}
	writerOf := func(f *ssa.Function) (string, int64) {
		for _, s := range stateActionSpecs {
			if dv.fn[s.fn] == f {
				return s.field, s.delta
			}
		}
		return "", 0
	}
	pos := c.P.Pos(fn.Pos())
	seen := map[string]bool{}
	// the deciding pair of a reset = the actions held on every path that reaches it
	common := map[*ssa.Function]map[string]bool{}
	for _, p := range paths {
		var reset *ssa.Function
		for _, e := range p.Effects {
			if e.Kind == "call" && e.Callee != nil && resets[e.Callee] != "" {
				reset = e.Callee
			}
		}
		if reset == nil {
			continue
		}
		held := map[string]bool{}
		for _, a := range p.Atoms {
			cnd, taken := a.Cond, a.Taken
			for cnd.Op == "unop" {
				cnd, taken = cnd.Args[0], !taken
			}
			if cnd.Op == "lookup" && dv.isFieldLoad(cnd.Args[0], "actionTracker") && taken {
				if s, ok := cnd.Args[1].StripConv().IsStringConst(); ok {
					held[s] = true
				}
			}
		}
		if common[reset] == nil {
			common[reset] = held
		} else {
			for k := range common[reset] {
				if !held[k] {
					delete(common[reset], k)
				}
			}
		}
	}
	var noReset []*Path
	var pairsSeen [][2]string
	defer func() {
		// a path that resets nothing must have seen, for every pair, that one of its two actions is not held - or that fewer
		// than two actions are held at all. A guard such as `len(actionTracker) == 2` lets the path through with both keys of
		// a pair down as soon as any other action key (cc_learning, multinote) is held as well: the pair does not reset
		bad := ""
		for _, p := range noReset {
			notHeld := map[string]bool{}
			lenHi := int64(1 << 40)
			for _, a := range p.Atoms {
				cnd, taken := a.Cond, a.Taken
				for cnd.Op == "unop" {
					cnd, taken = cnd.Args[0], !taken
				}
				if cnd.Op == "lookup" && dv.isFieldLoad(cnd.Args[0], "actionTracker") && !taken {
					if s, ok := cnd.Args[1].StripConv().IsStringConst(); ok {
						notHeld[s] = true
					}
				}
				if op, x, y, ok := normAtom(a); ok {
					if _, isK := x.IsConst(); isK {
						x, y, op = y, x, flipOp(op)
					}
					if k, isK := y.IsIntConst(); isK && x.Op == "len" && dv.isFieldLoad(x.Args[0], "actionTracker") {
						switch op {
						case "<":
							lenHi = min(lenHi, k-1)
						case "<=", "==":
							lenHi = min(lenHi, k)
						}
					}
				}
			}
			if lenHi <= 1 {
				continue
			}
			for _, pr := range pairsSeen {
				if !notHeld[pr[0]] && !notHeld[pr[1]] && bad == "" {
					bad = fmt.Sprintf("a path resets nothing although it has not seen that one of (%s, %s) is not held, nor that fewer than two actions are held (%s): with a further action key held as well, pressing both keys of the pair steps the parameter instead of resetting it", pr[0], pr[1], atomsString(p))
				}
			}
		}
		if len(pairsSeen) > 0 {
			c.Check(bad == "", "R4.7", "device.checkDoubleActions/no-reset-only-without-a-complete-pair", pos, fmt.Sprintf("%d path(s) without reset: each has seen every pair incomplete or fewer than two actions held", len(noReset)), bad)
		}
	}()
	for _, p := range paths {
		if p.End != "return" {
			c.Bad("R4.7", "device.checkDoubleActions/ends", pos, "path ends with "+p.End)
			continue
		}
		var called []*ssa.Function
		for _, e := range p.Effects {
			if e.Kind == "call" && e.Callee != nil && c.P.OwnedFunc(e.Callee) && !strings.HasSuffix(e.Callee.Name(), "logFields") && !strings.HasSuffix(e.Callee.Name(), "$thunk") && !strings.HasSuffix(e.Callee.Name(), "$bound") && !(e.Inlined && only[e.Callee]) {
				called = append(called, e.Callee) // (a method value taken from a table is called through a synthetic thunk: transparent)
			}
			if (e.Kind == "store" && !e.Local) || e.Kind == "mapset" || e.Kind == "mapdel" || e.Kind == "send" {
				c.Bad("R4.7", "device.checkDoubleActions/effect", c.P.Pos(e.Instr.Pos()), "unexpected direct effect "+e.String())
			}
		}
		ret, isBool := p.Ret[0].IsBoolConst()
		if !isBool {
			c.Undec("R4.7", "device.checkDoubleActions/result", pos, "non-constant result "+p.Ret[0].String())
			continue
		}
		// actions held on this path
		var held []string
		for _, a := range p.Atoms {
			cnd, taken := a.Cond, a.Taken
			for cnd.Op == "unop" {
				cnd, taken = cnd.Args[0], !taken
			}
			if cnd.Op == "lookup" && dv.isFieldLoad(cnd.Args[0], "actionTracker") && taken {
				if s, ok := cnd.Args[1].StripConv().IsStringConst(); ok {
					held = append(held, s)
				}
			}
		}
		if len(called) == 0 {
			if ret {
				c.Bad("R4.7", "device.checkDoubleActions/true-without-reset", pos, "returns true (swallowing the action) on a path that resets nothing")
			}
			noReset = append(noReset, p)
			continue
		}
		if len(called) != 1 || resets[called[0]] == "" {
			c.Bad("R4.7", "device.checkDoubleActions/calls", pos, fmt.Sprintf("path calls %v, expected exactly one reset function", called))
			continue
		}
		field := resets[called[0]]
		key := "device.checkDoubleActions/pair->" + called[0].Name()
		if seen[key] {
			continue
		}
		seen[key] = true
		if !ret {
			c.Bad("R4.7", key, pos, "a pair reset does not report true")
			continue
		}
		held = nil
		for k := range common[called[0]] {
			held = append(held, k)
		}
		sort.Strings(held)
		if len(held) != 2 {
			c.Bad("R4.7", key, pos, fmt.Sprintf("reset is conditioned on %v, expected exactly two held actions", held))
			continue
		}
		pairsSeen = append(pairsSeen, [2]string{held[0], held[1]})
		f1, d1 := writerOf(at.press[held[0]])
		f2, d2 := writerOf(at.press[held[1]])
		if f1 != field || f2 != field || d1+d2 != 0 || d1 == 0 {
			c.Bad("R4.7", key, pos, fmt.Sprintf("pair (%s, %s) writes (%s%+d, %s%+d) but the reset called is for %s: the pair does not reset its own parameter", held[0], held[1], f1, d1, f2, d2, field))
			continue
		}
		c.OK("R4.7", key, pos, fmt.Sprintf("pair (%s, %s) = up/down writers of %s; calls its reset; returns true", held[0], held[1], field))
	}
	for _, want := range []string{"OctaveReset", "SemitoneReset", "ChannelReset", "MappingReset"} {
		if !seen["device.checkDoubleActions/pair->"+want] {
			c.Bad("R4.7", "device.checkDoubleActions/pair->"+want, pos, "no path of checkDoubleActions reaches "+want)
		}
	}
}

// rulePressProtocol: the press path records the action before pair detection and invokes the
// action only when no pair was detected; the release path deletes the entry.
func rulePressProtocol(c *Ctx, dv *dev) {
	fn := dv.fn["handleKEYEvent"]
	only := dv.withHelpers(map[*ssa.Function]bool{dv.fn["checkExitSequence"]: true})
	paths, err := Enumerate(fn, SymConfig{Prog: c.P, MaxDepth: 3, Collapse: true, OnlyInline: only})
	if !c.Require(err == nil, "R4.7", "device.handleKEYEvent", fmt.Sprint(err)) {
		return
	}
	c.Paths += len(paths)
	pos := c.P.Pos(fn.Pos())
	cda, inv := dv.fn["checkDoubleActions"], dv.fn["invokeActionPress"]
	okPress, okRel, bad := 0, 0, ""
	for _, p := range paths {
		isAction := false
		for _, a := range p.Atoms {
			cnd, taken := a.Cond, a.Taken
			for cnd.Op == "unop" {
				cnd, taken = cnd.Args[0], !taken
			}
			if cnd.Op == "lookupok" && cnd.Args[0].LoadsField(dv.cfgField["ActionMapping"]) && taken {
				isAction = true
			}
		}
		if !isAction || p.End != "return" {
			continue
		}
		// which event value?
		press := valueConsistent(p, 1) && !valueConsistent(p, 0)
		release := valueConsistent(p, 0) && !valueConsistent(p, 1)
		idxSet, idxCda, idxInv, idxDel := -1, -1, -1, -1
		var cdaRes *Term
		for i, e := range p.Effects {
			switch {
			case e.Kind == "mapset" && dv.isFieldLoad(e.Args[0], "actionTracker"):
				idxSet = i
			case e.Kind == "mapdel" && dv.isFieldLoad(e.Args[0], "actionTracker"):
				idxDel = i
			case e.Kind == "call" && e.Callee == cda:
				idxCda = i
				if v, ok := e.Instr.(ssa.Value); ok {
					_ = v
				}
			case e.Kind == "call" && e.Callee == inv:
				idxInv = i
			}
		}
		_ = cdaRes
		swallowed := false
		for _, e := range p.Effects {
			if e.Kind == "send" {
				swallowed = true // exit sequence completed: the press is swallowed (C14)
			}
		}
		if swallowed {
			continue
		}
		if press {
			if idxSet < 0 || idxCda < 0 || idxSet > idxCda {
				bad = "a press path does not record the action in actionTracker before checkDoubleActions"
				continue
			}
			// result of checkDoubleActions decides about the invocation
			res, found := false, false
			for _, a := range p.Atoms {
				cnd, taken := a.Cond, a.Taken
				for cnd.Op == "unop" {
					cnd, taken = cnd.Args[0], !taken
				}
				if cnd.Op == "call" && strings.Contains(cnd.Aux, "checkDoubleActions") {
					res, found = taken, true
				}
			}
			if !found {
				bad = "the result of checkDoubleActions is not tested on a press path"
				continue
			}
			if res && idxInv >= 0 {
				bad = "the action is invoked although a pair reset was performed"
				continue
			}
			if !res && idxInv < 0 {
				bad = "the action is not invoked on a press without pair"
				continue
			}
			okPress++
		} else if release {
			if idxDel < 0 {
				bad = "a release path does not delete the action from actionTracker"
				continue
			}
			okRel++
		}
	}
	key := "device.handleKEYEvent/action-press-protocol"
	if bad != "" || okPress == 0 || okRel == 0 {
		if bad == "" {
			bad = fmt.Sprintf("press paths %d, release paths %d", okPress, okRel)
		}
		c.Bad("R4.7", key, pos, bad)
	} else {
		c.OK("R4.7", key, pos, fmt.Sprintf("%d press path(s): record -> pair detection -> invoke iff no pair; %d release path(s) delete the entry", okPress, okRel))
	}
}

// ruleDefaultsInitial: R4.8 NewDevice initialises the parameters from Defaults.
func ruleDefaultsInitial(c *Ctx, dv *dev) {
	fn := dv.fn["NewDevice"]
	want := map[string]struct {
		src   string
		minus int64
	}{
		"octave": {"Octave", 0}, "semitone": {"Semitone", 0}, "channel": {"Channel", 1}, "mapping": {"Mapping", 0}, "velocity": {"Velocity", 0},
	}
	got := map[string]bool{}
	for _, b := range fn.Blocks {
		for _, in := range b.Instrs {
			st, ok := in.(*ssa.Store)
			if !ok {
				continue
			}
			f := fieldOfAddr(st.Addr)
			if f == nil {
				continue
			}
			w, isWanted := want[f.Name()]
			if !isWanted || f != dv.fields[f.Name()] {
				continue
			}
			key := "device.NewDevice/init(Device." + f.Name() + ")"
			src, minus, ok := defaultsSource(st.Val)
			got[f.Name()] = true
			if ok && src == w.src && minus == w.minus {
				c.OK("R4.8", key, c.P.Pos(st.Pos()), fmt.Sprintf("initialised from Defaults.%s - %d", src, minus))
			} else {
				c.Bad("R4.8", key, c.P.Pos(st.Pos()), fmt.Sprintf("initialised from Defaults.%s - %d (ok=%v), expected Defaults.%s - %d", src, minus, ok, w.src, w.minus))
			}
		}
	}
	for n := range want {
		if !got[n] {
			c.Bad("R4.8", "device.NewDevice/init(Device."+n+")", c.P.Pos(fn.Pos()), "parameter is not initialised in NewDevice")
		}
	}
}

// defaultsSource: v = [conv](cfg.Config.Defaults.X [- k])
func defaultsSource(v ssa.Value) (string, int64, bool) {
	minus := int64(0)
	for i := 0; i < 6; i++ {
		switch x := v.(type) {
		case *ssa.Convert:
			v = x.X
		case *ssa.ChangeType:
			v = x.X
		case *ssa.BinOp:
			k, ok := x.Y.(*ssa.Const)
			if !ok || x.Op.String() != "-" {
				return "", 0, false
			}
			minus += k.Int64()
			v = x.X
		case *ssa.Field:
			st := x.X.Type().Underlying().(*types.Struct)
			name := st.Field(x.Field).Name()
			if inner, ok := x.X.(*ssa.Field); ok {
				ist := inner.X.Type().Underlying().(*types.Struct)
				if ist.Field(inner.Field).Name() == "Defaults" {
					return name, minus, true
				}
			}
			if inner, ok := x.X.(*ssa.UnOp); ok {
				if fa, ok := inner.X.(*ssa.FieldAddr); ok {
					ist := deref(fa.X.Type()).Underlying().(*types.Struct)
					if ist.Field(fa.Field).Name() == "Defaults" {
						return name, minus, true
					}
				}
			}
			return "", 0, false
		case *ssa.UnOp:
			if fa, ok := x.X.(*ssa.FieldAddr); ok {
				st := deref(fa.X.Type()).Underlying().(*types.Struct)
				name := st.Field(fa.Field).Name()
				if inner, ok := fa.X.(*ssa.FieldAddr); ok {
					ist := deref(inner.X.Type()).Underlying().(*types.Struct)
					if ist.Field(inner.Field).Name() == "Defaults" {
						return name, minus, true
					}
				}
			}
			return "", 0, false
		default:
			return "", 0, false
		}
	}
	return "", 0, false
}

// ruleAxisNoSelfPair: R4.12. An axis that emulates an up/down pair of actions has one direction engaged at a time. Pair
// detection (checkDoubleActions) must therefore never run at a moment when the handler has already recorded the direction
// the axis has just reached but not yet forgotten the direction it has just left: a flick from one side to the other
// (no report at the centre in between - the input layer hands on the latest position only) would be taken for a held pair
// and reset the parameter instead of moving it by one. Decided on the paths of the axis handler's action case: at every
// call of the pair detection, either nothing was recorded on this path yet, or the opposite direction was removed first.
func ruleAxisNoSelfPair(c *Ctx, dv *dev, rule string) {
	fn := dv.fn["handleABSEvent"]
	cda := dv.fn["checkDoubleActions"]
	if fn == nil || cda == nil {
		return
	}
	paths, err := absPaths(c, dv)
	if !c.Require(err == nil, rule, "device.handleABSEvent", fmt.Sprint(err)) {
		return
	}
	actionSim, _ := c.P.constString(pkgConfig, "AnalogActionSim")
	pos := c.P.Pos(fn.Pos())
	n, calls, bad, badPos := 0, 0, "", pos
	opposite := func(k string) string {
		switch {
		case strings.HasSuffix(k, ".ActionNeg"):
			return strings.TrimSuffix(k, "Neg")
		case strings.HasSuffix(k, ".Action"):
			return k + "Neg"
		}
		return ""
	}
	for _, p := range paths {
		if sel, _ := mappingTypeOf(p); sel != actionSim {
			continue
		}
		n++
		recorded := map[string]bool{}
		for _, e := range p.Effects {
			switch e.Kind {
			case "mapset":
				if len(e.Args) == 3 && strings.HasSuffix(strings.SplitN(e.Args[0].String(), "@", 2)[0], "d.actionTracker") {
					recorded[e.Args[1].String()] = true
				}
			case "mapdel":
				if len(e.Args) >= 2 && strings.HasSuffix(strings.SplitN(e.Args[0].String(), "@", 2)[0], "d.actionTracker") {
					delete(recorded, e.Args[1].String())
					recorded["-"+e.Args[1].String()] = true
				}
			case "call":
				if e.Callee != cda {
					continue
				}
				calls++
				for k := range recorded {
					if strings.HasPrefix(k, "-") {
						continue
					}
					if o := opposite(k); o != "" && !recorded["-"+o] && bad == "" {
						bad = fmt.Sprintf("pair detection runs after the axis recorded %s as held and before it forgot %s: crossing from one side to the other without a report at the centre is taken for a held up/down pair and resets the parameter instead of moving it by one", k, o)
						badPos = c.P.Pos(e.Instr.Pos())
					}
				}
			}
		}
	}
	if !c.Require(n > 0, rule, "device.handleABSEvent/action-case", "no path of the action case found") {
		return
	}
	c.Check(bad == "", rule, "device.handleABSEvent/an-axis-makes-no-pair-with-itself", badPos, fmt.Sprintf("%d path(s) of the action case, %d call(s) of the pair detection: none between recording one direction and forgetting the other", n, calls), bad)
}
