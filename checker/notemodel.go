package main

import (
	"fmt"
	"go/types"
	"sort"
	"strings"

	"golang.org/x/tools/go/ssa"
)

// notePath is the projection of one path of NoteOn/NoteOff/AnalogNoteOn/AnalogNoteOff onto
// the things the note-lifecycle rules care about.
type notePath struct {
	P           *Path
	Mode        string   // collision mode constant selected on this path ("" = none)
	ModeNegs    []string // constants the path excluded
	Sends       []midiEvent
	SendEffects []Effect
	OtherSends  []Effect // sends on channels other than outputEvents
	TrackSets   []Effect // mapset on the tracker
	TrackDels   []Effect // mapdel on the tracker
	CtrSets     []Effect // mapset on activeNotesCounter[..]
	OtherWrites []Effect // any other non-local store/mapset/mapdel
	HeldKnown   bool
	Held        bool // counter guard says the pitch is already held (NoteOn) / last holder (NoteOff)
	GuardDesc   string
	TrackerHit  *bool // result of the comma-ok tracker lookup on this path, if tested
	Panics      bool
}

type noteModel struct {
	dv        *dev
	fn        *ssa.Function
	tracker   string // field name of the tracker map
	paths     []*notePath
	err       error
	modeField *types.Var
}

func (dv *dev) isCounterInner(t *Term) (ch *Term, ok bool) {
	if t != nil && t.Op == "lookup" && dv.isFieldLoad(t.Args[0], "activeNotesCounter") {
		return t.Args[1], true
	}
	return nil, false
}

func (dv *dev) noteModel(fnName, tracker string) *noteModel {
	m := &noteModel{dv: dv, fn: dv.fn[fnName], tracker: tracker, modeField: dv.cfgField["CollisionMode"]}
	if m.fn == nil {
		m.err = fmt.Errorf("function %s not found", fnName)
		return m
	}
	dv.c.Fn(shortFn(m.fn))
	paths, err := Enumerate(m.fn, SymConfig{Prog: dv.p, MaxDepth: 4, Collapse: true, MaxVisits: 4}) // an emission written as a loop over a short list of messages unrolls completely
	if err != nil {
		m.err = err
		return m
	}
	dv.c.Paths += len(paths)
	for _, p := range paths {
		np := &notePath{P: p, Panics: p.End == "panic"}
		if p.End == "cut" {
			m.err = fmt.Errorf("path cut (loop unrolled more than once) in %s", fnName)
			return m
		}
		// mode
		for _, a := range p.Atoms {
			op, x, y, ok := normAtom(a)
			if !ok || (op != "==" && op != "!=") {
				continue
			}
			if _, isC := x.IsConst(); isC {
				x, y = y, x
			}
			s, isS := y.IsStringConst()
			if !isS {
				continue
			}
			if _, isMode := x.StripConv().FieldLoad(m.modeField); !isMode {
				continue
			}
			if op == "==" {
				np.Mode = s
			} else {
				np.ModeNegs = append(np.ModeNegs, s)
			}
		}
		// tracker lookup result
		for _, a := range p.Atoms {
			c := a.Cond
			taken := a.Taken
			for c.Op == "unop" && c.Aux == "!" {
				c, taken = c.Args[0], !taken
			}
			if c.Op == "lookupok" && dv.isFieldLoad(c.Args[0], tracker) {
				v := taken
				np.TrackerHit = &v
			}
		}
		// counter guard
		for _, a := range p.Atoms {
			op, x, y, ok := normAtom(a)
			if !ok {
				continue
			}
			if _, isC := x.IsConst(); isC {
				x, y = y, x
				op = flipOp(op)
			}
			k, isK := y.IsIntConst()
			if !isK || x.Op != "lookup" {
				continue
			}
			if _, isCtr := dv.isCounterInner(x.Args[0]); !isCtr {
				continue
			}
			np.GuardDesc = fmt.Sprintf("%s %s %d", x.String(), op, k)
			b := boundsOf([]Atom{a}, x.String())
			np.HeldKnown = true
			_ = b
			np.GuardDesc = fmt.Sprintf("counter %s %d", op, k)
		}
		for _, e := range p.Effects {
			switch e.Kind {
			case "send":
				if dv.isFieldLoad(e.Args[0], "outputEvents") {
					np.Sends = append(np.Sends, decodeEvent(e.Args[1]))
					np.SendEffects = append(np.SendEffects, e)
				} else {
					np.OtherSends = append(np.OtherSends, e)
				}
			case "mapset":
				if dv.isFieldLoad(e.Args[0], tracker) {
					np.TrackSets = append(np.TrackSets, e)
				} else if _, ok := dv.isCounterInner(e.Args[0]); ok {
					np.CtrSets = append(np.CtrSets, e)
				} else if rootOp(e.Args[0]) != "makemap" {
					np.OtherWrites = append(np.OtherWrites, e)
				}
			case "mapdel":
				if dv.isFieldLoad(e.Args[0], tracker) {
					np.TrackDels = append(np.TrackDels, e)
				} else {
					np.OtherWrites = append(np.OtherWrites, e)
				}
			case "store":
				if !e.Local {
					np.OtherWrites = append(np.OtherWrites, e)
				}
			}
		}
		m.paths = append(m.paths, np)
	}
	return m
}

// counterBound returns the interval the path's atoms give for the counter entry (ch,n).
func (dv *dev) counterBound(p *Path) (bound, string, bool) {
	for _, a := range p.Atoms {
		_, x, y, ok := normAtom(a)
		if !ok {
			continue
		}
		if _, isC := x.IsConst(); isC {
			x, y = y, x
		}
		if _, isK := y.IsIntConst(); !isK || x.Op != "lookup" {
			continue
		}
		if _, isCtr := dv.isCounterInner(x.Args[0]); !isCtr {
			continue
		}
		return boundsOf(p.Atoms, x.String()), x.String(), true
	}
	return bound{}, "", false
}

func (np *notePath) kinds() string {
	var ks []string
	for _, s := range np.Sends {
		switch s.Kind {
		case midiNoteOn:
			ks = append(ks, "On")
		case midiNoteOff:
			ks = append(ks, "Off")
		case midiCC:
			ks = append(ks, "CC")
		case midiPitch:
			ks = append(ks, "PB")
		default:
			ks = append(ks, fmt.Sprintf("?%d", s.Kind))
		}
	}
	return "[" + strings.Join(ks, ",") + "]"
}

func (np *notePath) allModesNegated(modes []string) bool {
	if np.Mode != "" {
		return false
	}
	neg := uniqStrings(np.ModeNegs)
	m := append([]string(nil), modes...)
	sort.Strings(m)
	return strings.Join(neg, ",") == strings.Join(m, ",")
}

func (m *noteModel) caseConstants() []string {
	var all []string
	for _, p := range m.paths {
		if p.Mode != "" {
			all = append(all, p.Mode)
		}
		all = append(all, p.ModeNegs...)
	}
	return uniqStrings(all)
}
