package main

import (
	"fmt"
	"go/constant"
	"go/token"
	"go/types"
	"sort"
	"strings"

	"golang.org/x/tools/go/ssa"
)

func init() {
	registry["C19"] = checkC19
}

// loaderRoots: the constant directory roots of LoadDeviceConfigs' table.
func loaderRoots(c *Ctx) []string {
	fn := c.P.Func(pkgConfig, "", "LoadDeviceConfigs")
	if fn == nil {
		return nil
	}
	var out []string
	for _, b := range fn.Blocks {
		for _, in := range b.Instrs {
			st, ok := in.(*ssa.Store)
			if !ok {
				continue
			}
			fa, ok := st.Addr.(*ssa.FieldAddr)
			if !ok {
				continue
			}
			if n, ok := deref(fa.X.Type()).(*types.Named); !ok || n.Obj().Name() != "dirInfo" {
				continue
			}
			if k, ok := st.Val.(*ssa.Const); ok && k.Value != nil && k.Value.Kind() == constant.String {
				if s := constant.StringVal(k.Value); strings.Contains(s, "/") {
					out = append(out, s)
				}
			}
		}
	}
	if len(out) == 0 {
		// the table written out as one call per directory
		if ld := c.P.Func(pkgConfig, "", "loadDirectory"); ld != nil {
			for _, dc := range directLoaderCalls(fn, ld) {
				out = append(out, dc.root)
			}
		}
	}
	sort.Strings(out)
	return out
}

// loaderSuffix: the constant suffix loadDirectory's callback filters on.
func loaderSuffix(c *Ctx) (string, bool) {
	ld := c.P.Func(pkgConfig, "", "loadDirectory")
	if ld == nil {
		return "", false
	}
	for _, w := range walkCallbacks(c.P) {
		if w.site.Parent() != ld {
			continue
		}
		blocks := append([]*ssa.BasicBlock{}, w.fn.Blocks...)
		vh := valueHelpers(c.P)
		for _, b := range w.fn.Blocks {
			for _, in := range b.Instrs {
				if call, ok := in.(*ssa.Call); ok && vh[call.Call.StaticCallee()] {
					blocks = append(blocks, call.Call.StaticCallee().Blocks...) // the filter may sit in a value helper of the callback
				}
			}
		}
		for _, b := range blocks {
			for _, in := range b.Instrs {
				if call, ok := in.(*ssa.Call); ok {
					if callee := call.Call.StaticCallee(); callee != nil && callee.Name() == "HasSuffix" && callee.Pkg != nil && callee.Pkg.Pkg.Path() == "strings" {
						if k, ok := call.Call.Args[1].(*ssa.Const); ok && k.Value != nil {
							return constant.StringVal(k.Value), true
						}
					}
				}
				// filepath.Ext(name) == ".toml" is the same filter (see extAsSuffix)
				if bo, ok := in.(*ssa.BinOp); ok && (bo.Op == token.EQL || bo.Op == token.NEQ) {
					if t := NewFnView(c.P, b.Parent()).Term(bo); t != nil {
						for t.Op == "unop" && t.Aux == "!" {
							t = t.Args[0]
						}
						if t.Op == "call" && t.Aux == "strings.HasSuffix" {
							if k, ok := t.Args[1].IsStringConst(); ok {
								return k, true
							}
						}
					}
				}
			}
		}
	}
	return "", false
}

func checkC19(c *Ctx) {
	det := c.P.Func(pkgConfig, "", "DetectDeviceConfigChanges")
	if !c.Require(det != nil, "R19.0", "anchor:config.DetectDeviceConfigChanges", "function not found") {
		return
	}
	c.Fn(shortFn(det))
	cf := buildChanFlow(c.P)
	var change *chanClass
	for _, cl := range cf.Classes() {
		if len(cl.Makes) > 0 && topFunc(cl.Makes[0].Fn) == det {
			change = cl
		}
	}
	if !c.Require(change != nil, "R19.0", "config.DetectDeviceConfigChanges/change-channel", "notification channel not found") {
		return
	}
	pos := c.P.Pos(det.Pos())
	// the goroutine that sends
	// a send that lives in a named helper (e.g. notifyChange(ctx, change)) is attributed to the helper's only call site
	type hoistedSend struct {
		at    ssa.Instruction // the send itself or the call that leads to it, in the worker
		inner []string        // conditions inside the helper(s) between entry and the send
	}
	hoisted := make([]hoistedSend, len(change.Sends))
	senders := map[*ssa.Function]bool{}
	// the function that holds the event loop: a receive from watcher.Events inside a cycle
	holdsEventLoop := func(fn *ssa.Function) bool {
		v := NewFnView(c.P, fn)
		for _, b := range fn.Blocks {
			for _, in := range b.Instrs {
				if u, ok := in.(*ssa.UnOp); ok && u.Op == token.ARROW && strings.HasSuffix(v.Term(u.X).String(), ".Events") && inCycle(b) {
					return true
				}
			}
		}
		return false
	}
	for i, s := range change.Sends {
		at := s.Instr
		fn := s.Fn
		for depth := 0; depth < 3 && fn.Parent() == nil && fn != det && !holdsEventLoop(fn); depth++ {
			sites, ok := staticCallSites(c.P, fn)
			if !ok || len(sites) != 1 {
				break
			}
			for _, a := range NewFnView(c.P, fn).GuardsAt(at.Block()) {
				hoisted[i].inner = append(hoisted[i].inner, a.String())
			}
			at = sites[0]
			fn = at.Parent()
		}
		hoisted[i].at = at
		senders[fn] = true
	}
	if !c.Require(len(senders) == 1, "R19.4", "config.DetectDeviceConfigChanges/single-sender", fmt.Sprintf("%d sending functions", len(senders))) {
		return
	}
	// loopFn sends from inside the event loop; worker is the goroutine it runs in (the same function, unless the loop was
	// made a function or method of its own that the goroutine calls once); family: the worker and what it calls
	// synchronously (set-up helpers)
	var loopFn *ssa.Function
	for f := range senders {
		loopFn = f
	}
	worker := loopFn
	var loopCall ssa.CallInstruction // in the worker: the call that leads to the event loop
	var loopCallGuards []Atom
	for depth := 0; depth < 3 && worker.Parent() == nil && worker != det; depth++ {
		sites, ok := staticCallSites(c.P, worker)
		if !ok || len(sites) != 1 {
			break
		}
		if _, isCall := sites[0].(*ssa.Call); !isCall {
			break // started with go or deferred: this is the goroutine's function
		}
		loopCall = sites[0]
		worker = loopCall.Parent()
		loopCallGuards = append(loopCallGuards, NewFnView(c.P, worker).GuardsAt(loopCall.Block())...)
	}
	family := []*ssa.Function{worker}
	{
		seenF := map[*ssa.Function]bool{worker: true}
		for i := 0; i < len(family) && i < 16; i++ {
			for _, b := range family[i].Blocks {
				for _, in := range b.Instrs {
					if call, ok := in.(*ssa.Call); ok {
						if f := call.Call.StaticCallee(); f != nil && c.P.OwnedFunc(f) && funcPkgPath(f) == pkgConfig && !seenF[f] && len(f.Blocks) > 0 {
							seenF[f] = true
							family = append(family, f)
						}
					}
				}
			}
		}
	}
	c.Fn(shortFn(worker))
	if loopFn != worker {
		c.Fn(shortFn(loopFn))
	}

	// R19.1 same directories as the loader
	roots := loaderRoots(c)
	var watched []string
	var addCalls []*ssa.Call
	var famBlocks []*ssa.BasicBlock
	for _, f := range family {
		famBlocks = append(famBlocks, f.Blocks...)
	}
	for _, b := range famBlocks {
		for _, in := range b.Instrs {
			if call, ok := in.(*ssa.Call); ok {
				if name, pkg, _ := calledMethod(call); name == "Add" && strings.Contains(pkg, "fsnotify") {
					addCalls = append(addCalls, call)
				}
			}
			// constants of the path list
			if st, ok := in.(*ssa.Store); ok {
				if ia, ok := st.Addr.(*ssa.IndexAddr); ok {
					if _, isAlloc := ia.X.(*ssa.Alloc); isAlloc {
						if k, ok := st.Val.(*ssa.Const); ok && k.Value != nil && k.Value.Kind() == constant.String {
							watched = append(watched, constant.StringVal(k.Value))
						}
					}
				}
			}
		}
	}
	addArg := func(call *ssa.Call) ssa.Value { // the directory argument; an element of a read-only table is its constant
		_, _, args := calledMethod(call)
		if len(args) != 1 {
			return nil
		}
		if k, ok := roTableConst(c.P, args[0]); ok {
			return k
		}
		return args[0]
	}
	for _, call := range addCalls {
		if k, ok := addArg(call).(*ssa.Const); ok && k.Value != nil && k.Value.Kind() == constant.String {
			watched = append(watched, constant.StringVal(k.Value))
		}
	}
	watched = uniqStrings(watched)
	okDirs := len(addCalls) > 0 && len(roots) == 4 && sameSet(watched, roots)
	c.Check(okDirs, "R19.1", "config.DetectDeviceConfigChanges/watched-dirs=loader-dirs", pos, fmt.Sprintf("watcher.Add on %v = the loader's directories", watched),
		fmt.Sprintf("watched directories %v differ from the directories the loader reads %v: changes in a directory that is loaded but not watched go unnoticed", watched, roots))
	// the Add call sits in a loop over the whole list (or one call per constant)
	if len(addCalls) == 1 {
		call := addCalls[0]
		_, isConst := addArg(call).(*ssa.Const)
		c.Check(isConst || inCycle(call.Block()), "R19.1", "config.DetectDeviceConfigChanges/add-for-every-dir", c.P.Pos(call.Pos()), "Add is called for every element of the list", "watcher.Add is not called for every directory")
	}

	// R19.2 / R19.3 the send
	vw := NewFnView(c.P, worker)
	vwL := vw
	if loopFn != worker {
		vwL = NewFnView(c.P, loopFn)
	}
	suffix, okSuf := loaderSuffix(c)
	c.Require(okSuf, "R19.2", "anchor:loader-suffix", "the loader's suffix filter was not found")
	for i, s := range change.Sends {
		key := fmt.Sprintf("config.DetectDeviceConfigChanges/notify#%d", i+1)
		spos := c.P.Pos(s.Instr.Pos())
		atoms := append(append([]Atom{}, loopCallGuards...), vwL.GuardsAt(hoisted[i].at.Block())...)
		hasWrite, hasSuffix := false, false
		gotSuffix := ""
		var others []string
		for _, g := range hoisted[i].inner {
			others = append(others, "condition inside the sending helper "+g)
		}
		for _, a := range atoms {
			cnd, taken := a.Cond, a.Taken
			for cnd.Op == "unop" && cnd.Aux == "!" {
				cnd, taken = cnd.Args[0], !taken
			}
			str := cnd.String()
			switch {
			case cnd.Op == "call" && strings.HasPrefix(cnd.Aux, "strings.HasSuffix"):
				if taken {
					hasSuffix = true
					gotSuffix, _ = cnd.Args[1].IsStringConst()
					if !strings.Contains(cnd.Args[0].String(), "strings.ToLower") || !strings.HasSuffix(stripIDs(cnd.Args[0].String()), ".Name)") {
						others = append(others, "suffix is tested on "+cnd.Args[0].String())
					}
				} else {
					others = append(others, "negated suffix test")
				}
			case isWriteTest(c, cnd, taken):
				hasWrite = true
			case strings.Contains(str, ".Op"):
				others = append(others, "operation test "+a.String())
			case cnd.Op == "extract" || strings.Contains(str, "recv") && !strings.Contains(str, "."):
				// loop condition (channel still open)
			case strings.Contains(str, "NewWatcher"):
				// watcher creation succeeded
			case cnd.Op == "binop" && strings.Contains(str, "len("):
				// index loop over the directory list
			case a.Instr != nil && a.Instr.Block().Comment == "rangeindex.loop":
				// the same loop over a fixed-size array: its bound is a constant
			default:
				others = append(others, "extra condition "+a.String())
			}
		}
		bad := ""
		switch {
		case !hasWrite:
			bad = "the notification is not conditioned on the event being a write (Op == Write / Op&Write != 0 / Op.Has(Write))"
		case !hasSuffix:
			bad = "the notification is not conditioned on the file name's suffix: writes to any file trigger a reload"
		case okSuf && gotSuffix != suffix:
			bad = fmt.Sprintf("the watcher filters on suffix %q but the loader reads files with suffix %q: e.g. a write to \"notes.a%s\" (not a configuration) triggers a reload", gotSuffix, suffix, strings.TrimPrefix(suffix, "."))
		case len(others) > 0:
			bad = "the notification depends on more than write+suffix: " + strings.Join(others, "; ")
		}
		if bad != "" {
			c.Bad("R19.2", key+"/filter", spos, bad)
		} else {
			c.OK("R19.2", key+"/filter", spos, fmt.Sprintf("sent iff the event is a write and lower(name) has suffix %q (the loader's)", gotSuffix))
		}
		// R19.3 cancellation aware hand-off
		switch x := s.Instr.(type) {
		case *ssa.Select:
			hasDone := false
			for _, st := range x.States {
				if isCtxDone(st.Chan) {
					hasDone = true
				}
			}
			c.Check(hasDone && x.Blocking, "R19.3", key+"/cancel-aware", spos, "send is one case of a select that also has <-ctx.Done()", "the hand-off select has no <-ctx.Done() case (or drops notifications with a default)")
		default:
			c.Bad("R19.3", key+"/cancel-aware", spos, "`change <- true` is a bare send on an unbuffered channel whose only receiver stops receiving once the context is cancelled: a write event racing with shutdown leaves this goroutine blocked forever, so the deferred close(change) never runs and the notification stream never ends")
		}
	}
	c.Check(len(change.Sends) >= 1, "R19.2", "config.DetectDeviceConfigChanges/sends", pos, fmt.Sprintf("%d notification site(s)", len(change.Sends)), "no notification is ever sent")

	// R19.2b the same on paths (one iteration of the event loop, from the receive back to the receive): an iteration
	// notifies iff it saw a write to a name with the loader's suffix; an iteration that does not notify has seen the
	// event not to be a write, the name not to have the suffix, or the event stream closed - nothing else (a size test,
	// a "seen recently" filter, a per-name marker) may suppress a notification
	ruleNotifyIff(c, loopFn, change, suffix)

	// R19.7 the watcher's error channel is drained: fsnotify hands errors (e.g. the kernel's queue overflow after a burst
	// with a late consumer) over an unbuffered channel and delivers nothing more until somebody takes them
	{
		drained := false
		var hosts []*ssa.Function
		var collect func(f *ssa.Function)
		collect = func(f *ssa.Function) {
			hosts = append(hosts, f)
			for _, af := range f.AnonFuncs {
				collect(af)
			}
		}
		collect(worker)
		for _, b := range worker.Blocks { // named goroutine functions started by the worker
			for _, in := range b.Instrs {
				if g, ok := in.(*ssa.Go); ok {
					if f := g.Call.StaticCallee(); f != nil && f.Parent() == nil && c.P.OwnedFunc(f) {
						hosts = append(hosts, f)
					}
				}
			}
		}
		isErrorsChan := func(f *ssa.Function, v ssa.Value) bool {
			if r := resolveValue(v); r != v { // a variable the channel was bound to once
				if pf := parentOf(r); pf != nil {
					f, v = pf, r
				}
			}
			t := NewFnView(c.P, f).Term(v).String()
			if strings.HasSuffix(t, ".Errors") {
				return true
			}
			// the channel handed to a named function as a parameter of type <-chan error / chan error
			if ch, ok := v.Type().Underlying().(*types.Chan); ok {
				if n, ok := ch.Elem().(*types.Named); ok && n.Obj().Name() == "error" {
					_, isParam := v.(*ssa.Parameter)
					return isParam
				}
			}
			return false
		}
		for _, f := range hosts {
			for _, b := range f.Blocks {
				for _, in := range b.Instrs {
					switch x := in.(type) {
					case *ssa.UnOp:
						if x.Op == token.ARROW && isErrorsChan(f, x.X) && inCycle(b) {
							drained = true
						}
					case *ssa.Select:
						for _, st := range x.States {
							if st.Dir == types.RecvOnly && isErrorsChan(f, st.Chan) && inCycle(b) {
								drained = true
							}
						}
					}
				}
			}
		}
		c.Check(drained, "R19.7", "config.DetectDeviceConfigChanges/watcher-errors-drained", pos, "a loop receives from watcher.Errors for as long as the watcher lives",
			"nothing ever receives from watcher.Errors: after the first error (e.g. the kernel notification queue overflowing during a burst of writes while the consumer is late) fsnotify blocks on that unbuffered channel and no further change is ever notified")
	}

	// R19.4 shutdown structure
	closesDeferredFirst := false
	for _, in := range worker.Blocks[0].Instrs {
		if d, ok := in.(*ssa.Defer); ok {
			if bi, ok := d.Call.Value.(*ssa.Builtin); ok && bi.Name() == "close" {
				closesDeferredFirst = true
			}
			break
		}
		if _, isCall := in.(*ssa.Call); isCall {
			break
		}
	}
	c.Check(closesDeferredFirst && len(change.Close) == 1 && change.Close[0].Fn == worker, "R19.4", "config.DetectDeviceConfigChanges/defer-close-first", c.P.Pos(worker.Pos()),
		"close(change) is deferred before anything else in the only sender", "close(change) is not deferred as the first statement of the sending goroutine: some exit path leaves the notification stream open")
	// a goroutine waits for ctx.Done and closes the watcher
	closer := false
	// candidates: closures of the worker and named functions it starts with `go`
	var cands []*ssa.Function
	cands = append(cands, worker.AnonFuncs...)
	for _, b := range worker.Blocks {
		for _, in := range b.Instrs {
			if g, ok := in.(*ssa.Go); ok {
				if f := g.Call.StaticCallee(); f != nil && f.Parent() == nil && c.P.OwnedFunc(f) {
					cands = append(cands, f)
				}
			}
		}
	}
	for _, af := range cands {
		waits, closes := false, false
		for _, b := range af.Blocks {
			for _, in := range b.Instrs {
				if u, ok := in.(*ssa.UnOp); ok && u.Op.String() == "<-" && (isCtxDone(u.X) || isCtxDoneOfParam(u.X)) {
					waits = true
				}
				if call, ok := in.(*ssa.Call); ok {
					if name, pkg, _ := calledMethod(call); name == "Close" && strings.Contains(pkg, "fsnotify") {
						closes = waits
					}
				}
			}
		}
		if waits && closes {
			for _, b := range worker.Blocks {
				for _, in := range b.Instrs {
					if g, ok := in.(*ssa.Go); ok && (closureOf(g.Call.Value) == af || g.Call.StaticCallee() == af) && !inCycle(b) {
						closer = true
						// a named function must be handed the caller's own context, not a fresh one
						for _, a := range g.Call.Args {
							if n, isN := a.Type().(*types.Named); isN && n.Obj().Name() == "Context" {
								if _, isCall := a.(*ssa.Call); isCall {
									closer = false
								}
							}
						}
					}
				}
			}
		}
	}
	c.Check(closer, "R19.4", "config.DetectDeviceConfigChanges/watcher-closed-on-cancel", c.P.Pos(worker.Pos()), "a goroutine waits for <-ctx.Done() and then closes the watcher", "nothing closes the watcher when the context is cancelled: the watcher goroutine never stops")
	// the event loop is a range over watcher.Events
	rangesEvents := false
	for _, b := range loopFn.Blocks {
		for _, in := range b.Instrs {
			if u, ok := in.(*ssa.UnOp); ok && u.Op.String() == "<-" && u.CommaOk && strings.HasSuffix(vwL.Term(u.X).String(), ".Events") && inCycle(b) {
				rangesEvents = true
			}
		}
	}
	c.Check(rangesEvents, "R19.4", "config.DetectDeviceConfigChanges/range-events", c.P.Pos(worker.Pos()), "the loop is `for event := range watcher.Events` (ends when the watcher is closed)", "the event loop does not range over watcher.Events")

	// R19.8 the stream ends (the deferred close runs) only where it may: when the watcher could not be created, or after the
	// event loop has ended.  A return in between - e.g. on the first directory that cannot be watched - ends the stream while
	// the application runs: no later modification is announced and the consumer sees a closed channel.
	{
		var eventsRecv *ssa.BasicBlock
		var createFail *ssa.BasicBlock
		if loopFn != worker && loopCall != nil {
			// the loop is a function of its own: the worker is past it after the call - if that function returns only
			// after its loop
			var lr *ssa.BasicBlock
			for _, b := range loopFn.Blocks {
				for _, in := range b.Instrs {
					if u, ok := in.(*ssa.UnOp); ok && u.Op.String() == "<-" && strings.HasSuffix(vwL.Term(u.X).String(), ".Events") && inCycle(b) {
						lr = b
					}
				}
			}
			through := lr != nil
			for _, b := range loopFn.Blocks {
				if _, ok := b.Instrs[len(b.Instrs)-1].(*ssa.Return); ok && b != loopFn.Recover && (lr == nil || !lr.Dominates(b)) {
					through = false
				}
			}
			if through && loopCall.Parent() == worker {
				eventsRecv = loopCall.Block()
			}
		}
		for _, b := range worker.Blocks {
			for _, in := range b.Instrs {
				if u, ok := in.(*ssa.UnOp); ok && u.Op.String() == "<-" && strings.HasSuffix(vw.Term(u.X).String(), ".Events") && inCycle(b) {
					eventsRecv = b
				}
			}
			if ifi, ok := b.Instrs[len(b.Instrs)-1].(*ssa.If); ok {
				if bo, ok := ifi.Cond.(*ssa.BinOp); ok && bo.Op.String() == "!=" {
					if ex, ok := bo.X.(*ssa.Extract); ok && ex.Index == 1 {
						if call, ok := ex.Tuple.(*ssa.Call); ok && call.Call.StaticCallee() != nil && call.Call.StaticCallee().Name() == "NewWatcher" {
							createFail = b.Succs[0]
						}
					}
				}
			}
		}
		bad8 := ""
		n8 := 0
		for _, b := range worker.Blocks {
			if _, ok := b.Instrs[len(b.Instrs)-1].(*ssa.Return); !ok || b == worker.Recover {
				continue
			}
			n8++
			okRet := createFail != nil && createFail.Dominates(b) || eventsRecv != nil && eventsRecv.Dominates(b)
			if !okRet {
				bad8 = fmt.Sprintf("the watcher goroutine can return (and close the notification stream) at %s before its event loop was ever entered and without the watcher having failed to be created", c.P.Pos(b.Instrs[len(b.Instrs)-1].Pos()))
			}
		}
		if n8 == 0 {
			c.Undec("R19.8", "config.DetectDeviceConfigChanges/stream-ends-only-after-the-event-loop", c.P.Pos(worker.Pos()), "no return found in the watcher goroutine")
		} else {
			c.Check(bad8 == "", "R19.8", "config.DetectDeviceConfigChanges/stream-ends-only-after-the-event-loop", c.P.Pos(worker.Pos()), fmt.Sprintf("%d return(s): after the watcher failed to be created, or after the event loop", n8), bad8)
		}
	}

	// R19.9 the watcher goroutine cannot be held up for ever before (or beside) its event loop: every loop in it other than
	// the loops that receive from the watcher's channels is bounded (a range over the directory list) or leaves on
	// cancellation. A retry loop around watcher.Add whose ctx.Done() case only leaves the select keeps spinning after the
	// watcher was closed: close(change) never runs, and while it waits no modification is delivered.
	{
		n9, bad9 := 0, ""
		var badPos token.Pos
		var blocks9 []*ssa.BasicBlock
		views9 := map[*ssa.Function]*FnView{}
		for _, f := range family {
			blocks9 = append(blocks9, f.Blocks...)
			views9[f] = NewFnView(c.P, f)
		}
		for _, b := range blocks9 {
			vw := views9[b.Parent()]
			for _, sc := range b.Succs {
				if !sc.Dominates(b) {
					continue
				}
				if _, bounded := loopKind(sc); bounded {
					continue
				}
				body := loopBody(sc, b)
				recvLoop := false
				for blk := range body {
					for _, in := range blk.Instrs {
						if u, ok := in.(*ssa.UnOp); ok && u.Op == token.ARROW {
							ts := vw.Term(resolveValue(u.X)).String()
							if strings.HasSuffix(ts, ".Events") || strings.HasSuffix(ts, ".Errors") {
								recvLoop = true // ends when the watcher is closed (R19.4)
							}
						}
					}
				}
				if recvLoop {
					continue
				}
				n9++
				if ok9, why := loopLeavesOnCancel(sc, b, func(v ssa.Value) bool { return isCtxDone(v) || isCtxDoneOfParam(v) }); !ok9 {
					bad9, badPos = why, firstPos(sc)
				}
			}
		}
		pos9 := c.P.Pos(worker.Pos())
		if badPos != token.NoPos {
			pos9 = c.P.Pos(badPos)
		}
		c.Check(bad9 == "", "R19.9", "config.DetectDeviceConfigChanges/no-unbounded-wait-outside-the-event-loop", pos9,
			fmt.Sprintf("%d unbounded loop(s) beside the event loop, each leaves on cancellation", n9), "in the watcher goroutine: "+bad9+" - the notification stream never ends and changes are not delivered meanwhile")
	}

	// R19.6 the loader only reads: a directory the loader (re)creates after the watcher was set up is loaded but never watched
	for _, name := range []string{"LoadDeviceConfigs", "loadDirectory"} {
		lf := c.P.Func(pkgConfig, "", name)
		if lf == nil {
			c.Undec("R19.6", "anchor:config."+name, "-", "function not found")
			continue
		}
		seen := map[*ssa.Function]bool{}
		bad := ""
		var walk func(f *ssa.Function)
		walk = func(f *ssa.Function) {
			if seen[f] || len(f.Blocks) == 0 {
				return
			}
			seen[f] = true
			for _, b := range f.Blocks {
				for _, in := range b.Instrs {
					ci, ok := in.(ssa.CallInstruction)
					if !ok {
						continue
					}
					callee := ci.Common().StaticCallee()
					if callee == nil {
						continue
					}
					if callee.Pkg != nil && callee.Pkg.Pkg.Path() == "os" {
						switch callee.Name() {
						case "Mkdir", "MkdirAll", "Create", "WriteFile", "Remove", "RemoveAll", "Rename", "Symlink", "Link":
							bad = "os." + callee.Name() + " at " + c.P.Pos(in.Pos())
						}
					}
					if c.P.OwnedFunc(callee) {
						walk(callee)
					}
				}
			}
			for _, af := range f.AnonFuncs {
				walk(af)
			}
		}
		walk(lf)
		c.Check(bad == "", "R19.6", "config."+name+"/read-only", c.P.Pos(lf.Pos()), "the loader changes nothing in the configuration tree",
			"the loader changes the configuration tree ("+bad+"): a directory created after the watcher was set up is loaded on every reload but was never watched, so edits there go unnoticed")
	}
	// R19.5 consumer
	ruleChangeConsumer(c, change)
	c.MinCount("R19.1", 1)
	c.MinCount("R19.2", 2)
	c.MinCount("R19.3", 1)
	c.MinCount("R19.4", 3)
	c.MinCount("R19.5", 2)
	c.MinCount("R19.7", 1)
	c.MinCount("R19.9", 1)
	c.DecidedClause("the watcher observes exactly the four directories the loader reads; a notification is sent iff the event is a write and the lower-cased name has the loader's suffix; the hand-off observes cancellation; close(change) is deferred first in the only sender, a goroutine closes the watcher on cancellation and the loop ranges over the watcher's event channel; the consumer cancels the per-cycle device context on a notification and the outer loop reloads the configurations")
	c.UndecidedClause("kernel notification timing and coalescing (inotify), fsnotify internals; the result of watcher.Add is dropped (a directory that cannot be watched is silently ignored - note, not part of the statement)")
}

// isCtxDoneOfParam: v is ctx.Done() of a context.Context parameter (a named goroutine function receiving the context).
func isCtxDoneOfParam(v ssa.Value) bool {
	call, ok := v.(*ssa.Call)
	if !ok || !call.Call.IsInvoke() || call.Call.Method.Name() != "Done" {
		return false
	}
	_, isParam := call.Call.Value.(*ssa.Parameter)
	return isParam
}

// selectTook: the path's atoms on the select's chosen index are consistent with case idx.
func selectTook(p *Path, idx int64) bool {
	for _, a := range p.Atoms {
		op, l, r, ok := normAtom(a)
		if !ok {
			continue
		}
		if _, isC := l.IsConst(); isC {
			l, r, op = r, l, flipOp(op)
		}
		l = l.StripConv()
		if !(l.Op == "extract" && l.Aux == "0" && len(l.Args) == 1 && l.Args[0].Op == "select") {
			continue
		}
		k, isK := r.IsIntConst()
		if !isK {
			continue
		}
		switch op {
		case "==":
			if idx != k {
				return false
			}
		case "!=":
			if idx == k {
				return false
			}
		}
	}
	return true
}

func stripIDs(s string) string {
	// remove "#NN" and ":NN" instance ids
	var b strings.Builder
	for i := 0; i < len(s); i++ {
		if (s[i] == '#' || s[i] == ':') && i+1 < len(s) && s[i+1] >= '0' && s[i+1] <= '9' {
			j := i + 1
			for j < len(s) && s[j] >= '0' && s[j] <= '9' {
				j++
			}
			i = j - 1
			continue
		}
		b.WriteByte(s[i])
	}
	return b.String()
}

// isWriteTest: cnd (with polarity) says "the event's operation includes Write".
func isWriteTest(c *Ctx, cnd *Term, taken bool) bool {
	w, ok := c.P.constValue("github.com/fsnotify/fsnotify", "Write")
	if !ok {
		return false
	}
	wv, _ := constant.Int64Val(w)
	if cnd.Op == "binop" {
		x, y := cnd.Args[0], cnd.Args[1]
		if k, isK := y.IsIntConst(); isK {
			// Op == Write / Op != Write
			if strings.HasSuffix(stripIDs(x.String()), ".Op") && k == wv {
				return (cnd.Aux == "==" && taken) || (cnd.Aux == "!=" && !taken)
			}
			// Op & Write != 0 / == Write
			if x.Op == "binop" && x.Aux == "&" && strings.Contains(x.String(), ".Op") {
				if m, isM := x.Args[1].IsIntConst(); isM && m == wv {
					return (cnd.Aux == "!=" && k == 0 && taken) || (cnd.Aux == "==" && k == 0 && !taken) || (cnd.Aux == "==" && k == wv && taken)
				}
			}
		}
	}
	if cnd.Op == "call" && strings.Contains(cnd.Aux, "fsnotify.Op).Has") && taken {
		for _, a := range cnd.Args {
			if k, isK := a.IsIntConst(); isK && k == wv {
				return true
			}
		}
	}
	return false
}

func ruleChangeConsumer(c *Ctx, change *chanClass) {
	run := c.P.Func(pkgMain, "Manager", "Run")
	if !c.Require(run != nil, "R19.5", "anchor:Manager.Run", "Manager.Run not found") {
		return
	}
	c.Fn(shortFn(run))
	// receivers of the change channel
	for i, r := range change.Recvs {
		key := fmt.Sprintf("consumer#%d@%s", i+1, shortFn(r.Fn))
		pos := c.P.Pos(r.Instr.Pos())
		sel, ok := r.Instr.(*ssa.Select)
		if !ok {
			c.Bad("R19.5", key, pos, "the change channel is not consumed by a select")
			continue
		}
		// every path that takes the change case calls the CancelFunc of the per-cycle context before it waits again
		// or returns (one iteration of the consumer, from the select back to the select)
		fn := r.Fn
		start := sel.Block()
		paths, err := Enumerate(fn, SymConfig{Prog: c.P, MaxDepth: 1, Collapse: true, OnlyInline: map[*ssa.Function]bool{}, Start: start, Stop: map[*ssa.BasicBlock]bool{start: true}})
		if err != nil {
			c.Undec("R19.5", key+"/cancels-device-context", pos, fmt.Sprint(err))
			continue
		}
		c.Paths += len(paths)
		idx := int64(r.Aux)
		n, bad := 0, ""
		for _, p := range paths {
			if p.End == "cut" || !selectTook(p, idx) {
				continue
			}
			n++
			cancelled := false
			for _, e := range p.Effects {
				if e.Kind != "call" {
					continue
				}
				if call, ok := e.Instr.(*ssa.Call); ok && call.Call.StaticCallee() == nil && !call.Call.IsInvoke() && strings.Contains(call.Call.Value.Type().String(), "CancelFunc") {
					cancelled = true
				}
			}
			if !cancelled {
				bad = fmt.Sprintf("a path that receives a change notification does not cancel the device context (it %s): that change is swallowed and the devices keep running with the old configuration", map[bool]string{true: "goes back to waiting", false: "ends"}[strings.HasPrefix(p.End, "exit")])
			}
		}
		if n == 0 {
			c.Undec("R19.5", key+"/cancels-device-context", pos, "no path takes the change-notification case")
			continue
		}
		c.Check(bad == "", "R19.5", key+"/cancels-device-context", pos, fmt.Sprintf("%d path(s) through the change case, each calls cancel() of the per-cycle context", n), bad)
	}
	c.Check(len(change.Recvs) >= 1, "R19.5", "consumer/exists", c.P.Pos(run.Pos()), "the notification channel has a consumer", "nobody receives from the notification channel")
	// the outer loop reloads
	ldc := c.P.Func(pkgConfig, "", "LoadDeviceConfigs")
	reload := false
	for _, b := range run.Blocks {
		for _, in := range b.Instrs {
			if call, ok := in.(*ssa.Call); ok && call.Call.StaticCallee() == ldc && inCycle(b) {
				reload = true
			}
		}
	}
	c.Check(reload, "R19.5", "cmd/hidi.Manager.Run/reloads-configs-each-cycle", c.P.Pos(run.Pos()), "LoadDeviceConfigs is called inside the manager's outer loop", "LoadDeviceConfigs is not called again after a change")
}

func ruleNotifyIff(c *Ctx, worker *ssa.Function, change *chanClass, suffix string) {
	pos := c.P.Pos(worker.Pos())
	vw := NewFnView(c.P, worker)
	// the receive from watcher.Events
	var start *ssa.BasicBlock
	for _, b := range worker.Blocks {
		for _, in := range b.Instrs {
			if u, ok := in.(*ssa.UnOp); ok && u.Op == token.ARROW && strings.HasSuffix(vw.Term(u.X).String(), ".Events") && inCycle(b) {
				start = b
			}
		}
	}
	key := "config.DetectDeviceConfigChanges/notify-iff-write+suffix"
	if start == nil {
		c.Undec("R19.2", key, pos, "the receive from watcher.Events was not found")
		return
	}
	inline := map[*ssa.Function]bool{}
	for f := range valueHelpers(c.P) {
		inline[f] = true // (a file-name test in a value helper is seen as its conditions)
	}
	sendInstr := map[ssa.Instruction]bool{}
	for _, s := range change.Sends {
		sendInstr[s.Instr] = true
		if s.Fn != worker && s.Fn.Parent() == nil {
			inline[s.Fn] = true // a notification helper
		}
	}
	paths, err := Enumerate(worker, SymConfig{Prog: c.P, MaxDepth: 2, Collapse: true, OnlyInline: inline, Start: start, Stop: map[*ssa.BasicBlock]bool{start: true}})
	if err != nil {
		c.Undec("R19.2", key, pos, fmt.Sprint(err))
		return
	}
	c.Paths += len(paths)
	n, bad := 0, ""
	for _, p := range paths {
		if p.End == "cut" {
			continue
		}
		n++
		notified := false
		for _, e := range p.Effects {
			if (e.Kind == "select" || e.Kind == "send") && sendInstr[e.Instr] {
				notified = true
			}
		}
		write, notWrite, suf, notSuf, closed := false, false, false, false, false
		var extra []string
		for _, a := range p.Atoms {
			cnd, taken := a.Cond, a.Taken
			for cnd.Op == "unop" && cnd.Aux == "!" {
				cnd, taken = cnd.Args[0], !taken
			}
			str := cnd.String()
			switch {
			case cnd.Op == "call" && strings.HasPrefix(cnd.Aux, "strings.HasSuffix"):
				got, _ := cnd.Args[1].IsStringConst()
				if got == suffix && strings.Contains(cnd.Args[0].String(), "strings.ToLower") {
					if taken {
						suf = true
					} else {
						notSuf = true
					}
				} else {
					extra = append(extra, a.String())
				}
			case isWriteTest(c, cnd, taken):
				write = true
			case isWriteTest(c, cnd, !taken):
				notWrite = true
			case cnd.Op == "extract" && cnd.Aux == "1" && len(cnd.Args) == 1 && cnd.Args[0].Op == "recv":
				if !taken {
					closed = true
				}
			case strings.Contains(str, "select"):
				// which case of the hand-off select fired
			default:
				extra = append(extra, a.String())
			}
		}
		switch {
		case notified && !(write && suf):
			bad = "a notification is sent on a path that has not established 'write to a name with suffix " + suffix + "'"
		case !notified && !(notWrite || notSuf || closed):
			bad = "an iteration of the watcher loop ends without notifying although it has not seen the event to be a non-write, a name without the suffix, or the stream closed (conditions on the path: " + truncate(strings.Join(extra, "; "), 200) + "): some in-place modifications of a configuration file go unnoticed"
		}
	}
	if n == 0 {
		c.Undec("R19.2", key, pos, "no path through one iteration of the watcher loop")
		return
	}
	c.Check(bad == "", "R19.2", key, pos, fmt.Sprintf("%d path(s) through one iteration: notified iff write && suffix", n), bad)
}

// calledMethod: name and package of the function or method a call reaches - statically, or through a variable that was
// bound once to a method value (`add := watcher.Add; add(dir)`) - and the arguments without the receiver.
func calledMethod(call *ssa.Call) (name, pkg string, args []ssa.Value) {
	if callee := call.Call.StaticCallee(); callee != nil {
		if _, isMC := call.Call.Value.(*ssa.MakeClosure); !isMC {
			args = call.Call.Args
			if callee.Signature.Recv() != nil && len(args) > 0 {
				args = args[1:]
			}
			return callee.Name(), pkgPathOf(callee), args
		}
	}
	if call.Call.IsInvoke() {
		return "", "", nil
	}
	if m, _ := boundMethodOf(call.Call.Value); m != nil && m.Pkg() != nil {
		return m.Name(), m.Pkg().Path(), call.Call.Args
	}
	return "", "", nil
}
