package main

import (
	"fmt"
	"go/constant"
	"go/token"
	"go/types"
	"math"
	"os"
	"sort"
	"strings"

	"golang.org/x/tools/go/ssa"
)

func init() {
	registry["C15"] = checkC15
	controlRegistry["C15"] = controlsC15
}

func isMidiPathClass(cl *chanClass) bool {
	if len(cl.Makes) == 0 {
		return false
	}
	top := topFunc(cl.Makes[0].Fn)
	if o := top.Origin(); o != nil {
		top = o
	}
	if top.Pkg == nil {
		return false
	}
	pk := top.Pkg.Pkg.Path()
	elem := cl.Elem.String()
	isEvent := strings.HasSuffix(elem, "/midi.Event")
	isBytes := elem == "[]byte"
	switch pk {
	case pkgMain:
		return isEvent
	case pkgUtils:
		return true // generic fan-out instantiated for midi.Event
	case pkgAlsa, pkgMidi:
		return isBytes || isEvent
	case pkgDevice:
		// a queue of its own that a device puts between its emitters and the shared output (used: somebody sends or receives)
		return isEvent && (len(cl.Sends) > 0 || len(cl.Recvs) > 0)
	}
	return false
}

// transportRules: the C15 rules that other properties import (relays, fan-out, close ordering), without C15's own imports.
func transportRules(c *Ctx) {
	cf := buildChanFlow(c.P)
	classes := cf.Classes()
	var midiClasses []*chanClass
	for _, cl := range classes {
		if isMidiPathClass(cl) {
			midiClasses = append(midiClasses, cl)
		}
	}
	ruleOneReceiver(c, midiClasses)
	ruleOneLane(c, midiClasses)
	rulePortClosedByItsWriter(c)
	ruleForwardOnce(c, cf, midiClasses)
	ruleRelayDrains(c, cf, midiClasses)
	ruleFanOut(c)
	ruleNoSendAfterClose(c, midiClasses)
}

// constructorRules: R5.1 alone (each constructor is a straight-line function returning a fresh 3-byte value).
func constructorRules(c *Ctx) {
	dv := newDev(c, "R5.0")
	if dv.ok {
		ruleCtorShape(c, dv)
	}
}

// noSharedStateRules: R16.5 alone.
func noSharedStateRules(c *Ctx) {
	dv := newDev(c, "R16.0")
	if dv.ok && dv.fn["NewDevice"] != nil {
		ruleNoCrossTalk(c, dv)
	}
}

func checkC15(c *Ctx) {
	c.importRules(constructorRules, []string{"R5.1"}, "R15.6") // the transport queues references: a message must be its own fresh value
	// the consumer of a fan-out output keeps consuming: the fan-out delivers with a blocking send under its lock, so a device
	// reader that waits on anything but its select (a wake-up channel nobody may be reading) stalls the MIDI input of every
	// device and the removal of its own
	c.importRulesWhere(inputConsumerRules, []string{"R16.3", "R16.10"}, "R15.11", func(k string) bool { return strings.Contains(k, "handleInputEvents") })
	cf := buildChanFlow(c.P)
	classes := cf.Classes()
	var midiClasses []*chanClass
	for _, cl := range classes {
		if isMidiPathClass(cl) {
			midiClasses = append(midiClasses, cl)
		}
	}
	c.Check(len(midiClasses) >= 6, "R15.1", "midi-path-channels", "-", fmt.Sprintf("%d abstract channels on the MIDI path (of %d in the program)", len(midiClasses), len(classes)), "MIDI path channels not found")
	ruleOneReceiver(c, midiClasses)
	ruleOneLane(c, midiClasses)
	rulePortClosedByItsWriter(c)
	ruleForwardOnce(c, cf, midiClasses)
	ruleRelayDrains(c, cf, midiClasses)
	ruleFanOut(c)
	ruleNoSendAfterClose(c, midiClasses)
	c.MinCount("R15.1", 6)
	c.MinCount("R15.2", 4)
	c.MinCount("R15.3", 6)
	c.MinCount("R15.5", 3)
	c.MinCount("R15.9", 3)
	c.MinCount("R15.10", 1)
	c.DecidedClause("each hop of the MIDI path (device output channel, ALSA out/in channels, input relay channel, fan-out input, each fan output) has exactly one receiving function, started once; every relay forwards a value only when one was actually received (ok) and exactly once; the fan-out touches its output map only under its mutex, sends each element to every output in one critical section, closes and removes an output in one critical section, and releases the lock on every realisable path; no blocking send is made while holding the lock that removal needs; channels are closed only after their senders are done")
	c.UndecidedClause("actual interleavings, fairness, buffer sizes, the ALSA/rtmidi driver, messages still buffered when the context is cancelled (relays stop without draining), the unsynchronised `closed` flag of the fan-out")
	c.Assumption("Go channels are FIFO and deliver each value to exactly one receiver")
}

// ruleOneReceiver: R15.1.
func ruleOneReceiver(c *Ctx, classes []*chanClass) {
	for _, cl := range classes {
		mk := cl.Makes[0]
		key := "chan@" + shortFn(mk.Fn) + "[" + types.TypeString(cl.Elem, func(p *types.Package) string { return p.Name() }) + "]"
		pos := c.P.Pos(mk.Instr.Pos())
		fns := map[*ssa.Function]bool{}
		for _, r := range cl.Recvs {
			fns[r.Fn] = true
		}
		if len(cl.Sends) == 0 && len(fns) == 0 {
			c.Trivial("R15.1", key+"/unused", pos, "channel is created but neither sent to nor received from")
			continue
		}
		// a second receiver is acceptable when it only discards (`for range ch {}`) and is started after the consumer it
		// stands in for has been joined: the shutdown drain that keeps the producer moving until the channel is removed
		if len(fns) > 1 {
			for f := range fns {
				if why, ok := discardingDrain(c, f); ok && len(fns) > 1 {
					delete(fns, f)
					c.OK("R15.1", key+"/drain@"+shortFn(f), c.P.Pos(f.Pos()), why)
				}
			}
		}
		if len(fns) != 1 {
			var names []string
			for f := range fns {
				names = append(names, shortFn(f))
			}
			sort.Strings(names)
			c.Bad("R15.1", key+"/one-receiver", pos, fmt.Sprintf("%d receiving functions %v on one hop of the MIDI path: messages would be split between them (or never consumed)", len(fns), names))
			continue
		}
		var rf *ssa.Function
		for f := range fns {
			rf = f
		}
		// the receiver is started by go statements that are not inside a loop of their function (one consumer per channel instance)
		bad := ""
		launches := 0
		for _, fn := range c.P.Funcs {
			for _, b := range fn.Blocks {
				for _, in := range b.Instrs {
					g, ok := in.(*ssa.Go)
					if !ok {
						continue
					}
					target := g.Call.StaticCallee()
					if target == nil {
						target = closureOf(g.Call.Value)
					}
					if target != rf {
						continue
					}
					launches++
					if inCycle(b) {
						bad = "the receiving goroutine " + shortFn(rf) + " is started inside a loop at " + c.P.Pos(g.Pos()) + ": several consumers on one channel"
					}
					// started by a constructor: the constructor must not be called in a loop that the channel was made outside of
					// (a fan-out created per configuration reload on the one MIDI input channel: the old one keeps reading too)
					if host := topFunc(fn); host != topFunc(mk.Fn) && bad == "" {
						if sites, ok := staticCallSites(c.P, host); ok {
							for _, cs := range sites {
								if inCycle(cs.Block()) && !(topFunc(mk.Fn) == topFunc(cs.Parent()) && inCycle(mk.Instr.Block())) {
									bad = "the receiving goroutine " + shortFn(rf) + " is started by " + shortFn(host) + ", which is called inside a loop at " + c.P.Pos(cs.Pos()) + " while the channel it reads is made once: after the second iteration two consumers split the messages between them"
								}
							}
						}
					}
				}
			}
		}
		if launches > 1 && bad == "" {
			bad = fmt.Sprintf("the receiving goroutine %s is started at %d places", shortFn(rf), launches)
		}
		if bad != "" {
			c.Bad("R15.1", key+"/one-receiver", pos, bad)
		} else {
			c.OK("R15.1", key+"/one-receiver", pos, "sole receiver "+shortFn(rf)+"; "+cl.describe(c.P))
		}
	}
}

// ruleForwardOnce: R15.2 a relay forwards what it received, only when it received something, exactly once.
func ruleForwardOnce(c *Ctx, cf *chanFlow, classes []*chanClass) {
	closable := map[ssa.Instruction]bool{} // receive instructions on channels that have a close site
	relay := map[*ssa.Function]bool{}
	midiRecv := map[ssa.Instruction]bool{}
	midiState := map[ssa.Instruction]map[int]bool{}
	for _, cl := range classes {
		for _, r := range cl.Recvs {
			midiRecv[r.Instr] = true
			if midiState[r.Instr] == nil {
				midiState[r.Instr] = map[int]bool{}
			}
			midiState[r.Instr][r.Aux] = true
			if len(cl.Close) > 0 {
				closable[r.Instr] = true
			}
			top := topFunc(r.Fn)
			if top.Pkg != nil && top.Pkg.Pkg.Path() == pkgDevice {
				mk := topFunc(cl.Makes[0].Fn)
				if mk.Pkg == nil || mk.Pkg.Pkg.Path() != pkgDevice {
					continue // end consumer (the device's MIDI input), not a relay
				}
				// the receiver of a channel the device package makes itself: a relay of the device's own output queue
			}
			relay[r.Fn] = true
		}
	}
	var fns []*ssa.Function
	for f := range relay {
		fns = append(fns, f)
	}
	sort.Slice(fns, func(i, j int) bool { return fns[i].String() < fns[j].String() })
	for _, fn := range fns {
		c.Fn(shortFn(fn))
		paths, err := Enumerate(fn, SymConfig{Prog: c.P, MaxDepth: 1, Collapse: true, OnlyInline: map[*ssa.Function]bool{}})
		key := "relay@" + shortFn(fn)
		pos := c.P.Pos(fn.Pos())
		if err != nil {
			c.Undec("R15.2", key, pos, fmt.Sprint(err))
			continue
		}
		c.Paths += len(paths)
		bad := ""
		segments := 0
		// terminal hops (no channel send at all) and the fan-out (per-output sends, checked by R15.3) are exempt from the count
		countSends := false
		for _, b := range fn.Blocks {
			for _, in := range b.Instrs {
				if _, ok := in.(*ssa.Send); ok {
					countSends = true
				}
				if r, ok := in.(*ssa.Range); ok {
					if _, isMap := r.X.Type().Underlying().(*types.Map); isMap {
						countSends = false
					}
				}
			}
		}
		if hasMapRange(fn) {
			countSends = false
		}
		for _, p := range paths {
			// split the effect list at receive points
			type seg struct {
				recv     *Effect
				val, okT *Term
				sends    []Effect
				calls    int
			}
			var cur *seg
			var segs []*seg
			for i := range p.Effects {
				e := &p.Effects[i]
				switch e.Kind {
				case "recv":
					if midiRecv[e.Instr] {
						u := e.Instr.(*ssa.UnOp)
						cur = &seg{recv: e}
						if u.CommaOk {
							cur.val = &Term{Op: "extract", Args: []*Term{e.Args[1]}, Aux: "0"}
							cur.okT = &Term{Op: "extract", Args: []*Term{e.Args[1]}, Aux: "1"}
						} else {
							cur.val = e.Args[1]
						}
						segs = append(segs, cur)
					}
				case "select":
					sel := e.Instr.(*ssa.Select)
					if !midiRecv[e.Instr] {
						continue
					}
					// which state was chosen on this path?
					st := p.selectTerm(e)
					chosen := int64(-1)
					if st != nil {
						idx := (&Term{Op: "extract", Args: []*Term{st}, Aux: "0"}).String()
						for _, a := range p.Atoms {
							op, x, y, ok := normAtom(a)
							if ok && op == "==" && x.String() == idx {
								if k, isK := y.IsIntConst(); isK {
									chosen = k
								}
							}
						}
					}
					cur = &seg{recv: e}
					segs = append(segs, cur)
					if chosen >= 0 && int(chosen) < len(sel.States) && sel.States[chosen].Dir == types.RecvOnly && midiState[e.Instr][int(chosen)] {
						// position of the received value in the tuple: 2 + number of receive states before it
						k := 2
						for i := 0; i < int(chosen); i++ {
							if sel.States[i].Dir == types.RecvOnly {
								k++
							}
						}
						cur.val = &Term{Op: "extract", Args: []*Term{st}, Aux: fmt.Sprint(k)}
						cur.okT = &Term{Op: "extract", Args: []*Term{st}, Aux: "1"}
					}
				case "next":
					// range over a channel
					if nx, ok := e.Instr.(*ssa.Next); ok {
						if r, ok := nx.Iter.(*ssa.Range); ok {
							if _, isChan := r.X.Type().Underlying().(*types.Chan); isChan {
								cur = &seg{recv: e, val: &Term{Op: "extract", Args: []*Term{e.Args[1]}, Aux: "1"}, okT: &Term{Op: "extract", Args: []*Term{e.Args[1]}, Aux: "0"}}
								segs = append(segs, cur)
							}
						}
					}
				case "send":
					if cur != nil {
						cur.sends = append(cur.sends, *e)
					} else {
						bad = "a send before anything was received: " + e.String()
					}
				}
			}
			for si, s := range segs {
				segments++
				complete := p.End != "cut" || si < len(segs)-1 // (on a cut path only the last segment may be unfinished)
				received := s.val != nil
				okKnown, okVal := false, false
				if s.okT != nil {
					okVal, okKnown = boolAtom(p.Atoms, s.okT.String())
				}
				if _, isNext := s.recv.Instr.(*ssa.Next); isNext {
					if !okKnown || !okVal {
						received = false
					}
				}
				forwarded := 0
				for _, snd := range s.sends {
					v := snd.Args[1].StripConv()
					if received && s.val != nil && v.String() != s.val.String() && strings.Contains(v.String(), s.val.String()) && !freshCopyOf(v, s.val) {
						bad = fmt.Sprintf("the relay forwards at %s a value built from the received message (%s) that is neither the message itself nor a fresh copy of it: a buffer reused for every message makes all queued messages share one backing array (older queued messages read as the newest one)", c.P.Pos(snd.Instr.Pos()), truncate(v.String(), 100))
					}
					if received && s.val != nil && (v.String() == s.val.String() || strings.Contains(v.String(), s.val.String())) {
						forwarded++
						// on a closable channel the forwarded value must be known to be a real one
						if closable[s.recv.Instr] && s.okT != nil && !(okKnown && okVal) {
							bad = fmt.Sprintf("the relay forwards the received variable at %s on a path where the receive may have failed (channel closed, ok == false): a zero message that nobody emitted is written to the next hop", c.P.Pos(snd.Instr.Pos()))
						}
					} else {
						// sending something that is not the value of this receive
						if !received {
							bad = fmt.Sprintf("the relay sends at %s although nothing was received on this path (cancellation or closed channel)", c.P.Pos(snd.Instr.Pos()))
						}
					}
				}
				if received && (okKnown && okVal || s.okT == nil || (!okKnown && !closable[s.recv.Instr])) && complete {
					if fanOutLoop(s.sends) {
						continue
					}
					if countSends && forwarded != 1 && endsSegment(p, s.recv) {
						bad = fmt.Sprintf("a received message is forwarded %d times (must be exactly once)", forwarded)
					}
				}
			}
		}
		// a relay that parks the received message in a variable and writes it from a later select iteration must not
		// keep receiving meanwhile: an ungated receive overwrites the parked message
		for _, b := range fn.Blocks {
			for _, in := range b.Instrs {
				sel, ok := in.(*ssa.Select)
				if !ok {
					continue
				}
				carried := func(v ssa.Value) bool {
					for i := 0; i < 4; i++ {
						switch x := v.(type) {
						case *ssa.ChangeType:
							v = x.X
						case *ssa.Convert:
							v = x.X
						}
					}
					switch x := v.(type) {
					case *ssa.Phi:
						for _, p := range x.Block().Preds {
							if x.Block().Dominates(p) {
								return true // loop-carried
							}
						}
					case *ssa.UnOp:
						_, isAlloc := x.X.(*ssa.Alloc)
						return isAlloc
					}
					return false
				}
				parked := false
				for _, st := range sel.States {
					if st.Dir == types.SendOnly && st.Send != nil && carried(st.Send) {
						parked = true
					}
				}
				if !parked {
					continue
				}
				for i, st := range sel.States {
					if st.Dir == types.RecvOnly && midiState[in] != nil && midiState[in][i] && !carried(st.Chan) {
						bad = fmt.Sprintf("the select at %s sends a message parked in a variable by an earlier iteration while its receive case on the MIDI channel stays enabled: a message received before the parked one is written overwrites it (lost message)", c.P.Pos(sel.Pos()))
					}
				}
			}
		}
		if bad != "" {
			c.Bad("R15.2", key, pos, bad)
		} else {
			c.OK("R15.2", key, pos, fmt.Sprintf("%d path(s), %d receive segment(s): a value is forwarded iff it was received, once", len(paths), segments))
		}
	}
}

// selectTerm finds the term that stands for the select instruction of effect e on path p.
func (p *Path) selectTerm(e *Effect) *Term {
	var found *Term
	visit := func(t *Term) {
		t.Walk(func(x *Term) bool {
			if x.Op == "select" && found == nil {
				found = x
			}
			return true
		})
	}
	// the select term appears in atoms following the effect
	for i := e.NAtoms; i < len(p.Atoms) && found == nil; i++ {
		visit(p.Atoms[i].Cond)
	}
	return found
}

// endsSegment: the path continues past this receive to another receive or to the end (so the segment is complete).
func endsSegment(p *Path, recv *Effect) bool { return true }

// fanOutLoop: the sends of a segment are the per-output sends of the fan-out (inside a range over the outputs map).
func fanOutLoop(sends []Effect) bool {
	for _, s := range sends {
		if strings.Contains(s.Args[0].String(), "next") {
			return true
		}
	}
	return false
}

// ruleFanOut: R15.3 and R15.4 on utils.DynamicFanOut.
func ruleFanOut(c *Ctx) {
	runs := c.P.Instances(pkgUtils, "DynamicFanOut", "run")
	if len(runs) == 0 {
		// the delivery loop by its role: the function the constructor starts with `go` (a method turned into a function)
		for _, ctor := range c.P.Instances(pkgUtils, "", "NewDynamicFanOut") {
			for _, b := range ctor.Blocks {
				for _, in := range b.Instrs {
					if g, ok := in.(*ssa.Go); ok {
						if f := g.Call.StaticCallee(); f != nil && c.P.OwnedFunc(f) && len(f.Blocks) > 0 {
							runs = append(runs, f)
						}
					}
				}
			}
		}
	}
	spawns := c.P.Instances(pkgUtils, "DynamicFanOut", "SpawnOutput")
	despawns := c.P.Instances(pkgUtils, "DynamicFanOut", "DespawnOutput")
	if !c.Require(len(runs) >= 1 && len(spawns) >= 1 && len(despawns) >= 1, "R15.3", "anchor:utils.DynamicFanOut", "instantiated methods run/SpawnOutput/DespawnOutput not found") {
		return
	}
	run, spawn, despawn := runs[0], spawns[0], despawns[0]
	named, _ := deref(spawn.Signature.Recv().Type()).(*types.Named) // (run may be a plain function taking the fan-out)
	if !c.Require(named != nil, "R15.3", "anchor:DynamicFanOut type", "receiver type not found") {
		return
	}
	var outputsF, mutexF *types.Var
	st := named.Underlying().(*types.Struct)
	for i := 0; i < st.NumFields(); i++ {
		switch st.Field(i).Name() {
		case "outputs":
			outputsF = st.Field(i)
		case "mutex":
			mutexF = st.Field(i)
		}
	}
	if !c.Require(outputsF != nil && mutexF != nil, "R15.3", "anchor:DynamicFanOut.outputs/mutex", "fields not found") {
		return
	}
	// the value the goroutine works on is the value everybody else uses: a copy made after `go f.run()` (a constructor
	// returning the struct by value) has its own mutex but shares the map - no critical section excludes the delivery loop
	{
		sites := lockCopies(c.P, func(fn *ssa.Function) bool {
			return c.P.OwnedFunc(fn) && !strings.Contains(pkgPathOf(topFunc(fn)), "/controls")
		})
		bad := ""
		for _, s := range sites {
			bad = fmt.Sprintf("%s: the %s value is copied at %s although a goroutine started at %s keeps using the original: the copy has its own mutex but shares the maps/channels, so Spawn/Despawn no longer exclude the delivery loop (send on a closed channel, concurrent map access)", shortFn(s.fn), s.typ, c.P.Pos(s.copyPos), c.P.Pos(s.goPos))
		}
		c.Check(bad == "", "R15.3", "lock-carrying-value-not-copied-after-its-goroutine-started", "-", "no value that carries a mutex is copied after a goroutine was started on it", bad)
	}
	la := newLockAnalysis(c.P, named)
	// keyed by role, not by name: the delivery loop may be a method, a plain or a generic function
	roles := []string{"run", "SpawnOutput", "DespawnOutput"}
	for i, f := range []*ssa.Function{run, spawn, despawn} {
		c.Fn(shortFn(f))
		la.Walk(roles[i], f, lockset{}, nil)
	}
	lockKey := "field:mutex"
	byFn := map[string][2]int{}
	for _, a := range la.accesses {
		if a.Field != outputsF {
			continue
		}
		v := byFn[a.Root]
		if a.Locks[lockKey] {
			v[0]++
		} else {
			v[1]++
		}
		byFn[a.Root] = v
	}
	for _, f := range roles {
		v := byFn[f]
		key := "utils.DynamicFanOut." + f + "/outputs-under-mutex"
		if v[0]+v[1] == 0 {
			c.Bad("R15.3", key, "-", "no access to the output map found")
			continue
		}
		c.Check(v[1] == 0, "R15.3", key, "-", fmt.Sprintf("%d access(es) to the output map, all while holding the mutex", v[0]),
			fmt.Sprintf("%d access(es) to the output map without the mutex (of %d): spawn/despawn can race with the delivery loop", v[1], v[0]+v[1]))
	}
	// run delivers to every output in one critical section: the send inside the range loop dominates the latch
	ruleRunDeliversAll(c, run, outputsF)
	// despawn: close and delete in the same critical section
	var closeI, delI ssa.Instruction
	for _, b := range despawn.Blocks {
		for _, in := range b.Instrs {
			if call, ok := in.(*ssa.Call); ok {
				if bi, ok := call.Call.Value.(*ssa.Builtin); ok {
					switch bi.Name() {
					case "close":
						closeI = in
					case "delete":
						if derivesFromField(call.Call.Args[0], outputsF, map[ssa.Value]bool{}) {
							delI = in
						}
					}
				}
			}
		}
	}
	okCD := closeI != nil && delI != nil && closeI.Block() == delI.Block() && heldAt(closeI, mutexF) && heldAt(delI, mutexF)
	if okCD {
		// no unlock between them
		between := false
		for _, in := range closeI.Block().Instrs {
			if call, ok := in.(*ssa.Call); ok {
				if op, _ := mutexOp(&call.Call); op == "unlock" && instrBefore(closeI, in) != instrBefore(delI, in) {
					between = true
				}
			}
		}
		okCD = !between
	}
	c.Check(okCD, "R15.3", "utils.DynamicFanOut.DespawnOutput/close+delete-one-critical-section", c.P.Pos(despawn.Pos()),
		"close(c) and delete(outputs, id) happen while the mutex is held, with no unlock in between (the delivery loop can never send on a closed channel)",
		"close of the output channel and its removal from the map are not in one critical section: the delivery loop can send on a closed channel (panic) or the entry outlives its channel")
	// every lock is released on every path
	for _, f := range []*ssa.Function{run, spawn, despawn} {
		ruleLockReleased(c, f, mutexF)
	}
	ruleInsertUnderMiss(c, spawn, outputsF)
	// R15.4 blocking send while holding the lock removal needs
	for _, bo := range la.blocking {
		if bo.Kind != "send" || !bo.Locks[lockKey] {
			continue
		}
		key := "utils.DynamicFanOut." + bo.Root + "/send(outputs[*])-under(mutex)"
		// harmless if no consumer ever stops receiving before its output is removed: every DespawnOutput call site
		// starts, beforehand, a goroutine that drains the very channel SpawnOutput handed out for that id
		if why, ok := drainedBeforeDespawn(c, despawn, spawn); ok {
			c.OK("R15.4", key, c.P.Pos(bo.Instr.Pos()), "the delivery loop sends while holding the mutex, but "+why)
			continue
		}
		c.Bad("R15.4", key, c.P.Pos(bo.Instr.Pos()), "blocking send to an output channel while holding the mutex that DespawnOutput needs: when a device has stopped reading and its buffer is full, the delivery loop blocks inside the critical section, DespawnOutput of that very device blocks on Lock, removal never completes and MIDI input stops for all devices")
	}
	nb := 0
	for _, bo := range la.blocking {
		if bo.Kind == "send" {
			nb++
		}
	}
	if nb == 0 {
		c.OK("R15.4", "utils.DynamicFanOut/no-blocking-send-under-mutex", "-", "no send while holding the mutex")
	}
}

func ruleRunDeliversAll(c *Ctx, run *ssa.Function, outputsF *types.Var) {
	key := "utils.DynamicFanOut.run/delivers-to-every-output"
	pos := c.P.Pos(run.Pos())
	var rng *ssa.Range
	// the delivery loop may live in run itself or in a helper method run calls on every received element
	var chain []*ssa.Call
	host := run
	for depth := 0; depth < 3 && rng == nil; depth++ {
		for _, b := range host.Blocks {
			for _, in := range b.Instrs {
				if r, ok := in.(*ssa.Range); ok && derivesFromField(r.X, outputsF, map[ssa.Value]bool{}) {
					rng = r
				}
			}
		}
		if rng != nil {
			break
		}
		var next *ssa.Call
		n := 0
		for _, b := range host.Blocks {
			for _, in := range b.Instrs {
				if call, ok := in.(*ssa.Call); ok {
					if callee := call.Call.StaticCallee(); callee != nil && c.P.OwnedFunc(callee) && callee.Blocks != nil {
						next = call
						n++
					}
				}
			}
		}
		if n != 1 {
			break
		}
		chain = append(chain, next)
		host = next.Call.StaticCallee()
	}
	// every helper call on the way is executed for every received element (dominates the latch of its loop / every return)
	for _, call := range chain {
		okCall := true
		fn := call.Parent()
		for _, b := range fn.Blocks {
			for _, p := range b.Preds {
				if b.Dominates(p) && blockDominatesOrSame(b, call.Block()) && !blockDominatesOrSame(call.Block(), p) && reachesBlock(call.Block(), p) {
					okCall = false
				}
			}
		}
		if fn != run {
			for _, b := range fn.Blocks {
				if b == fn.Recover {
					continue
				}
				if _, isRet := b.Instrs[len(b.Instrs)-1].(*ssa.Return); isRet && !blockDominatesOrSame(call.Block(), b) {
					okCall = false
				}
			}
		}
		if !okCall {
			c.Bad("R15.3", key, c.P.Pos(call.Pos()), "the helper that delivers to the outputs is not called for every received element")
			return
		}
	}
	run = host
	if rng == nil {
		c.Bad("R15.3", key, pos, "run does not iterate over the output map")
		return
	}
	// header = block with Next on rng
	var header *ssa.BasicBlock
	for _, r := range *rng.Referrers() {
		if nx, ok := r.(*ssa.Next); ok {
			header = nx.Block()
		}
	}
	var send ssa.Instruction
	for _, b := range run.Blocks {
		for _, in := range b.Instrs {
			if s, ok := in.(*ssa.Send); ok {
				send = s
			}
			// the loop lives in a visitor that calls the function it was handed for every output: that function must send
			// on the output it is given, on every path
			if call, ok := in.(*ssa.Call); ok && send == nil {
				if ts, ok := paramFuncTargets(c.P, call.Call.Value); ok && len(ts) > 0 {
					allSend := true
					for _, t := range ts {
						sends := false
						for _, tb := range t.Blocks {
							for _, ti := range tb.Instrs {
								if sd, ok := ti.(*ssa.Send); ok && len(t.Params) > 0 && sd.Chan == ssa.Value(t.Params[0]) && dominatesAllReturns(tb, t) {
									sends = true
								}
							}
						}
						if !sends {
							allSend = false
						}
					}
					if allSend {
						send = call
					}
				}
			}
		}
	}
	if header == nil || send == nil {
		c.Bad("R15.3", key, pos, "no send inside the loop over the outputs")
		return
	}
	okAll := true
	for _, p := range header.Preds {
		if header.Dominates(p) && !blockDominatesOrSame(send.Block(), p) {
			okAll = false
		}
	}
	// the sent value is the element received from the input (not transformed)
	c.Check(okAll, "R15.3", key, c.P.Pos(send.Pos()), "the send is on every iteration of the loop over the whole output map (no filter, no early exit)", "some iterations of the loop over the outputs skip the send: not every connected device gets every message")
}

// ruleLockReleased: every path to a return has released the mutex (explicitly or by defer); reviewed exceptions listed.
var lockLeakExceptions = map[string]string{
	"SpawnOutput": "the `!found` return is reachable only with 2^63-1 live outputs (loop over all int64 ids found none free): no realisable history reaches it",
}

func ruleLockReleased(c *Ctx, fn *ssa.Function, mutexF *types.Var) {
	key := "utils.DynamicFanOut." + baseName(fn) + "/lock-released-on-every-return"
	deferred := false
	for _, b := range fn.Blocks {
		for _, in := range b.Instrs {
			if d, ok := in.(*ssa.Defer); ok {
				if op, _ := mutexOp(&d.Call); op == "unlock" {
					deferred = true
				}
			}
		}
	}
	if deferred {
		c.OK("R15.3", key, c.P.Pos(fn.Pos()), "unlock is deferred")
		return
	}
	// forward must/may analysis: may-held at return
	held := map[*ssa.BasicBlock]bool{}
	changed := true
	out := map[*ssa.BasicBlock]bool{}
	for changed {
		changed = false
		for _, b := range fn.Blocks {
			in := false
			for _, p := range b.Preds {
				if out[p] {
					in = true
				}
			}
			h := in
			for _, instr := range b.Instrs {
				if call, ok := instr.(*ssa.Call); ok {
					if op, _ := mutexOp(&call.Call); op == "lock" {
						h = true
					} else if op == "unlock" {
						h = false
					}
				}
			}
			if held[b] != in || out[b] != h {
				held[b], out[b] = in, h
				changed = true
			}
		}
	}
	leaks := 0
	var leakPos token.Pos
	for _, b := range fn.Blocks {
		if r, ok := b.Instrs[len(b.Instrs)-1].(*ssa.Return); ok && out[b] {
			leaks++
			leakPos = r.Pos()
		}
	}
	if leaks == 0 {
		c.OK("R15.3", key, c.P.Pos(fn.Pos()), "no return is reachable with the mutex held")
		return
	}
	if reason, ok := lockLeakExceptions[baseName(fn)]; ok && leaks == 1 {
		c.Trivial("R15.3", key+"(reviewed exception)", c.P.Pos(leakPos), "one return leaves the mutex locked; reviewed: "+reason)
		return
	}
	c.Bad("R15.3", key, c.P.Pos(leakPos), fmt.Sprintf("%d return(s) reachable with the mutex still held: every later Spawn/Despawn and the delivery loop block forever", leaks))
}

// ruleNoSendAfterClose: R15.5.
func ruleNoSendAfterClose(c *Ctx, classes []*chanClass) {
	mgrRun := c.P.Func(pkgMain, "Manager", "Run")
	mainFn := c.P.Func(pkgMain, "", "main")
	for _, cl := range classes {
		for _, cls := range cl.Close {
			top := topFunc(cls.Fn)
			key := "close@" + shortFn(cls.Fn) + "[" + types.TypeString(cl.Elem, func(p *types.Package) string { return p.Name() }) + "]"
			pos := c.P.Pos(cls.Instr.Pos())
			switch {
			case top == mainFn && mgrRun != nil:
				// close(midiEventsOut): after Manager.Run returned, which waits for every device goroutine
				var runCall ssa.Instruction
				for _, b := range mainFn.Blocks {
					for _, in := range b.Instrs {
						if call, ok := in.(*ssa.Call); ok && call.Call.StaticCallee() == mgrRun {
							runCall = in
						}
					}
				}
				okOrder := runCall != nil && instrOrderedBefore(runCall, cls.Instr)
				okWait, why := managerWaitsForDevices(c, mgrRun)
				c.Check(okOrder && okWait, "R15.5", key, pos, "closed after Manager.Run returned, which passes wg.Wait() over every device goroutine (the only senders) before each return",
					"the device output channel can be closed while a device goroutine may still send on it (panic: send on closed channel): "+why)
			case strings.Contains(shortFn(cls.Fn), "DynamicFanOut"):
				c.OK("R15.5", key, pos, "closed under the fan-out mutex together with its removal from the map (R15.3): the only sender iterates the map under the same mutex")
			default:
				// driver channels: closed by Close(), senders are the relay goroutines
				senders := map[string]bool{}
				for _, s := range cl.Sends {
					senders[shortFn(s.Fn)] = true
				}
				c.Trivial("R15.5", key, pos, fmt.Sprintf("driver-side close (deferred port Close in the relay that owns the port); senders %v; shutdown ordering of the ALSA driver is not decided", setKeys(senders)))
			}
		}
	}
}

// managerWaitsForDevices: every return of Manager.Run is dominated by wg.Wait(); every goroutine that runs a device is counted.
func managerWaitsForDevices(c *Ctx, run *ssa.Function) (bool, string) {
	var wait *ssa.Call
	for _, b := range run.Blocks {
		for _, in := range b.Instrs {
			if call, ok := in.(*ssa.Call); ok {
				if callee := call.Call.StaticCallee(); callee != nil && callee.Pkg != nil && callee.Pkg.Pkg.Path() == "sync" && callee.Name() == "Wait" {
					wait = call
				}
			}
		}
	}
	if wait == nil {
		return false, "Manager.Run has no wg.Wait()"
	}
	for _, b := range run.Blocks {
		if b == run.Recover {
			continue
		}
		if _, ok := b.Instrs[len(b.Instrs)-1].(*ssa.Return); ok && !blockDominatesOrSame(wait.Block(), b) {
			return false, "a return of Manager.Run is reachable without wg.Wait()"
		}
	}
	// goroutines that call (*device.Device).ProcessEvents must be preceded by wg.Add(1) and defer wg.Done()
	pe := c.P.Func(pkgDevice, "Device", "ProcessEvents")
	for _, b := range run.Blocks {
		for _, in := range b.Instrs {
			g, ok := in.(*ssa.Go)
			if !ok {
				continue
			}
			target := closureOf(g.Call.Value)
			if target == nil {
				target = g.Call.StaticCallee()
			}
			if target == nil {
				continue
			}
			callsPE := false
			for _, tb := range target.Blocks {
				for _, ti := range tb.Instrs {
					if call, ok := ti.(*ssa.Call); ok && call.Call.StaticCallee() == pe {
						callsPE = true
					}
				}
			}
			if !callsPE {
				continue
			}
			if !firstIsDeferDone(target) {
				return false, "the device goroutine does not defer wg.Done()"
			}
			added := false
			for _, x := range b.Instrs {
				if x == in {
					break
				}
				if call, ok := x.(*ssa.Call); ok {
					if callee := call.Call.StaticCallee(); callee != nil && callee.Name() == "Add" && callee.Pkg != nil && callee.Pkg.Pkg.Path() == "sync" {
						added = true
					}
				}
			}
			if !added {
				return false, "the device goroutine is started without wg.Add(1) right before it"
			}
		}
	}
	return true, ""
}

func controlsC15(p *Program) []controlResult {
	// controls/lockedsend: Bad sends under a mutex, Good copies under the mutex and sends outside
	var res []controlResult
	{
		sites := lockCopies(p, func(fn *ssa.Function) bool { return strings.HasSuffix(pkgPathOf(topFunc(fn)), "/lockedsend") })
		gotBad, gotGood := false, false
		for _, s := range sites {
			switch s.fn.Name() {
			case "NewBadFanByValue":
				gotBad = true
			case "NewGoodFanByPointer":
				gotGood = true
			}
		}
		res = append(res, controlResult{"R15.3 lock-copy control", gotBad && !gotGood, fmt.Sprintf("by-value constructor reported=%v, by-pointer constructor reported=%v", gotBad, gotGood)})
	}
	for _, name := range []string{"BadFan", "GoodFan"} {
		var named *types.Named
		var run *ssa.Function
		for path, pk := range p.Pkgs {
			if strings.HasSuffix(path, "/lockedsend") {
				if o := pk.Types.Scope().Lookup(name); o != nil {
					named = o.Type().(*types.Named)
				}
			}
		}
		for _, f := range p.Funcs {
			if f.Signature.Recv() != nil && namedName(f.Signature.Recv().Type()) == name && f.Name() == "run" {
				run = f
			}
		}
		if named == nil || run == nil {
			res = append(res, controlResult{"R15.4 control " + name, false, "not found"})
			continue
		}
		la := newLockAnalysis(p, named)
		la.Walk("run", run, lockset{}, nil)
		n := 0
		for _, bo := range la.blocking {
			if bo.Kind == "send" && len(bo.Locks) > 0 {
				n++
			}
		}
		want := name == "BadFan"
		res = append(res, controlResult{"R15.4 send-under-lock control " + name, (n > 0) == want, fmt.Sprintf("sends under lock=%d (expected some: %v)", n, want)})
	}
	return res
}

func hasMapRange(fn *ssa.Function) bool {
	for _, b := range fn.Blocks {
		for _, in := range b.Instrs {
			if r, ok := in.(*ssa.Range); ok {
				if _, isMap := r.X.Type().Underlying().(*types.Map); isMap {
					return true
				}
			}
		}
	}
	return false
}

func baseName(fn *ssa.Function) string {
	if o := fn.Origin(); o != nil {
		return o.Name()
	}
	n := fn.Name()
	if i := strings.Index(n, "["); i > 0 {
		n = n[:i]
	}
	return n
}

// ruleInsertUnderMiss: SpawnOutput may only insert under an id it has just seen absent from the map.
func ruleInsertUnderMiss(c *Ctx, spawn *ssa.Function, outputsF *types.Var) {
	vw := NewFnView(c.P, spawn)
	found := false
	for _, b := range spawn.Blocks {
		for _, in := range b.Instrs {
			mu, ok := in.(*ssa.MapUpdate)
			if !ok || !derivesFromField(mu.Map, outputsF, map[ssa.Value]bool{}) {
				continue
			}
			found = true
			key := "utils.DynamicFanOut.SpawnOutput/insert-only-under-a-free-id"
			keyTerm := vw.Term(mu.Key).String()
			okMiss := missGuard(vw, b, nil, keyTerm, outputsF, 0)
			if !okMiss {
				// `for id = 0; id < max; id++ { if free(id) { break } }; if id == max { return }; outputs[id] = ...`:
				// at a join dominating the insert, every incoming edge either carries the miss or contradicts the
				// conditions that hold at the insert (interval reasoning on the id)
				tlo, thi := typeRange(mu.Key.Type())
				if bt, isB := mu.Key.Type().Underlying().(*types.Basic); isB && (bt.Kind() == types.Int64 || bt.Kind() == types.Int) {
					tlo, thi = math.MinInt64, math.MaxInt64
				}
				init := bound{lo: tlo, hi: thi, hasLo: true, hasHi: true}
				atB := boundsFrom(vw.GuardsAt(b), keyTerm, init)
				for d := b; d != nil && !okMiss; d = d.Idom() {
					if len(d.Preds) < 2 {
						continue
					}
					all := true
					for _, pred := range d.Preds {
						var ex []Atom
						if ifi, isIf := pred.Instrs[len(pred.Instrs)-1].(*ssa.If); isIf && pred.Succs[0] != pred.Succs[1] {
							ex = append(ex, Atom{Cond: vw.Term(ifi.Cond), Taken: pred.Succs[0] == d, Instr: ifi})
							ex = append(ex, vw.predicateAtoms(ifi.Cond, pred.Succs[0] == d)...) // (`!f.taken(id)`: what the predicate tested)
						}
						if missGuard(vw, pred, ex, keyTerm, outputsF, 0) {
							continue
						}
						onEdge := boundsFrom(append(vw.GuardsAt(pred), ex...), keyTerm, init)
						lo, hi := onEdge.lo, onEdge.hi
						if atB.hasLo && atB.lo > lo {
							lo = atB.lo
						}
						if atB.hasHi && atB.hi < hi {
							hi = atB.hi
						}
						for lo <= hi && (atB.excluded[lo] || onEdge.excluded[lo]) {
							lo++
						}
						for lo <= hi && (atB.excluded[hi] || onEdge.excluded[hi]) {
							hi--
						}
						if lo <= hi {
							all = false // this edge can reach the insert without a miss
						}
					}
					okMiss = all
				}
			}
			if !okMiss {
				// the search result is carried in one variable that starts as a sentinel (-1): every way the variable gets a
				// value either is the sentinel, which the conditions at the insert exclude, or assigns the candidate under
				// its own miss
				if phi, isPhi := mu.Key.(*ssa.Phi); isPhi {
					init := bound{lo: math.MinInt64, hi: math.MaxInt64, hasLo: true, hasHi: true}
					atB := boundsFrom(vw.GuardsAt(b), keyTerm, init)
					all := len(phi.Edges) > 0
					for i, e := range phi.Edges {
						if e == ssa.Value(phi) {
							continue
						}
						if k, isK := e.(*ssa.Const); isK && k.Value != nil {
							n := k.Int64()
							if atB.excluded[n] || atB.hasLo && n < atB.lo || atB.hasHi && n > atB.hi {
								continue
							}
							all = false
							continue
						}
						pred := phi.Block().Preds[i]
						var ex []Atom
						if ifi, isIf := pred.Instrs[len(pred.Instrs)-1].(*ssa.If); isIf && pred.Succs[0] != pred.Succs[1] {
							ex = append(ex, Atom{Cond: vw.Term(ifi.Cond), Taken: pred.Succs[0] == phi.Block(), Instr: ifi})
							ex = append(ex, vw.predicateAtoms(ifi.Cond, pred.Succs[0] == phi.Block())...) // (`!f.taken(id)`: what the predicate tested)
						}
						if !missGuard(vw, pred, ex, vw.Term(e).String(), outputsF, 0) {
							all = false
						}
					}
					okMiss = all
				}
			}
			if !okMiss {
				// the search lives in a helper (`id := f.lowestFreeID(noID); if id == noID { return }`): every return of the helper
				// either hands out an id under its own miss, or a value (a constant, or a parameter bound to a constant at this
				// call) that the conditions at the insert exclude
				if call, isCall := mu.Key.(*ssa.Call); isCall {
					if h := call.Call.StaticCallee(); h != nil && len(h.Blocks) > 0 && c.P.OwnedFunc(h) && h.Signature.Results().Len() == 1 {
						hv := NewFnView(c.P, h)
						init := bound{lo: math.MinInt64, hi: math.MaxInt64, hasLo: true, hasHi: true}
						atB := boundsFrom(vw.GuardsAt(b), keyTerm, init)
						all, nret := true, 0
						for _, rb := range h.Blocks {
							ret, isRet := rb.Instrs[len(rb.Instrs)-1].(*ssa.Return)
							if !isRet || rb == h.Recover {
								continue
							}
							nret++
							rv := ret.Results[0]
							if missGuard(hv, rb, nil, hv.Term(rv).String(), outputsF, 0) {
								continue
							}
							if prm, isP := rv.(*ssa.Parameter); isP {
								if idx := paramIndex(prm); idx >= 0 && idx < len(call.Call.Args) {
									rv = call.Call.Args[idx]
								}
							}
							if k, isK := rv.(*ssa.Const); isK && k.Value != nil && k.Value.Kind() == constant.Int {
								n := k.Int64()
								if atB.excluded[n] || atB.hasLo && n < atB.lo || atB.hasHi && n > atB.hi {
									continue
								}
							}
							all = false
						}
						okMiss = all && nret > 0
					}
				}
			}
			c.Check(okMiss, "R15.3", key, c.P.Pos(mu.Pos()), "the id inserted was looked up (comma-ok) and found absent on every path to the insert",
				"a new output is inserted under an id that was not checked to be free: a live device's entry can be overwritten (it stops receiving MIDI input and its channel is never closed)")
		}
	}
	if !found {
		c.Bad("R15.3", "utils.DynamicFanOut.SpawnOutput/insert-only-under-a-free-id", c.P.Pos(spawn.Pos()), "SpawnOutput does not insert into the output map")
	}
}

// missGuard: the conditions holding at block b (plus extra edge conditions) include a failed comma-ok lookup of keyTerm
// in the outputs map - directly, or through a boolean flag that is only set to true under such a miss.
func missGuard(vw *FnView, b *ssa.BasicBlock, extra []Atom, keyTerm string, outputsF *types.Var, depth int) bool {
	if depth > 3 {
		return false
	}
	atoms := append(vw.GuardsAt(b), extra...)
	for _, a := range atoms {
		cnd, taken := a.Cond, a.Taken
		for cnd.Op == "unop" && cnd.Aux == "!" {
			cnd, taken = cnd.Args[0], !taken
		}
		if cnd.Op == "lookupok" && !taken && cnd.Args[1].String() == keyTerm && strings.HasSuffix(cnd.Args[0].String(), ".outputs") {
			return true
		}
	}
	// boolean flag: a phi that is true only on edges guarded by the miss
	for _, a := range atoms {
		if a.Instr == nil {
			continue
		}
		phi, ok := a.Instr.Cond.(*ssa.Phi)
		if !ok || !a.Taken {
			continue
		}
		okAll, any := true, false
		for i, e := range phi.Edges {
			k, isK := e.(*ssa.Const)
			if isK && k.Value != nil && k.Value.String() == "false" {
				continue
			}
			if !isK {
				okAll = false
				continue
			}
			any = true
			pred := phi.Block().Preds[i]
			var ex []Atom
			if ifi, isIf := pred.Instrs[len(pred.Instrs)-1].(*ssa.If); isIf && pred.Succs[0] != pred.Succs[1] {
				ex = append(ex, Atom{Cond: vw.Term(ifi.Cond), Taken: pred.Succs[0] == phi.Block(), Instr: ifi})
				ex = append(ex, vw.predicateAtoms(ifi.Cond, pred.Succs[0] == phi.Block())...) // (`!f.taken(id)`: what the predicate tested)
			}
			if !missGuard(vw, pred, ex, keyTerm, outputsF, depth+1) {
				okAll = false
			}
		}
		if okAll && any {
			return true
		}
	}
	return false
}

// drainedBeforeDespawn: every static call site of DespawnOutput(id) is dominated by a `go` statement whose function
// receives in a loop from the channel that the SpawnOutput call which produced id returned.
func drainedBeforeDespawn(c *Ctx, despawn, spawn *ssa.Function) (string, bool) {
	isInst := func(callee, want *ssa.Function) bool {
		if callee == nil {
			return false
		}
		if callee == want {
			return true
		}
		return callee.Origin() != nil && want.Origin() != nil && callee.Origin() == want.Origin() || callee.Origin() == want || want.Origin() == callee
	}
	n := 0
	for _, fn := range c.P.Funcs {
		for _, b := range fn.Blocks {
			for _, in := range b.Instrs {
				call, ok := in.(*ssa.Call)
				if !ok {
					continue
				}
				// the method called statically, or through a narrow interface in front of the fan-out (same method name)
				argsOf := func(cl *ssa.Call, want *ssa.Function) ([]ssa.Value, bool) {
					if isInst(cl.Call.StaticCallee(), want) {
						if len(cl.Call.Args) == 0 {
							return nil, false
						}
						return cl.Call.Args[1:], true
					}
					wantName := want.Name()
					if o := want.Origin(); o != nil {
						wantName = o.Name() // (an instance's own name carries its type arguments)
					}
					if cl.Call.IsInvoke() && cl.Call.Method != nil && cl.Call.Method.Name() == wantName {
						return cl.Call.Args, true
					}
					return nil, false
				}
				dargs, isD := argsOf(call, despawn)
				if !isD || len(dargs) < 1 {
					continue
				}
				n++
				// id = extract #0 of a SpawnOutput call in the same function
				ex, ok := dargs[0].(*ssa.Extract)
				if !ok {
					return r154fail(1)
				}
				sp, ok := ex.Tuple.(*ssa.Call)
				if !ok || ex.Index != 0 {
					return r154fail(2)
				}
				if _, isS := argsOf(sp, spawn); !isS {
					return r154fail(3)
				}
				var ch ssa.Value
				for _, r := range *sp.Referrers() {
					if e2, ok := r.(*ssa.Extract); ok && e2.Index == 1 {
						ch = e2
					}
				}
				if ch == nil {
					return r154fail(4)
				}
				drained := false
				for _, gb := range fn.Blocks {
					for _, gin := range gb.Instrs {
						g, ok := gin.(*ssa.Go)
						if !ok || !(gb == b && instrBefore(g, call) || gb != b && gb.Dominates(b)) {
							continue
						}
						target := closureOf(g.Call.Value)
						if target == nil {
							target = g.Call.StaticCallee()
						}
						if target == nil {
							continue
						}
						// which value of the goroutine function is the channel: a free variable bound to ch or a parameter given ch
						var inside []ssa.Value
						if mc, ok := g.Call.Value.(*ssa.MakeClosure); ok {
							for i, bnd := range mc.Bindings {
								if i >= len(target.FreeVars) {
									continue
								}
								if bnd == ch {
									inside = append(inside, target.FreeVars[i])
								}
								// captured by reference: the binding is the variable's cell, which holds ch
								if a, isAlloc := bnd.(*ssa.Alloc); isAlloc {
									if w := wholeStore(a); w == ch {
										for _, tb := range target.Blocks {
											for _, tin := range tb.Instrs {
												if ld, isLd := tin.(*ssa.UnOp); isLd && ld.Op == token.MUL && ld.X == ssa.Value(target.FreeVars[i]) {
													inside = append(inside, ld)
												}
											}
										}
									}
								}
							}
						}
						for i, a := range g.Call.Args {
							if a == ch && i < len(target.Params) {
								inside = append(inside, target.Params[i])
							}
						}
						for _, tb := range target.Blocks {
							for _, tin := range tb.Instrs {
								var src ssa.Value
								switch x := tin.(type) {
								case *ssa.UnOp:
									if x.Op == token.ARROW {
										src = x.X
									}
								case *ssa.Range:
									src = x.X
								}
								if src == nil {
									continue
								}
								for _, v := range inside {
									if src == v && (inCycle(tb) || isRangeOverChan(tin)) {
										drained = true
									}
								}
							}
						}
					}
				}
				if !drained {
					return r154fail(5)
				}
			}
		}
	}
	if n == 0 {
		return r154fail(6)
	}
	return fmt.Sprintf("every DespawnOutput call site (%d) first starts a goroutine that keeps receiving from that output until it is closed: a consumer that stopped reading cannot keep the delivery loop inside the critical section", n), true
}

func isRangeOverChan(in ssa.Instruction) bool {
	r, ok := in.(*ssa.Range)
	if !ok {
		return false
	}
	_, isChan := r.X.Type().Underlying().(*types.Chan)
	return isChan
}

// discardingDrain: f is a goroutine body that only receives from one channel in a loop and ignores what it receives,
// and its go statement is dominated by a call of (*Device).ProcessEvents in the same function - i.e. it starts after the
// device, whose ProcessEvents joins its own MIDI-input goroutine before returning (R16.2), has stopped reading.
func discardingDrain(c *Ctx, f *ssa.Function) (string, bool) {
	if f.Parent() == nil || len(f.Blocks) == 0 {
		return "", false
	}
	recvs := 0
	for _, b := range f.Blocks {
		for _, in := range b.Instrs {
			switch x := in.(type) {
			case *ssa.Range, *ssa.Jump, *ssa.If, *ssa.Return, *ssa.DebugRef, *ssa.RunDefers:
			case *ssa.Next:
				recvs++
			case *ssa.Extract:
				// only the "ok" component may be used: (value, ok) for a receive, (ok, key, value) for an iterator
				okIdx := 1
				if _, isNext := x.Tuple.(*ssa.Next); isNext {
					okIdx = 0
				}
				if x.Index != okIdx {
					if refs := x.Referrers(); refs != nil {
						for _, r := range *refs {
							if _, isDbg := r.(*ssa.DebugRef); !isDbg {
								return "", false
							}
						}
					}
				}
			case *ssa.UnOp:
				if x.Op == token.ARROW {
					recvs++
					if x.Referrers() != nil {
						for _, r := range *x.Referrers() {
							if ex, ok := r.(*ssa.Extract); ok && ex.Index == 1 {
								continue
							}
							if _, isDbg := r.(*ssa.DebugRef); isDbg {
								continue
							}
							return "", false
						}
					}
				} else if x.Op != token.MUL { // loads of the captured channel variable
					return "", false
				}
			default:
				return "", false
			}
		}
	}
	if recvs == 0 {
		return "", false
	}
	host := f.Parent()
	pe := c.P.Func(pkgDevice, "Device", "ProcessEvents")
	for _, b := range host.Blocks {
		for _, in := range b.Instrs {
			g, ok := in.(*ssa.Go)
			if !ok || closureOf(g.Call.Value) != f || inCycle(b) {
				continue
			}
			for _, pb := range host.Blocks {
				for _, pin := range pb.Instrs {
					call, ok := pin.(*ssa.Call)
					if !ok || pe == nil || call.Call.StaticCallee() != pe {
						continue
					}
					if pb == b && instrBefore(call, g) || pb != b && pb.Dominates(b) {
						return "discards what it receives and is started only after the device's ProcessEvents (which joins the device's own reader, R16.2) has returned", true
					}
				}
			}
		}
	}
	return "", false
}

// ruleRelayDrains: R15.7 the relay that carries what devices emit to the port keeps forwarding until its source is closed.
// Devices still emit after the application context was cancelled (the disconnect clean-up releases every held note, R1.5);
// a relay that leaves its loop on cancellation drops those Note Offs (notes keep sounding on the synthesiser after HIDI has
// quit) and, once the queue is full, blocks the emitting device for ever.  Decided on the paths of the relay function:
// every path that returns has, as its last receive on the device-output class, one whose comma-ok result is false.
func ruleRelayDrains(c *Ctx, cf *chanFlow, classes []*chanClass) {
	for _, cl := range classes {
		fromDevices := false
		for _, s := range cl.Sends {
			top := topFunc(s.Fn)
			if top.Pkg != nil && top.Pkg.Pkg.Path() == pkgDevice {
				fromDevices = true
			}
		}
		if !fromDevices {
			continue
		}
		recvAt := map[ssa.Instruction]map[int]bool{}
		fns := map[*ssa.Function]bool{}
		for _, r := range cl.Recvs {
			if recvAt[r.Instr] == nil {
				recvAt[r.Instr] = map[int]bool{}
			}
			recvAt[r.Instr][r.Aux] = true
			fns[r.Fn] = true
		}
		var list []*ssa.Function
		for f := range fns {
			list = append(list, f)
		}
		sort.Slice(list, func(i, j int) bool { return list[i].String() < list[j].String() })
		for _, fn := range list {
			key := "relay@" + shortFn(fn) + "/forwards-until-source-closed"
			pos := c.P.Pos(fn.Pos())
			paths, err := Enumerate(fn, SymConfig{Prog: c.P, MaxDepth: 1, Collapse: true, OnlyInline: map[*ssa.Function]bool{}})
			if err != nil {
				c.Undec("R15.7", key, pos, fmt.Sprint(err))
				continue
			}
			c.Paths += len(paths)
			n, bad := 0, ""
			for _, p := range paths {
				if p.End != "return" {
					continue
				}
				// last receive on the class
				closedSeen, any := false, false
				why := ""
				for i := range p.Effects {
					e := &p.Effects[i]
					if recvAt[e.Instr] == nil {
						continue
					}
					var okT *Term
					switch e.Kind {
					case "recv":
						if u, isU := e.Instr.(*ssa.UnOp); isU && u.CommaOk {
							okT = &Term{Op: "extract", Args: []*Term{e.Args[1]}, Aux: "1"}
						}
						any = true
					case "next":
						okT = &Term{Op: "extract", Args: []*Term{e.Args[1]}, Aux: "0"}
						any = true
					case "select":
						any = true
						sel := e.Instr.(*ssa.Select)
						st := p.selectTerm(e)
						chosen := int64(-1)
						if st != nil {
							idx := (&Term{Op: "extract", Args: []*Term{st}, Aux: "0"}).String()
							for _, a := range p.Atoms {
								if op, x, y, ok := normAtom(a); ok && op == "==" && x.String() == idx {
									if k, isK := y.IsIntConst(); isK {
										chosen = k
									}
								}
							}
						}
						if chosen >= 0 && int(chosen) < len(sel.States) && recvAt[e.Instr][int(chosen)] {
							okT = &Term{Op: "extract", Args: []*Term{st}, Aux: "1"}
						} else {
							okT = nil
							why = fmt.Sprintf("another case of the select at %s was taken", c.P.Pos(sel.Pos()))
						}
					default:
						continue
					}
					closedSeen = false
					if okT != nil {
						if v, known := boolAtom(p.Atoms, okT.String()); known && !v {
							closedSeen = true
						} else {
							why = fmt.Sprintf("the receive at %s delivered a message (or its ok result is not tested)", c.P.Pos(e.Instr.Pos()))
						}
					}
				}
				if !any {
					continue
				}
				n++
				if !closedSeen && bad == "" {
					bad = fmt.Sprintf("the relay stops (returns) although its source channel was not seen closed - %s: what devices emit afterwards (the Note Offs of the disconnect clean-up at shutdown) never reaches the port, and the devices block once the queue is full", why)
				}
			}
			if n == 0 {
				c.Undec("R15.7", key, pos, "no returning path with a receive on the device-output channel")
				continue
			}
			c.Check(bad == "", "R15.7", key, pos, fmt.Sprintf("%d returning path(s), each after the source was seen closed", n), bad)
		}
	}
}

// freshCopyOf: v is a new slice holding the bytes of val: append(nil / zero-length literal, val...), bytes.Clone(val),
// slices.Clone(val), or a conversion of val.
func freshCopyOf(v, val *Term) bool {
	v = v.StripConv()
	if v.String() == val.String() {
		return true
	}
	switch {
	case v.Op == "append" && len(v.Args) == 2:
		base := v.Args[0].StripConv()
		isFresh := base.Op == "const" && base.Cval == nil || base.Op == "slicelit" && len(base.Args) == 0 || base.Op == "makeslice"
		return isFresh && v.Args[1].StripConv().String() == val.String()
	case v.Op == "call" && (strings.HasPrefix(v.Aux, "bytes.Clone") || strings.HasPrefix(v.Aux, "slices.Clone")) && len(v.Args) == 1:
		return v.Args[0].StripConv().String() == val.String()
	}
	return false
}

type lockCopySite struct {
	fn      *ssa.Function
	typ     string
	copyPos token.Pos
	goPos   token.Pos
}

// lockCopies: in the selected functions, a local of a struct type that holds a sync.Mutex / RWMutex by value, on whose
// address a goroutine is started (method receiver, argument or closure capture of a `go` statement), and whose whole
// value is also loaded (returned, assigned or passed by value).
func lockCopies(p *Program, sel func(*ssa.Function) bool) []lockCopySite {
	var carries func(t types.Type, depth int) bool
	carries = func(t types.Type, depth int) bool {
		if depth > 4 {
			return false
		}
		if n, ok := t.(*types.Named); ok && n.Obj().Pkg() != nil && n.Obj().Pkg().Path() == "sync" && (n.Obj().Name() == "Mutex" || n.Obj().Name() == "RWMutex") {
			return true
		}
		switch u := t.Underlying().(type) {
		case *types.Struct:
			for i := 0; i < u.NumFields(); i++ {
				if carries(u.Field(i).Type(), depth+1) {
					return true
				}
			}
		case *types.Array:
			return carries(u.Elem(), depth+1)
		}
		return false
	}
	var out []lockCopySite
	for _, fn := range p.Funcs {
		if !sel(fn) {
			continue
		}
		for _, b := range fn.Blocks {
			for _, in := range b.Instrs {
				a, ok := in.(*ssa.Alloc)
				if !ok || !carries(deref(a.Type()), 0) {
					continue
				}
				if _, isStruct := deref(a.Type()).Underlying().(*types.Struct); !isStruct {
					continue
				}
				var goPos, copyPos token.Pos
				for _, r := range *a.Referrers() {
					switch x := r.(type) {
					case *ssa.Go:
						goPos = x.Pos()
					case *ssa.MakeClosure:
						for _, rr := range *x.Referrers() {
							if g, isGo := rr.(*ssa.Go); isGo {
								goPos = g.Pos()
							}
						}
					case *ssa.UnOp:
						if x.Op == token.MUL {
							copyPos = x.Pos()
							if copyPos == token.NoPos {
								for _, rr := range *x.Referrers() {
									if rr.Pos() != token.NoPos {
										copyPos = rr.Pos()
									}
								}
							}
							if copyPos == token.NoPos {
								copyPos = a.Pos()
							}
						}
					}
				}
				if goPos != token.NoPos && copyPos != token.NoPos {
					out = append(out, lockCopySite{fn: fn, typ: types.TypeString(deref(a.Type()), func(*types.Package) string { return "" }), copyPos: copyPos, goPos: goPos})
				}
			}
		}
	}
	return out
}

func r154fail(n int) (string, bool) {
	if os.Getenv("HIDI_DEBUG") == "r154" {
		fmt.Fprintln(os.Stderr, "r154 fail at", n)
	}
	return "", false
}

// ruleOneLane: R15.9. Go channels are FIFO, so a chain of single-lane hops keeps the order. A relay that takes payload
// from two channels of the MIDI path and forwards it (a priority lane for real-time messages, a side queue) decides the
// order of two messages by its own polling, not by their arrival.
func ruleOneLane(c *Ctx, classes []*chanClass) {
	recvFrom := map[*ssa.Function]map[*chanClass]bool{}
	sendsTo := map[*ssa.Function]map[*chanClass]bool{}
	for _, cl := range classes {
		for _, r := range cl.Recvs {
			if recvFrom[r.Fn] == nil {
				recvFrom[r.Fn] = map[*chanClass]bool{}
			}
			recvFrom[r.Fn][cl] = true
		}
		for _, s := range cl.Sends {
			if sendsTo[s.Fn] == nil {
				sendsTo[s.Fn] = map[*chanClass]bool{}
			}
			sendsTo[s.Fn][cl] = true
		}
	}
	var fns []*ssa.Function
	for f := range recvFrom {
		fns = append(fns, f)
	}
	sort.Slice(fns, func(i, j int) bool { return fns[i].String() < fns[j].String() })
	n := 0
	for _, f := range fns {
		if len(sendsTo[f]) == 0 {
			continue // a consumer, not a relay
		}
		n++
		key := "relay@" + shortFn(f) + "/one-lane-in"
		if len(recvFrom[f]) > 1 {
			var from []string
			for cl := range recvFrom[f] {
				from = append(from, "chan@"+shortFn(cl.Makes[0].Fn)+":"+c.P.Pos(cl.Makes[0].Instr.Pos()))
			}
			sort.Strings(from)
			c.Bad("R15.9", key, c.P.Pos(f.Pos()), fmt.Sprintf("the relay takes messages from %d channels of the MIDI path %v and forwards them: the order of two messages that travelled on different lanes is decided by the relay's polling, not by their arrival (emission) order", len(from), from))
			continue
		}
		c.OK("R15.9", key, c.P.Pos(f.Pos()), "forwards what it takes from one channel (FIFO)")
	}
	if n == 0 {
		c.Undec("R15.9", "relays", "-", "no relay (a function that receives from and sends to channels of the MIDI path) found")
	}
}

// rulePortClosedByItsWriter: R15.10. The output port is closed (deferred or not) by the goroutine that took its send
// channel. Everything that goroutine forwarded has been handed to the port when it returns - provided it does the
// handing over itself. A writer goroutine of its own (a queue in front of a slow port) still holds messages when the
// relay returns and the port is closed under it, unless the relay waits for it: a receive from a channel the writer
// closes, or Wait on a WaitGroup the writer is Done with.
func rulePortClosedByItsWriter(c *Ctx) {
	n := 0
	for _, fn := range c.P.Funcs {
		if funcPkgPath(topFunc(fn)) != pkgMidi || len(fn.Blocks) == 0 {
			continue
		}
		var closes []ssa.Instruction
		var sendChans []ssa.Value
		for _, b := range fn.Blocks {
			for _, in := range b.Instrs {
				ci, ok := in.(ssa.CallInstruction)
				if !ok || !ci.Common().IsInvoke() {
					continue
				}
				m := ci.Common().Method
				if !hasMethod(ci.Common().Value.Type(), "SendChannel") {
					continue
				}
				switch m.Name() {
				case "Close":
					closes = append(closes, in)
				case "SendChannel":
					if v, isVal := in.(ssa.Value); isVal {
						sendChans = append(sendChans, v)
					}
				}
			}
		}
		if len(closes) == 0 || len(sendChans) == 0 {
			continue
		}
		n++
		key := "port-output@" + shortFn(fn) + "/closed-by-its-writer"
		pos := c.P.Pos(closes[0].Pos())
		// who sends on the port's channel?
		var others []*ssa.Function
		own := 0
		var visit func(f *ssa.Function, ch ssa.Value, depth int, other bool)
		note := func(f *ssa.Function, other bool) {
			if other {
				others = append(others, f)
			} else {
				own++
			}
		}
		startedByGo := func(mc *ssa.MakeClosure) bool {
			if mc.Referrers() == nil {
				return true
			}
			for _, r := range *mc.Referrers() {
				if g, isGo := r.(*ssa.Go); isGo && g.Call.Value == ssa.Value(mc) {
					return true
				}
			}
			return false
		}
		visit = func(f *ssa.Function, ch ssa.Value, depth int, other bool) {
			if depth > 4 || ch.Referrers() == nil {
				return
			}
			for _, r := range *ch.Referrers() {
				switch x := r.(type) {
				case *ssa.Send:
					if x.Chan == ch {
						note(f, other)
					}
				case *ssa.Select:
					for _, st := range x.States {
						if st.Chan == ch && st.Dir == types.SendOnly {
							note(f, other)
						}
					}
				case *ssa.MakeClosure:
					cf := x.Fn.(*ssa.Function)
					for i, bnd := range x.Bindings {
						if bnd == ch && i < len(cf.FreeVars) {
							visit(cf, cf.FreeVars[i], depth+1, other || startedByGo(x))
						}
					}
				case ssa.CallInstruction:
					// handed to a helper: a plain (or deferred) call runs in this goroutine, a go statement starts another
					callee := x.Common().StaticCallee()
					if callee == nil || len(callee.Blocks) == 0 || !c.P.OwnedFunc(callee) {
						continue
					}
					_, isGo := x.(*ssa.Go)
					args := x.Common().Args
					off := 0
					if callee.Signature.Recv() != nil {
						off = 0 // receiver is Params[0] and Args[0] alike
					}
					for i, a := range args {
						if a == ch && i+off < len(callee.Params) {
							visit(callee, callee.Params[i+off], depth+1, other || isGo)
						}
					}
				case *ssa.Store:
					// spilled into a captured variable
					if a, isAlloc := x.Addr.(*ssa.Alloc); isAlloc && x.Val == ch && a.Referrers() != nil {
						for _, rr := range *a.Referrers() {
							if mc, isMC := rr.(*ssa.MakeClosure); isMC {
								cf := mc.Fn.(*ssa.Function)
								for i, bnd := range mc.Bindings {
									if bnd == a && i < len(cf.FreeVars) && cf.FreeVars[i].Referrers() != nil {
										for _, r3 := range *cf.FreeVars[i].Referrers() {
											if ld, isLd := r3.(*ssa.UnOp); isLd && ld.Op == token.MUL {
												visit(cf, ld, depth+1, other || startedByGo(mc))
											}
										}
									}
								}
							}
							if ld, isLd := rr.(*ssa.UnOp); isLd && ld.Op == token.MUL {
								visit(f, ld, depth+1, other)
							}
						}
					}
				case *ssa.Phi:
					visit(f, x, depth+1, other)
				case *ssa.ChangeType:
					visit(f, x, depth+1, other)
				}
			}
		}
		for _, ch := range sendChans {
			visit(fn, ch, 0, false)
		}
		if len(others) == 0 {
			c.Check(own > 0, "R15.10", key, pos, fmt.Sprintf("the goroutine that closes the port makes all %d send(s) to it itself", own), "no send to the port's channel found")
			continue
		}
		bad := ""
		for _, g := range others {
			if !joinedBefore(fn, g, closes) {
				bad = fmt.Sprintf("%s writes to the port while %s closes it without waiting for that writer: messages still queued for the writer when the relay ends never reach the port", shortFn(g), shortFn(fn))
			}
		}
		c.Check(bad == "", "R15.10", key, pos, "the writer goroutine is waited for before the port is closed", bad)
	}
	if n == 0 {
		c.Undec("R15.10", "port-output", "-", "no function that takes the output port's send channel and closes the port found")
	}
}

func hasMethod(t types.Type, name string) bool {
	ms := types.NewMethodSet(t)
	for i := 0; i < ms.Len(); i++ {
		if ms.At(i).Obj().Name() == name {
			return true
		}
	}
	return false
}

// joinedBefore: closer waits for writer before the port is closed: closer receives from a channel (or calls Wait on a
// WaitGroup) that it shares with writer, in a block that every return of closer passes (a deferred Close runs at the
// returns) or that dominates the Close call; writer closes that channel (or calls Done).
func joinedBefore(closer, writer *ssa.Function, closes []ssa.Instruction) bool {
	// shared objects: bindings of the MakeClosure that creates writer inside closer
	for _, b := range closer.Blocks {
		for _, in := range b.Instrs {
			mc, ok := in.(*ssa.MakeClosure)
			if !ok || mc.Fn != writer {
				continue
			}
			for i, bnd := range mc.Bindings {
				if i >= len(writer.FreeVars) {
					continue
				}
				fv := writer.FreeVars[i]
				signals := false
				if fv.Referrers() != nil {
					for _, r := range *fv.Referrers() {
						signals = signals || signalsEnd(r, fv)
						if ld, isLd := r.(*ssa.UnOp); isLd && ld.Op == token.MUL && ld.Referrers() != nil {
							for _, rr := range *ld.Referrers() {
								signals = signals || signalsEnd(rr, ld)
							}
						}
					}
				}
				if !signals {
					continue
				}
				if waitsOn(closer, bnd, closes) {
					return true
				}
			}
		}
	}
	return false
}

func signalsEnd(in ssa.Instruction, v ssa.Value) bool {
	ci, ok := in.(ssa.CallInstruction)
	if !ok {
		return false
	}
	if bi, isB := ci.Common().Value.(*ssa.Builtin); isB && bi.Name() == "close" && len(ci.Common().Args) == 1 && ci.Common().Args[0] == v {
		return true
	}
	if callee := ci.Common().StaticCallee(); callee != nil && callee.Name() == "Done" && pkgPathOf(callee) == "sync" && len(ci.Common().Args) > 0 && ci.Common().Args[0] == v {
		return true
	}
	return false
}

func waitsOn(closer *ssa.Function, obj ssa.Value, closes []ssa.Instruction) bool {
	var waits []*ssa.BasicBlock
	var scan func(v ssa.Value, depth int)
	scan = func(v ssa.Value, depth int) {
		if depth > 2 || v.Referrers() == nil {
			return
		}
		for _, r := range *v.Referrers() {
			switch x := r.(type) {
			case *ssa.UnOp:
				if x.Op == token.ARROW && x.X == v {
					waits = append(waits, x.Block())
				}
				if x.Op == token.MUL {
					scan(x, depth+1)
				}
			case *ssa.Call:
				if callee := x.Call.StaticCallee(); callee != nil && callee.Name() == "Wait" && pkgPathOf(callee) == "sync" && len(x.Call.Args) > 0 && x.Call.Args[0] == v {
					waits = append(waits, x.Block())
				}
			}
		}
	}
	scan(obj, 0)
	for _, w := range waits {
		ok := true
		for _, cl := range closes {
			if _, deferred := cl.(*ssa.Defer); deferred {
				if !dominatesAllReturns(w, closer) {
					ok = false
				}
			} else if !(w.Dominates(cl.Block())) {
				ok = false
			}
		}
		if ok {
			return true
		}
	}
	return false
}
