package main

import (
	"fmt"
	"go/ast"
	"go/constant"
	"go/token"
	"go/types"
	"sort"
	"strings"

	"golang.org/x/tools/go/ssa"
)

// dev bundles the type-resolved anchors of package device used by several rules.
type dev struct {
	c        *Ctx
	p        *Program
	ok       bool
	fields   map[string]*types.Var // Device fields by name
	fn       map[string]*ssa.Function
	cfgField map[string]*types.Var // config.Config fields
	ctors    map[*ssa.Function]bool
}

var deviceFuncNames = []string{"NoteOn", "NoteOff", "AnalogNoteOn", "AnalogNoteOff", "handleKEYEvent", "handleABSEvent", "checkExitSequence",
	"checkDoubleActions", "invokeActionPress", "invokeActionRelease", "processEvent", "ProcessEvents", "handleInputEvents", "handleOpenrgb",
	"Panic", "OctaveUp", "OctaveDown", "OctaveReset", "SemitoneUp", "SemitoneDown", "SemitoneReset", "MappingUp", "MappingDown", "MappingReset",
	"ChannelUp", "ChannelDown", "ChannelReset", "Multinote", "CCLearningOn", "CCLearningOff", "logFields"}

// deviceKnownNames: the functions of package device on the reference tree.  A function of that package whose name is not
// listed is a helper introduced by a later refactoring; the path rules see through it (inline it) instead of treating
// it as an opaque call, so that extracting part of a handler into a helper does not change what a rule observes.
var deviceKnownNames = map[string]bool{"AnalogNoteOff": true, "AnalogNoteOn": true, "CCLearningOff": true, "CCLearningOn": true, "ChannelDown": true,
	"ChannelReset": true, "ChannelUp": true, "MappingDown": true, "MappingReset": true, "MappingUp": true, "Multinote": true, "NewDevice": true,
	"NewDeviceLedStrip": true, "NoteOff": true, "NoteOn": true, "OctaveDown": true, "OctaveReset": true, "OctaveUp": true, "Panic": true,
	"ProcessEvents": true, "SemitoneDown": true, "SemitoneReset": true, "SemitoneUp": true, "State": true, "Status": true, "checkDoubleActions": true,
	"checkExitSequence": true, "findController": true, "handleABSEvent": true, "handleInputEvents": true, "handleKEYEvent": true, "handleOpenrgb": true,
	"init": true, "invokeActionPress": true, "invokeActionRelease": true, "key": true, "logFields": true, "processEvent": true, "readN": true,
	"resolveHidraw": true, "shiftColor": true, "valueToColor": true}

var deviceKnownFields = []string{"noLogs", "config", "InputDevice", "outputEvents", "midiIn", "sigs", "openrgbPort", "eventProcessMutex",
	"octave", "semitone", "channel", "velocity", "multiNote", "mapping", "ccLearning", "ccZeroed", "lastAnalogValue", "noteTracker",
	"analogNoteTracker", "activeNotesCounter", "actionTracker", "keyTracker", "externalNoteTracker", "externalTrackerMutex",
	"actionsPress", "actionsRelease"}

// newHelpers: named functions of package device that the reference tree does not have.
func (d *dev) newHelpers() map[*ssa.Function]bool {
	out := map[*ssa.Function]bool{}
	for _, f := range d.p.Funcs {
		if f.Parent() != nil || f.Pkg == nil || len(f.Blocks) == 0 || f.Synthetic != "" {
			continue
		}
		if pp := f.Pkg.Pkg.Path(); pp != pkgDevice {
			// every function of a package the reference tree does not have (arithmetic moved into a new internal package) is a
			// new helper too
			if !d.p.owned(pp) || isExpectedPkg(pp) {
				continue
			}
			out[f] = true
			continue
		}
		known := deviceKnownNames[f.Name()]
		if !known {
			for k := range deviceKnownNames { // an anchor whose letter case changed is still that anchor, not a new helper
				if sameAnchorName(k, f.Name()) {
					known = true
				}
			}
		}
		if !known {
			out[f] = true
		}
	}
	return out
}

// ownerOf: the known function on whose behalf fn runs: fn itself, or - for a newly extracted helper all of whose static
// call sites lie in (helpers of) one known function - that function.  Writer tables attribute a helper's writes to it.
func (d *dev) ownerOf(fn *ssa.Function) *ssa.Function {
	helpers := d.newHelpers()
	var rec func(f *ssa.Function, depth int) *ssa.Function
	rec = func(f *ssa.Function, depth int) *ssa.Function {
		top := topFunc(f)
		if !helpers[top] || depth > 3 {
			return top
		}
		sites, ok := staticCallSites(d.p, top)
		if !ok {
			return top
		}
		var owner *ssa.Function
		for _, ci := range sites {
			o := rec(ci.Parent(), depth+1)
			if owner != nil && o != owner {
				return top
			}
			owner = o
		}
		if owner == nil {
			return top
		}
		return owner
	}
	return rec(fn, 0)
}

// refName: the reference-tree name under which fn is anchored (its own name unless only letter case/underscores differ).
func (d *dev) refName(fn *ssa.Function) string {
	if fn == nil {
		return ""
	}
	for k, f := range d.fn {
		if f == fn {
			return k
		}
	}
	return fn.Name()
}

// withHelpers adds the new helpers of package device (and the pure value helpers) to an inline set.
func (d *dev) withHelpers(only map[*ssa.Function]bool) map[*ssa.Function]bool {
	for f := range d.newHelpers() {
		only[f] = true
	}
	for f := range pureHelpers(d.p) {
		only[f] = true
	}
	// local closures of the package (a `send := func(...)` inside a handler) are part of the function that calls them
	for _, f := range d.p.Funcs {
		if f.Parent() != nil && f.Synthetic == "" && len(f.Blocks) > 0 {
			if top := topFunc(f); top.Pkg != nil && top.Pkg.Pkg.Path() == pkgDevice {
				only[f] = true
			}
		}
	}
	return only
}

func newDev(c *Ctx, rule string) *dev {
	d := &dev{c: c, p: c.P, fields: map[string]*types.Var{}, fn: map[string]*ssa.Function{}, cfgField: map[string]*types.Var{}, ctors: map[*ssa.Function]bool{}}
	d.ok = true
	_, st := c.P.Struct(pkgDevice, "Device")
	if !c.Require(st != nil, rule, "anchor:device.Device", "struct device.Device not found") {
		d.ok = false
		return d
	}
	var allFields []*types.Var
	var addFields func(s *types.Struct, depth int)
	addFields = func(s *types.Struct, depth int) {
		for i := 0; i < s.NumFields(); i++ {
			f := s.Field(i)
			if _, dup := d.fields[f.Name()]; !dup {
				d.fields[f.Name()] = f
				allFields = append(allFields, f)
			}
			// fields promoted from an embedded struct of the package (`type Device struct { keyboardState; ... }`) are fields
			// of the device like any other: `d.octave` is `d.keyboardState.octave`
			if f.Embedded() && depth < 3 {
				t := f.Type()
				if p, isPtr := t.(*types.Pointer); isPtr {
					t = p.Elem()
				}
				if n, isNamed := t.(*types.Named); isNamed && n.Obj().Pkg() != nil && n.Obj().Pkg().Path() == pkgDevice {
					if es, isStruct := n.Underlying().(*types.Struct); isStruct {
						addFields(es, depth+1)
					}
				}
			}
		}
	}
	addFields(st, 0)
	// anchors are looked up by the reference tree's field names; a field whose name only changed letter case or underscores
	// is found under its reference name too
	for _, ref := range deviceKnownFields {
		if d.fields[ref] != nil {
			continue
		}
		var found *types.Var
		n := 0
		for _, f := range allFields {
			if sameAnchorName(f.Name(), ref) {
				found = f
				n++
			}
		}
		if n == 1 {
			d.fields[ref] = found
		}
	}
	for _, n := range deviceFuncNames {
		f := c.P.Func(pkgDevice, "Device", n)
		if f != nil {
			d.fn[n] = f
		}
	}
	d.fn["NewDevice"] = c.P.Func(pkgDevice, "", "NewDevice")
	_, cst := c.P.Struct(pkgConfig, "Config")
	if cst != nil {
		for i := 0; i < cst.NumFields(); i++ {
			d.cfgField[cst.Field(i).Name()] = cst.Field(i)
		}
	}
	for _, n := range []string{"NoteEvent", "ControlChangeEvent", "PitchBendEvent"} {
		if f := c.P.Func(pkgMidi, "", n); f != nil {
			d.ctors[f] = true
		}
	}
	return d
}

// need resolves functions/fields by name, failing the run (undecided) if an anchor is gone.
func (d *dev) need(rule string, fns []string, fields []string) bool {
	ok := true
	for _, n := range fns {
		if d.fn[n] == nil {
			d.c.Undec(rule, "anchor:device."+n, "-", "anchor function device."+n+" not found (renamed or removed): the rule cannot be evaluated")
			ok = false
		}
	}
	for _, n := range fields {
		if d.fields[n] == nil {
			d.c.Undec(rule, "anchor:Device."+n, "-", "anchor field Device."+n+" not found (renamed or removed): the rule cannot be evaluated")
			ok = false
		}
	}
	return ok
}

// isDevFieldLoad: t is `d.<name>` (a load of that Device field through any base)
func (d *dev) isFieldLoad(t *Term, name string) bool {
	f := d.fields[name]
	if f == nil || t == nil {
		return false
	}
	if _, ok := t.FieldLoad(f); ok {
		return true
	}
	// the same value seen through a named type with the same representation (`heldActions(d.actionTracker)`)
	if s := t.StripConv(); s != t {
		_, ok := s.FieldLoad(f)
		return ok
	}
	return false
}

// midiEvent is a decoded 3-byte event literal sent on a channel.
type midiEvent struct {
	ok      bool
	Status  *Term // full status byte term
	Kind    int64 // status constant (high nibble), -1 if not constant
	Channel *Term // term OR-ed into the status, nil if none
	B1, B2  *Term
	Len     int
	Raw     *Term
}

// builtLiteral: the value a path returns when it is a slice made with a small constant length and then filled element by
// element on that path (ev := make(Event, 3); ev[0] = ...): the equivalent slice literal.
func builtLiteral(p *Path, t *Term) *Term {
	u := t.StripConv()
	var n int64
	var ok bool
	switch {
	case u.Op == "makeslice" && len(u.Args) > 0:
		n, ok = u.Args[0].IsIntConst()
	case u.Op == "slice" && len(u.Args) == 4 && u.Args[0].Op == "alloc":
		// make with a constant length: a local array, sliced
		n, ok = u.Args[2].IsIntConst()
		u = u.Args[0]
	}
	if !ok || n <= 0 || n > 16 {
		return t
	}
	elems := make([]*Term, n)
	for _, e := range p.Effects {
		if e.Kind != "store" || len(e.Args) < 2 {
			continue
		}
		a := e.Args[0]
		if a.Op != "indexaddr" || (a.Args[0].StripConv().String() != u.String() && a.Args[0].StripConv().String() != t.StripConv().String()) {
			continue
		}
		if i, ok := a.Args[1].IsIntConst(); ok && i >= 0 && i < n {
			elems[i] = e.Args[1]
		} else {
			return t // a store through a computed index
		}
	}
	for _, e := range elems {
		if e == nil {
			return t
		}
	}
	return &Term{Op: "slicelit", Args: elems, Type: t.Type}
}

func decodeEvent(v *Term) midiEvent {
	ev := midiEvent{Raw: v, Kind: -1}
	t := v.StripConv()
	if t.Op != "slicelit" {
		return ev
	}
	ev.Len = len(t.Args)
	if len(t.Args) != 3 {
		return ev
	}
	ev.Status, ev.B1, ev.B2 = t.Args[0], t.Args[1], t.Args[2]
	s := t.Args[0]
	if k, ok := s.IsIntConst(); ok {
		ev.Kind = k
		ev.ok = true
		return ev
	}
	if s.Op == "binop" && s.Aux == "|" {
		a, b := s.Args[0], s.Args[1]
		if k, ok := a.IsIntConst(); ok {
			ev.Kind, ev.Channel, ev.ok = k, b, true
		} else if k, ok := b.IsIntConst(); ok {
			ev.Kind, ev.Channel, ev.ok = k, a, true
		}
	}
	return ev
}

const (
	midiNoteOff = 0x80
	midiNoteOn  = 0x90
	midiCC      = 0xB0
	midiPitch   = 0xE0
)

// ---- atoms → bounds -------------------------------------------------------------------------

type bound struct {
	lo, hi   int64
	hasLo    bool
	hasHi    bool
	excluded map[int64]bool
}

func (b bound) String() string {
	lo, hi := "-inf", "+inf"
	if b.hasLo {
		lo = fmt.Sprint(b.lo)
	}
	if b.hasHi {
		hi = fmt.Sprint(b.hi)
	}
	return "[" + lo + "," + hi + "]"
}

// boundsOf derives the integer interval of the term with string key from atoms (only
// comparisons of exactly that term with integer constants are used).
func boundsOf(atoms []Atom, key string) bound {
	return boundsFrom(atoms, key, bound{})
}

// boundsFrom is boundsOf starting from an assumed interval (an inductive invariant).
func boundsFrom(atoms []Atom, key string, init bound) bound {
	b := init
	b.excluded = map[int64]bool{}
	for _, a := range atoms {
		c := a.Cond
		taken := a.Taken
		for c.Op == "unop" && c.Aux == "!" {
			c = c.Args[0]
			taken = !taken
		}
		if c.Op != "binop" {
			continue
		}
		x, y := c.Args[0], c.Args[1]
		op := c.Aux
		var k int64
		unsignedView := false
		if n, ok := y.IsIntConst(); ok && x.String() == key {
			k = n
		} else if n, ok := x.IsIntConst(); ok && y.String() == key {
			k = n
			op = flipOp(op)
		} else if n, ok := y.IsIntConst(); ok && n >= 0 && signedUnder(x) != nil && signedUnder(x).String() == key {
			k, unsignedView = n, true
		} else if n, ok := x.IsIntConst(); ok && n >= 0 && signedUnder(y) != nil && signedUnder(y).String() == key {
			k, unsignedView = n, true
			op = flipOp(op)
		} else {
			continue
		}
		if !taken {
			op = negOp(op)
		}
		if unsignedView {
			// uint(v) <= k, with v signed and no narrower than the unsigned type: a negative v would be a huge number, so
			// the one comparison says 0 <= v <= k; uint(v) > k says "v < 0 or v > k", which is no interval
			switch op {
			case "<", "<=", "==":
				b.setLo(0)
			default:
				continue
			}
		}
		switch op {
		case "<":
			b.setHi(k - 1)
		case "<=":
			b.setHi(k)
		case ">":
			b.setLo(k + 1)
		case ">=":
			b.setLo(k)
		case "==":
			b.setLo(k)
			b.setHi(k)
		case "!=":
			b.excluded[k] = true
		}
	}
	// tighten with exclusions at the ends
	for changed := true; changed; {
		changed = false
		if b.hasLo && b.excluded[b.lo] {
			b.lo++
			changed = true
		}
		if b.hasHi && b.excluded[b.hi] {
			b.hi--
			changed = true
		}
	}
	return b
}

// signedUnder: t is the conversion of a signed integer to an unsigned integer type that is at least as wide (uint(v) with v
// an int, uint32(v) with v an int32 or int16): the signed operand, otherwise nil.
func signedUnder(t *Term) *Term {
	if t.Op != "convert" || len(t.Args) != 1 || t.Type == nil || t.Args[0].Type == nil {
		return nil
	}
	to, ok1 := t.Type.Underlying().(*types.Basic)
	from, ok2 := t.Args[0].Type.Underlying().(*types.Basic)
	if !ok1 || !ok2 || to.Info()&types.IsUnsigned == 0 || from.Info()&types.IsInteger == 0 || from.Info()&types.IsUnsigned != 0 {
		return nil
	}
	width := func(b *types.Basic) int {
		switch b.Kind() {
		case types.Int8, types.Uint8:
			return 8
		case types.Int16, types.Uint16:
			return 16
		case types.Int32, types.Uint32:
			return 32
		case types.Int64, types.Uint64, types.Int, types.Uint, types.Uintptr:
			return 64
		}
		return 0
	}
	if width(to) == 0 || width(from) == 0 || width(to) < width(from) {
		return nil
	}
	return t.Args[0]
}

func (b *bound) setLo(k int64) {
	if !b.hasLo || k > b.lo {
		b.lo, b.hasLo = k, true
	}
}
func (b *bound) setHi(k int64) {
	if !b.hasHi || k < b.hi {
		b.hi, b.hasHi = k, true
	}
}

func flipOp(op string) string {
	switch op {
	case "<":
		return ">"
	case "<=":
		return ">="
	case ">":
		return "<"
	case ">=":
		return "<="
	}
	return op
}

func negOp(op string) string {
	switch op {
	case "<":
		return ">="
	case "<=":
		return ">"
	case ">":
		return "<="
	case ">=":
		return "<"
	case "==":
		return "!="
	case "!=":
		return "=="
	}
	return op
}

// normAtom returns (op, lhs, rhs, ok) of a comparison atom with polarity folded in.
func normAtom(a Atom) (string, *Term, *Term, bool) {
	c := a.Cond
	taken := a.Taken
	for c.Op == "unop" && c.Aux == "!" {
		c = c.Args[0]
		taken = !taken
	}
	if c.Op != "binop" {
		return "", nil, nil, false
	}
	switch c.Aux {
	case "<", "<=", ">", ">=", "==", "!=":
	default:
		return "", nil, nil, false
	}
	op := c.Aux
	if !taken {
		op = negOp(op)
	}
	return op, c.Args[0], c.Args[1], true
}

// boolAtom returns the truth value the path assigns to the boolean term with this key.
func boolAtom(atoms []Atom, key string) (val bool, found bool) {
	for _, a := range atoms {
		c := a.Cond
		taken := a.Taken
		for c.Op == "unop" && c.Aux == "!" {
			c = c.Args[0]
			taken = !taken
		}
		if c.String() == key {
			return taken, true
		}
	}
	return false, false
}

// ---- linear forms ---------------------------------------------------------------------------

type linear struct {
	coef  map[string]int64
	terms map[string]*Term
	k     int64
	ok    bool
	why   string
}

func isNarrow(t types.Type) bool {
	if t == nil {
		return false
	}
	b, ok := t.Underlying().(*types.Basic)
	if !ok {
		return false
	}
	switch b.Kind() {
	case types.Int8, types.Uint8, types.Int16, types.Uint16:
		return true
	}
	return false
}

// linearize expresses t as Σ coef·leaf + k over the mathematical integers.  It refuses
// (ok=false) when arithmetic happens at an 8/16-bit type (may wrap) or on a narrowing
// conversion of a computed value.
func linearize(t *Term) linear {
	l := linear{coef: map[string]int64{}, terms: map[string]*Term{}, ok: true}
	var rec func(t *Term, mul int64)
	rec = func(t *Term, mul int64) {
		if !l.ok {
			return
		}
		if n, ok := t.IsIntConst(); ok {
			l.k += mul * n
			return
		}
		switch t.Op {
		case "convert":
			inner := t.Args[0]
			// widening (or same-width) conversion of a leaf is value preserving
			if isIntegerType(t.Type) && isIntegerType(inner.Type) && widthOf(t.Type) >= widthOf(inner.Type) && (isSignedT(t.Type) || !isSignedT(inner.Type)) {
				rec(inner, mul)
				return
			}
			if isIntegerType(t.Type) && inner.Type == nil {
				rec(inner, mul)
				return
			}
			l.ok, l.why = false, "narrowing or sign-changing conversion "+t.String()
		case "binop":
			if t.Aux == "+" || t.Aux == "-" || t.Aux == "*" {
				if isNarrow(t.Type) {
					l.ok, l.why = false, fmt.Sprintf("arithmetic %q is carried out at the narrow type %s (wraps)", t.String(), t.Type)
					return
				}
			}
			switch t.Aux {
			case "+":
				rec(t.Args[0], mul)
				rec(t.Args[1], mul)
			case "-":
				rec(t.Args[0], mul)
				rec(t.Args[1], -mul)
			case "*":
				if n, ok := t.Args[1].IsIntConst(); ok {
					rec(t.Args[0], mul*n)
				} else if n, ok := t.Args[0].IsIntConst(); ok {
					rec(t.Args[1], mul*n)
				} else {
					l.ok, l.why = false, "non-linear product "+t.String()
				}
			default:
				s := t.String()
				l.coef[s] += mul
				l.terms[s] = t
			}
		default:
			s := t.String()
			l.coef[s] += mul
			l.terms[s] = t
		}
	}
	rec(t, 1)
	for k, v := range l.coef {
		if v == 0 {
			delete(l.coef, k)
		}
	}
	return l
}

func (l linear) String() string {
	var ks []string
	for k := range l.coef {
		ks = append(ks, k)
	}
	sort.Strings(ks)
	var ps []string
	for _, k := range ks {
		ps = append(ps, fmt.Sprintf("%d*%s", l.coef[k], k))
	}
	ps = append(ps, fmt.Sprint(l.k))
	return strings.Join(ps, " + ")
}

func isIntegerType(t types.Type) bool {
	if t == nil {
		return false
	}
	b, ok := t.Underlying().(*types.Basic)
	return ok && b.Info()&types.IsInteger != 0
}

func isSignedT(t types.Type) bool {
	b, ok := t.Underlying().(*types.Basic)
	return ok && b.Info()&types.IsInteger != 0 && b.Info()&types.IsUnsigned == 0
}

func widthOf(t types.Type) int {
	b, ok := t.Underlying().(*types.Basic)
	if !ok {
		return 0
	}
	switch b.Kind() {
	case types.Int8, types.Uint8:
		return 8
	case types.Int16, types.Uint16:
		return 16
	case types.Int32, types.Uint32:
		return 32
	}
	return 64
}

// ---- constant tables from syntax ---------------------------------------------------------------

// mapLiteralKeys returns the constant keys (as constant.Value) and values of a package-level
// map variable initialised by a composite literal.
func (p *Program) mapLiteral(pkgPath, name string) (keys []constant.Value, vals []constant.Value, keyExprs []ast.Expr, pos token.Pos, ok bool) {
	pk := p.Pkgs[pkgPath]
	if pk == nil {
		return
	}
	for _, f := range pk.Syntax {
		for _, d := range f.Decls {
			gd, isGen := d.(*ast.GenDecl)
			if !isGen || gd.Tok != token.VAR {
				continue
			}
			for _, s := range gd.Specs {
				vs := s.(*ast.ValueSpec)
				for i, n := range vs.Names {
					if n.Name != name || i >= len(vs.Values) {
						continue
					}
					cl, isCl := vs.Values[i].(*ast.CompositeLit)
					if !isCl {
						return
					}
					pos = cl.Pos()
					for _, e := range cl.Elts {
						kv, isKV := e.(*ast.KeyValueExpr)
						if !isKV {
							return nil, nil, nil, pos, false
						}
						ktv := pk.TypesInfo.Types[kv.Key]
						vtv := pk.TypesInfo.Types[kv.Value]
						if ktv.Value == nil {
							return nil, nil, nil, pos, false
						}
						keys = append(keys, ktv.Value)
						vals = append(vals, vtv.Value)
						keyExprs = append(keyExprs, kv.Key)
					}
					ok = true
					return
				}
			}
		}
	}
	return
}

func constStrings(vs []constant.Value) []string {
	var out []string
	for _, v := range vs {
		if v != nil && v.Kind() == constant.String {
			out = append(out, constant.StringVal(v))
		} else if v != nil {
			out = append(out, v.ExactString())
		}
	}
	sort.Strings(out)
	return out
}

func sameSet(a, b []string) bool {
	a = append([]string(nil), a...)
	b = append([]string(nil), b...)
	sort.Strings(a)
	sort.Strings(b)
	return strings.Join(a, "\x00") == strings.Join(b, "\x00")
}

func uniqStrings(a []string) []string {
	m := map[string]bool{}
	var out []string
	for _, s := range a {
		if !m[s] {
			m[s] = true
			out = append(out, s)
		}
	}
	sort.Strings(out)
	return out
}

// constValue resolves a package-level constant.
func (p *Program) constValue(pkgPath, name string) (constant.Value, bool) {
	pk := p.AnyPkg(pkgPath)
	if pk == nil {
		return nil, false
	}
	o := pk.Types.Scope().Lookup(name)
	c, ok := o.(*types.Const)
	if !ok {
		return nil, false
	}
	return c.Val(), true
}

func (p *Program) constString(pkgPath, name string) (string, bool) {
	v, ok := p.constValue(pkgPath, name)
	if !ok || v.Kind() != constant.String {
		return "", false
	}
	return constant.StringVal(v), true
}

// ---- SSA scanning helpers ---------------------------------------------------------------------

// derivesFromField: does the SSA value (a map/slice/pointer) originate in a load of the
// struct field f (possibly through nested lookups, phis, extracts, conversions)?
func derivesFromField(v ssa.Value, f *types.Var, seen map[ssa.Value]bool) bool {
	if v == nil || seen[v] {
		return false
	}
	seen[v] = true
	switch x := v.(type) {
	case *ssa.UnOp:
		if x.Op == token.MUL {
			if fa, ok := x.X.(*ssa.FieldAddr); ok {
				st := deref(fa.X.Type()).Underlying().(*types.Struct)
				if sameField(st.Field(fa.Field), f) {
					return true
				}
			}
		}
		return false
	case *ssa.FieldAddr:
		// address of a value-typed field (e.g. a sync.Mutex held by value)
		return sameField(fieldOfAddr(x), f)
	case *ssa.Field:
		st := x.X.Type().Underlying().(*types.Struct)
		if sameField(st.Field(x.Field), f) {
			return true
		}
		return derivesFromField(x.X, f, seen)
	case *ssa.Lookup:
		return derivesFromField(x.X, f, seen)
	case *ssa.Extract:
		return derivesFromField(x.Tuple, f, seen)
	case *ssa.Phi:
		for _, e := range x.Edges {
			if derivesFromField(e, f, seen) {
				return true
			}
		}
	case *ssa.ChangeType:
		return derivesFromField(x.X, f, seen)
	case *ssa.Convert:
		return derivesFromField(x.X, f, seen)
	case *ssa.MakeInterface:
		return derivesFromField(x.X, f, seen)
	case *ssa.Next:
		return derivesFromField(x.Iter, f, seen)
	case *ssa.Range:
		return derivesFromField(x.X, f, seen)
	case *ssa.Index:
		return derivesFromField(x.X, f, seen)
	case *ssa.IndexAddr:
		return derivesFromField(x.X, f, seen)
	case *ssa.Slice:
		return derivesFromField(x.X, f, seen)
	}
	return false
}

// fieldOfAddr: if addr is &x.f (FieldAddr) returns f.
func fieldOfAddr(v ssa.Value) *types.Var {
	if fa, ok := v.(*ssa.FieldAddr); ok {
		st := deref(fa.X.Type()).Underlying().(*types.Struct)
		return st.Field(fa.Field)
	}
	return nil
}

// writerSites lists, per function, the instructions that mutate the content of (maps
// hanging off) field f or assign the field itself; parameters receiving a derived value
// are followed into owned callees.
type writeSite struct {
	Fn    *ssa.Function
	Instr ssa.Instruction
	What  string
}

func (p *Program) writersOfField(f *types.Var) []writeSite {
	var out []writeSite
	type tv struct {
		fn *ssa.Function
		v  ssa.Value
	}
	tainted := map[ssa.Value]bool{}
	isDerived := func(v ssa.Value) bool {
		if derivesFromField(v, f, map[ssa.Value]bool{}) {
			return true
		}
		// through tainted parameters
		seen := map[ssa.Value]bool{}
		var rec func(v ssa.Value) bool
		rec = func(v ssa.Value) bool {
			if v == nil || seen[v] {
				return false
			}
			seen[v] = true
			if tainted[v] {
				return true
			}
			switch x := v.(type) {
			case *ssa.Lookup:
				return rec(x.X)
			case *ssa.Extract:
				return rec(x.Tuple)
			case *ssa.Phi:
				for _, e := range x.Edges {
					if rec(e) {
						return true
					}
				}
			case *ssa.ChangeType:
				return rec(x.X)
			case *ssa.Index:
				return rec(x.X)
			case *ssa.IndexAddr:
				return rec(x.X)
			}
			return false
		}
		return rec(v)
	}
	for round := 0; round < 4; round++ {
		changed := false
		for _, fn := range p.Funcs {
			for _, b := range fn.Blocks {
				for _, in := range b.Instrs {
					c, ok := in.(ssa.CallInstruction)
					if !ok {
						continue
					}
					callee := c.Common().StaticCallee()
					if callee == nil || !p.OwnedFunc(callee) || callee.Blocks == nil {
						continue
					}
					for i, a := range c.Common().Args {
						if i < len(callee.Params) && isRefType(a.Type()) && isDerived(a) && !tainted[callee.Params[i]] {
							tainted[callee.Params[i]] = true
							changed = true
						}
					}
				}
			}
		}
		if !changed {
			break
		}
	}
	for _, fn := range p.Funcs {
		for _, b := range fn.Blocks {
			for _, in := range b.Instrs {
				switch x := in.(type) {
				case *ssa.MapUpdate:
					if isDerived(x.Map) {
						out = append(out, writeSite{fn, in, "map update"})
					}
				case *ssa.Store:
					if fieldOfAddr(x.Addr) == f {
						out = append(out, writeSite{fn, in, "field assignment"})
					} else if ia, ok := x.Addr.(*ssa.IndexAddr); ok && isDerived(ia.X) {
						out = append(out, writeSite{fn, in, "element store"})
					}
				case *ssa.Call:
					if bi, ok := x.Call.Value.(*ssa.Builtin); ok && (bi.Name() == "delete" || bi.Name() == "clear") && len(x.Call.Args) > 0 && isDerived(x.Call.Args[0]) {
						out = append(out, writeSite{fn, in, bi.Name()})
					}
					// passing the map to an external function that may mutate it
					if callee := x.Call.StaticCallee(); callee != nil && !p.OwnedFunc(callee) {
						for _, a := range x.Call.Args {
							if _, isMap := a.Type().Underlying().(*types.Map); isMap && isDerived(a) {
								if !inertPkgs[pkgPathOf(callee)] {
									out = append(out, writeSite{fn, in, "passed to external " + callee.String()})
								}
							}
						}
					}
				}
			}
		}
	}
	return out
}

func pkgPathOf(fn *ssa.Function) string {
	if fn.Pkg != nil {
		return fn.Pkg.Pkg.Path()
	}
	if o := fn.Object(); o != nil && o.Pkg() != nil {
		return o.Pkg().Path()
	}
	return ""
}

func isRefType(t types.Type) bool {
	switch t.Underlying().(type) {
	case *types.Map, *types.Slice, *types.Pointer, *types.Chan:
		return true
	}
	return false
}

// topFunc returns the declared function enclosing fn (for anonymous functions).
func topFunc(fn *ssa.Function) *ssa.Function {
	for fn.Parent() != nil {
		fn = fn.Parent()
	}
	return fn
}

func shortFn(fn *ssa.Function) string {
	if fn == nil {
		return "<nil>"
	}
	s := fn.String()
	s = strings.ReplaceAll(s, modPath+"/internal/pkg/", "")
	s = strings.ReplaceAll(s, modPath+"/", "")
	return s
}

func constantInt(n int64) constant.Value { return constant.MakeInt64(n) }

// sameField: identical field objects, or the same declared field seen through different
// instantiations of a generic struct (same name and declaration position).
func sameField(a, b *types.Var) bool {
	if a == b {
		return true
	}
	if a == nil || b == nil {
		return false
	}
	return a.Name() == b.Name() && a.Pos() == b.Pos() && a.Pos().IsValid()
}

// pureHelpers: repository functions that only compute a value from their arguments: loop-free, no stores, sends, map
// updates, go/defer, and calls only to math.* or builtins.  Path rules inline them so that extracting an expression into
// such a helper does not change what a rule sees.
func pureHelpers(p *Program) map[*ssa.Function]bool {
	if p.pure != nil {
		return p.pure
	}
	out := map[*ssa.Function]bool{}
	for _, fn := range p.Funcs {
		if fn.Parent() != nil || len(fn.Blocks) == 0 || fn.Signature.Results().Len() == 0 {
			continue
		}
		ok := true
		for _, b := range fn.Blocks {
			for _, s := range b.Succs {
				if s.Dominates(b) {
					ok = false // loop
				}
			}
			for _, in := range b.Instrs {
				switch x := in.(type) {
				case *ssa.BinOp, *ssa.Convert, *ssa.ChangeType, *ssa.Phi, *ssa.If, *ssa.Jump, *ssa.Return, *ssa.Extract, *ssa.DebugRef, *ssa.Field, *ssa.FieldAddr:
				case *ssa.UnOp:
					if x.Op == token.ARROW {
						ok = false
					}
				case *ssa.Call:
					switch callee := x.Call.Value.(type) {
					case *ssa.Builtin:
						if n := callee.Name(); n != "len" && n != "cap" && n != "min" && n != "max" {
							ok = false
						}
					case *ssa.Function:
						if callee.Pkg == nil || callee.Pkg.Pkg.Path() != "math" {
							ok = false
						}
					default:
						ok = false
					}
				default:
					ok = false
				}
			}
		}
		if ok {
			out[fn] = true
		}
	}
	p.pure = out
	return out
}

// listLiteral: the constant elements of a package-level array/slice literal without keys (position = index).
func (p *Program) listLiteral(pkgPath, name string) ([]constant.Value, bool) {
	pk := p.Pkgs[pkgPath]
	if pk == nil {
		return nil, false
	}
	for _, f := range pk.Syntax {
		for _, d := range f.Decls {
			gd, isGen := d.(*ast.GenDecl)
			if !isGen || gd.Tok != token.VAR {
				continue
			}
			for _, s := range gd.Specs {
				vs := s.(*ast.ValueSpec)
				for i, n := range vs.Names {
					if n.Name != name || i >= len(vs.Values) {
						continue
					}
					cl, isCl := vs.Values[i].(*ast.CompositeLit)
					if !isCl {
						return nil, false
					}
					var out []constant.Value
					for _, e := range cl.Elts {
						if _, isKV := e.(*ast.KeyValueExpr); isKV {
							return nil, false
						}
						tv := pk.TypesInfo.Types[e]
						if tv.Value == nil {
							return nil, false
						}
						out = append(out, tv.Value)
					}
					return out, true
				}
			}
		}
	}
	return nil, false
}

// hostsOf: fn and the newly extracted helpers that run on its behalf only (a handler split into a pipeline of stages).
func (d *dev) hostsOf(fn *ssa.Function) []*ssa.Function {
	out := []*ssa.Function{fn}
	helpers := d.newHelpers()
	for _, h := range d.p.Funcs {
		if helpers[h] && h != fn && d.ownerOf(h) == fn {
			out = append(out, h)
		}
	}
	return out
}

// helperReturns: v is (one result of) a call of a repository function: the values its returns deliver for that result.
func helperReturns(p *Program, v ssa.Value) ([]ssa.Value, bool) {
	idx := 0
	var call *ssa.Call
	switch x := v.(type) {
	case *ssa.Extract:
		c, ok := x.Tuple.(*ssa.Call)
		if !ok {
			return nil, false
		}
		call, idx = c, x.Index
	case *ssa.Call:
		call = x
	default:
		return nil, false
	}
	f := call.Call.StaticCallee()
	if f == nil || len(f.Blocks) == 0 || !p.OwnedFunc(f) {
		return nil, false
	}
	var out []ssa.Value
	for _, b := range f.Blocks {
		if r, ok := b.Instrs[len(b.Instrs)-1].(*ssa.Return); ok && b != f.Recover && idx < len(r.Results) {
			out = append(out, r.Results[idx])
		}
	}
	return out, len(out) > 0
}

func isExpectedPkg(path string) bool {
	for _, e := range expectedPkgs {
		if e == path {
			return true
		}
	}
	return false
}

// valueHelpers: repository functions that only compute values from their arguments through pure library calls (strings.*,
// path/filepath.*, fmt.Sprintf, ...): loop-free, no stores, sends, map updates, go/defer.  A file-name test shared by the
// loader and the watcher (`tomlFileName(name) (lowered string, isConfig bool)`) is one; path rules inline them so that the
// conditions they test are seen where the helper is called.
func valueHelpers(p *Program) map[*ssa.Function]bool {
	out := map[*ssa.Function]bool{}
	for f := range pureHelpers(p) {
		out[f] = true
	}
	for _, fn := range p.Funcs {
		if out[fn] || fn.Parent() != nil || len(fn.Blocks) == 0 || fn.Signature.Results().Len() == 0 || fn.Signature.Recv() != nil {
			continue
		}
		ok := true
		for _, b := range fn.Blocks {
			for _, s := range b.Succs {
				if s.Dominates(b) {
					ok = false
				}
			}
			for _, in := range b.Instrs {
				switch x := in.(type) {
				case *ssa.BinOp, *ssa.Convert, *ssa.ChangeType, *ssa.Phi, *ssa.If, *ssa.Jump, *ssa.Return, *ssa.Extract, *ssa.DebugRef, *ssa.Field, *ssa.Slice:
				case *ssa.UnOp:
					if x.Op == token.ARROW || x.Op == token.MUL {
						ok = false
					}
				case *ssa.Call:
					switch callee := x.Call.Value.(type) {
					case *ssa.Builtin:
						if n := callee.Name(); n != "len" && n != "cap" && n != "min" && n != "max" {
							ok = false
						}
					case *ssa.Function:
						if !isPureExternal(callee) {
							ok = false
						}
					default:
						ok = false
					}
				default:
					ok = false
				}
			}
		}
		if ok {
			out[fn] = true
		}
	}
	return out
}
