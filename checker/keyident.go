package main

import (
	"go/constant"
	"go/types"
	"golang.org/x/tools/go/ssa"
	"sort"
	"strconv"
	"strings"
)

// keyIdent describes the key of a per-key state map (noteTracker, analogNoteTracker) as a function of one input event.
//
//	comps:     the event components it is computed from ("Source.Name", "Event.Code", ...)
//	canon:     the function itself with the event parameter renamed to $ev (NoteOn(ev) and handleKEYEvent(ie) compare equal)
//	injective: distinct component tuples give distinct keys (a struct of the components; a fmt.Sprintf whose integer verbs
//	           are delimited by non-digit literals and which has at most one string verb)
type keyIdent struct {
	comps     map[string]bool
	canon     string
	injective bool
	why       string
	pieces    []keyPiece // string keys: literal / integer / string pieces in order
}

type keyPiece struct {
	kind  byte // 'l' literal, 'd' integer operand rendered in decimal, 's' string operand
	lit   string
	canon string
}

func (k keyIdent) compList() string {
	var s []string
	for c := range k.comps {
		s = append(s, c)
	}
	sort.Strings(s)
	return strings.Join(s, ",")
}

func (k keyIdent) covers(need map[string]bool) (string, bool) {
	var miss []string
	for c := range need {
		if !k.comps[c] {
			miss = append(miss, c)
		}
	}
	sort.Strings(miss)
	return strings.Join(miss, ","), len(miss) == 0
}

// eventComponent: load(fieldaddr f2 (fieldaddr f1 (param *input.InputEvent))) -> "f1.f2"
func eventComponent(t *Term) (string, bool) {
	t = t.StripConv()
	if t == nil || t.Op != "load" {
		return "", false
	}
	var names []string
	a := t.Args[0]
	for a.Op == "fieldaddr" {
		names = append([]string{a.Obj.Name()}, names...)
		a = a.Args[0]
	}
	if len(names) == 0 || a.Op != "param" {
		return "", false
	}
	if pt, ok := a.Type.(*types.Pointer); !ok || !strings.HasSuffix(pt.Elem().String(), "input.InputEvent") {
		return "", false
	}
	return strings.Join(names, "."), true
}

func identOf(t *Term) keyIdent {
	k := keyIdent{comps: map[string]bool{}}
	t = t.StripConv()
	if t == nil {
		k.canon, k.why = "?", "no key"
		return k
	}
	if b, isB := typeOfTerm(t).(*types.Basic); isB && b.Info()&types.IsString != 0 {
		{
			ps, why := stringPieces(t, k.comps)
			if why == "" && !(len(ps) == 1 && ps[0].kind == 's') {
				k.pieces = ps
				var parts []string
				for _, p := range ps {
					parts = append(parts, p.canon)
				}
				k.canon = "string(" + strings.Join(parts, " + ") + ")"
				k.why = piecesInjective(ps)
				k.injective = k.why == ""
				return k
			}
			if why != "" {
				k.canon, k.why = "?"+t.String(), why
				return k
			}
		}
	}
	if c, ok := eventComponent(t); ok {
		k.comps[c] = true
		k.canon, k.injective = "$ev."+c, true
		return k
	}
	switch {
	case t.Op == "const":
		k.canon, k.injective = t.Aux, true
		return k
	case t.Op == "struct":
		k.injective = true
		var parts []string
		for _, a := range t.Args {
			s := identOf(a)
			for c := range s.comps {
				k.comps[c] = true
			}
			if !s.injective {
				k.injective, k.why = false, s.why
			}
			parts = append(parts, s.canon)
		}
		k.canon = "struct:" + t.Aux + "(" + strings.Join(parts, ", ") + ")"
		return k
	}
	k.canon, k.why = "?"+t.String(), "not a struct or string built from event components: "+t.String()
	return k
}

func typeOfTerm(t *Term) types.Type {
	if t == nil || t.Type == nil {
		return nil
	}
	return t.Type.Underlying()
}

// stringPieces flattens a string-valued key (fmt.Sprintf with %d/%s/%v verbs, concatenation, strconv decimal rendering of
// an event component) into literal / integer / string pieces.
func stringPieces(t *Term, comps map[string]bool) ([]keyPiece, string) {
	t = t.StripConv()
	leafPiece := func(a *Term) (keyPiece, string) {
		c, ok := eventComponent(a)
		if !ok {
			return keyPiece{}, "an operand is not an event component: " + a.String()
		}
		comps[c] = true
		if b, isB := typeOfTerm(a.StripConv()).(*types.Basic); isB && b.Info()&types.IsInteger != 0 {
			return keyPiece{kind: 'd', canon: "dec($ev." + c + ")"}, ""
		}
		return keyPiece{kind: 's', canon: "$ev." + c}, ""
	}
	switch {
	case t.Op == "const" && t.Cval != nil && t.Cval.Kind() == constant.String:
		l := constant.StringVal(t.Cval)
		return []keyPiece{{kind: 'l', lit: l, canon: strconv.Quote(l)}}, ""
	case t.Op == "binop" && t.Aux == "+" && len(t.Args) == 2:
		a, why := stringPieces(t.Args[0], comps)
		if why != "" {
			return nil, why
		}
		b, why := stringPieces(t.Args[1], comps)
		if why != "" {
			return nil, why
		}
		return mergeLits(append(a, b...)), ""
	case t.Op == "call" && (t.Aux == "strconv.Itoa" && len(t.Args) == 1 || (t.Aux == "strconv.FormatUint" || t.Aux == "strconv.FormatInt") && len(t.Args) == 2):
		if len(t.Args) == 2 {
			if n, ok := t.Args[1].IsIntConst(); !ok || n != 10 {
				return nil, "strconv rendering in a base other than 10"
			}
		}
		p, why := leafPiece(t.Args[0])
		if why != "" {
			return nil, why
		}
		p.kind = 'd'
		return []keyPiece{p}, ""
	case t.Op == "call" && t.Aux == "fmt.Sprintf" && len(t.Args) == 2 && t.Args[0].Op == "const" && t.Args[0].Cval != nil && t.Args[0].Cval.Kind() == constant.String && t.Args[1].Op == "slicelit":
		format := constant.StringVal(t.Args[0].Cval)
		ops := t.Args[1].Args
		var out []keyPiece
		cur := ""
		n := 0
		for i := 0; i < len(format); i++ {
			if format[i] != '%' {
				cur += string(format[i])
				continue
			}
			if i+1 >= len(format) {
				return nil, "format ends in %"
			}
			i++
			if format[i] == '%' {
				cur += "%"
				continue
			}
			if format[i] != 'd' && format[i] != 's' && format[i] != 'v' {
				return nil, "format verb %" + string(format[i]) + " (only %d, %s, %v are understood)"
			}
			if n >= len(ops) {
				return nil, "more verbs than operands"
			}
			p, why := leafPiece(ops[n])
			if why != "" {
				return nil, why
			}
			n++
			if cur != "" {
				out = append(out, keyPiece{kind: 'l', lit: cur, canon: strconv.Quote(cur)})
				cur = ""
			}
			out = append(out, p)
		}
		if cur != "" {
			out = append(out, keyPiece{kind: 'l', lit: cur, canon: strconv.Quote(cur)})
		}
		if n != len(ops) {
			return nil, "more operands than verbs"
		}
		return out, ""
	}
	if p, why := leafPiece(t); why == "" {
		return []keyPiece{p}, ""
	}
	return nil, "not a string built from event components: " + t.String()
}

func mergeLits(ps []keyPiece) []keyPiece {
	var out []keyPiece
	for _, p := range ps {
		if p.kind == 'l' && len(out) > 0 && out[len(out)-1].kind == 'l' {
			l := out[len(out)-1].lit + p.lit
			out[len(out)-1] = keyPiece{kind: 'l', lit: l, canon: strconv.Quote(l)}
			continue
		}
		out = append(out, p)
	}
	return out
}

// piecesInjective: "" when the string determines its operands: at most one string operand, and every integer operand has
// a non-digit literal character (or the end of the string) on either side.
func piecesInjective(ps []keyPiece) string {
	nonDigit := func(b byte) bool { return b < '0' || b > '9' }
	strs := 0
	for i, p := range ps {
		switch p.kind {
		case 's':
			strs++
		case 'd':
			if i > 0 {
				q := ps[i-1]
				if q.kind != 'l' {
					return "an integer operand directly follows another operand (\"ab\"+\"1\" and \"a\"+\"b1\" would coincide)"
				}
				if !nonDigit(q.lit[len(q.lit)-1]) {
					return "an integer operand is preceded by a digit literal"
				}
			}
			if i+1 < len(ps) {
				q := ps[i+1]
				if q.kind != 'l' {
					return "an integer operand is directly followed by another operand"
				}
				if !nonDigit(q.lit[0]) {
					return "an integer operand is followed by a digit literal"
				}
			}
		}
	}
	if strs > 1 {
		return "more than one string operand"
	}
	return ""
}

// disjointKeys: can two injective string keys never be equal? Decided for the shape used here: one ends in an integer
// operand and the other in a literal whose last character is not a digit.
func disjointKeys(a, b keyIdent) bool {
	endsInt := func(k keyIdent) bool { return len(k.pieces) > 0 && k.pieces[len(k.pieces)-1].kind == 'd' }
	endsNonDigitLit := func(k keyIdent) bool {
		if len(k.pieces) == 0 || k.pieces[len(k.pieces)-1].kind != 'l' {
			return false
		}
		l := k.pieces[len(k.pieces)-1].lit
		return l[len(l)-1] < '0' || l[len(l)-1] > '9'
	}
	return endsInt(a) && endsNonDigitLit(b) || endsInt(b) && endsNonDigitLit(a)
}

// mappingKeyNeed: the event components the dispatch uses to look a key (axis) up in the mapping: the indices of the
// lookups into config field cfgField (Midi / Analog) in fnName.
func (dv *dev) mappingKeyNeed(fnName, cfgField string) map[string]bool {
	need := map[string]bool{}
	fn := dv.fn[fnName]
	if fn == nil {
		return need
	}
	vw := NewFnView(dv.p, fn)
	for _, b := range fn.Blocks {
		for _, in := range b.Instrs {
			lk, ok := in.(*ssa.Lookup)
			if !ok || !strings.Contains(vw.Term(lk.X).String(), "."+cfgField) {
				continue
			}
			if c, isC := eventComponent(vw.Term(lk.Index)); isC {
				need[c] = true
			}
		}
	}
	return need
}

// pressKeyIdent: the key under which the press function records the tracker entry (first recording path).
func (dv *dev) pressKeyIdent(fnName, tracker string) (keyIdent, bool) {
	m := dv.noteModel(fnName, tracker)
	if m.err != nil {
		return keyIdent{}, false
	}
	for _, np := range m.paths {
		if len(np.TrackSets) == 1 {
			return identOf(np.TrackSets[0].Args[1]), true
		}
	}
	return keyIdent{}, false
}

// releaseKeyTerm: the key the release function looks up in the tracker.
func (dv *dev) releaseKeyTerm(fnName, tracker string) *Term {
	m := dv.noteModel(fnName, tracker)
	if m.err != nil {
		return nil
	}
	for _, np := range m.paths {
		for _, a := range np.P.Atoms {
			cnd := a.Cond
			for cnd.Op == "unop" {
				cnd = cnd.Args[0]
			}
			if cnd.Op == "lookupok" && dv.isFieldLoad(cnd.Args[0], tracker) {
				return cnd.Args[1]
			}
		}
	}
	return nil
}

// substEvent rebuilds a key term with every event component replaced by what get returns for it.
func substEvent(t *Term, get func(comp string) *Term) *Term {
	if t == nil {
		return nil
	}
	if c, ok := eventComponent(t); ok {
		if v := get(c); v != nil {
			return v
		}
		return &Term{Op: "const", Aux: "unset:" + c}
	}
	if len(t.Args) == 0 {
		return t
	}
	n := *t
	n.s = ""
	n.Args = make([]*Term, len(t.Args))
	for i, a := range t.Args {
		n.Args[i] = substEvent(a, get)
	}
	return &n
}

// rebuildsKey: is t the value `key` again? Either the very term, or a struct of its fields in field order.
func rebuildsKey(t, key *Term) bool {
	t = t.StripConv()
	if sameTerm(t, key) {
		return true
	}
	if t.Op != "struct" {
		return false
	}
	st, ok := t.Type.Underlying().(*types.Struct)
	if !ok || st.NumFields() != len(t.Args) {
		return false
	}
	for i, a := range t.Args {
		a = a.StripConv()
		if a.Op != "field" || a.Obj != st.Field(i) || !sameTerm(a.Args[0], key) {
			return false
		}
	}
	return true
}

// storedComponent: the value last stored (before effect j) to component comp ("Event.Code") of the event allocated at arg.
func storedComponent(p *Path, j int, arg *Term, comp string) *Term {
	var val *Term
	for i := 0; i < j; i++ {
		e := p.Effects[i]
		if e.Kind != "store" {
			continue
		}
		var names []string
		a := e.Args[0]
		for a.Op == "fieldaddr" {
			names = append([]string{a.Obj.Name()}, names...)
			a = a.Args[0]
		}
		if len(names) > 0 && strings.Join(names, ".") == comp && sameTerm(a, arg) {
			val = e.Args[1]
		}
	}
	return val
}
