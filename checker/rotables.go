package main

import (
	"go/token"
	"go/types"
	"sync"

	"golang.org/x/tools/go/ssa"
)

// Read-only tables: package-level variables of the repository that are written only by their package initialiser (stores
// of constants and function values into the variable or into its fields / constant-index elements) and whose address is
// never used for anything but reading.  Their initial contents are known statically, so a path that reads them (a dispatch
// table of handlers, a table of thresholds) sees the values instead of opaque loads.
type tableStore struct {
	addr ssa.Value
	val  ssa.Value
	fn   *ssa.Function
}

var roTablesOnce sync.Map // *Program -> map[*ssa.Global][]tableStore

func (p *Program) readOnlyTables() map[*ssa.Global][]tableStore {
	if v, ok := roTablesOnce.Load(p); ok {
		return v.(map[*ssa.Global][]tableStore)
	}
	root := func(v ssa.Value) *ssa.Global {
		for i := 0; i < 8; i++ {
			switch x := v.(type) {
			case *ssa.Global:
				return x
			case *ssa.FieldAddr:
				v = x.X
			case *ssa.IndexAddr:
				v = x.X
			default:
				return nil
			}
		}
		return nil
	}
	stores := map[*ssa.Global][]tableStore{}
	spoiled := map[*ssa.Global]bool{}
	seen := map[*ssa.Global]bool{}
	for _, fn := range p.Funcs {
		isInit := fn.Name() == "init" && fn.Parent() == nil
		for _, b := range fn.Blocks {
			for _, in := range b.Instrs {
				var ops [12]*ssa.Value
				for _, op := range in.Operands(ops[:0]) {
					if op == nil || *op == nil {
						continue
					}
					g := root(*op)
					if g == nil || g.Pkg == nil || g.Object() == nil || !p.owned(g.Pkg.Pkg.Path()) {
						continue
					}
					seen[g] = true
					switch x := in.(type) {
					case *ssa.FieldAddr, *ssa.IndexAddr:
						if ia, ok := x.(*ssa.IndexAddr); ok {
							if _, isConst := ia.Index.(*ssa.Const); !isConst && isInit {
								spoiled[g] = true
							}
							if *op != ia.X {
								spoiled[g] = true // the global used as an index?!
							}
						}
						// derived address: its own uses are visited when they are instructions' operands (root() sees through)
					case *ssa.UnOp:
						if x.Op != token.MUL {
							spoiled[g] = true
						}
					case *ssa.Store:
						if *op == x.Val {
							spoiled[g] = true // the address escapes into memory
							continue
						}
						if !isInit || fn.Pkg != g.Pkg {
							spoiled[g] = true
							continue
						}
						switch x.Val.(type) {
						case *ssa.Const, *ssa.Function:
							stores[g] = append(stores[g], tableStore{addr: x.Addr, val: x.Val, fn: fn})
						default:
							spoiled[g] = true
						}
					default:
						spoiled[g] = true // passed to a call, sliced, converted to an interface, ...
					}
				}
			}
		}
	}
	out := map[*ssa.Global][]tableStore{}
	for g := range seen {
		if !spoiled[g] && len(stores[g]) > 0 {
			out[g] = stores[g]
		}
	}
	roTablesOnce.Store(p, out)
	return out
}

// roTableTargets: the functions a call through value v can reach when v is read from a function-typed field of (an element
// of) a read-only table: every function the package initialiser stored into that field.
func roTableTargets(p *Program, v ssa.Value) []*ssa.Function {
	tables := p.readOnlyTables()
	// find the field selection and the table it selects from
	var fieldIdx = -1
	var base ssa.Value
	switch x := v.(type) {
	case *ssa.Field:
		fieldIdx, base = x.Field, x.X
	case *ssa.UnOp:
		if fa, ok := x.X.(*ssa.FieldAddr); ok && x.Op == token.MUL {
			fieldIdx, base = fa.Field, fa.X
		}
	}
	if fieldIdx < 0 {
		return nil
	}
	var g *ssa.Global
	seen := map[ssa.Value]bool{}
	var find func(v ssa.Value, depth int)
	find = func(v ssa.Value, depth int) {
		if v == nil || seen[v] || depth > 10 || g != nil {
			return
		}
		seen[v] = true
		switch x := v.(type) {
		case *ssa.Global:
			if _, ok := tables[x]; ok {
				g = x
			}
		case *ssa.UnOp:
			find(x.X, depth+1)
		case *ssa.Index:
			find(x.X, depth+1)
		case *ssa.IndexAddr:
			find(x.X, depth+1)
		case *ssa.FieldAddr:
			find(x.X, depth+1)
		case *ssa.Field:
			find(x.X, depth+1)
		case *ssa.Extract:
			find(x.Tuple, depth+1)
		case *ssa.Next:
			find(x.Iter, depth+1)
		case *ssa.Range:
			find(x.X, depth+1)
		case *ssa.Phi:
			for _, e := range x.Edges {
				find(e, depth+1)
			}
		case *ssa.Alloc:
			// a local copy of an element: what is stored into it
			for _, r := range *x.Referrers() {
				if st, ok := r.(*ssa.Store); ok && st.Addr == ssa.Value(x) {
					find(st.Val, depth+1)
				}
			}
		}
	}
	find(base, 0)
	if g == nil {
		return nil
	}
	var out []*ssa.Function
	for _, ts := range tables[g] {
		fa, ok := ts.addr.(*ssa.FieldAddr)
		if !ok || fa.Field != fieldIdx {
			continue
		}
		if f, ok := ts.val.(*ssa.Function); ok {
			out = append(out, f)
		}
	}
	return out
}

// paramFuncTargets: v is a function-typed parameter of a repository function: the functions it can be bound to, taken from
// the arguments of every static call of that function (a function, a closure, or nil).  ok is false when some call site
// passes something else (the set is then unknown) or the function is also used as a value.
func paramFuncTargets(p *Program, v ssa.Value) ([]*ssa.Function, bool) {
	prm, isParam := v.(*ssa.Parameter)
	if !isParam {
		return nil, false
	}
	if _, isSig := prm.Type().Underlying().(*types.Signature); !isSig {
		return nil, false
	}
	host := prm.Parent()
	if !p.OwnedFunc(host) {
		return nil, false
	}
	idx := paramIndex(prm)
	sites, all := staticCallSites(p, host)
	if !all || len(sites) == 0 || idx < 0 {
		return nil, false
	}
	out := []*ssa.Function{}
	for _, cs := range sites {
		if idx >= len(cs.Common().Args) {
			return nil, false
		}
		a := cs.Common().Args[idx]
		for i := 0; i < 3; i++ {
			if ct, ok := a.(*ssa.ChangeType); ok {
				a = ct.X
			}
		}
		switch x := a.(type) {
		case *ssa.Function:
			out = append(out, x)
		case *ssa.MakeClosure:
			if f, ok := x.Fn.(*ssa.Function); ok {
				out = append(out, f)
			} else {
				return nil, false
			}
		case *ssa.Const:
			if x.Value != nil {
				return nil, false
			}
		case *ssa.Parameter:
			ts, ok := paramFuncTargets(p, x)
			if !ok {
				return nil, false
			}
			out = append(out, ts...)
		default:
			return nil, false
		}
	}
	return out, true
}

// localFuncTargets: the call value is a local variable that holds one of several function values (a phi of closures,
// method values, functions and nil): all of them.
func localFuncTargets(v ssa.Value) ([]*ssa.Function, bool) {
	out := []*ssa.Function{}
	seen := map[ssa.Value]bool{}
	var rec func(v ssa.Value, depth int) bool
	rec = func(v ssa.Value, depth int) bool {
		if seen[v] {
			return true
		}
		seen[v] = true
		if depth > 6 {
			return false
		}
		switch x := v.(type) {
		case *ssa.Phi:
			for _, e := range x.Edges {
				if !rec(e, depth+1) {
					return false
				}
			}
			return true
		case *ssa.MakeClosure:
			f, ok := x.Fn.(*ssa.Function)
			if ok {
				out = append(out, f)
			}
			return ok
		case *ssa.Function:
			out = append(out, x)
			return true
		case *ssa.Const:
			return x.Value == nil
		case *ssa.ChangeType:
			return rec(x.X, depth+1)
		}
		return false
	}
	if _, isPhi := v.(*ssa.Phi); !isPhi {
		return nil, false
	}
	if !rec(v, 0) {
		return nil, false
	}
	return out, true
}
