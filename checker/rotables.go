package main

import (
	"go/token"
	"go/types"
	"sync"

	"golang.org/x/tools/go/ssa"
)

// Read-only tables: package-level variables of the repository that are written only by their package initialiser (stores
// of constants and function values into the variable or into its fields / constant-index elements) and whose address is
// never used for anything but reading.  Their initial contents are known statically, so a path that reads them (a dispatch
// table of handlers, a table of thresholds) sees the values instead of opaque loads.
type tableStore struct {
	addr ssa.Value
	val  ssa.Value
	fn   *ssa.Function
}

var roTablesOnce sync.Map // *Program -> map[*ssa.Global][]tableStore

func (p *Program) readOnlyTables() map[*ssa.Global][]tableStore {
	if v, ok := roTablesOnce.Load(p); ok {
		return v.(map[*ssa.Global][]tableStore)
	}
	root := func(v ssa.Value) *ssa.Global {
		for i := 0; i < 8; i++ {
			switch x := v.(type) {
			case *ssa.Global:
				return x
			case *ssa.FieldAddr:
				v = x.X
			case *ssa.IndexAddr:
				v = x.X
			default:
				return nil
			}
		}
		return nil
	}
	stores := map[*ssa.Global][]tableStore{}
	spoiled := map[*ssa.Global]bool{}
	seen := map[*ssa.Global]bool{}
	for _, fn := range p.Funcs {
		isInit := fn.Name() == "init" && fn.Parent() == nil
		for _, b := range fn.Blocks {
			for _, in := range b.Instrs {
				var ops [12]*ssa.Value
				for _, op := range in.Operands(ops[:0]) {
					if op == nil || *op == nil {
						continue
					}
					g := root(*op)
					if g == nil || g.Pkg == nil || g.Object() == nil || !p.owned(g.Pkg.Pkg.Path()) {
						continue
					}
					seen[g] = true
					switch x := in.(type) {
					case *ssa.FieldAddr, *ssa.IndexAddr:
						if ia, ok := x.(*ssa.IndexAddr); ok {
							if _, isConst := ia.Index.(*ssa.Const); !isConst && isInit {
								spoiled[g] = true
							}
							if *op != ia.X {
								spoiled[g] = true // the global used as an index?!
							}
						}
						// derived address: its own uses are visited when they are instructions' operands (root() sees through)
					case *ssa.UnOp:
						if x.Op != token.MUL {
							spoiled[g] = true
						}
					case *ssa.Store:
						if *op == x.Val {
							spoiled[g] = true // the address escapes into memory
							continue
						}
						if !isInit || fn.Pkg != g.Pkg {
							spoiled[g] = true
							continue
						}
						switch x.Val.(type) {
						case *ssa.Const, *ssa.Function:
							stores[g] = append(stores[g], tableStore{addr: x.Addr, val: x.Val, fn: fn})
						default:
							spoiled[g] = true
						}
					default:
						spoiled[g] = true // passed to a call, sliced, converted to an interface, ...
					}
				}
			}
		}
	}
	out := map[*ssa.Global][]tableStore{}
	for g := range seen {
		if !spoiled[g] && len(stores[g]) > 0 {
			out[g] = stores[g]
		}
	}
	roTablesOnce.Store(p, out)
	return out
}

// roTableTargets: the functions a call through value v can reach when v is read from a function-typed field of (an element
// of) a read-only table: every function the package initialiser stored into that field.
func roTableTargets(p *Program, v ssa.Value) []*ssa.Function {
	tables := p.readOnlyTables()
	// find the field selection and the table it selects from
	var fieldIdx = -1
	var base ssa.Value
	switch x := v.(type) {
	case *ssa.Field:
		fieldIdx, base = x.Field, x.X
	case *ssa.UnOp:
		if fa, ok := x.X.(*ssa.FieldAddr); ok && x.Op == token.MUL {
			fieldIdx, base = fa.Field, fa.X
		}
	}
	if fieldIdx < 0 {
		return nil
	}
	var g *ssa.Global
	seen := map[ssa.Value]bool{}
	var find func(v ssa.Value, depth int)
	find = func(v ssa.Value, depth int) {
		if v == nil || seen[v] || depth > 10 || g != nil {
			return
		}
		seen[v] = true
		switch x := v.(type) {
		case *ssa.Global:
			if _, ok := tables[x]; ok {
				g = x
			}
		case *ssa.UnOp:
			find(x.X, depth+1)
		case *ssa.Index:
			find(x.X, depth+1)
		case *ssa.IndexAddr:
			find(x.X, depth+1)
		case *ssa.FieldAddr:
			find(x.X, depth+1)
		case *ssa.Field:
			find(x.X, depth+1)
		case *ssa.Extract:
			find(x.Tuple, depth+1)
		case *ssa.Next:
			find(x.Iter, depth+1)
		case *ssa.Range:
			find(x.X, depth+1)
		case *ssa.Phi:
			for _, e := range x.Edges {
				find(e, depth+1)
			}
		case *ssa.Alloc:
			// a local copy of an element: what is stored into it
			for _, r := range *x.Referrers() {
				if st, ok := r.(*ssa.Store); ok && st.Addr == ssa.Value(x) {
					find(st.Val, depth+1)
				}
			}
		}
	}
	find(base, 0)
	if g == nil {
		return nil
	}
	var out []*ssa.Function
	for _, ts := range tables[g] {
		fa, ok := ts.addr.(*ssa.FieldAddr)
		if !ok || fa.Field != fieldIdx {
			continue
		}
		if f, ok := ts.val.(*ssa.Function); ok {
			out = append(out, f)
		}
	}
	return out
}

// paramFuncTargets: v is a function-typed parameter of a repository function: the functions it can be bound to, taken from
// the arguments of every static call of that function (a function, a closure, or nil).  ok is false when some call site
// passes something else (the set is then unknown) or the function is also used as a value.
func paramFuncTargets(p *Program, v ssa.Value) ([]*ssa.Function, bool) {
	prm, isParam := v.(*ssa.Parameter)
	if !isParam {
		return nil, false
	}
	if _, isSig := prm.Type().Underlying().(*types.Signature); !isSig {
		return nil, false
	}
	host := prm.Parent()
	if !p.OwnedFunc(host) {
		return nil, false
	}
	idx := paramIndex(prm)
	sites, all := staticCallSites(p, host)
	if !all || len(sites) == 0 || idx < 0 {
		return nil, false
	}
	out := []*ssa.Function{}
	for _, cs := range sites {
		if idx >= len(cs.Common().Args) {
			return nil, false
		}
		a := cs.Common().Args[idx]
		for i := 0; i < 3; i++ {
			if ct, ok := a.(*ssa.ChangeType); ok {
				a = ct.X
			}
		}
		switch x := a.(type) {
		case *ssa.Function:
			out = append(out, x)
		case *ssa.MakeClosure:
			if f, ok := x.Fn.(*ssa.Function); ok {
				out = append(out, f)
			} else {
				return nil, false
			}
		case *ssa.Const:
			if x.Value != nil {
				return nil, false
			}
		case *ssa.Parameter:
			ts, ok := paramFuncTargets(p, x)
			if !ok {
				return nil, false
			}
			out = append(out, ts...)
		default:
			return nil, false
		}
	}
	return out, true
}

// localFuncTargets: the call value is a local variable that holds one of several function values (a phi of closures,
// method values, functions and nil): all of them.
func localFuncTargets(v ssa.Value) ([]*ssa.Function, bool) {
	out := []*ssa.Function{}
	seen := map[ssa.Value]bool{}
	var rec func(v ssa.Value, depth int) bool
	rec = func(v ssa.Value, depth int) bool {
		if seen[v] {
			return true
		}
		seen[v] = true
		if depth > 6 {
			return false
		}
		switch x := v.(type) {
		case *ssa.Phi:
			for _, e := range x.Edges {
				if !rec(e, depth+1) {
					return false
				}
			}
			return true
		case *ssa.MakeClosure:
			f, ok := x.Fn.(*ssa.Function)
			if ok {
				out = append(out, f)
			}
			return ok
		case *ssa.Function:
			out = append(out, x)
			return true
		case *ssa.Const:
			return x.Value == nil
		case *ssa.ChangeType:
			return rec(x.X, depth+1)
		}
		return false
	}
	if ts, ok := localTableTargets(v); ok {
		return ts, true
	}
	if _, isPhi := v.(*ssa.Phi); !isPhi {
		return nil, false
	}
	if !rec(v, 0) {
		return nil, false
	}
	return out, true
}

// localTableTargets: v is a function value read from a table that is a local variable of the function (an array of rows
// with a function field, or an array of functions, built in place and only read afterwards): every function stored into
// that field / those elements. The variable must not be used for anything but indexing, field selection, loads and those
// stores (its address does not travel).
func localTableTargets(v ssa.Value) ([]*ssa.Function, bool) {
	ld, ok := v.(*ssa.UnOp)
	if !ok || ld.Op != token.MUL {
		return nil, false
	}
	var field = -1
	addr := ld.X
	if fa, ok := addr.(*ssa.FieldAddr); ok {
		field = fa.Field
		addr = fa.X
	}
	ia, ok := addr.(*ssa.IndexAddr)
	if !ok {
		return nil, false
	}
	root, ok := ia.X.(*ssa.Alloc)
	if !ok || root.Referrers() == nil {
		return nil, false
	}
	var out []*ssa.Function
	okAll := true
	addFn := func(val ssa.Value) {
		switch f := val.(type) {
		case *ssa.Function:
			out = append(out, f)
		case *ssa.MakeClosure:
			if fn, isFn := f.Fn.(*ssa.Function); isFn {
				out = append(out, fn)
			} else {
				okAll = false
			}
		case *ssa.Const:
			if f.Value != nil {
				okAll = false
			}
		default:
			okAll = false
		}
	}
	var useOfElem func(e ssa.Value)
	useOfElem = func(e ssa.Value) { // e: address of an element
		if e.Referrers() == nil {
			return
		}
		for _, r := range *e.Referrers() {
			switch x := r.(type) {
			case *ssa.DebugRef:
			case *ssa.UnOp:
				if x.Op != token.MUL {
					okAll = false
				}
			case *ssa.Store:
				if x.Addr != e {
					okAll = false // the element's address is stored somewhere
				} else if field < 0 {
					addFn(x.Val)
				} else {
					okAll = false // a whole row assigned: not followed
				}
			case *ssa.FieldAddr:
				if x.X != e {
					okAll = false
					continue
				}
				if x.Referrers() == nil {
					continue
				}
				for _, rr := range *x.Referrers() {
					switch y := rr.(type) {
					case *ssa.DebugRef:
					case *ssa.UnOp:
						if y.Op != token.MUL {
							okAll = false
						}
					case *ssa.Store:
						if y.Addr != ssa.Value(x) {
							okAll = false
						} else if x.Field == field {
							addFn(y.Val)
						}
					default:
						okAll = false
					}
				}
			default:
				okAll = false
			}
		}
	}
	for _, r := range *root.Referrers() {
		switch x := r.(type) {
		case *ssa.DebugRef:
		case *ssa.IndexAddr:
			if x.X != ssa.Value(root) {
				okAll = false
				continue
			}
			useOfElem(x)
		case *ssa.UnOp:
			if x.Op != token.MUL {
				okAll = false
			}
		default:
			okAll = false
		}
	}
	if !okAll || len(out) == 0 {
		return nil, false
	}
	return out, true
}

// roTableConst: v reads a constant-index element of a read-only table (`watchedDirectories[1]`): the constant stored there.
func roTableConst(p *Program, v ssa.Value) (*ssa.Const, bool) {
	u, ok := v.(*ssa.UnOp)
	if !ok || u.Op != token.MUL {
		return nil, false
	}
	ia, ok := u.X.(*ssa.IndexAddr)
	if !ok {
		return nil, false
	}
	g, ok := ia.X.(*ssa.Global)
	k, ok2 := ia.Index.(*ssa.Const)
	if !ok || !ok2 || k.Value == nil {
		return nil, false
	}
	var found *ssa.Const
	for _, st := range p.readOnlyTables()[g] {
		sa, ok := st.addr.(*ssa.IndexAddr)
		if !ok || sa.X != ssa.Value(g) {
			continue
		}
		sk, ok := sa.Index.(*ssa.Const)
		if !ok || sk.Value == nil || sk.Int64() != k.Int64() {
			continue
		}
		c, isConst := st.val.(*ssa.Const)
		if !isConst || found != nil {
			return nil, false
		}
		found = c
	}
	return found, found != nil
}

// resolveValue: v is a read of a local variable that is assigned exactly once, where it is declared (`closeWatcher :=
// watcher.Close`), possibly read inside a closure that captured it: the assigned value. Anything else is returned as is.
func resolveValue(v ssa.Value) ssa.Value {
	for i := 0; i < 4; i++ {
		u, ok := v.(*ssa.UnOp)
		if !ok || u.Op != token.MUL {
			return v
		}
		cell := u.X
		for j := 0; j < 4; j++ {
			fv, isFV := cell.(*ssa.FreeVar)
			if !isFV {
				break
			}
			fn := fv.Parent()
			idx := -1
			for k, x := range fn.FreeVars {
				if x == fv {
					idx = k
				}
			}
			refs := fn.Referrers()
			if idx < 0 || refs == nil || len(*refs) != 1 {
				return v
			}
			mc, isMC := (*refs)[0].(*ssa.MakeClosure)
			if !isMC || idx >= len(mc.Bindings) {
				return v
			}
			cell = mc.Bindings[idx]
		}
		a, ok := cell.(*ssa.Alloc)
		if !ok {
			return v
		}
		var stores []*ssa.Store
		okUse := true
		var scan func(c ssa.Value, depth int)
		scan = func(c ssa.Value, depth int) {
			refs := c.Referrers()
			if refs == nil || depth > 4 {
				okUse = false
				return
			}
			for _, r := range *refs {
				switch y := r.(type) {
				case *ssa.Store:
					if y.Addr != c {
						okUse = false // the address itself is stored somewhere
						return
					}
					stores = append(stores, y)
				case *ssa.UnOp:
					if y.Op != token.MUL {
						okUse = false
					}
				case *ssa.MakeClosure:
					child := y.Fn.(*ssa.Function)
					for k, b := range y.Bindings {
						if b == c && k < len(child.FreeVars) {
							scan(child.FreeVars[k], depth+1)
						}
					}
				case *ssa.DebugRef:
				default:
					okUse = false
				}
			}
		}
		scan(a, 0)
		if !okUse || len(stores) != 1 || stores[0].Block() != a.Block() {
			return v
		}
		// nothing uses the variable between its declaration and the assignment
		between := false
		state := 0
		for _, in := range a.Block().Instrs {
			if in == ssa.Instruction(a) {
				state = 1
				continue
			}
			if in == ssa.Instruction(stores[0]) {
				break
			}
			if state == 1 {
				var ops [12]*ssa.Value
				for _, op := range in.Operands(ops[:0]) {
					if op != nil && *op == ssa.Value(a) {
						between = true
					}
				}
			}
		}
		if between {
			return v
		}
		v = stores[0].Val
	}
	return v
}

// boundMethodOf: the value called is (a variable holding) a method value `x.M`: the method and its receiver.
func boundMethodOf(v ssa.Value) (*types.Func, ssa.Value) {
	mc, ok := resolveValue(v).(*ssa.MakeClosure)
	if !ok || len(mc.Bindings) != 1 {
		return nil, nil
	}
	fn, ok := mc.Fn.(*ssa.Function)
	if !ok || fn.Synthetic == "" || len(fn.Name()) < 6 || fn.Name()[len(fn.Name())-6:] != "$bound" {
		return nil, nil
	}
	m, _ := fn.Object().(*types.Func)
	return m, mc.Bindings[0]
}
