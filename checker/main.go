package main

import (
	"encoding/json"
	"flag"
	"fmt"
	"os"
	"runtime/debug"
	"sort"
	"strconv"
	"strings"
	"time"
)

type ruleFn func(c *Ctx)

var registry = map[string]ruleFn{}

func main() {
	repo := flag.String("repo", "/repo", "repository tree to analyse")
	verif := flag.String("verif", "/verif", "verification directory (evidence, known findings, controls)")
	prop := flag.String("property", "", "property id (C01..C20)")
	tier := flag.String("tier", "", "quick|thorough")
	explain := flag.String("explain", "", "violations file to explain (re-runs the rules and prints details)")
	dump := flag.String("dump", "", "debug: dump paths of pkg:recv:func")
	dumpDepth := flag.Int("dumpdepth", 3, "debug: inline depth for -dump")
	dumpPure := flag.Bool("dumppure", false, "debug: collapse pure diamonds")
	noEvidence := flag.Bool("no-evidence", false, "do not write evidence (used for mutant runs)")
	list := flag.Bool("list", false, "print every obligation")
	goarch := flag.String("goarch", "", "load the repository for this GOARCH (default: host)")
	flag.Parse()
	start := time.Now()
	if *tier == "" {
		*tier = os.Getenv("VERIF_TIER")
		if *tier == "" {
			*tier = "quick"
		}
	}
	seed, _ := strconv.Atoi(os.Getenv("VERIF_SEED"))

	if *dump != "" {
		p, err := LoadRepo(*repo, *goarch)
		if err != nil {
			fmt.Println("load:", err)
			os.Exit(2)
		}
		dumpPaths(p, *dump, *dumpDepth, *dumpPure)
		return
	}
	if *prop == "" {
		fmt.Println("usage: hidicheck -property Cxx [-tier quick|thorough] [-repo dir]")
		os.Exit(2)
	}
	if *prop == "all" {
		// convenience mode (not registered in MANIFEST): one load, every property's rules, no controls
		p, err := LoadRepo(*repo, *goarch)
		if err != nil {
			fmt.Println("CHECKER FAILURE: load failed:", err)
			os.Exit(1)
		}
		known, _ := loadKnown(*verif + "/known_findings.txt")
		d, _ := os.MkdirTemp("", "hidicheck-ev")
		defer os.RemoveAll(d)
		var ids []string
		for id := range registry {
			ids = append(ids, id)
		}
		sort.Strings(ids)
		rc := 0
		for _, id := range ids {
			func() {
				defer func() {
					if r := recover(); r != nil {
						fmt.Printf("CHECKER FAILURE: property=%s panic: %v\n", id, r)
						rc = 1
					}
				}()
				c := NewCtx(p, id, "quick")
				registry[id](c)
				applyFloors(c)
				if c.Finish(d, seed, start, known, map[string]any{}) != 0 {
					rc = 1
				}
			}()
		}
		os.RemoveAll(d) // (deferred calls do not run across os.Exit)
		os.Exit(rc)
	}
	fn, ok := registry[*prop]
	if !ok {
		fmt.Printf("no rules registered for %s\n", *prop)
		os.Exit(2)
	}
	evDir := *verif
	scratch := ""
	if *noEvidence {
		d, _ := os.MkdirTemp("", "hidicheck-ev")
		scratch = d
		evDir = d
	}
	code := func() (code int) {
		defer func() {
			if r := recover(); r != nil {
				code = checkerFailure(evDir, *prop, *tier, seed, start, fmt.Sprintf("panic in checker: %v\n%s", r, debug.Stack()))
			}
		}()
		p, err := LoadRepo(*repo, *goarch)
		if err != nil {
			return checkerFailure(evDir, *prop, *tier, seed, start, "load failed: "+err.Error())
		}
		known, err := loadKnown(*verif + "/known_findings.txt")
		if err != nil {
			return checkerFailure(evDir, *prop, *tier, seed, start, "known findings unreadable: "+err.Error())
		}
		c := NewCtx(p, *prop, *tier)
		fn(c)
		applyFloors(c)
		extra := map[string]any{}
		// positive/negative controls for the generic rules of this property
		if cf, ok := controlRegistry[*prop]; ok {
			cp, err := LoadControls(*verif + "/controls")
			if err != nil {
				return checkerFailure(evDir, *prop, *tier, seed, start, "controls failed to load: "+err.Error())
			}
			res := cf(cp)
			extra["controls"] = res
			for _, r := range res {
				if !r.OK {
					c.Undec("control", r.Name, "-", "control did not behave: "+r.Detail)
				}
			}
		}
		if *tier == "thorough" {
			if tf, ok := thoroughRegistry[*prop]; ok {
				tf(c, extra)
			}
			runMutants(c, *verif, *repo, extra)
		}
		if *list {
			for _, o := range c.Obs {
				fmt.Printf("%-10s %-6s %s  @%s\n      %s\n", o.Verdict, o.Rule, o.Key, o.Pos, o.Fact)
			}
		}
		if *explain != "" {
			for _, o := range c.Obs {
				if o.Verdict != "discharged" {
					b, _ := json.MarshalIndent(o, "", " ")
					fmt.Println(string(b))
				}
			}
		}
		return c.Finish(evDir, seed, start, known, extra)
	}()
	if scratch != "" {
		os.RemoveAll(scratch) // tooling runs (-no-evidence): nothing is kept; registered commands write to /verif/evidence
	}
	os.Exit(code)
}

type controlResult struct {
	Name   string `json:"name"`
	OK     bool   `json:"ok"`
	Detail string `json:"detail"`
}

var controlRegistry = map[string]func(p *Program) []controlResult{}
var thoroughRegistry = map[string]func(c *Ctx, extra map[string]any){}

func dumpPaths(p *Program, spec string, depth int, pure bool) {
	parts := strings.Split(spec, ":")
	if len(parts) != 3 {
		fmt.Println("spec = pkgsuffix:recv:func")
		return
	}
	var pkg string
	for k := range p.Pkgs {
		if strings.HasSuffix(k, parts[0]) {
			pkg = k
		}
	}
	fn := p.Func(pkg, parts[1], parts[2])
	if fn == nil {
		for _, f := range p.Funcs {
			if strings.HasSuffix(f.String(), parts[2]) {
				fn = f
			}
		}
	}
	if fn == nil {
		fmt.Println("not found")
		return
	}
	mv := 0
	if os.Getenv("HIDI_DUMPVISITS") != "" {
		fmt.Sscan(os.Getenv("HIDI_DUMPVISITS"), &mv)
	}
	paths, err := Enumerate(fn, SymConfig{Prog: p, MaxDepth: depth, Collapse: true, CollapsePure: pure, MaxVisits: mv})
	fmt.Printf("%s: %d paths err=%v\n", fn, len(paths), err)
	var ss []string
	for _, pa := range paths {
		var es []string
		for _, e := range pa.Effects {
			if e.Kind == "call" && (e.Callee == nil || !p.OwnedFunc(e.Callee)) && e.Method == "" {
				continue
			}
			if e.Kind == "store" && e.Local && os.Getenv("HIDI_DUMPLOCAL") == "" {
				continue
			}
			es = append(es, e.String())
		}
		var as []string
		for _, a := range pa.Atoms {
			as = append(as, a.String())
		}
		ss = append(ss, "IF "+strings.Join(as, " && ")+"\n   DO "+strings.Join(es, ";\n      ")+"\n   END "+pa.End)
	}
	sort.Strings(ss)
	n := 0
	for _, s := range ss {
		if g := os.Getenv("HIDI_DUMPGREP"); g != "" && !strings.Contains(s, g) {
			continue
		}
		if n++; n > 60 {
			break
		}
		fmt.Println(s)
	}
}
