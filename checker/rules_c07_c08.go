package main

import (
	"fmt"
	"go/constant"
	"go/types"
	"os"
	"sort"
	"strings"

	"golang.org/x/tools/go/ssa"
)

func init() {
	registry["C07"] = checkC07
	registry["C08"] = checkC08
}

// floatAtom: comparison of a (non-constant) term with a float constant, polarity folded in.
type floatAtom struct {
	op   string
	term string
	k    float64
	idx  int
}

func floatAtoms(p *Path) []floatAtom {
	var out []floatAtom
	for i, a := range p.Atoms {
		op, x, y, ok := normAtom(a)
		if !ok {
			continue
		}
		if _, isC := x.IsConst(); isC {
			if _, yC := y.IsConst(); !yC { // (both constant: a decided comparison, the threshold is the right operand)
				x, y, op = y, x, flipOp(op)
			}
		}
		v, isC := y.IsConst()
		if !isC || (v.Kind() != constant.Float && v.Kind() != constant.Int) {
			continue
		}
		if x.Type != nil {
			// only comparisons of a floating-point quantity (the shaped deflection), not e.g. `absInfo.Minimum < 0`
			if b, ok := x.Type.Underlying().(*types.Basic); ok && b.Info()&types.IsFloat == 0 {
				continue
			}
		}
		f, _ := constant.Float64Val(constant.ToFloat(v))
		out = append(out, floatAtom{op, x.String(), f, i})
	}
	return out
}

// hasFloat: does the path constrain some term with `op k`? returns the term.
func hasFloat(fas []floatAtom, op string, k float64) (string, bool) {
	for _, a := range fas {
		if a.op == op && a.k == k {
			return a.term, true
		}
	}
	return "", false
}

// analogField: t is AN.<name> where AN is the looked-up config.Analog value.
func analogField(t *Term, name string) bool {
	t = t.StripConv()
	return (t.Op == "field" || t.Op == "load") && strings.HasSuffix(t.String(), "."+name) && strings.Contains(t.String(), ".Analog[")
}

func analogBool(p *Path, name string) (val, found bool) {
	for _, a := range p.Atoms {
		cnd, taken := a.Cond, a.Taken
		for cnd.Op == "unop" {
			cnd, taken = cnd.Args[0], !taken
		}
		if analogField(cnd, name) {
			return taken, true
		}
	}
	return false, false
}

// ---- C08 ------------------------------------------------------------------------------------------

func checkC08(c *Ctx) {
	dv := newDev(c, "R8.0")
	if !dv.ok || !dv.need("R8.0", []string{"handleABSEvent", "AnalogNoteOn", "AnalogNoteOff", "NoteOn"}, []string{"analogNoteTracker", "outputEvents", "octave", "semitone", "channel"}) {
		return
	}
	ruleKeyEmulationTemplate(c, dv)
	modes := collisionModes(c, "R8.2")
	ruleR11(c, dv, modes, "R8.2a")
	ruleR12(c, dv, modes, "R8.2b")
	ruleR21(c, dv, "R8.2c")
	ruleNoteArithmeticAs(c, dv, "AnalogNoteOn", "analogNoteTracker", false, "R8.3")
	ruleR14analog(c, dv, "R8.6")
	ruleDispatch(c, dv, "R8.7", false, true)
	ruleNoDropBeforeCase(c, dv, "R8.9", []string{"AnalogKeySim"}, false) // and is not dropped by a filter in front of the switch
	ruleR13(c, dv, "R8.8")                                               // only the analog note functions (and NewDevice) write the trackers: an entry removed elsewhere is a note that is never released // every axis report reaches the key-emulation switch, whatever its raw value
	pf := newParserFacts(c)
	if c.Require(pf.err == nil, "R8.5", "config.ParseData", fmt.Sprint(pf.err)) {
		leaves := tomlLeaves(c)
		ruleFieldCorrespondenceFor(c, pf, leaves, "R8.5", func(dest string) bool {
			return dest == "Analog.Note" || dest == "Analog.NoteNeg" || dest == "Analog.Bidirectional"
		})
	}
	c.importRules(configIntactRules, []string{"R3.7"}, "R8.10")                                                                                                   // axis mappings (notes, offsets) are read from an unmodified copy of the parsed configuration
	c.importRulesWhere(checkC05, []string{"R5.4"}, "R8.12", func(k string) bool { return strings.Contains(k, "NoteEvent") && strings.HasSuffix(k, "/velocity") }) // the Note On of an emulated key has a velocity of at least 1 (with 0 it is a Note Off on the wire)
	c.importRules(shiftRules, []string{"R6.19"}, "R8.13")                                                                                                         // the thresholds meet a position in -1..1: an unsigned one is converted whatever else the mapping says
	c.importRulesWhere(requiredFieldRules, []string{"R10.13"}, "R8.15", func(k string) bool { return strings.Contains(k, "analog-type[key]") })                   // a direction sounds only a note the file gave it
	c.importRules(repetitionRules, []string{"R6.21"}, "R8.14")                                                                                                    // notes, offsets and the deadzone are those of the mapping selected now, not a memo from before a mapping switch
	c.importRules(repetitionRules, []string{"R6.17", "R6.4"}, "R8.11")                                                                                            // the first report of an axis is not dropped as a repetition of a position it never reported
	c.MinCount("R8.1", 5)
	c.MinCount("R8.4", 1)
	c.MinCount("R8.5", 3)
	c.DecidedClause("the key-emulation branch has a negative (<= -0.5), a centre (-0.49..0.49) and a positive (>= 0.5) region on the same shaped value; negative: Note On of the negative identifier/note/offset unless already tracked, then release of the positive one; centre: both released; positive: mirror image; in the band between 49 % and half travel of a side exactly the opposite direction is released; the negative direction sounds only when a negative note is configured; identifiers of the two directions differ")
	c.DecidedClause("AnalogNoteOn records what it emits and AnalogNoteOff releases exactly the recorded pair; transposition is the same affine int formula with range guard as for keys; an axis that stops emulating keys releases what it started; the parser fills Note/NoteNeg/Bidirectional from note/note_negative")
	c.UndecidedClause("floating-point comparison exactly at the thresholds for particular raw values; hat vs stick sampling; the numeric shaping before the thresholds (C06)")
}

type keyCall struct {
	on     bool
	id     string
	note   *Term
	offset *Term
	idx    int
	natoms int
}

func ruleKeyEmulationTemplate(c *Ctx, dv *dev) {
	fn := dv.fn["handleABSEvent"]
	paths, err := absPaths(c, dv)
	if !c.Require(err == nil, "R8.1", "device.handleABSEvent", fmt.Sprint(err)) {
		return
	}
	keySim, _ := c.P.constString(pkgConfig, "AnalogKeySim")
	pos := c.P.Pos(fn.Pos())
	on, off := dv.fn["AnalogNoteOn"], dv.fn["AnalogNoteOff"]
	type res struct {
		n   int
		bad string
	}
	agg := map[string]*res{}
	note := func(k, bad string) {
		if agg[k] == nil {
			agg[k] = &res{}
		}
		agg[k].n++
		if bad != "" && agg[k].bad == "" {
			agg[k].bad = bad
		}
	}
	posID, negID := "", ""
	var posT, negT *Term
	// identify identifiers by the note field they are paired with
	for _, p := range paths {
		if sel, _ := mappingTypeOf(p); sel != keySim {
			continue
		}
		for _, e := range p.Effects {
			if e.Kind == "call" && e.Callee == on && len(e.Args) >= 4 {
				switch {
				case analogField(e.Args[2], "Note"):
					posID, posT = e.Args[1].String(), e.Args[1]
				case analogField(e.Args[2], "NoteNeg"):
					negID, negT = e.Args[1].String(), e.Args[1]
				}
			}
		}
	}
	if !c.Require(posID != "" && negID != "", "R8.1", "device.handleABSEvent/key/identifiers", "AnalogNoteOn calls for Note and NoteNeg not found in the key-emulation case") {
		return
	}
	c.Check(posID != negID, "R8.1", "device.handleABSEvent/key/distinct-identifiers", pos, "identifiers of the two directions differ: "+posID+" vs "+negID,
		"both directions use the same tracker identifier: they would overwrite each other's entry")
	// the identifiers name the axis as the mapping does (sub-handler and code), injectively, and the two directions never coincide
	{
		pi, ni := identOf(posT), identOf(negT)
		need := dv.mappingKeyNeed("handleABSEvent", "Analog")
		bad := ""
		for _, id := range []keyIdent{pi, ni} {
			if miss, ok := id.covers(need); !ok {
				bad = fmt.Sprintf("the tracker identifier %s omits %s, which the mapping lookup uses to tell axes apart: two axes that differ only in it (the sticks and the touchpad of one gamepad both report ABS_X) share one tracker entry and one of their notes is never started or never released", id.canon, miss)
			} else if !id.injective {
				bad = "the tracker identifier " + id.canon + " is not an injective function of the axis' identity: " + id.why
			}
		}
		if bad == "" && !disjointKeys(pi, ni) {
			bad = "the identifiers of the two directions (" + pi.canon + ", " + ni.canon + ") are not provably different for every pair of axes"
		}
		c.Check(bad == "", "R8.1", "device.handleABSEvent/key/identifier-names-the-axis", pos, "identifiers "+pi.canon+" / "+ni.canon+" determine (sub-handler, code, direction)", bad)
	}
	sawBidirGuard := false
	const orderBad = "the Note On of the new direction is sent before the Note Off of the direction that was left: on a direct jump between directions (hat right -> left in one event) both directions sound together between the two messages"
	for _, p := range paths {
		if sel, _ := mappingTypeOf(p); sel != keySim || p.End != "return" {
			continue
		}
		fas := floatAtoms(p)
		var calls []keyCall
		for i, e := range p.Effects {
			if e.Kind == "call" && (e.Callee == on || e.Callee == off) && e.NAtoms > 0 {
				// skip the release performed before the type switch (axis not emulating keys): those paths are not key paths
				kc := keyCall{on: e.Callee == on, id: e.Args[1].String(), idx: i, natoms: e.NAtoms}
				if kc.on {
					kc.note, kc.offset = e.Args[2], e.Args[3]
				}
				calls = append(calls, kc)
			}
			if e.Kind == "send" {
				note("device.handleABSEvent/key/direct-send", "the key-emulation branch sends directly instead of going through AnalogNoteOn/Off")
			}
		}
		region := ""
		vNeg, okNeg := hasFloat(fas, "<=", -0.5)
		vPos, okPos := hasFloat(fas, ">=", 0.5)
		vC1, okC1 := hasFloat(fas, ">", -0.49)
		vC2, okC2 := hasFloat(fas, "<", 0.49)
		switch {
		case okNeg:
			region = "negative"
		case okC1 && okC2 && vC1 == vC2:
			region = "centre"
		case okPos:
			region = "positive"
		default:
			region = "between"
		}
		_ = vNeg
		_ = vPos
		key := "device.handleABSEvent/key/" + region
		desc := func() string {
			var ss []string
			for _, k := range calls {
				w := "Off"
				if k.on {
					w = "On"
				}
				d := "pos"
				if k.id == negID {
					d = "neg"
				} else if k.id != posID {
					d = "?"
				}
				ss = append(ss, w+"("+d+")")
			}
			return strings.Join(ss, ",")
		}
		tracked := func(id string) (bool, bool) {
			for _, a := range p.Atoms {
				cnd, taken := a.Cond, a.Taken
				for cnd.Op == "unop" {
					cnd, taken = cnd.Args[0], !taken
				}
				if cnd.Op == "lookupok" && dv.isFieldLoad(cnd.Args[0], "analogNoteTracker") && cnd.Args[1].String() == id {
					return taken, true
				}
			}
			return false, false
		}
		checkSide := func(thisID, otherID, noteField, offField string, needBidir bool) string {
			var ons, offs []keyCall
			for _, k := range calls {
				if k.on {
					ons = append(ons, k)
				} else {
					offs = append(offs, k)
				}
			}
			if len(offs) != 1 || offs[0].id != otherID {
				return "must release exactly the opposite direction, got " + desc()
			}
			isTracked, tested := tracked(thisID)
			bidir, bidirTested := analogBool(p, "Bidirectional")
			if needBidir && bidirTested {
				sawBidirGuard = true
			}
			wantOn := tested && !isTracked
			if needBidir {
				if !bidirTested {
					// the guard may short-circuit: when already tracked the flag is not read
					if !(tested && isTracked) {
						return "R8.4"
					}
				}
				wantOn = wantOn && bidir
			}
			if !tested && len(ons) > 0 {
				return "Note On without testing whether the direction is already sounding (would retrigger on every event)"
			}
			if wantOn != (len(ons) == 1) || len(ons) > 1 {
				return fmt.Sprintf("expected Note On=%v for this direction, got %s", wantOn, desc())
			}
			if len(ons) == 1 {
				o := ons[0]
				if o.id != thisID || !analogField(o.note, noteField) || !analogField(o.offset, offField) {
					return fmt.Sprintf("Note On uses (%s, %s, %s); this direction must use its own identifier, %s and %s", o.id, o.note, o.offset, noteField, offField)
				}
				if o.idx < offs[0].idx {
					return "ORDER"
				}
			}
			return ""
		}
		switch region {
		case "negative":
			bad := checkSide(negID, posID, "NoteNeg", "ChannelOffsetNeg", true)
			if bad == "R8.4" {
				note("device.handleABSEvent/key/negative-needs-configured-note", "the negative direction sounds AnalogNoteOn(NoteNeg) without testing analog.Bidirectional: an axis with only `note` configured plays pitch 0+transposition when pushed the other way")
				bad = ""
			}
			if bad == "ORDER" {
				note("device.handleABSEvent/key/release-before-press", orderBad)
				bad = ""
			} else if len(calls) == 2 {
				note("device.handleABSEvent/key/release-before-press", "")
			}
			note(key, bad)
		case "positive":
			bad := checkSide(posID, negID, "Note", "ChannelOffset", false)
			if bad == "ORDER" {
				note("device.handleABSEvent/key/release-before-press", orderBad)
				bad = ""
			} else if len(calls) == 2 {
				note("device.handleABSEvent/key/release-before-press", "")
			}
			note(key, bad)
		case "centre":
			ids := map[string]bool{}
			bad := ""
			for _, k := range calls {
				if k.on {
					bad = "a Note On in the centre region"
				}
				ids[k.id] = true
			}
			if bad == "" && !(ids[posID] && ids[negID] && len(calls) == 2) {
				bad = "the centre region must release both directions, got " + desc()
			}
			note(key, bad)
		default:
			// between 49 % and half travel of one side (the hysteresis band of that side): the side's own note keeps its
			// state, the note of the opposite side must go off - a stick flicked from full deflection straight into the other
			// side's band is not deflected to the side it left at all
			term := ""
			for _, a := range fas {
				if a.k == 0.5 || a.k == -0.5 || a.k == 0.49 || a.k == -0.49 {
					term = a.term
				}
			}
			inBand := func(v float64) bool {
				for _, a := range fas {
					if a.term != term {
						continue
					}
					holds := false
					switch a.op {
					case "<":
						holds = v < a.k
					case "<=":
						holds = v <= a.k
					case ">":
						holds = v > a.k
					case ">=":
						holds = v >= a.k
					case "==":
						holds = v == a.k
					case "!=":
						holds = v != a.k
					}
					if !holds {
						return false
					}
				}
				return true
			}
			posBand, negBand := term != "" && inBand(0.495), term != "" && inBand(-0.495)
			var offs []string
			hasOn := false
			for _, k := range calls {
				if k.on {
					hasOn = true
				} else {
					offs = append(offs, k.id)
				}
			}
			bad := ""
			switch {
			case hasOn:
				bad = "a Note On between 49 % and half travel: " + desc()
			case posBand && negBand:
				bad = "positions between 49 % and half travel of the two sides are not told apart (got " + desc() + "): after a direct jump from full deflection into the other side's band (e.g. -100 % -> +49.5 %) the note of the side just left keeps sounding although the stick is not deflected to that side at all"
			case posBand:
				key = "device.handleABSEvent/key/positive-band"
				if len(offs) != 1 || offs[0] != negID {
					bad = "between 49 % and half travel of the positive side exactly the negative direction must be released, got " + desc()
					if os.Getenv("HIDI_DEBUG") == "R8.1" {
						for _, fa := range fas {
							fmt.Fprintln(os.Stderr, "   fa", fa.op, fa.k, truncate(fa.term, 100))
						}
					}
				}
			case negBand:
				key = "device.handleABSEvent/key/negative-band"
				if len(offs) != 1 || offs[0] != posID {
					bad = "between 49 % and half travel of the negative side exactly the positive direction must be released, got " + desc()
				}
			default:
				if len(calls) > 0 {
					bad = "effects outside the regions: " + desc()
				}
			}
			note(key, bad)
		}
	}
	for _, need := range []string{"negative", "centre", "positive", "positive-band", "negative-band"} {
		if agg["device.handleABSEvent/key/"+need] == nil {
			c.Bad("R8.1", "device.handleABSEvent/key/"+need, pos, "no path for this region: thresholds are not <= -0.5 / (-0.49, 0.49) / >= 0.5 on one value, with the bands between 49 % and half travel told apart")
		}
	}
	for _, k := range sortedKeys(agg) {
		rule := "R8.1"
		if strings.Contains(k, "negative-needs-configured-note") {
			rule = "R8.4"
		}
		if agg[k].bad != "" {
			c.Bad(rule, k, pos, agg[k].bad)
		} else {
			c.OK(rule, k, pos, fmt.Sprintf("%d path(s) match the region template", agg[k].n))
		}
	}
	if agg["device.handleABSEvent/key/negative-needs-configured-note"] == nil {
		c.Check(sawBidirGuard, "R8.4", "device.handleABSEvent/key/negative-needs-configured-note", pos, "Note On of the negative direction is conditioned on analog.Bidirectional", "no Bidirectional test found on the negative side")
	}
}

// ruleNoteArithmeticAs runs the C04 arithmetic rules under another rule prefix.
func ruleNoteArithmeticAs(c *Ctx, dv *dev, fnName, tracker string, isKey bool, prefix string) {
	sub := NewCtx(c.P, c.Property, c.Tier)
	ruleNoteArithmetic(sub, dv2(sub, dv), fnName, tracker, isKey)
	for _, o := range sub.Obs {
		o.Rule = prefix + "/" + o.Rule
		c.Obs = append(c.Obs, o)
		c.Counts[o.Rule]++
	}
	c.Paths += sub.Paths
}

func dv2(c *Ctx, dv *dev) *dev {
	n := *dv
	n.c = c
	return &n
}

// ---- C07 ------------------------------------------------------------------------------------------

func checkC07(c *Ctx) {
	dv := newDev(c, "R7.0")
	if !dv.ok || !dv.need("R7.0", []string{"handleABSEvent", "NewDevice"}, []string{"ccLearning", "lastAnalogValue", "outputEvents", "channel"}) {
		return
	}
	// the flag table is one of two ways to keep the side bookkeeping (see rules_c07_prev.go): without it every
	// bidirectional path must use the previous-side form
	hasFlags := dv.fields["ccZeroed"] != nil
	fn := dv.fn["handleABSEvent"]
	lastF := dv.fields["lastAnalogValue"]
	recorded := recordedPositions(lastF, dv.hostsOf(fn))
	paths, err := absPaths(c, dv)
	if !c.Require(err == nil, "R7.1", "device.handleABSEvent", fmt.Sprint(err)) {
		return
	}
	pos := c.P.Pos(fn.Pos())
	ccType, _ := c.P.constString(pkgConfig, "AnalogCC")
	type res struct {
		n   int
		bad string
	}
	agg := map[string]*res{}
	note := func(k, bad string) {
		if agg[k] == nil {
			agg[k] = &res{}
		}
		agg[k].n++
		if bad != "" && agg[k].bad == "" {
			agg[k].bad = bad
		}
	}
	ccRegion := caseRegion(fn, dv, ccType)
	for _, p := range paths {
		if p.End != "return" {
			continue
		}
		var sends []midiEvent
		var sendEff []Effect
		var zsets []Effect
		lastValIdx := -1
		for _, e := range p.Effects {
			switch {
			case e.Kind == "send" && dv.isFieldLoad(e.Args[0], "outputEvents"):
				sends = append(sends, decodeEvent(e.Args[1]))
				sendEff = append(sendEff, e)
			case e.Kind == "mapset" && dv.isFieldLoad(e.Args[0], "ccZeroed"):
				zsets = append(zsets, e)
			case e.Kind == "mapset" && e.Args[0].Op == "lookup" && dv.isFieldLoad(e.Args[0].Args[0], "lastAnalogValue"):
				lastValIdx = e.NAtoms
			}
		}
		// R7.4 learning gate dominates every send
		if len(sends) > 0 {
			k := "device.handleABSEvent/learning-gate"
			learn, tested := false, false
			gateIdx := -1
			for i, a := range p.Atoms {
				cnd, taken := a.Cond, a.Taken
				for cnd.Op == "unop" {
					cnd, taken = cnd.Args[0], !taken
				}
				if dv.isFieldLoad(cnd, "ccLearning") {
					learn, tested, gateIdx = taken, true, i
				}
			}
			bad := ""
			if !tested {
				bad = "a message is sent on a path that never tested ccLearning"
			} else if gateIdx >= sendEff[0].NAtoms {
				bad = "the learning test comes after a send"
			} else if learn {
				fas := floatAtoms(p)
				tLo, lo := hasFloat(fas, "<", -0.5)
				tHi, hi := hasFloat(fas, ">", 0.5)
				if !lo && !hi {
					bad = "while learning, a message is sent although the deflection was not shown to be beyond half travel (value < -0.5 or > 0.5)"
				} else if sends[0].ok && sends[0].B2 != nil {
					// ... and what was shown to be beyond half travel is the deflection that is transmitted (the shaped, flipped
					// position the value byte is computed from), not an earlier stage of it: with a deadzone the raw position
					// passes half travel before the transmitted one does
					gate := tLo
					if !lo {
						gate = tHi
					}
					if _, isK := sends[0].B2.IsConst(); !isK && !occursOutsidePhi(sends[0].B2, gate) {
						bad = "while learning, the half-travel test is made on " + truncate(gate, 90) + ", which is not the deflection the transmitted value is computed from (" + truncate(sends[0].B2.String(), 90) + ")"
					}
				}
			}
			note(k, bad)
		}
		// R7.9 a position counts as sent only when it was passed on: a path on which CC learning is held and nothing is
		// emitted (the gate swallowed the event) must not record the position in lastAnalogValue - otherwise the next report
		// of the same shaped position (the resting stick, after learning was released) is suppressed as a repetition and the
		// receiver keeps the last transmitted value
		{
			learning := false
			for _, a := range p.Atoms {
				cnd, taken := a.Cond, a.Taken
				for cnd.Op == "unop" {
					cnd, taken = cnd.Args[0], !taken
				}
				if dv.isFieldLoad(cnd, "ccLearning") && taken {
					learning = true
				}
			}
			if learning {
				sel, negs := mappingTypeOf(p)
				excluded := map[string]bool{}
				for _, n := range negs {
					excluded[n] = true
				}
				keyType, _ := c.P.constString(pkgConfig, "AnalogKeySim")
				actType, _ := c.P.constString(pkgConfig, "AnalogActionSim")
				pbType, _ := c.P.constString(pkgConfig, "AnalogPitchBend")
				emulation := sel == keyType || sel == actType
				noCase := sel == "" && excluded[ccType] && excluded[pbType] && excluded[keyType] && excluded[actType]
				if !emulation && !noCase && len(sends) == 0 {
					bad := ""
					if lastValIdx >= 0 {
						bad = "while CC learning is held an axis position that is not transmitted is still recorded in lastAnalogValue: after learning is released the resting stick's next report (same shaped value) is dropped as a repetition and the receiver keeps the stale controller value"
					}
					note("device.handleABSEvent/swallowed-position-not-recorded", bad)
				}
			}
		}
		sel, _ := mappingTypeOf(p)
		if sel != ccType {
			if len(zsets) > 0 {
				note("device.handleABSEvent/ccZeroed-outside-cc", "ccZeroed is written outside the cc case")
			}
			continue
		}
		bidir, bt := analogBool(p, "Bidirectional")
		if !bt {
			note("device.handleABSEvent/cc/bidirectional-tested", "a cc path does not test analog.Bidirectional")
			continue
		}
		if !bidir {
			k := "device.handleABSEvent/cc/unidirectional"
			bad := ""
			if len(sends) != 1 || !sends[0].ok || sends[0].Kind != midiCC || !analogField(sends[0].B1, "CC") || len(zsets) > 0 {
				bad = "a unidirectional axis must send exactly one Control Change of analog.CC and not touch the zero flags"
			} else if ch := ccChannelSide(dv, sends[0].Channel); ch != "pos" {
				bad = "unidirectional Control Change not on (channel + ChannelOffset) % 16"
			}
			note(k, bad)
			continue
		}
		// bidirectional: which side? (decided by the comparisons made inside the controller case, not by the sign tests of the
		// shaping stage in front of it, which become path conditions when that stage lives in helper functions)
		var fas, prevAtoms []floatAtom
		for _, fa := range floatAtoms(p) {
			if in := p.Atoms[fa.idx].Instr; in != nil && ccRegion[in.Block()] {
				if x := condOperand(in); x != nil && fromLastPosition(lastF, x, map[ssa.Value]bool{}) {
					prevAtoms = append(prevAtoms, fa) // a statement about the previous position, not about the new one
					continue
				}
				fas = append(fas, fa)
			}
		}
		side := ""
		centred := false
		// an unsigned position compared in stretched coordinates (`signed := value*2 - 1; if signed < 0`) is the same test as
		// `value < 0.5`: the centred-unsigned branch
		stretched := func(t string) bool { return strings.HasSuffix(t, " * 2) - 1)") }
		if t, ok := hasFloat(fas, "<", 0); ok {
			side, centred = "neg", stretched(t)
		} else if t, ok := hasFloat(fas, ">=", 0); ok {
			side, centred = "pos", stretched(t)
		}
		if side == "" {
			if _, ok := hasFloat(fas, "<", 0.5); ok {
				side, centred = "neg", true
			} else if _, ok := hasFloat(fas, ">=", 0.5); ok {
				side, centred = "pos", true
			}
		}
		k := fmt.Sprintf("device.handleABSEvent/cc/bidirectional[centred=%v,side=%s]", centred, side)
		// a path on which the position is known to be the rest value (inside the deadzone, where the position travels in
		// memory and is the constant 0 on the path): the comparison with the threshold is decided, not a path condition.
		// The side is the one whose controller is sent; the bookkeeping of the other side is judged as on any path.
		atRest := false
		if side == "" && len(sends) > 0 && sends[0].ok && sends[0].Kind == midiCC {
			for _, e := range p.Effects {
				if e.Kind == "mapset" && e.Args[0].Op == "lookup" && dv.isFieldLoad(e.Args[0].Args[0], "lastAnalogValue") {
					if kk, isK := e.Args[2].IsConst(); isK && kk != nil && (kk.Kind() == constant.Float || kk.Kind() == constant.Int) && constant.Sign(kk) == 0 {
						atRest = true
					}
				}
			}
			if atRest {
				switch {
				case analogField(sends[0].B1, "CC"):
					side = "pos"
				case analogField(sends[0].B1, "CCNeg"):
					side = "neg"
				}
				k = fmt.Sprintf("device.handleABSEvent/cc/bidirectional[rest,side=%s]", side)
			}
		}
		if side == "" {
			note("device.handleABSEvent/cc/bidirectional[side?]", "a bidirectional cc path does not select a side by comparing the value with 0 (signed) or 0.5 (centred unsigned)")
			continue
		}
		thisF, otherF := "CC", "CCNeg"
		if side == "neg" {
			thisF, otherF = "CCNeg", "CC"
		}
		bad := ""
		if len(sends) < 1 || !sends[0].ok || sends[0].Kind != midiCC {
			bad = "no Control Change sent"
		} else if !analogField(sends[0].B1, thisF) {
			bad = fmt.Sprintf("the %s side sends controller %s, expected analog.%s", side, sends[0].B1, thisF)
			if os.Getenv("HIDI_DEBUG") == "R7.1" {
				for _, fa := range fas {
					fmt.Fprintln(os.Stderr, "   fa", fa.op, fa.k, fa.term[:min(len(fa.term), 80)])
				}
				n := len(p.Atoms)
				for _, a := range p.Atoms[max(0, n-8):] {
					fmt.Fprintln(os.Stderr, "   atom", a.Taken, a.Cond.String()[:min(len(a.Cond.String()), 160)])
				}
			}
		} else if ccChannelSide(dv, sends[0].Channel) != side {
			bad = fmt.Sprintf("controller of the %s side is sent on the other side's channel (%s)", side, sends[0].Channel)
		} else if atRest {
			// (the value is 127*|0|: nothing to say about its shape)
		} else if _, isConst := sends[0].B2.IsConst(); isConst {
			bad = "the active side's value is a constant"
		} else if !strings.Contains(sends[0].B2.String(), "math.Abs") {
			bad = "the active side's value is not the magnitude |v| (resp. |2v-1|) of the deflection"
		}
		// other side zeroing
		zeroedKnown, zeroed := false, false
		for _, a := range p.Atoms {
			cnd, taken := a.Cond, a.Taken
			for cnd.Op == "unop" {
				cnd, taken = cnd.Args[0], !taken
			}
			if cnd.Op == "lookup" && dv.isFieldLoad(cnd.Args[0], "ccZeroed") {
				if analogField(cnd.Args[1], otherF) {
					zeroedKnown, zeroed = true, taken
				} else if bad == "" {
					bad = fmt.Sprintf("the %s side tests the zero flag of %s instead of the opposite controller", side, cnd.Args[1])
				}
			}
		}
		prevForm := false
		if bad == "" && !zeroedKnown && (!hasFlags || len(zsets) == 0) {
			// previous-side form: the controller of the side left is sent its 0 unless the path knows that the last transmitted
			// position of this axis was already on this side (or at the centre, where that controller got its 0)
			prevForm = true
			thr := 0.0
			if centred {
				thr = 0.5
			}
			var sideOperand ssa.Value
			for _, fa := range fas {
				if fa.k == thr && (fa.op == "<" || fa.op == ">=") {
					sideOperand = condOperand(p.Atoms[fa.idx].Instr)
				}
			}
			zeroSent := len(sends) == 2 && sends[1].ok && sends[1].Kind == midiCC && analogField(sends[1].B1, otherF)
			switch {
			case lastValIdx < 0:
				bad = "previous-side form: a transmitted position is not recorded as the axis' last position"
			case zeroSent:
				if k0, ok := sends[1].B2.IsIntConst(); !ok || k0 != 0 {
					bad = "the side being left is not sent the value 0"
				} else if other := map[string]string{"neg": "pos", "pos": "neg"}[side]; ccChannelSide(dv, sends[1].Channel) != other {
					bad = "the zero for the side being left goes to the wrong channel"
				}
			case len(sends) != 1:
				bad = "unexpected messages on a bidirectional path"
			default:
				known := false
				for _, fa := range prevAtoms {
					if fa.k != thr {
						continue
					}
					onThisSide := (side == "neg" && (fa.op == "<" || fa.op == "<=")) || (side == "pos" && (fa.op == ">=" || fa.op == ">"))
					if !onThisSide {
						continue
					}
					if x := condOperand(p.Atoms[fa.idx].Instr); sideOperand != nil && sameCoordinates(lastF, sideOperand, x, recorded, 0) {
						known = true
					} else {
						bad = "the previous position is compared in other coordinates than the new one (a flip or shift applied to one of them only)"
					}
				}
				if !known && bad == "" {
					bad = "the controller of the side being left is not zeroed although the path does not know that the previous transmitted position was on this side (no flag of the opposite controller, no test of the previous position)"
				}
			}
		}
		if bad == "" && !zeroedKnown && !prevForm {
			bad = "the flag of the opposite controller is not tested"
		}
		if bad == "" && !prevForm {
			var setOther, setThis *Effect
			for i := range zsets {
				e := &zsets[i]
				if analogField(e.Args[1], otherF) {
					setOther = e
				} else if analogField(e.Args[1], thisF) {
					setThis = e
				} else {
					bad = "zero flag written for an unrelated key " + e.Args[1].String()
				}
			}
			isTrue := func(e *Effect) bool { b, ok := e.Args[2].IsBoolConst(); return ok && b }
			isFalse := func(e *Effect) bool { b, ok := e.Args[2].IsBoolConst(); return ok && !b }
			switch {
			case bad != "":
			case setThis == nil || !isFalse(setThis):
				bad = "the active side's flag is not reset to false (the next crossing would not zero it)"
			case !zeroed:
				if len(sends) != 2 || !sends[1].ok || sends[1].Kind != midiCC || !analogField(sends[1].B1, otherF) {
					bad = "the side being left is not explicitly sent a Control Change"
				} else if k0, ok := sends[1].B2.IsIntConst(); !ok || k0 != 0 {
					bad = "the side being left is not sent the value 0"
				} else if other := map[string]string{"neg": "pos", "pos": "neg"}[side]; ccChannelSide(dv, sends[1].Channel) != other {
					bad = "the zero for the side being left goes to the wrong channel"
				} else if setOther == nil || !isTrue(setOther) {
					bad = "the flag of the side being left is not set after zeroing it"
				}
			case zeroed:
				if len(sends) != 1 || setOther != nil {
					bad = "the opposite side is already known zero but is sent/flagged again"
				}
			}
		}
		note(k, bad)
	}
	for _, need := range []string{"[centred=false,side=neg]", "[centred=false,side=pos]", "[centred=true,side=neg]", "[centred=true,side=pos]"} {
		if agg["device.handleABSEvent/cc/bidirectional"+need] == nil {
			c.Bad("R7.1", "device.handleABSEvent/cc/bidirectional"+need, pos, "no such side branch found")
		}
	}
	for _, k := range sortedKeys(agg) {
		rule := "R7.1"
		if strings.Contains(k, "learning-gate") {
			rule = "R7.4"
		}
		if strings.Contains(k, "swallowed-position-not-recorded") {
			rule = "R7.9"
		}
		if agg[k].bad != "" {
			c.Bad(rule, k, pos, agg[k].bad)
		} else {
			c.OK(rule, k, pos, fmt.Sprintf("%d path(s) match the template", agg[k].n))
		}
	}
	c.MinCount("R7.9", 1)
	// R7.5 writers of the flags
	var ws []string
	if !hasFlags {
		c.OK("R7.5", "no-flag-table", pos, "the side bookkeeping is kept in the previous-side form: no flag table to protect (the positions are protected by R6.16)")
	}
	var flagWriters []writeSite
	if hasFlags {
		flagWriters = c.P.writersOfField(dv.fields["ccZeroed"])
	}
	for _, s := range flagWriters {
		name := dv.refName(dv.ownerOf(s.Fn))
		key := "write(Device.ccZeroed)@" + shortFn(s.Fn)
		ws = append(ws, name)
		switch {
		case sameAnchorName(name, "handleABSEvent"):
			c.OK("R7.5", key, c.P.Pos(s.Instr.Pos()), "allowed writer")
		case sameAnchorName(name, "NewDevice"):
			// the constructor creates the table; a flag it sets claims a 0 that this device object never sent (the receiver
			// keeps its controller values across a re-created device: reload, re-plug)
			if st, isStore := s.Instr.(*ssa.Store); isStore && s.What == "field assignment" {
				if mk, fresh := st.Val.(*ssa.MakeMap); fresh && mk.Referrers() != nil {
					filled := false
					for _, r := range *mk.Referrers() {
						if _, isDbg := r.(*ssa.DebugRef); !isDbg && r != s.Instr {
							filled = true
						}
					}
					if !filled {
						c.OK("R7.5", key, c.P.Pos(s.Instr.Pos()), "creates the empty table")
						break
					}
				}
			}
			c.Bad("R7.5", key, c.P.Pos(s.Instr.Pos()), "the constructor sets a zero flag: it claims a 0 this device never sent, the first crossing of the centre would not zero the side left (the receiver keeps its controller values when a device is re-created)")
		default:
			c.Bad("R7.5", key, c.P.Pos(s.Instr.Pos()), "the zero flags are written outside the axis handler")
		}
	}
	sort.Strings(ws)
	ruleDispatch(c, dv, "R7.6", false, true)                         // every axis report (incl. the one that crosses the centre) reaches the side logic
	c.importRules(configIntactRules, []string{"R3.7"}, "R7.7")       // controller numbers and offsets are read from an unmodified copy of the parsed configuration
	c.importRules(rescaleRules, []string{"R6.11", "R6.13"}, "R7.11") // the side logic is told the truth about the position's range: a centred unsigned position (-1..1 after the shift) is not treated as an uncentred 0..1 one
	c.importRules(repetitionRules, []string{"R6.21"}, "R7.10")       // controller numbers, offsets and the deadzone are those of the mapping selected now, not a memo from before a mapping switch
	c.importRules(emulationReachRules, []string{"R8.9b"}, "R7.8")    // every new position of a controller axis reaches the side logic
	c.MinCount("R7.1", 5)
	c.MinCount("R7.4", 1)
	if hasFlags {
		c.MinCount("R7.5", 2)
	}
	c.DecidedClause("each of the four side branches (signed / centred-unsigned x negative / positive) sends the active controller with the deflection magnitude on its own channel, explicitly sends 0 to the opposite controller on the opposite channel unless it is already flagged zero, flags it, and un-flags the active one — on every path; side selection compares the shaped value with 0 resp. 0.5; the learning gate precedes every send and lets only |value| > 0.5 through; a position the gate swallows is not recorded as sent; the flags have no other writer")
	c.UndecidedClause("numeric values (C06); controllers with the same number on different channels share one flag (outside the stated quantifier)")
	_ = ssa.Function{}
}

// ccChannelSide: "pos" for (channel + ChannelOffset) % 16, "neg" for (channel + ChannelOffsetNeg) % 16.
func ccChannelSide(dv *dev, ch *Term) string {
	if ch == nil {
		return ""
	}
	t := ch.StripConv()
	if t.Op != "binop" || (t.Aux != "%" && t.Aux != "&") {
		return ""
	}
	sum := t.Args[0].StripConv()
	if sum.Op != "binop" || sum.Aux != "+" {
		return ""
	}
	a, b := sum.Args[0].StripConv(), sum.Args[1].StripConv()
	if !dv.isFieldLoad(a, "channel") {
		a, b = b, a
	}
	if !dv.isFieldLoad(a, "channel") {
		return ""
	}
	switch {
	case analogField(b, "ChannelOffsetNeg"):
		return "neg"
	case analogField(b, "ChannelOffset"):
		return "pos"
	}
	return ""
}

// ruleNoDropBeforeCase: an event of an axis that emulates keys (actions) always reaches the emulation logic, unless the axis
// is unmapped or the position is the one already processed: every returning path of handleABSEvent that is consistent with
// the mapping type T, finds the axis mapped and is not the repeated-value return must enter the `case T` body.  A filter in
// front of the switch that is meant for controller traffic (the CC-learning gate) otherwise swallows the return to centre:
// the emulated key is never released although the stick is at rest.
func ruleNoDropBeforeCase(c *Ctx, dv *dev, rule string, typeConsts []string, learningGated bool) {
	fn := dv.fn["handleABSEvent"]
	paths, err := absPaths(c, dv)
	if !c.Require(err == nil, rule, "device.handleABSEvent", fmt.Sprint(err)) {
		return
	}
	lastField := dv.fields["lastAnalogValue"]
	for _, tc := range typeConsts {
		tv, ok := c.P.constString(pkgConfig, tc)
		key := "device.handleABSEvent/every-event-reaches-case[" + tc + "]"
		pos := c.P.Pos(fn.Pos())
		ifi, _ := caseIf(fn, dv, tv)
		if !ok || ifi == nil {
			c.Undec(rule, key, pos, "case "+tc+" of the mapping-type switch not found")
			continue
		}
		n, bad := 0, ""
		for _, p := range paths {
			if p.End != "return" {
				continue
			}
			sel, negs := mappingTypeOf(p)
			if sel != "" && sel != tv {
				continue
			}
			excluded := false
			for _, ng := range negs {
				if ng == tv {
					excluded = true
				}
			}
			if excluded && sel != tv {
				continue
			}
			unmapped, dup, entered, gated := false, false, false, false
			for _, a := range p.Atoms {
				if learningGated && a.Taken && dv.fields["ccLearning"] != nil && a.Cond.LoadsField(dv.fields["ccLearning"]) && a.Cond.Op != "unop" {
					gated = true // controller traffic may be filtered while CC learning is held (R7.4 decides how)
				}
				cnd, taken := a.Cond, a.Taken
				for cnd.Op == "unop" && cnd.Aux == "!" {
					cnd, taken = cnd.Args[0], !taken
				}
				if cnd.Op == "lookupok" && strings.Contains(cnd.Args[0].String(), ".Analog[") && !taken {
					unmapped = true
				}
				if a.Instr == ifi && a.Taken {
					entered = true
				}
				// the repeated-value filter: lastAnalogValue[..][..] == value
				if op, x, y, okA := normAtom(a); okA && op == "==" && lastField != nil {
					if (x.Op == "lookup" && x.LoadsField(lastField)) || (y.Op == "lookup" && y.LoadsField(lastField)) {
						dup = true
					}
				}
			}
			if unmapped || dup || gated {
				continue
			}
			n++
			if !entered && bad == "" {
				bad = fmt.Sprintf("an event of a mapped %s axis with a new position returns before its case of the type switch (%s): a position is dropped on a condition other than unmapped, same-as-the-last-one or the CC-learning filter - an emulated key/action is never released although the stick is at rest, a controller or pitch-bend keeps a stale value", tc, atomsString(p))
			}
		}
		if n == 0 {
			c.Undec(rule, key, pos, "no returning path consistent with "+tc+" found")
			continue
		}
		c.Check(bad == "", rule, key, pos, fmt.Sprintf("%d returning path(s) of a mapped %s axis with a new position all enter the case body", n, tc), bad)
	}
}

// emulationReachRules: R8.9 for both emulation types, for import by C01 (keys) and C04 (actions).
func emulationReachRules(c *Ctx) {
	dv := newDev(c, "R8.0")
	if !dv.ok || dv.fn["handleABSEvent"] == nil {
		return
	}
	ruleNoDropBeforeCase(c, dv, "R8.9", []string{"AnalogKeySim"}, false)
	ruleNoDropBeforeCase(c, dv, "R8.9a", []string{"AnalogActionSim"}, false)
	// controller and pitch-bend axes: every new position reaches the transfer function unless CC learning filters it
	ruleNoDropBeforeCase(c, dv, "R8.9b", []string{"AnalogCC", "AnalogPitchBend"}, true)
}

// occursOutsidePhi: some subterm of t prints as key; the inside of an (opaque) phi is not searched - the phi stands for
// a value of its own.
func occursOutsidePhi(t *Term, key string) bool {
	if t == nil {
		return false
	}
	if t.String() == key {
		return true
	}
	if t.Op == "phi" {
		return false
	}
	for _, a := range t.Args {
		if occursOutsidePhi(a, key) {
			return true
		}
	}
	return false
}
