package main

import (
	"fmt"
	"go/constant"
	"go/token"
	"go/types"
	"sort"
	"strings"

	"golang.org/x/tools/go/ssa"
)

// ---------------------------------------------------------------------------------------
// E2: path-effect extraction.
//
// Enumerates the acyclic (loops: at most one iteration) paths of a function or of a region
// of it; same-repository static callees are inlined up to a depth bound.  Each path is a
// list of atoms (branch conditions as terms) and effects (sends, stores, map updates, map
// deletes, calls, go/defer, return, panic).  Paths whose atoms contradict syntactically
// (same term equal to two constants, same condition both true and false) are pruned.
// There is no solver and nothing is executed.
// ---------------------------------------------------------------------------------------

type Atom struct {
	Cond  *Term
	Taken bool
	Instr *ssa.If
	Fn    *ssa.Function
	Depth int
}

func (a Atom) String() string {
	if a.Taken {
		return a.Cond.String()
	}
	return "!" + a.Cond.String()
}

type Effect struct {
	Kind     string // send store mapset mapdel call go defer close panic return recv select lookup
	Instr    ssa.Instruction
	Fn       *ssa.Function // function containing Instr
	Callee   *ssa.Function // static callee for call/go/defer
	Method   string        // interface method name for invoke-mode calls
	Args     []*Term
	Depth    int
	Deferred bool
	Local    bool // store whose root is a local allocation
	NAtoms   int  // number of atoms collected before this effect
	Inlined  bool // call effect that was also inlined (marker only)
}

func (e Effect) String() string {
	name := ""
	if e.Callee != nil {
		name = " " + e.Callee.String()
	} else if e.Method != "" {
		name = " ." + e.Method
	}
	return fmt.Sprintf("%s%s(%s)", e.Kind, name, termsString(e.Args))
}

type Path struct {
	Atoms   []Atom
	Effects []Effect
	Ret     []*Term
	End     string // return | panic | exit:<block> | cut
}

func (p *Path) String() string {
	var b strings.Builder
	b.WriteString("[")
	for i, a := range p.Atoms {
		if i > 0 {
			b.WriteString(" && ")
		}
		b.WriteString(a.String())
	}
	b.WriteString("] => ")
	for i, e := range p.Effects {
		if i > 0 {
			b.WriteString("; ")
		}
		b.WriteString(e.String())
	}
	b.WriteString(" ; " + p.End)
	if len(p.Ret) > 0 {
		b.WriteString("(" + termsString(p.Ret) + ")")
	}
	return b.String()
}

type SymConfig struct {
	Prog         *Program
	MaxDepth     int
	MaxPaths     int
	MaxRecursion int                      // how many activations of one function may be open below its first (0: recursion is not followed)
	Collapse     bool                     // collapse effect-free diamonds (logging)
	CollapsePure bool                     // also collapse effect-free diamonds that only compute values (join phis become opaque)
	NoInline     map[*ssa.Function]bool   // never inline these
	OnlyInline   map[*ssa.Function]bool   // if non-nil, inline only these
	KeepDiamonds map[*ssa.BasicBlock]bool // CollapsePure: value-only diamonds branching at these blocks stay as separate paths
	KeepDecided  bool                     // a float comparison with a literal that is decided by a constant known on the path still leaves its atom
	MaxVisits    int                      // how often a block may be entered on one path (0 = 2: loops unrolled once)
	Start        *ssa.BasicBlock          // region entry (nil = function entry)
	Stop         map[*ssa.BasicBlock]bool // region exits
	KeepCalls    bool                     // record inert (logging) calls as effects too
	ParamTerms   map[*ssa.Parameter]*Term // override root parameter terms
	// CallHook may supply the result of a call (a constant under a valuation); nil result: no override
	CallHook  func(callee *ssa.Function, args []*Term, load func(addr *Term, typ types.Type) *Term) *Term
	FreeTerms map[*ssa.FreeVar]*Term             // override root free variable terms
	OnBlock   func(b *ssa.BasicBlock, depth int) // coverage hook
}

type deferred struct {
	instr *ssa.Defer
	args  []*Term
	fnv   *Term
}

type frame struct {
	fn     *ssa.Function
	vals   map[ssa.Value]*Term
	block  *ssa.BasicBlock
	idx    int
	prev   *ssa.BasicBlock
	visits map[int]int
	defers []deferred
	call   ssa.CallInstruction
	depth  int
	uid    int
	// the current block was entered beyond the visit budget (see run)
	over                   bool
	overEffects, overAtoms int
}

const maxDecidedVisits = 40

type ival struct {
	lo, hi             constant.Value
	loStrict, hiStrict bool
}

type state struct {
	frames   []*frame
	mem      map[string]*Term
	memAddr  map[string]*Term
	fresh    map[string]bool // allocations made on this path (zero-initialised)
	dirty    map[string]bool // local variables written through a computed index
	rng      map[string]ival // per term: interval implied by the ordered comparisons with constants taken so far
	fepoch   map[types.Object]int
	havoc    int
	mepoch   map[string]int
	atoms    []Atom
	effects  []Effect
	eq       map[string]string
	ne       map[string]map[string]bool
	truth    map[string]bool
	uniq     *int
	frameSeq int
}

func (s *state) clone() *state {
	n := &state{havoc: s.havoc, uniq: s.uniq, frameSeq: s.frameSeq}
	n.frames = make([]*frame, len(s.frames))
	for i, f := range s.frames {
		nf := *f
		nf.vals = make(map[ssa.Value]*Term, len(f.vals))
		for k, v := range f.vals {
			nf.vals[k] = v
		}
		nf.visits = make(map[int]int, len(f.visits))
		for k, v := range f.visits {
			nf.visits[k] = v
		}
		nf.defers = append([]deferred(nil), f.defers...)
		n.frames[i] = &nf
	}
	n.mem = make(map[string]*Term, len(s.mem))
	for k, v := range s.mem {
		n.mem[k] = v
	}
	n.memAddr = make(map[string]*Term, len(s.memAddr))
	for k, v := range s.memAddr {
		n.memAddr[k] = v
	}
	n.fresh = make(map[string]bool, len(s.fresh))
	for k, v := range s.fresh {
		n.fresh[k] = v
	}
	if len(s.rng) > 0 {
		n.rng = make(map[string]ival, len(s.rng))
		for k, v := range s.rng {
			n.rng[k] = v
		}
	}
	if len(s.dirty) > 0 {
		n.dirty = make(map[string]bool, len(s.dirty))
		for k, v := range s.dirty {
			n.dirty[k] = v
		}
	}
	n.fepoch = make(map[types.Object]int, len(s.fepoch))
	for k, v := range s.fepoch {
		n.fepoch[k] = v
	}
	n.mepoch = make(map[string]int, len(s.mepoch))
	for k, v := range s.mepoch {
		n.mepoch[k] = v
	}
	n.atoms = append([]Atom(nil), s.atoms...)
	n.effects = append([]Effect(nil), s.effects...)
	n.eq = make(map[string]string, len(s.eq))
	for k, v := range s.eq {
		n.eq[k] = v
	}
	n.ne = make(map[string]map[string]bool, len(s.ne))
	for k, v := range s.ne {
		m := make(map[string]bool, len(v))
		for a, b := range v {
			m[a] = b
		}
		n.ne[k] = m
	}
	n.truth = make(map[string]bool, len(s.truth))
	for k, v := range s.truth {
		n.truth[k] = v
	}
	return n
}

type symExec struct {
	cfg       SymConfig
	paths     []*Path
	err       error
	inert     map[*ssa.Function]int // 0 unknown, 1 inert, 2 not inert, 3 in progress
	pdom      map[*ssa.Function]map[*ssa.BasicBlock]*ssa.BasicBlock
	colla     map[*ssa.BasicBlock]*collapseInfo
	sums      map[*ssa.Function]*modSummary
	phiExpand bool
	phiStack  map[*ssa.Phi]bool
	fnByName  map[string]*ssa.Function // function values met on the paths (incl. synthetic $bound/$thunk wrappers)
}

type collapseInfo struct {
	ok   bool
	join *ssa.BasicBlock
	pred *ssa.BasicBlock // nil: join phis are opaque
}

// Enumerate returns the paths of fn under cfg.
func Enumerate(fn *ssa.Function, cfg SymConfig) ([]*Path, error) {
	if fn == nil || fn.Blocks == nil {
		return nil, fmt.Errorf("function has no body")
	}
	if cfg.MaxDepth == 0 {
		cfg.MaxDepth = 3
	}
	if cfg.MaxPaths == 0 {
		cfg.MaxPaths = 400000
	}
	se := &symExec{cfg: cfg, inert: map[*ssa.Function]int{}, pdom: map[*ssa.Function]map[*ssa.BasicBlock]*ssa.BasicBlock{}, colla: map[*ssa.BasicBlock]*collapseInfo{}}
	u := 0
	st := &state{mem: map[string]*Term{}, memAddr: map[string]*Term{}, fresh: map[string]bool{}, fepoch: map[types.Object]int{}, mepoch: map[string]int{},
		eq: map[string]string{}, ne: map[string]map[string]bool{}, truth: map[string]bool{}, uniq: &u}
	fr := &frame{fn: fn, vals: map[ssa.Value]*Term{}, visits: map[int]int{}, depth: 0}
	for _, p := range fn.Params {
		if t, ok := cfg.ParamTerms[p]; ok {
			fr.vals[p] = t
		} else {
			fr.vals[p] = &Term{Op: "param", Aux: p.Name(), Type: p.Type()}
		}
	}
	for _, fv := range fn.FreeVars {
		if t, ok := cfg.FreeTerms[fv]; ok {
			fr.vals[fv] = t
		} else {
			fr.vals[fv] = &Term{Op: "freevar", Aux: "^" + fv.Name(), Type: fv.Type()}
		}
	}
	fr.block = fn.Blocks[0]
	if cfg.Start != nil {
		fr.block = cfg.Start
	}
	st.frames = []*frame{fr}
	// initial contents of the repository's read-only tables
	if cfg.Prog != nil {
		for _, stores := range cfg.Prog.readOnlyTables() {
			for _, ts := range stores {
				ifr := &frame{fn: ts.fn, vals: map[ssa.Value]*Term{}, visits: map[int]int{}}
				addr := se.val(st, ifr, ts.addr)
				st.mem[addr.String()] = se.val(st, ifr, ts.val)
				st.memAddr[addr.String()] = addr
			}
		}
	}
	se.run(st)
	return se.paths, se.err
}

func (se *symExec) finish(st *state, end string, ret []*Term) {
	if se.err != nil {
		return
	}
	if len(se.paths) >= se.cfg.MaxPaths {
		se.err = fmt.Errorf("more than %d paths", se.cfg.MaxPaths)
		return
	}
	se.paths = append(se.paths, &Path{Atoms: st.atoms, Effects: st.effects, Ret: ret, End: end})
}

func (se *symExec) unique(st *state) string {
	*st.uniq++
	return fmt.Sprintf("%d", *st.uniq)
}

// run executes st until all its continuations are finished.
func (se *symExec) run(st *state) {
	for se.err == nil {
		fr := st.frames[len(st.frames)-1]
		if fr.idx == 0 {
			// entering block
			if se.cfg.OnBlock != nil {
				se.cfg.OnBlock(fr.block, fr.depth)
			}
			if len(st.frames) == 1 && se.cfg.Stop[fr.block] && !(fr.block == se.cfg.Start && fr.prev == nil) {
				se.finish(st, fmt.Sprintf("exit:%d", fr.block.Index), nil)
				return
			}
			fr.visits[fr.block.Index]++
			maxV := se.cfg.MaxVisits
			if maxV == 0 {
				maxV = 2
			}
			fr.over = false
			if fr.visits[fr.block.Index] > maxV {
				// a loop whose condition is decided by constants known on the path (`for _, s := range [2]string{...}`,
				// `for i := 0; i < 3; i++`) is followed to its end: the block is entered once more, and the path is cut
				// as it was on entry if its branch turns out to depend on something unknown
				if fr.visits[fr.block.Index] > maxDecidedVisits {
					se.finish(st, "cut", nil)
					return
				}
				fr.over, fr.overEffects, fr.overAtoms = true, len(st.effects), len(st.atoms)
			}
		}
		if fr.idx >= len(fr.block.Instrs) {
			se.finish(st, "cut", nil)
			return
		}
		instr := fr.block.Instrs[fr.idx]
		fr.idx++
		switch in := instr.(type) {
		case *ssa.Phi:
			fr.vals[in] = se.phi(st, fr, in)
		case *ssa.Jump:
			se.gotoBlock(fr, fr.block.Succs[0])
		case *ssa.If:
			if ci := se.collapsible(fr.block); (se.cfg.Collapse || se.cfg.CollapsePure) && ci.ok {
				fr.prev = ci.pred
				fr.block = ci.join
				fr.idx = 0
				continue
			}
			cond := se.val(st, fr, in.Cond)
			if b, ok := cond.IsBoolConst(); ok {
				// a comparison of a floating-point quantity with a literal threshold that is decided on this path because the
				// quantity is a known constant here (a position inside the deadzone that travels in memory): the decision is
				// kept as a path condition, so that rules which classify paths by their thresholds see it like any other
				if se.cfg.KeepDecided {
					condV := in.Cond
					// `a && b` as a switch case: the condition is a phi whose edge from the block that computed b carries b
					if phi, isPhi := condV.(*ssa.Phi); isPhi && phi.Block() == fr.block && fr.prev != nil {
						for i, pred := range fr.block.Preds {
							if pred == fr.prev {
								condV = phi.Edges[i]
							}
						}
					}
					if bo, isBin := condV.(*ssa.BinOp); isBin {
						switch bo.Op {
						case token.LSS, token.LEQ, token.GTR, token.GEQ:
							if _, yLit := bo.Y.(*ssa.Const); yLit && isFloatType(bo.X.Type()) {
								if _, xLit := bo.X.(*ssa.Const); !xLit {
									t := &Term{Op: "binop", Aux: bo.Op.String(), Args: []*Term{se.val(st, fr, bo.X), se.val(st, fr, bo.Y)}, Type: in.Cond.Type()}
									st.atoms = append(st.atoms, Atom{Cond: t, Taken: b, Instr: in, Fn: fr.fn, Depth: fr.depth})
								}
							}
						}
					}
				}
				if b {
					se.gotoBlock(fr, fr.block.Succs[0])
				} else {
					se.gotoBlock(fr, fr.block.Succs[1])
				}
				continue
			}
			if fr.over {
				// beyond the visit budget and not decided: the path ends where the block was entered
				st.effects = st.effects[:fr.overEffects]
				st.atoms = st.atoms[:fr.overAtoms]
				se.finish(st, "cut", nil)
				return
			}
			// false branch on a clone
			for _, taken := range []bool{true, false} {
				var s2 *state
				if taken {
					s2 = st.clone()
				} else {
					s2 = st
				}
				f2 := s2.frames[len(s2.frames)-1]
				if !s2.assume(cond, taken) {
					continue
				}
				s2.atoms = append(s2.atoms, Atom{Cond: cond, Taken: taken, Instr: in, Fn: f2.fn, Depth: f2.depth})
				if taken {
					se.gotoBlock(f2, f2.block.Succs[0])
				} else {
					se.gotoBlock(f2, f2.block.Succs[1])
				}
				se.run(s2)
			}
			return
		case *ssa.Return:
			var rets []*Term
			for _, r := range in.Results {
				rets = append(rets, se.val(st, fr, r))
			}
			if len(st.frames) == 1 {
				st.effects = append(st.effects, Effect{Kind: "return", Instr: in, Fn: fr.fn, Args: rets, Depth: fr.depth, NAtoms: len(st.atoms)})
				se.finish(st, "return", rets)
				return
			}
			st.frames = st.frames[:len(st.frames)-1]
			caller := st.frames[len(st.frames)-1]
			if v, ok := fr.call.(ssa.Value); ok {
				switch len(rets) {
				case 0:
				case 1:
					caller.vals[v] = rets[0]
				default:
					caller.vals[v] = &Term{Op: "tuple", Args: rets}
				}
			}
		case *ssa.Panic:
			st.effects = append(st.effects, Effect{Kind: "panic", Instr: in, Fn: fr.fn, Args: []*Term{se.val(st, fr, in.X)}, Depth: fr.depth, NAtoms: len(st.atoms)})
			se.finish(st, "panic", nil)
			return
		case *ssa.RunDefers:
			for i := len(fr.defers) - 1; i >= 0; i-- {
				d := fr.defers[i]
				e := Effect{Kind: "call", Instr: d.instr, Fn: fr.fn, Callee: d.instr.Call.StaticCallee(), Args: d.args, Depth: fr.depth, Deferred: true, NAtoms: len(st.atoms)}
				if d.instr.Call.IsInvoke() {
					e.Method = d.instr.Call.Method.Name()
				}
				if e.Callee == nil && d.fnv != nil && d.fnv.Op == "closure" {
					if f, ok := d.fnv.Obj.(*types.Func); ok {
						_ = f
					}
				}
				st.effects = append(st.effects, e)
			}
			fr.defers = nil
		case *ssa.Store:
			addr := se.val(st, fr, in.Addr)
			v := se.val(st, fr, in.Val)
			st.store(addr, v)
			local := rootOp(addr) == "alloc"
			if !local && rootOp(addr) == "makeslice" {
				// filling a slice made on this path (`s := make([]T, n); s[i] = x`) is building a value, not writing state -
				// unless the slice has been put somewhere that is not a local variable in the meantime
				rt := rootTerm(addr).String()
				local = true
				for k, mv := range st.mem {
					if mv != nil && mv.String() == rt && rootOp(st.memAddr[k]) != "alloc" {
						local = false
					}
				}
			}
			st.effects = append(st.effects, Effect{Kind: "store", Instr: in, Fn: fr.fn, Args: []*Term{addr, v}, Depth: fr.depth, Local: local, NAtoms: len(st.atoms)})
		case *ssa.MapUpdate:
			m := se.val(st, fr, in.Map)
			k := se.val(st, fr, in.Key)
			v := se.val(st, fr, in.Value)
			st.mepoch[in.Map.Type().String()]++
			st.effects = append(st.effects, Effect{Kind: "mapset", Instr: in, Fn: fr.fn, Args: []*Term{m, k, v}, Depth: fr.depth, NAtoms: len(st.atoms)})
		case *ssa.Send:
			st.effects = append(st.effects, Effect{Kind: "send", Instr: in, Fn: fr.fn, Args: []*Term{se.val(st, fr, in.Chan), se.val(st, fr, in.X)}, Depth: fr.depth, NAtoms: len(st.atoms)})
		case *ssa.Go:
			args, fnv := se.callArgs(st, fr, &in.Call)
			e := Effect{Kind: "go", Instr: in, Fn: fr.fn, Callee: calleeOf(&in.Call, fnv), Args: args, Depth: fr.depth, NAtoms: len(st.atoms)}
			if in.Call.IsInvoke() {
				e.Method = in.Call.Method.Name()
			}
			st.effects = append(st.effects, e)
		case *ssa.Defer:
			args, fnv := se.callArgs(st, fr, &in.Call)
			fr.defers = append(fr.defers, deferred{instr: in, args: args, fnv: fnv})
			e := Effect{Kind: "defer", Instr: in, Fn: fr.fn, Callee: calleeOf(&in.Call, fnv), Args: args, Depth: fr.depth, NAtoms: len(st.atoms)}
			if in.Call.IsInvoke() {
				e.Method = in.Call.Method.Name()
			}
			st.effects = append(st.effects, e)
		case *ssa.Call:
			if se.call(st, fr, in) {
				// frame pushed; continue in callee
			}
		case *ssa.Select:
			var args []*Term
			for _, s := range in.States {
				args = append(args, se.val(st, fr, s.Chan))
				if s.Send != nil {
					args = append(args, se.val(st, fr, s.Send))
				}
			}
			t := &Term{Op: "select", Aux: se.unique(st), Type: in.Type()}
			fr.vals[in] = t
			st.effects = append(st.effects, Effect{Kind: "select", Instr: in, Fn: fr.fn, Args: args, Depth: fr.depth, NAtoms: len(st.atoms)})
		case *ssa.DebugRef:
		default:
			if v, ok := instr.(ssa.Value); ok {
				fr.vals[v] = se.eval(st, fr, v, false)
			}
		}
	}
}

func calleeOf(c *ssa.CallCommon, fnv *Term) *ssa.Function {
	if f := c.StaticCallee(); f != nil {
		return f
	}
	return nil
}

func (se *symExec) gotoBlock(fr *frame, b *ssa.BasicBlock) {
	fr.prev = fr.block
	fr.block = b
	fr.idx = 0
}

func (se *symExec) phi(st *state, fr *frame, in *ssa.Phi) *Term {
	if fr.prev != nil {
		for i, p := range fr.block.Preds {
			if p == fr.prev {
				return se.val(st, fr, in.Edges[i])
			}
		}
	}
	return &Term{Op: "phi", Aux: fmt.Sprintf("%s.%s", fr.fn.Name(), in.Name()), Type: in.Type()}
}

func rootOp(addr *Term) string {
	t := addr
	for t != nil {
		switch t.Op {
		case "fieldaddr", "indexaddr":
			t = t.Args[0]
		default:
			return t.Op
		}
	}
	return ""
}

func rootTerm(addr *Term) *Term {
	t := addr
	for t != nil {
		switch t.Op {
		case "fieldaddr", "indexaddr":
			t = t.Args[0]
		default:
			return t
		}
	}
	return nil
}

// assume records cond==taken; returns false when contradictory with earlier atoms.
func (s *state) assume(cond *Term, taken bool) bool {
	c := cond
	for c.Op == "unop" && c.Aux == "!" {
		c = c.Args[0]
		taken = !taken
	}
	key := c.String()
	if v, ok := s.truth[key]; ok {
		return v == taken
	}
	s.truth[key] = taken
	// ordered comparison of one term with a constant: the interval of that term on this path must stay non-empty
	// (value <= -0.5 and value >= 0.5 cannot both hold); plain interval bookkeeping, no solver
	if c.Op == "binop" && (c.Aux == "<" || c.Aux == "<=" || c.Aux == ">" || c.Aux == ">=") {
		x, y, op := c.Args[0], c.Args[1], c.Aux
		if _, ok := x.IsConst(); ok {
			x, y = y, x
			op = map[string]string{"<": ">", "<=": ">=", ">": "<", ">=": "<="}[op]
		}
		if k, ok := y.IsConst(); ok && k != nil && (k.Kind() == constant.Int || k.Kind() == constant.Float) {
			if _, xConst := x.IsConst(); !xConst {
				if !taken {
					op = map[string]string{"<": ">=", "<=": ">", ">": "<=", ">=": "<"}[op]
				}
				if s.rng == nil {
					s.rng = map[string]ival{}
				}
				iv := s.rng[x.String()]
				switch op {
				case "<", "<=":
					if iv.hi == nil || constant.Compare(k, token.LSS, iv.hi) || constant.Compare(k, token.EQL, iv.hi) && op == "<" {
						iv.hi, iv.hiStrict = k, op == "<"
					}
				case ">", ">=":
					if iv.lo == nil || constant.Compare(k, token.GTR, iv.lo) || constant.Compare(k, token.EQL, iv.lo) && op == ">" {
						iv.lo, iv.loStrict = k, op == ">"
					}
				}
				s.rng[x.String()] = iv
				if iv.lo != nil && iv.hi != nil {
					if constant.Compare(iv.lo, token.GTR, iv.hi) || constant.Compare(iv.lo, token.EQL, iv.hi) && (iv.loStrict || iv.hiStrict) {
						return false
					}
				}
			}
		}
	}
	if c.Op == "binop" && (c.Aux == "==" || c.Aux == "!=") {
		x, y := c.Args[0], c.Args[1]
		if _, ok := x.IsConst(); ok {
			x, y = y, x
		}
		if _, ok := y.IsConst(); ok {
			isEq := (c.Aux == "==") == taken
			xs, ys := x.String(), y.String()
			if isEq {
				if v, ok := s.eq[xs]; ok && v != ys {
					return false
				}
				if s.ne[xs][ys] {
					return false
				}
				s.eq[xs] = ys
			} else {
				if v, ok := s.eq[xs]; ok && v == ys {
					return false
				}
				if s.ne[xs] == nil {
					s.ne[xs] = map[string]bool{}
				}
				s.ne[xs][ys] = true
			}
		}
	}
	return true
}

// ---- memory -----------------------------------------------------------------------------

func lastField(addr *Term) types.Object {
	if addr.Op == "fieldaddr" {
		return addr.Obj
	}
	return nil
}

// distinctLocalPaths: both addresses are components (fields, constant indices) of local variables: different access paths
// are different memory (element 0 and element 1 of a local array of structs, two local composite literals).
func distinctLocalPaths(a, b *Term) bool {
	root := func(t *Term) (*Term, bool) {
		for {
			switch t.Op {
			case "fieldaddr":
				t = t.Args[0]
			case "indexaddr":
				if _, isConst := t.Args[1].IsConst(); !isConst {
					return nil, false
				}
				t = t.Args[0]
			default:
				return t, t.Op == "alloc"
			}
		}
	}
	ra, oka := root(a)
	rb, okb := root(b)
	if !oka || !okb {
		return false
	}
	_ = ra
	_ = rb
	return a.String() != b.String()
}

func (s *state) store(addr, v *Term) {
	key := addr.String()
	// a store through a computed index: nothing is known about the untouched elements of that variable any more
	for t := addr; ; {
		if t.Op == "fieldaddr" {
			t = t.Args[0]
			continue
		}
		if t.Op == "indexaddr" {
			if _, isConst := t.Args[1].IsConst(); !isConst {
				r := t.Args[0]
				for r.Op == "fieldaddr" || r.Op == "indexaddr" {
					r = r.Args[0]
				}
				if s.dirty == nil {
					s.dirty = map[string]bool{}
				}
				s.dirty[r.String()] = true
			}
			t = t.Args[0]
			continue
		}
		break
	}
	// a component of a variable that was assigned as a whole (`*t0 = p; t0.value = x`: the spilled value receiver of a
	// method that changes its copy): the whole-variable entry is taken apart into its components first, otherwise the
	// next whole load would return the value from before this store
	for anc := addr; anc.Op == "fieldaddr" || anc.Op == "indexaddr"; {
		anc = anc.Args[0]
		ak := anc.String()
		whole, ok := s.mem[ak]
		if !ok {
			continue
		}
		delete(s.mem, ak)
		delete(s.memAddr, ak)
		if whole.Type == nil {
			continue
		}
		switch u := whole.Type.Underlying().(type) {
		case *types.Struct:
			for i := 0; i < u.NumFields(); i++ {
				fa := &Term{Op: "fieldaddr", Args: []*Term{anc}, Obj: u.Field(i)}
				if _, has := s.mem[fa.String()]; !has {
					s.mem[fa.String()] = fieldOf(whole, u.Field(i))
					s.memAddr[fa.String()] = fa
				}
			}
		case *types.Array:
			if u.Len() <= 256 {
				for i := int64(0); i < u.Len(); i++ {
					ia := &Term{Op: "indexaddr", Args: []*Term{anc, intConst(i)}}
					if _, has := s.mem[ia.String()]; !has {
						s.mem[ia.String()] = indexOf(whole, intConst(i))
						s.memAddr[ia.String()] = ia
					}
				}
			}
		}
	}
	// kill entries that extend this address, and may-alias entries (same last field, other base)
	lf := lastField(addr)
	for k, a := range s.memAddr {
		if k == key {
			continue
		}
		if strings.HasPrefix(k, key+".") || strings.HasPrefix(k, key+"[") || componentOf(a, key) {
			delete(s.mem, k)
			delete(s.memAddr, k)
			continue
		}
		if lf != nil && lastField(a) == lf && !distinctLocalPaths(a, addr) {
			delete(s.mem, k)
			delete(s.memAddr, k)
		}
		if addr.Op == "indexaddr" && a.Op == "indexaddr" && a.Args[0].String() == addr.Args[0].String() {
			// same array/slice, possibly same index
			if _, c1 := a.Args[1].IsConst(); c1 {
				if _, c2 := addr.Args[1].IsConst(); c2 {
					continue
				}
			}
			delete(s.mem, k)
			delete(s.memAddr, k)
		}
	}
	if lf != nil {
		s.fepoch[lf]++
	}
	s.mem[key] = v
	s.memAddr[key] = addr
}

func (s *state) epochOf(addr *Term) string {
	e := s.havoc
	f := 0
	if lf := lastField(addr); lf != nil {
		f = s.fepoch[lf]
	}
	if e == 0 && f == 0 {
		return ""
	}
	return fmt.Sprintf("%d.%d", e, f)
}

// loadPresent returns the value stored at addr on this path, if determinable.
func (s *state) loadPresent(addr *Term) (*Term, bool) {
	if v, ok := s.mem[addr.String()]; ok {
		return v, true
	}
	switch addr.Op {
	case "fieldaddr":
		if pv, ok := s.loadPresent(addr.Args[0]); ok {
			return fieldOf(pv, addr.Obj.(*types.Var)), true
		}
	case "indexaddr":
		if pv, ok := s.loadPresent(addr.Args[0]); ok {
			return indexOf(pv, addr.Args[1]), true
		}
	}
	return nil, false
}

func (s *state) load(addr *Term, typ types.Type) *Term {
	if v, ok := s.loadPresent(addr); ok {
		return v
	}
	// element of a slice literal built on this path
	if addr.Op == "indexaddr" && addr.Args[0].Op == "slicelit" {
		if n, ok := addr.Args[1].IsIntConst(); ok && n >= 0 && int(n) < len(addr.Args[0].Args) {
			return addr.Args[0].Args[n]
		}
	}
	// element of a slice grown by append on this path from a slice of known length (`s := make([]T, 0, n); s = append(s, k)`)
	if addr.Op == "indexaddr" && addr.Args[0].Op == "append" {
		if n, ok := addr.Args[1].IsIntConst(); ok {
			if el := appendElem(addr.Args[0], n); el != nil {
				return el
			}
		}
	}
	// aggregate assembled from component stores
	key := addr.String()
	switch u := typ.Underlying().(type) {
	case *types.Struct:
		has := false
		for k := range s.mem {
			if strings.HasPrefix(k, key+".") {
				has = true
				break
			}
		}
		if has || s.fresh[key] {
			t := &Term{Op: "struct", Type: typ, Aux: types.TypeString(typ, func(p *types.Package) string { return p.Name() })}
			for i := 0; i < u.NumFields(); i++ {
				fa := &Term{Op: "fieldaddr", Args: []*Term{addr}, Obj: u.Field(i)}
				if s.fresh[key] {
					s.fresh[fa.String()] = true
				}
				t.Args = append(t.Args, s.load(fa, u.Field(i).Type()))
			}
			return t
		}
	case *types.Array:
		has := false
		for k := range s.mem {
			if strings.HasPrefix(k, key+"[") {
				has = true
				break
			}
		}
		if (has || s.fresh[key]) && u.Len() <= 256 {
			t := &Term{Op: "array", Type: typ}
			for i := int64(0); i < u.Len(); i++ {
				ia := &Term{Op: "indexaddr", Args: []*Term{addr, intConst(i)}}
				if s.fresh[key] {
					s.fresh[ia.String()] = true
				}
				t.Args = append(t.Args, s.load(ia, u.Elem()))
			}
			return t
		}
	}
	if s.fresh[key] {
		return constTerm(nil, typ)
	}
	// a component (field, constant index) of a local variable that is still as it was allocated and was never written
	// through a computed index: the zero value
	if root, ok := freshRoot(addr); ok && s.fresh[root.String()] && !s.dirty[root.String()] {
		return constTerm(nil, typ)
	}
	return &Term{Op: "load", Args: []*Term{addr}, Aux: s.epochOf(addr), Type: typ}
}

// freshRoot: the local variable addr is a component of, through fields and constant indices only.
func freshRoot(addr *Term) (*Term, bool) {
	t := addr
	for {
		switch t.Op {
		case "fieldaddr":
			t = t.Args[0]
		case "indexaddr":
			if _, isConst := t.Args[1].IsConst(); !isConst {
				return nil, false
			}
			t = t.Args[0]
		case "alloc":
			return t, t != addr
		default:
			return nil, false
		}
	}
}

func fieldOf(v *Term, f *types.Var) *Term {
	if v.Op == "struct" {
		if st, ok := v.Type.Underlying().(*types.Struct); ok {
			for i := 0; i < st.NumFields(); i++ {
				if st.Field(i) == f && i < len(v.Args) {
					return v.Args[i]
				}
			}
		}
	}
	if v.Op == "const" && strings.HasPrefix(v.Aux, "zero:") {
		return constTerm(nil, f.Type())
	}
	return &Term{Op: "field", Args: []*Term{v}, Obj: f, Type: f.Type()}
}

func indexOf(v *Term, idx *Term) *Term {
	for v.Op == "convert" && len(v.Args) == 1 && v.Type != nil {
		if _, isArr := v.Type.Underlying().(*types.Array); !isArr {
			break
		}
		v = v.Args[0] // [2]byte(x)[i] == x[i]
	}
	if v.Op == "array" {
		if n, ok := idx.IsIntConst(); ok && int(n) < len(v.Args) && n >= 0 {
			return v.Args[n]
		}
	}
	return &Term{Op: "index", Args: []*Term{v, idx}}
}

// killUnder forgets everything stored under addr (an external callee may have written it).
func (s *state) killUnder(addr *Term) {
	key := addr.String()
	for k := range s.mem {
		if k == key || strings.HasPrefix(k, key+".") || strings.HasPrefix(k, key+"[") {
			delete(s.mem, k)
			delete(s.memAddr, k)
		}
	}
	for k := range s.fresh {
		if k == key || strings.HasPrefix(k, key+".") || strings.HasPrefix(k, key+"[") {
			delete(s.fresh, k)
		}
	}
}

func (s *state) havocAll() {
	s.havoc++
	for k, a := range s.memAddr {
		if rootOp(a) != "alloc" {
			delete(s.mem, k)
			delete(s.memAddr, k)
		}
	}
	for k := range s.mepoch {
		s.mepoch[k]++
	}
}

// ---- values -----------------------------------------------------------------------------

func (se *symExec) val(st *state, fr *frame, v ssa.Value) *Term {
	switch x := v.(type) {
	case *ssa.Const:
		return constTerm(x.Value, x.Type())
	case *ssa.Global:
		return &Term{Op: "global", Obj: x.Object(), Type: x.Type(), Aux: x.Name()}
	case *ssa.Function:
		se.noteFn(x)
		return &Term{Op: "func", Aux: x.String(), Type: x.Type(), Obj: x.Object()}
	case *ssa.Builtin:
		return &Term{Op: "func", Aux: "builtin." + x.Name()}
	}
	if t, ok := fr.vals[v]; ok {
		return t
	}
	// value defined outside the enumerated path (region start): structural, memory-pristine
	t := se.eval(st, fr, v, true)
	fr.vals[v] = t
	return t
}

func pkgShort(p *types.Package) string { return p.Name() }

func (se *symExec) eval(st *state, fr *frame, v ssa.Value, pristine bool) *Term {
	val := func(x ssa.Value) *Term { return se.val(st, fr, x) }
	switch in := v.(type) {
	case *ssa.Parameter:
		return &Term{Op: "param", Aux: in.Name(), Type: in.Type()}
	case *ssa.FreeVar:
		return &Term{Op: "freevar", Aux: "^" + in.Name(), Type: in.Type()}
	case *ssa.Alloc:
		t := &Term{Op: "alloc", Aux: fmt.Sprintf("%s.%s", fr.fn.Name(), in.Name()), Type: in.Type()}
		if !pristine {
			if fr.visits[in.Block().Index] > 1 || fr.depth > 0 {
				t.Aux += "'" + se.unique(st)
			}
			st.killUnder(t)
			st.fresh[t.String()] = true
		}
		return t
	case *ssa.FieldAddr:
		x := val(in.X)
		stt := deref(in.X.Type()).Underlying().(*types.Struct)
		if pristine {
			// a local that is a one-time copy of a struct read from memory (`defaults := cfg.Defaults`): its fields
			// are named by the access path of the source, so that guards on the source and uses of the copy meet
			if a, ok := in.X.(*ssa.Alloc); ok {
				if w := wholeStore(a); w != nil {
					if ld, ok := w.(*ssa.UnOp); ok && ld.Op == token.MUL {
						x = val(ld.X)
					}
				}
			}
		}
		return &Term{Op: "fieldaddr", Args: []*Term{x}, Obj: stt.Field(in.Field), Type: in.Type()}
	case *ssa.Field:
		x := val(in.X)
		stt := in.X.Type().Underlying().(*types.Struct)
		return fieldOf(x, stt.Field(in.Field))
	case *ssa.IndexAddr:
		return &Term{Op: "indexaddr", Args: []*Term{val(in.X), val(in.Index)}, Type: in.Type()}
	case *ssa.Index:
		return indexOf(val(in.X), val(in.Index))
	case *ssa.UnOp:
		x := val(in.X)
		switch in.Op {
		case token.MUL:
			if pristine {
				return &Term{Op: "load", Args: []*Term{x}, Type: in.Type()}
			}
			return st.load(x, in.Type())
		case token.ARROW:
			t := &Term{Op: "recv", Aux: se.unique(st), Args: []*Term{x}, Type: in.Type()}
			if !pristine {
				st.effects = append(st.effects, Effect{Kind: "recv", Instr: in, Fn: fr.fn, Args: []*Term{x, t}, Depth: fr.depth, NAtoms: len(st.atoms)})
			}
			return t
		case token.NOT:
			if b, ok := x.IsBoolConst(); ok {
				return constTerm(constant.MakeBool(!b), in.Type())
			}
			if x.Op == "unop" && x.Aux == "!" {
				return x.Args[0]
			}
			return &Term{Op: "unop", Aux: "!", Args: []*Term{x}, Type: in.Type()}
		default:
			if c, ok := x.IsConst(); ok && in.Op == token.SUB {
				return constTerm(constant.UnaryOp(token.SUB, c, 0), in.Type())
			}
			return &Term{Op: "unop", Aux: in.Op.String(), Args: []*Term{x}, Type: in.Type()}
		}
	case *ssa.BinOp:
		x, y := val(in.X), val(in.Y)
		if !pristine && (in.Op == token.QUO || in.Op == token.REM) && isIntegerType(in.Type()) {
			if _, isK := y.IsConst(); !isK {
				// an integer division by a non-constant: recorded, so that a rule can ask what the path knows about the divisor
				st.effects = append(st.effects, Effect{Kind: "div", Instr: in, Fn: fr.fn, Args: []*Term{y}, Depth: fr.depth, NAtoms: len(st.atoms)})
			}
		}
		if cx, ok := x.IsConst(); ok {
			if cy, ok := y.IsConst(); ok {
				if r, ok := foldBin(in.Op, cx, cy, in.Type()); ok {
					return r
				}
			}
		}
		// a function value compared with nil: closures and functions are never nil, nil is nil
		if in.Op == token.EQL || in.Op == token.NEQ {
			isNilT := func(t *Term) bool { return t.Op == "const" && t.Cval == nil && strings.HasPrefix(t.Aux, "nil") }
			isFn := func(t *Term) bool { return t.Op == "closure" || t.Op == "func" }
			// nil compared with nil (an error a helper returned as the nil constant, tested by its caller)
			if isNilT(x) && isNilT(y) {
				return constTerm(constant.MakeBool(in.Op == token.EQL), in.Type())
			}
			// an error made by fmt.Errorf / errors.New is never nil
			isMadeErr := func(t *Term) bool {
				return t.Op == "call" && (strings.HasPrefix(t.Aux, "fmt.Errorf") || strings.HasPrefix(t.Aux, "errors.New"))
			}
			if isMadeErr(x) && isNilT(y) || isNilT(x) && isMadeErr(y) {
				return constTerm(constant.MakeBool(in.Op == token.NEQ), in.Type())
			}
			if _, isSig := in.X.Type().Underlying().(*types.Signature); isSig {
				switch {
				case isNilT(x) && isNilT(y):
					return constTerm(constant.MakeBool(in.Op == token.EQL), in.Type())
				case isFn(x) && isNilT(y), isNilT(x) && isFn(y):
					return constTerm(constant.MakeBool(in.Op == token.NEQ), in.Type())
				}
			}
		}
		if in.Op == token.EQL || in.Op == token.NEQ {
			if t := extAsSuffix(x, y, in.Type()); t != nil {
				if in.Op == token.NEQ {
					return &Term{Op: "unop", Aux: "!", Args: []*Term{t}, Type: in.Type()}
				}
				return t
			}
		}
		return &Term{Op: "binop", Aux: in.Op.String(), Args: []*Term{x, y}, Type: in.Type()}
	case *ssa.Convert:
		x := val(in.X)
		if c, ok := x.IsConst(); ok {
			if b, ok := in.Type().Underlying().(*types.Basic); ok && b.Info()&types.IsInteger != 0 && c.Kind() == constant.Int {
				return constTerm(c, in.Type())
			}
		}
		return &Term{Op: "convert", Args: []*Term{x}, Type: in.Type()}
	case *ssa.ChangeType:
		// between an aggregate and a named type with the same representation ([2]byte <-> playedNote): the same value
		if x := val(in.X); x.Op == "array" || x.Op == "struct" {
			return x
		}
		// a constant converted to a named type with the same representation (doubleAction(1)): the same constant
		if x := val(in.X); x.Op == "const" && x.Cval != nil {
			if _, isBasic := in.Type().Underlying().(*types.Basic); isBasic {
				return constTerm(x.Cval, in.Type())
			}
		}
		return &Term{Op: "convert", Args: []*Term{val(in.X)}, Type: in.Type()}
	case *ssa.MakeInterface:
		return &Term{Op: "iface", Args: []*Term{val(in.X)}, Type: in.Type()}
	case *ssa.ChangeInterface:
		return val(in.X)
	case *ssa.SliceToArrayPointer:
		return &Term{Op: "convert", Args: []*Term{val(in.X)}, Type: in.Type()}
	case *ssa.TypeAssert:
		return &Term{Op: "typeassert", Aux: se.unique(st), Args: []*Term{val(in.X)}, Type: in.Type()}
	case *ssa.Lookup:
		m, k := val(in.X), val(in.Index)
		ver := ""
		if !pristine {
			if e := st.mepoch[in.X.Type().String()] + st.havoc; e > 0 {
				ver = fmt.Sprintf("%d", e)
			}
		}
		op := "lookup"
		if in.CommaOk {
			op = "lookup2"
		}
		return &Term{Op: op, Args: []*Term{m, k}, Aux: ver, Type: in.Type()}
	case *ssa.Extract:
		t := val(in.Tuple)
		switch t.Op {
		case "tuple":
			if in.Index < len(t.Args) {
				return t.Args[in.Index]
			}
		case "lookup2":
			if in.Index == 0 {
				return &Term{Op: "lookup", Args: t.Args, Aux: t.Aux, Type: in.Type()}
			}
			return &Term{Op: "lookupok", Args: t.Args, Aux: t.Aux, Type: in.Type()}
		}
		return &Term{Op: "extract", Args: []*Term{t}, Aux: fmt.Sprintf("%d", in.Index), Type: in.Type()}
	case *ssa.MakeMap:
		return &Term{Op: "makemap", Aux: fr.fn.Name() + "." + in.Name() + "'" + se.unique(st), Type: in.Type()}
	case *ssa.MakeChan:
		return &Term{Op: "makechan", Aux: fr.fn.Name() + "." + in.Name() + "'" + se.unique(st), Args: []*Term{val(in.Size)}, Type: in.Type()}
	case *ssa.MakeSlice:
		return &Term{Op: "makeslice", Aux: fr.fn.Name() + "." + in.Name() + "'" + se.unique(st), Args: []*Term{val(in.Len)}, Type: in.Type()}
	case *ssa.MakeClosure:
		var b []*Term
		for _, x := range in.Bindings {
			b = append(b, val(x))
		}
		fn := in.Fn.(*ssa.Function)
		se.noteFn(fn)
		return &Term{Op: "closure", Aux: fn.String(), Args: b, Type: in.Type(), Obj: fn.Object()}
	case *ssa.Slice:
		if x := val(in.X); x.Op == "alloc" && !pristine && in.Max == nil && (in.Low == nil && in.High == nil || sliceOnlyRead(in)) {
			if at, ok := deref(in.X.Type()).Underlying().(*types.Array); ok {
				if v := st.load(x, at); v.Op == "array" {
					// constant bounds (on this path) select the elements: events[:count] with count known
					lo, hi, okB := int64(0), int64(len(v.Args)), true
					if in.Low != nil {
						if k, isK := val(in.Low).StripConv().IsIntConst(); isK {
							lo = k
						} else {
							okB = false
						}
					}
					if in.High != nil {
						if k, isK := val(in.High).StripConv().IsIntConst(); isK {
							hi = k
						} else {
							okB = false
						}
					}
					if okB && 0 <= lo && lo <= hi && hi <= int64(len(v.Args)) {
						return &Term{Op: "slicelit", Args: v.Args[lo:hi], Type: in.Type()}
					}
				}
			}
		}
		args := []*Term{val(in.X)}
		for _, o := range []ssa.Value{in.Low, in.High, in.Max} {
			if o != nil {
				args = append(args, val(o))
			} else {
				args = append(args, &Term{Op: "const", Aux: "_"})
			}
		}
		return &Term{Op: "slice", Args: args, Type: in.Type()}
	case *ssa.Range:
		t := &Term{Op: "range", Aux: se.unique(st), Args: []*Term{val(in.X)}, Type: in.Type()}
		if !pristine {
			st.effects = append(st.effects, Effect{Kind: "range", Instr: in, Fn: fr.fn, Args: []*Term{t.Args[0], t}, Depth: fr.depth, NAtoms: len(st.atoms)})
		}
		return t
	case *ssa.Next:
		t := &Term{Op: "next", Aux: se.unique(st), Args: []*Term{val(in.Iter)}, Type: in.Type()}
		if !pristine {
			st.effects = append(st.effects, Effect{Kind: "next", Instr: in, Fn: fr.fn, Args: []*Term{t.Args[0], t}, Depth: fr.depth, NAtoms: len(st.atoms)})
		}
		return t
	case *ssa.Phi:
		name := fmt.Sprintf("%s.%s", fr.fn.Name(), in.Name())
		if pristine && se.phiExpand && !se.phiStack[in] && len(se.phiStack) < 8 {
			if se.phiStack == nil {
				se.phiStack = map[*ssa.Phi]bool{}
			}
			se.phiStack[in] = true
			t := &Term{Op: "phi", Aux: name, Type: in.Type()}
			for _, e := range in.Edges {
				t.Args = append(t.Args, se.val(st, fr, e))
			}
			delete(se.phiStack, in)
			return t
		}
		return &Term{Op: "phi", Aux: name, Type: in.Type()}
	case *ssa.Call:
		// only reached in pristine mode (value defined before a region start)
		var args []*Term
		for _, a := range in.Call.Args {
			args = append(args, val(a))
		}
		name := "dyn"
		if f := in.Call.StaticCallee(); f != nil {
			name, args = canonicalCall(f, args)
		} else if in.Call.IsInvoke() {
			name = "." + in.Call.Method.Name()
			args = append([]*Term{val(in.Call.Value)}, args...)
		} else if b, ok := in.Call.Value.(*ssa.Builtin); ok {
			name = "builtin." + b.Name()
			if (b.Name() == "len" || b.Name() == "cap") && len(args) == 1 {
				return &Term{Op: b.Name(), Args: args, Type: in.Type()}
			}
		}
		if f := in.Call.StaticCallee(); f == nil || !isPureExternal(f) {
			name += "@" + in.Name()
		}
		return &Term{Op: "call", Aux: name, Args: args, Type: in.Type()}
	case *ssa.Select:
		return &Term{Op: "select", Aux: "pre." + in.Name(), Type: in.Type()}
	}
	return &Term{Op: "unknown", Aux: fmt.Sprintf("%T.%s", v, v.Name()), Type: v.Type()}
}

func deref(t types.Type) types.Type {
	if p, ok := t.Underlying().(*types.Pointer); ok {
		return p.Elem()
	}
	return t
}

func foldBin(op token.Token, x, y constant.Value, typ types.Type) (*Term, bool) {
	defer func() { recover() }()
	switch op {
	case token.EQL, token.NEQ, token.LSS, token.LEQ, token.GTR, token.GEQ:
		if x.Kind() != y.Kind() && !(isNum(x) && isNum(y)) {
			return nil, false
		}
		return constTerm(constant.MakeBool(constant.Compare(x, op, y)), typ), true
	case token.ADD, token.SUB, token.MUL, token.AND, token.OR, token.XOR:
		if x.Kind() == constant.Int && y.Kind() == constant.Int {
			r := constant.BinaryOp(x, op, y)
			if b, ok := typ.Underlying().(*types.Basic); ok && fitsIn(r, b) {
				return constTerm(r, typ), true
			}
		}
		if op == token.ADD && x.Kind() == constant.String && y.Kind() == constant.String {
			return constTerm(constant.BinaryOp(x, op, y), typ), true
		}
	}
	return nil, false
}

func isNum(v constant.Value) bool { return v.Kind() == constant.Int || v.Kind() == constant.Float }

func fitsIn(v constant.Value, b *types.Basic) bool {
	n, ok := constant.Int64Val(v)
	if !ok {
		return false
	}
	switch b.Kind() {
	case types.Int8:
		return n >= -128 && n <= 127
	case types.Uint8:
		return n >= 0 && n <= 255
	case types.Int16:
		return n >= -32768 && n <= 32767
	case types.Uint16:
		return n >= 0 && n <= 65535
	case types.Int32:
		return n >= -(1<<31) && n < (1<<31)
	case types.Uint32:
		return n >= 0 && n < (1<<32)
	case types.Int, types.Int64, types.UntypedInt:
		return true
	case types.Uint, types.Uint64, types.Uintptr:
		return n >= 0
	}
	return false
}

// ---- calls ------------------------------------------------------------------------------

func (se *symExec) callArgs(st *state, fr *frame, c *ssa.CallCommon) ([]*Term, *Term) {
	var args []*Term
	var fnv *Term
	if c.IsInvoke() {
		args = append(args, se.val(st, fr, c.Value))
	} else {
		fnv = se.val(st, fr, c.Value)
		if c.StaticCallee() == nil {
			args = append(args, fnv)
		}
	}
	for _, a := range c.Args {
		args = append(args, se.val(st, fr, a))
	}
	return args, fnv
}

var purePkgs = map[string]bool{"strings": true, "math": true, "strconv": true, "errors": true, "bytes": true, "path": true, "unicode": true, "sort": false}

func isPureExternal(fn *ssa.Function) bool {
	if fn == nil || fn.Pkg == nil {
		if fn != nil && fn.Object() != nil && fn.Object().Pkg() != nil {
			return purePkgs[fn.Object().Pkg().Path()]
		}
		return false
	}
	p := fn.Pkg.Pkg.Path()
	if purePkgs[p] {
		return true
	}
	if p == "fmt" {
		switch fn.Name() {
		case "Sprintf", "Sprint", "Errorf", "Sprintln":
			return true
		}
	}
	if p == "os" && (fn.Name() == "IsNotExist" || fn.Name() == "IsExist") {
		return true
	}
	return false
}

func (se *symExec) shouldInline(st *state, callee *ssa.Function, depth int) bool {
	if callee == nil || callee.Blocks == nil {
		return false
	}
	if callee.Synthetic != "" && strings.Contains(callee.Synthetic, "wrapper") || strings.HasSuffix(callee.Name(), "$bound") || strings.HasSuffix(callee.Name(), "$thunk") {
		return true
	}
	if !se.cfg.Prog.OwnedFunc(callee) {
		return false
	}
	if se.cfg.NoInline[callee] || callee.Origin() != nil && se.cfg.NoInline[callee.Origin()] {
		return false
	}
	if se.cfg.OnlyInline != nil && !se.cfg.OnlyInline[callee] && !(callee.Origin() != nil && se.cfg.OnlyInline[callee.Origin()]) {
		return false // (an instantiation of a generic helper counts as that helper)
	}
	if depth >= se.cfg.MaxDepth {
		return false
	}
	rec := 0
	for _, f := range st.frames {
		if f.fn == callee {
			rec++
		}
	}
	return rec <= se.cfg.MaxRecursion
}

// call executes a call instruction; returns true if a frame was pushed.
func (se *symExec) call(st *state, fr *frame, in *ssa.Call) bool {
	c := &in.Call
	// builtins
	if b, ok := c.Value.(*ssa.Builtin); ok && !c.IsInvoke() {
		var args []*Term
		for _, a := range c.Args {
			args = append(args, se.val(st, fr, a))
		}
		switch b.Name() {
		case "delete":
			st.mepoch[c.Args[0].Type().String()]++
			st.effects = append(st.effects, Effect{Kind: "mapdel", Instr: in, Fn: fr.fn, Args: args, Depth: fr.depth, NAtoms: len(st.atoms)})
		case "close":
			st.effects = append(st.effects, Effect{Kind: "close", Instr: in, Fn: fr.fn, Args: args, Depth: fr.depth, NAtoms: len(st.atoms)})
		case "len", "cap":
			if len(args) == 1 {
				if s, ok := args[0].IsStringConst(); ok && b.Name() == "len" {
					fr.vals[in] = intConst(int64(len(s)))
					return false
				}
				// a slice literal built on this path, or the nil slice
				if args[0].Op == "slicelit" && b.Name() == "len" {
					fr.vals[in] = intConst(int64(len(args[0].Args)))
					return false
				}
				// make([]T, n) with n known on this path (no append can have changed it: the term is still the make)
				if args[0].Op == "makeslice" && len(args[0].Args) == 1 && b.Name() == "len" {
					if n, ok := args[0].Args[0].IsIntConst(); ok {
						fr.vals[in] = intConst(n)
						return false
					}
				}
				if _, isSlice := c.Args[0].Type().Underlying().(*types.Slice); isSlice && args[0].Op == "const" && args[0].Cval == nil {
					fr.vals[in] = intConst(0)
					return false
				}
			}
			if len(args) == 1 && args[0].Op == "append" && b.Name() == "len" {
				if n := knownLen(args[0]); n >= 0 {
					fr.vals[in] = intConst(n)
					return false
				}
			}
			fr.vals[in] = &Term{Op: b.Name(), Args: args, Type: in.Type(), Aux: lenVersion(st, c.Args[0])}
			return false
		case "append":
			fr.vals[in] = &Term{Op: "append", Args: args, Type: in.Type()}
			return false
		}
		fr.vals[in] = &Term{Op: "call", Aux: "builtin." + b.Name() + "#" + se.unique(st), Args: args, Type: in.Type()}
		return false
	}
	args, fnv := se.callArgs(st, fr, c)
	callee := c.StaticCallee()
	var bindings []*Term
	if callee == nil && fnv != nil {
		switch fnv.Op {
		case "closure":
			// find the function by name among anon funcs of owned functions
			callee = se.findFunc(fnv.Aux)
			bindings = fnv.Args
			args = args[1:]
		case "func":
			callee = se.findFunc(fnv.Aux)
			if callee != nil {
				args = args[1:]
			}
		}
	} else if callee != nil && fnv != nil && fnv.Op == "closure" {
		bindings = fnv.Args
	}
	if mc, ok := c.Value.(*ssa.MakeClosure); ok && bindings == nil {
		for _, x := range mc.Bindings {
			bindings = append(bindings, se.val(st, fr, x))
		}
	}
	if se.cfg.CallHook != nil && callee != nil {
		if r := se.cfg.CallHook(callee, args, st.load); r != nil {
			fr.vals[in] = r
			return false
		}
	}
	depth := fr.depth
	transparent := callee != nil && (strings.HasSuffix(callee.Name(), "$bound") || strings.HasSuffix(callee.Name(), "$thunk") || (callee.Synthetic != "" && strings.Contains(callee.Synthetic, "wrapper")))
	if se.shouldInline(st, callee, depth) && len(callee.Params) == len(args) && len(callee.FreeVars) == len(bindings) {
		st.effects = append(st.effects, Effect{Kind: "call", Instr: in, Fn: fr.fn, Callee: callee, Args: args, Depth: fr.depth, NAtoms: len(st.atoms), Inlined: true})
		nf := &frame{fn: callee, vals: map[ssa.Value]*Term{}, visits: map[int]int{}, call: in, depth: depth + 1, block: callee.Blocks[0]}
		if transparent {
			nf.depth = depth
		}
		for i, p := range callee.Params {
			nf.vals[p] = args[i]
		}
		for i, fv := range callee.FreeVars {
			nf.vals[fv] = bindings[i]
		}
		st.frames = append(st.frames, nf)
		return true
	}
	e := Effect{Kind: "call", Instr: in, Fn: fr.fn, Callee: callee, Args: args, Depth: fr.depth, NAtoms: len(st.atoms)}
	if c.IsInvoke() {
		e.Method = c.Method.Name()
	}
	st.effects = append(st.effects, e)
	name := "dyn"
	pure := false
	if callee != nil {
		name, args = canonicalCall(callee, args)
		pure = isPureExternal(callee)
	} else if c.IsInvoke() {
		name = "." + c.Method.Name()
	}
	if !pure {
		name += "#" + se.unique(st)
	}
	fr.vals[in] = &Term{Op: "call", Aux: name, Args: args, Type: in.Type()}
	// memory effects of the callee
	switch {
	case callee != nil && !se.cfg.Prog.OwnedFunc(callee), c.IsInvoke():
		for _, a := range args {
			a = a.StripConv() // a pointer handed over inside an interface value (Unmarshal(data, &cfg)) is still that pointer
			switch a.Op {
			case "alloc", "fieldaddr", "indexaddr", "global":
				st.killUnder(a)
			}
		}
	case callee != nil && se.isInert(callee):
	case callee != nil:
		sum := se.summary(callee)
		if sum.unknown {
			st.havocAll()
		} else {
			for f := range sum.fields {
				st.fepoch[f]++
				for k, a := range st.memAddr {
					if lastField(a) == f {
						delete(st.mem, k)
						delete(st.memAddr, k)
					}
				}
			}
			for m := range sum.maps {
				st.mepoch[m]++
			}
		}
	default:
		st.havocAll()
	}
	return false
}

// modSummary: which struct fields and map types a function (transitively) may write.
type modSummary struct {
	fields  map[types.Object]bool
	maps    map[string]bool
	unknown bool
	done    bool
}

func (se *symExec) summary(fn *ssa.Function) *modSummary {
	if se.sums == nil {
		se.sums = map[*ssa.Function]*modSummary{}
	}
	if s, ok := se.sums[fn]; ok {
		if !s.done {
			return &modSummary{unknown: true}
		}
		return s
	}
	s := &modSummary{fields: map[types.Object]bool{}, maps: map[string]bool{}}
	se.sums[fn] = s
	if fn.Blocks == nil || !se.cfg.Prog.OwnedFunc(fn) {
		s.done = true
		return s // external: cannot write unexported state of the analysed structs except through pointer arguments (handled at the call)
	}
	for _, b := range fn.Blocks {
		for _, in := range b.Instrs {
			switch x := in.(type) {
			case *ssa.Store:
				if allocRooted(x.Addr) {
					continue
				}
				if f := fieldOfAddr(x.Addr); f != nil {
					s.fields[f] = true
				} else if _, ok := x.Addr.(*ssa.IndexAddr); ok {
					s.unknown = true
				} else {
					s.unknown = true
				}
			case *ssa.MapUpdate:
				s.maps[x.Map.Type().String()] = true
			case *ssa.Send, *ssa.Select:
			case ssa.CallInstruction:
				cc := x.Common()
				if bi, ok := cc.Value.(*ssa.Builtin); ok {
					if (bi.Name() == "delete" || bi.Name() == "clear") && len(cc.Args) > 0 {
						s.maps[cc.Args[0].Type().String()] = true
					}
					continue
				}
				if cc.IsInvoke() {
					continue
				}
				callee := cc.StaticCallee()
				if callee == nil {
					s.unknown = true
					continue
				}
				if callee == fn {
					continue // a direct recursive call writes nothing the function does not write itself
				}
				cs := se.summary(callee)
				if cs.unknown {
					s.unknown = true
				}
				for f := range cs.fields {
					s.fields[f] = true
				}
				for m := range cs.maps {
					s.maps[m] = true
				}
			}
		}
	}
	s.done = true
	return s
}

func lenVersion(st *state, v ssa.Value) string {
	if _, ok := v.Type().Underlying().(*types.Map); ok {
		if e := st.mepoch[v.Type().String()] + st.havoc; e > 0 {
			return fmt.Sprintf("%d", e)
		}
	}
	return ""
}

func (se *symExec) noteFn(f *ssa.Function) {
	if se.fnByName == nil {
		se.fnByName = map[string]*ssa.Function{}
	}
	se.fnByName[f.String()] = f
}

func (se *symExec) findFunc(name string) *ssa.Function {
	if f, ok := se.fnByName[name]; ok {
		return f
	}
	for _, f := range se.cfg.Prog.Funcs {
		if f.String() == name {
			return f
		}
	}
	return nil
}

// ---- inert functions and collapsible diamonds -------------------------------------------

var inertPkgs = map[string]bool{
	"fmt": true, "go.uber.org/zap": true, "go.uber.org/zap/zapcore": true, "strings": true, "strconv": true,
	"math": true, "errors": true, "sort": true,
}

func (se *symExec) isInert(fn *ssa.Function) bool {
	if fn == nil {
		return false
	}
	switch se.inert[fn] {
	case 1:
		return true
	case 2, 3:
		return false
	}
	se.inert[fn] = 3
	ok := se.computeInert(fn)
	if ok {
		se.inert[fn] = 1
	} else {
		se.inert[fn] = 2
	}
	return ok
}

func (se *symExec) computeInert(fn *ssa.Function) bool {
	if !se.cfg.Prog.OwnedFunc(fn) || fn.Blocks == nil {
		if fn.Signature.Recv() != nil && (fn.Name() == "String" || fn.Name() == "Error") {
			return true
		}
		if fn.Pkg != nil {
			return inertPkgs[fn.Pkg.Pkg.Path()]
		}
		if o := fn.Object(); o != nil && o.Pkg() != nil {
			return inertPkgs[o.Pkg().Path()]
		}
		return false
	}
	for _, b := range fn.Blocks {
		for _, in := range b.Instrs {
			if !se.inertInstr(in, nil) {
				return false
			}
		}
	}
	return true
}

// inertInstr: the instruction has no effect outside local scratch memory.
func (se *symExec) inertInstr(in ssa.Instruction, region map[*ssa.BasicBlock]bool) bool {
	switch x := in.(type) {
	case *ssa.Alloc, *ssa.FieldAddr, *ssa.IndexAddr, *ssa.Field, *ssa.Index, *ssa.BinOp, *ssa.Convert, *ssa.ChangeType,
		*ssa.MakeInterface, *ssa.ChangeInterface, *ssa.Slice, *ssa.Lookup, *ssa.Extract, *ssa.Phi, *ssa.Jump, *ssa.If,
		*ssa.MakeSlice, *ssa.DebugRef, *ssa.TypeAssert, *ssa.MakeMap:
		return true
	case *ssa.Return:
		return region == nil
	case *ssa.UnOp:
		return x.Op != token.ARROW
	case *ssa.Store:
		return allocRooted(x.Addr)
	case *ssa.Call:
		if x.Call.IsInvoke() {
			// Stringer / error methods on values used for logging only
			switch x.Call.Method.Name() {
			case "String", "Error":
				return true
			}
			// an interface the program implements with inert functions only (a narrow interface put in front of the logger)
			ts := se.cfg.Prog.InvokeTargets(x)
			if len(ts) == 0 {
				return false
			}
			for _, t := range ts {
				if !se.isInert(t) {
					return false
				}
			}
			return true
		}
		if b, ok := x.Call.Value.(*ssa.Builtin); ok {
			switch b.Name() {
			case "len", "cap", "append", "copy", "min", "max":
				return true
			}
			return false
		}
		if callee := x.Call.StaticCallee(); callee != nil && callee == in.Parent() {
			return true // a direct recursive call has the effects of the function itself
		}
		return se.isInert(x.Call.StaticCallee())
	}
	return false
}

// allocRoot: the local variable the address is a component of (nil: not rooted in a local).
func allocRoot(v ssa.Value) *ssa.Alloc {
	for {
		switch x := v.(type) {
		case *ssa.Alloc:
			return x
		case *ssa.FieldAddr:
			v = x.X
		case *ssa.IndexAddr:
			v = x.X
		case *ssa.Slice:
			v = x.X
		default:
			return nil
		}
	}
}

func isFloatType(t types.Type) bool {
	b, ok := t.Underlying().(*types.Basic)
	return ok && b.Info()&types.IsFloat != 0
}

func allocRooted(v ssa.Value) bool {
	for {
		switch x := v.(type) {
		case *ssa.Alloc, *ssa.MakeSlice:
			// (a slice made in this function is as fresh as a local variable: filling it changes nothing that existed before)
			return true
		case *ssa.FieldAddr:
			v = x.X
		case *ssa.IndexAddr:
			v = x.X
		case *ssa.Slice:
			v = x.X
		default:
			return false
		}
	}
}

func (se *symExec) postdoms(fn *ssa.Function) map[*ssa.BasicBlock]*ssa.BasicBlock {
	if m, ok := se.pdom[fn]; ok {
		return m
	}
	m := ipostdom(fn)
	se.pdom[fn] = m
	return m
}

// ipostdom computes immediate post-dominators (nil = virtual exit).
func ipostdom(fn *ssa.Function) map[*ssa.BasicBlock]*ssa.BasicBlock {
	n := len(fn.Blocks)
	// pd[i] = set of blocks post-dominating i (as bitset over n+1, index n = exit)
	full := make([]bool, n+1)
	for i := range full {
		full[i] = true
	}
	pd := make([][]bool, n)
	for i := range pd {
		pd[i] = append([]bool(nil), full...)
	}
	changed := true
	for changed {
		changed = false
		for i := n - 1; i >= 0; i-- {
			b := fn.Blocks[i]
			var nw []bool
			if len(b.Succs) == 0 {
				nw = make([]bool, n+1)
				nw[n] = true
			} else {
				nw = append([]bool(nil), full...)
				for _, s := range b.Succs {
					for k := range nw {
						nw[k] = nw[k] && pd[s.Index][k]
					}
				}
			}
			nw[i] = true
			for k := range nw {
				if nw[k] != pd[i][k] {
					changed = true
				}
			}
			pd[i] = nw
		}
	}
	res := map[*ssa.BasicBlock]*ssa.BasicBlock{}
	for i := 0; i < n; i++ {
		// immediate: the strict post-dominator that is post-dominated by all other strict post-dominators
		var cands []int
		for k := 0; k < n; k++ {
			if k != i && pd[i][k] {
				cands = append(cands, k)
			}
		}
		var best *ssa.BasicBlock
		for _, c := range cands {
			ok := true
			for _, o := range cands {
				if o != c && !pd[c][o] {
					ok = false
					break
				}
			}
			if ok {
				best = fn.Blocks[c]
				break
			}
		}
		res[fn.Blocks[i]] = best
	}
	return res
}

func (se *symExec) collapsible(b *ssa.BasicBlock) *collapseInfo {
	if ci, ok := se.colla[b]; ok {
		return ci
	}
	ci := &collapseInfo{}
	se.colla[b] = ci
	join := se.postdoms(b.Parent())[b]
	if join == nil {
		return ci
	}
	region := map[*ssa.BasicBlock]bool{}
	var stack []*ssa.BasicBlock
	for _, s := range b.Succs {
		if s != join {
			stack = append(stack, s)
		}
	}
	for len(stack) > 0 {
		x := stack[len(stack)-1]
		stack = stack[:len(stack)-1]
		if region[x] || x == join {
			continue
		}
		if x == b {
			return ci // loop back to the branch
		}
		region[x] = true
		for _, s := range x.Succs {
			stack = append(stack, s)
		}
	}
	if len(region) == 0 {
		return ci
	}
	for x := range region {
		for _, in := range x.Instrs {
			if !se.inertInstr(in, region) {
				return ci
			}
			// a store into a local variable that lives outside the diamond is what the code after the join reads
			// (`if negative { driven, resting = resting, driven }`): not scratch memory of the diamond
			if st, ok := in.(*ssa.Store); ok {
				if root := allocRoot(st.Addr); root != nil && !region[root.Block()] {
					return ci
				}
			}
		}
	}
	if se.cfg.CollapsePure && se.cfg.KeepDiamonds[b] {
		return ci
	}
	if se.cfg.CollapsePure {
		// short-circuit conditions (boolean phis at the join) carry path conditions: keep them
		for _, in := range join.Instrs {
			phi, ok := in.(*ssa.Phi)
			if !ok {
				break
			}
			if b, isB := phi.Type().Underlying().(*types.Basic); isB && b.Info()&types.IsBoolean != 0 {
				allConst := true
				for _, e := range phi.Edges {
					if _, isC := e.(*ssa.Const); !isC {
						allConst = false
					}
				}
				if !allConst {
					return ci
				}
			}
			// a classification result (a named integer type: an enum of zones, kinds, states) stands for the conditions it
			// was computed from: keep the paths apart
			if n, isNamed := phi.Type().(*types.Named); isNamed {
				if b, isB := n.Underlying().(*types.Basic); isB && b.Info()&types.IsInteger != 0 {
					return ci
				}
			}
		}
		// values computed inside may only leave through phis of the join, which become opaque
		for x := range region {
			for _, in := range x.Instrs {
				if v, ok := in.(ssa.Value); ok {
					if refs := v.Referrers(); refs != nil {
						for _, r := range *refs {
							if region[r.Block()] {
								continue
							}
							if _, isPhi := r.(*ssa.Phi); isPhi && r.Block() == join {
								continue
							}
							return ci
						}
					}
				}
			}
		}
		ci.ok, ci.join, ci.pred = true, join, nil
		return ci
	}
	// values defined in the region must not be used outside it
	for x := range region {
		for _, in := range x.Instrs {
			if v, ok := in.(ssa.Value); ok {
				if refs := v.Referrers(); refs != nil {
					for _, r := range *refs {
						if !region[r.Block()] {
							return ci
						}
					}
				}
			}
		}
	}
	// phis at the join must not distinguish region edges
	var pred *ssa.BasicBlock
	for i, p := range join.Preds {
		if region[p] || p == b {
			if pred == nil {
				pred = p
			}
			_ = i
		}
	}
	for _, in := range join.Instrs {
		phi, ok := in.(*ssa.Phi)
		if !ok {
			break
		}
		var first ssa.Value
		for i, p := range join.Preds {
			if region[p] || p == b {
				if first == nil {
					first = phi.Edges[i]
				} else if phi.Edges[i] != first {
					return ci
				}
			}
		}
	}
	if pred == nil {
		return ci
	}
	ci.ok, ci.join, ci.pred = true, join, pred
	return ci
}

// ---- helpers for rules --------------------------------------------------------------------

// EffectsOf filters effects by kind.
func (p *Path) EffectsOf(kinds ...string) []Effect {
	var out []Effect
	for _, e := range p.Effects {
		for _, k := range kinds {
			if e.Kind == k {
				out = append(out, e)
			}
		}
	}
	return out
}

// Calls returns call effects whose static callee is fn.
func (p *Path) Calls(fn *ssa.Function) []Effect {
	var out []Effect
	for _, e := range p.Effects {
		if e.Kind == "call" && e.Callee == fn {
			out = append(out, e)
		}
	}
	return out
}

// HasAtom reports whether the path carries an atom whose condition string is s with the given polarity.
func (p *Path) HasAtom(pred func(Atom) bool) bool {
	for _, a := range p.Atoms {
		if pred(a) {
			return true
		}
	}
	return false
}

// dedupe paths by a projection
func dedupe(paths []*Path, proj func(*Path) string) map[string][]*Path {
	out := map[string][]*Path{}
	for _, p := range paths {
		k := proj(p)
		out[k] = append(out[k], p)
	}
	return out
}

func sortedKeys[V any](m map[string]V) []string {
	var ks []string
	for k := range m {
		ks = append(ks, k)
	}
	sort.Strings(ks)
	return ks
}

// canonicalCall: library shorthands are named as the call they are defined to be, so that rules recognise one spelling:
// os.Open(name) is os.OpenFile(name, O_RDONLY, 0).
func canonicalCall(callee *ssa.Function, args []*Term) (string, []*Term) {
	if callee.Pkg != nil && callee.Pkg.Pkg.Path() == "os" && callee.Name() == "Open" && callee.Signature.Recv() == nil && len(args) == 1 {
		zero := func() *Term { return constTerm(constant.MakeInt64(0), types.Typ[types.Int]) }
		return "os.OpenFile", []*Term{args[0], zero(), zero()}
	}
	// templateConfig.ReadFile(name) on an embed.FS is fs.ReadFile(templateConfig, name)
	if callee.Name() == "ReadFile" && callee.Signature.Recv() != nil && len(args) == 2 {
		if n, ok := deref(callee.Signature.Recv().Type()).(*types.Named); ok && n.Obj().Pkg() != nil && n.Obj().Pkg().Path() == "embed" && n.Obj().Name() == "FS" {
			return "io/fs.ReadFile", args
		}
	}
	// fmt.Sprintf with constant strings among its operands: they are written into the format
	// (Sprintf("%s/%d%s", a, b, "_neg") is Sprintf("%s/%d_neg", a, b))
	if callee.Pkg != nil && callee.Pkg.Pkg.Path() == "fmt" && callee.Name() == "Sprintf" && len(args) == 2 && args[1].Op == "slicelit" {
		if f, ok := args[0].IsStringConst(); ok {
			if nf, nops, changed := inlineConstOperands(f, args[1].Args); changed {
				return callee.String(), []*Term{constTerm(constant.MakeString(nf), args[0].Type), {Op: "slicelit", Args: nops, Type: args[1].Type}}
			}
		}
	}
	return callee.String(), args
}

// inlineConstOperands: plain %s / %v verbs whose operand is a constant string are replaced by that string.
func inlineConstOperands(format string, ops []*Term) (string, []*Term, bool) {
	var out strings.Builder
	var rest []*Term
	changed := false
	oi := 0
	for i := 0; i < len(format); i++ {
		ch := format[i]
		if ch != '%' {
			out.WriteByte(ch)
			continue
		}
		if i+1 >= len(format) {
			return format, ops, false
		}
		if format[i+1] == '%' {
			out.WriteString("%%")
			i++
			continue
		}
		j := i + 1
		for j < len(format) && strings.IndexByte("+-# 0123456789.", format[j]) >= 0 {
			j++
		}
		if j >= len(format) || format[j] == '*' || format[j] == '[' || oi >= len(ops) {
			return format, ops, false // explicit operand indexes, * widths, missing operands: left alone
		}
		op := ops[oi]
		oi++
		if j == i+1 && (format[j] == 's' || format[j] == 'v') && op.Op == "iface" && len(op.Args) == 1 {
			if k, ok := op.Args[0].IsStringConst(); ok {
				if b, isB := op.Args[0].Type.Underlying().(*types.Basic); isB && b.Info()&types.IsString != 0 {
					out.WriteString(strings.ReplaceAll(k, "%", "%%"))
					changed = true
					i = j
					continue
				}
			}
		}
		out.WriteString(format[i : j+1])
		rest = append(rest, op)
		i = j
	}
	if oi != len(ops) {
		return format, ops, false
	}
	return out.String(), rest, changed
}

// knownLen: the length of a slice value built on this path, -1 when it is not known.
func knownLen(t *Term) int64 {
	switch t.Op {
	case "makeslice":
		if len(t.Args) == 1 {
			if n, ok := t.Args[0].IsIntConst(); ok {
				return n
			}
		}
	case "slicelit":
		return int64(len(t.Args))
	case "const":
		if t.Cval == nil {
			if _, isSlice := t.Type.Underlying().(*types.Slice); isSlice {
				return 0
			}
		}
	case "append":
		if len(t.Args) == 2 && t.Args[1].Op == "slicelit" {
			if b := knownLen(t.Args[0]); b >= 0 {
				return b + int64(len(t.Args[1].Args))
			}
		}
	}
	return -1
}

// appendElem: element n of append(base, e0, e1, ...) when the length of base is known; nil when it cannot be told.
func appendElem(t *Term, n int64) *Term {
	if t.Op != "append" || len(t.Args) != 2 || t.Args[1].Op != "slicelit" || n < 0 {
		return nil
	}
	b := knownLen(t.Args[0])
	if b < 0 {
		return nil
	}
	if n >= b {
		if int(n-b) < len(t.Args[1].Args) {
			return t.Args[1].Args[n-b]
		}
		return nil
	}
	switch t.Args[0].Op {
	case "append":
		return appendElem(t.Args[0], n)
	case "slicelit":
		return t.Args[0].Args[n]
	}
	return nil
}

// extAsSuffix: filepath.Ext(name) == ".ext" (or path.Ext) says exactly what strings.HasSuffix(name, ".ext") says when the
// constant is a dot followed by characters that are neither a dot nor a separator: the extension starts at the last dot of
// the last path element. The comparison is given the form of the suffix test, so that rules know one spelling.
func extAsSuffix(x, y *Term, typ types.Type) *Term {
	if _, isK := x.IsStringConst(); isK {
		x, y = y, x
	}
	k, isK := y.IsStringConst()
	if !isK || len(k) < 2 || k[0] != '.' || strings.ContainsAny(k[1:], "./\\") {
		return nil
	}
	if x.Op != "call" || len(x.Args) != 1 || !(strings.HasPrefix(x.Aux, "path/filepath.Ext") || strings.HasPrefix(x.Aux, "path.Ext")) {
		return nil
	}
	return &Term{Op: "call", Aux: "strings.HasSuffix", Args: []*Term{x.Args[0], y}, Type: typ}
}

// componentOf: a is the address of a field / element (at any depth) of the variable whose address prints as key. A whole
// assignment `d = r` replaces every component recorded for d.
func componentOf(a *Term, key string) bool {
	for t := a; t != nil && (t.Op == "fieldaddr" || t.Op == "indexaddr") && len(t.Args) > 0; {
		t = t.Args[0]
		if t.String() == key {
			return true
		}
	}
	return false
}

// sliceOnlyRead: the slice value is used for nothing but reading its elements and its length (iteration, indexing,
// len): then it can be represented by a snapshot of the array's elements. A slice that is written through
// (`ev := make(Event, 3); ev[0] = ...`) keeps its identity instead.
func sliceOnlyRead(sl *ssa.Slice) bool {
	refs := sl.Referrers()
	if refs == nil {
		return false
	}
	for _, r := range *refs {
		switch x := r.(type) {
		case *ssa.IndexAddr:
			if x.Referrers() == nil {
				return false
			}
			for _, rr := range *x.Referrers() {
				if u, ok := rr.(*ssa.UnOp); !ok || u.Op != token.MUL {
					return false
				}
			}
		case *ssa.Range, *ssa.DebugRef:
		case *ssa.Call:
			b, ok := x.Call.Value.(*ssa.Builtin)
			if !ok || (b.Name() != "len" && b.Name() != "cap") {
				return false
			}
		default:
			return false
		}
	}
	return true
}
