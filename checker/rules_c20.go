package main

import (
	"fmt"
	"go/constant"
	"go/token"
	"go/types"
	"sort"
	"strings"

	"golang.org/x/tools/go/ssa"
)

func init() {
	registry["C20"] = checkC20
}

func checkC20(c *Ctx) {
	norm := c.P.Func(pkgInput, "", "Normalize")
	ddt := c.P.Func(pkgInput, "", "DetermineDeviceType")
	uuid := c.P.Func(pkgInput, "DeviceInfo", "PhysicalUUID")
	if !c.Require(norm != nil && ddt != nil && uuid != nil, "R20.0", "anchor:input.Normalize", "Normalize / DetermineDeviceType / DeviceInfo.PhysicalUUID not found") {
		return
	}
	for _, f := range []*ssa.Function{norm, ddt, uuid} {
		c.Fn(shortFn(f))
	}
	ruleGroupingKey(c, norm, uuid)
	ruleEveryHandlerOnce(c, norm, ddt)
	rulePermutationInsensitive(c)
	ruleTypePrecedence(c, ddt)
	hroots := []*ssa.Function{norm, ddt, uuid}
	if ht := c.P.Func(pkgInput, "DeviceInfo", "HandlerType"); ht != nil {
		hroots = append(hroots, ht)
	}
	ruleNoHiddenState(c, hroots)
	ruleGroupOrderFixed(c, norm)
	c.MinCount("R20.1", 2)
	c.MinCount("R20.2", 3)
	c.MinCount("R20.4", 2)
	c.MinCount("R20.5", 1)
	c.DecidedClause("handlers are grouped by a key that depends on the physical location only; every discovered handler is appended exactly once to its group (no filter, no overwrite), every handler of a group becomes a handler of the device and takes part in the type decision, one device per group; the classification functions use their slice arguments only through len() and whole-slice iteration (no element is selected by position), and the type precedence is joystick, then standard keyboard, then not playable")
	c.DecidedClause("what a device takes from its handlers by position (ID) or by a first-wins scan (name, uniq) is taken after the group was sorted by a key that reads those fields: it does not depend on the discovery order")
}

// ruleGroupingKey: R20.1.
func ruleGroupingKey(c *Ctx, norm, uuid *ssa.Function) {
	paths, err := Enumerate(uuid, SymConfig{Prog: c.P, MaxDepth: 1, Collapse: true})
	key := "input.DeviceInfo.PhysicalUUID/depends-on-Phys-only"
	pos := c.P.Pos(uuid.Pos())
	if err != nil || len(paths) != 1 || len(paths[0].Ret) != 1 {
		c.Undec("R20.1", key, pos, "not a single straight-line function")
	} else {
		c.Paths++
		fields := paths[0].Ret[0].FieldsRead()
		var names []string
		for f := range fields {
			names = append(names, f.Name())
		}
		// ... and it is the location itself, not a function of it: a prefix or a normalised form puts handlers with different
		// locations into one group ("exactly when they report the same physical location")
		whole := false
		if r := paths[0].Ret[0].StripConv(); (r.Op == "field" || r.Op == "load") && strings.HasSuffix(r.String(), ".Phys") {
			whole = true
		}
		switch {
		case !(len(names) == 1 && names[0] == "Phys"):
			c.Bad("R20.1", key, pos, fmt.Sprintf("the grouping identifier reads %v, it must depend on the physical location (Phys) only", names))
		case !whole:
			c.Bad("R20.1", key, pos, "the grouping identifier is computed from Phys ("+truncate(paths[0].Ret[0].String(), 100)+") instead of being Phys itself: handlers whose locations differ can get the same identifier and are merged into one device")
		default:
			c.OK("R20.1", key, pos, "result = PhysicalID(d.Phys)")
		}
	}
	// the map key in Normalize is PhysicalUUID of the element being appended
	n := 0
	var gkBlocks []*ssa.BasicBlock
	for _, h := range normHosts(c, norm, uuid) {
		gkBlocks = append(gkBlocks, h.Blocks...)
	}
	for _, b := range gkBlocks {
		for _, in := range b.Instrs {
			mu, ok := in.(*ssa.MapUpdate)
			if !ok {
				continue
			}
			mt, ok := mu.Map.Type().Underlying().(*types.Map)
			if !ok {
				continue
			}
			if nk, ok := mt.Key().(*types.Named); !ok || nk.Obj().Name() != "PhysicalID" {
				continue
			}
			n++
			k := "input.Normalize/collection-key"
			call, isCall := mu.Key.(*ssa.Call)
			if !isCall || call.Call.StaticCallee() != uuid {
				c.Bad("R20.1", k, c.P.Pos(mu.Pos()), "handlers are grouped under a key that is not DeviceInfo.PhysicalUUID() (e.g. the device ID): handlers at the same physical location can end up in different devices")
				continue
			}
			c.OK("R20.1", k, c.P.Pos(mu.Pos()), "collection[di.PhysicalUUID()]")
		}
	}
	if n == 0 {
		c.Undec("R20.1", "input.Normalize/collection-key", c.P.Pos(norm.Pos()), "no map keyed by PhysicalID is filled in Normalize")
	}
}

// normHosts: Normalize and the functions of package input it calls that work on its behalf (a grouping stage, a stage that
// builds the handlers): not the classifiers and not the grouping identifier, which have rules of their own.
func normHosts(c *Ctx, norm *ssa.Function, not ...*ssa.Function) []*ssa.Function {
	out := []*ssa.Function{norm}
	skip := map[*ssa.Function]bool{norm: true}
	for _, f := range not {
		skip[f] = true
	}
	for _, b := range norm.Blocks {
		for _, in := range b.Instrs {
			ci, ok := in.(ssa.CallInstruction)
			if !ok {
				continue
			}
			callee := ci.Common().StaticCallee()
			if callee == nil || skip[callee] || len(callee.Blocks) == 0 || funcPkgPath(callee) != pkgInput || callee.Signature.Recv() != nil {
				continue
			}
			if sites, all := staticCallSites(c.P, callee); !all || len(sites) != 1 {
				continue // shared with other code: not a stage of Normalize
			}
			skip[callee] = true
			out = append(out, callee)
		}
	}
	return out
}

// passedParam: host is Normalize itself, or a stage whose ranged parameter is, at its only call site, a parameter of Normalize.
func passedParam(c *Ctx, norm, host *ssa.Function, col ssa.Value) bool {
	prm, ok := col.(*ssa.Parameter)
	if !ok {
		return false
	}
	if host == norm {
		return true
	}
	sites, all := staticCallSites(c.P, host)
	idx := paramIndex(prm)
	if !all || len(sites) != 1 || idx < 0 || idx >= len(sites[0].Common().Args) {
		return false
	}
	_, isParam := sites[0].Common().Args[idx].(*ssa.Parameter)
	return isParam && sites[0].Parent() == norm
}

// loopOf returns the header of the innermost loop containing b (nil if none) and its latches.
func innermostLoop(fn *ssa.Function, b *ssa.BasicBlock) (*ssa.BasicBlock, []*ssa.BasicBlock) {
	var best *ssa.BasicBlock
	var bestBody map[*ssa.BasicBlock]bool
	var bestLatches []*ssa.BasicBlock
	for _, h := range fn.Blocks {
		var latches []*ssa.BasicBlock
		body := map[*ssa.BasicBlock]bool{}
		for _, p := range h.Preds {
			if h.Dominates(p) {
				latches = append(latches, p)
				for x := range loopBody(h, p) {
					body[x] = true
				}
			}
		}
		if len(latches) == 0 || !body[b] {
			continue
		}
		if best == nil || len(body) < len(bestBody) {
			best, bestBody, bestLatches = h, body, latches
		}
	}
	return best, bestLatches
}

// onEveryIteration: the instruction's block dominates every latch of its innermost loop.
func onEveryIteration(fn *ssa.Function, in ssa.Instruction) (bool, *ssa.BasicBlock) {
	h, latches := innermostLoop(fn, in.Block())
	if h == nil {
		return false, nil
	}
	for _, l := range latches {
		if !blockDominatesOrSame(in.Block(), l) {
			return false, h
		}
	}
	return true, h
}

// rangedCollection: what the loop with header h iterates over (slice value for index loops, map for Next loops).
func rangedCollection(h *ssa.BasicBlock) ssa.Value {
	for _, in := range h.Instrs {
		if nx, ok := in.(*ssa.Next); ok {
			if r, ok := nx.Iter.(*ssa.Range); ok {
				return r.X
			}
		}
	}
	// index loop: i+1 < len(x)
	for _, in := range h.Instrs {
		if bo, ok := in.(*ssa.BinOp); ok {
			if call, ok := bo.Y.(*ssa.Call); ok {
				if bi, ok := call.Call.Value.(*ssa.Builtin); ok && bi.Name() == "len" {
					return call.Call.Args[0]
				}
			}
		}
	}
	for _, p := range h.Preds {
		for _, in := range p.Instrs {
			if bo, ok := in.(*ssa.BinOp); ok {
				if call, ok := bo.Y.(*ssa.Call); ok {
					if bi, ok := call.Call.Value.(*ssa.Builtin); ok && bi.Name() == "len" {
						return call.Call.Args[0]
					}
				}
			}
		}
	}
	return nil
}

// ruleEveryHandlerOnce: R20.2 / R20.3.
func ruleEveryHandlerOnce(c *Ctx, norm, ddt *ssa.Function) {
	pos := c.P.Pos(norm.Pos())
	// (a) collection[key] = append(collection[key], di) on every iteration over the input parameter
	okCollect := false
	var hostBlocks []*ssa.BasicBlock
	for _, h := range normHosts(c, norm, ddt) {
		hostBlocks = append(hostBlocks, h.Blocks...)
	}
	for _, b := range hostBlocks {
		for _, in := range b.Instrs {
			mu, ok := in.(*ssa.MapUpdate)
			if !ok {
				continue
			}
			mt, ok := mu.Map.Type().Underlying().(*types.Map)
			if !ok {
				continue
			}
			if nk, ok := mt.Key().(*types.Named); !ok || nk.Obj().Name() != "PhysicalID" {
				continue
			}
			key := "input.Normalize/collect-every-handler"
			every, h := onEveryIteration(b.Parent(), mu)
			app, isApp := mu.Value.(*ssa.Call)
			isAppend := false
			if isApp {
				if bi, ok := app.Call.Value.(*ssa.Builtin); ok && bi.Name() == "append" {
					if lk, ok := app.Call.Args[0].(*ssa.Lookup); ok && lk.X == mu.Map && lk.Index == mu.Key {
						isAppend = true
					}
				}
			}
			overParam := false
			if h != nil {
				if col := rangedCollection(h); col != nil {
					overParam = passedParam(c, norm, b.Parent(), col)
				}
			}
			switch {
			case !isAppend:
				c.Bad("R20.2", key, c.P.Pos(mu.Pos()), "the group is overwritten instead of extended (collection[key] must be append(collection[key], di)): earlier handlers of the same location are lost")
			case !every:
				c.Bad("R20.2", key, c.P.Pos(mu.Pos()), "some iterations skip the append (filter/continue before it): a discovered handler ends up in no device")
			case !overParam:
				c.Bad("R20.2", key, c.P.Pos(mu.Pos()), "the collecting loop does not range over the whole list of discovered handlers")
			default:
				okCollect = true
				c.OK("R20.2", key, c.P.Pos(mu.Pos()), "append to its group on every iteration over the discovered handlers")
			}
		}
	}
	if !okCollect {
		c.Bad("R20.2", "input.Normalize/collect-every-handler/exists", pos, "no unconditional collecting append found")
	}
	// (b) appends to dev.Handlers, to the type-decision list, and to the result
	var handlersApp, typeListApp, resultApp *ssa.Call
	var ddtCall *ssa.Call
	for _, b := range hostBlocks {
		for _, in := range b.Instrs {
			call, ok := in.(*ssa.Call)
			if !ok {
				continue
			}
			if call.Call.StaticCallee() == ddt {
				ddtCall = call
			}
			bi, ok := call.Call.Value.(*ssa.Builtin)
			if !ok || bi.Name() != "append" {
				continue
			}
			st, ok := call.Type().Underlying().(*types.Slice)
			if !ok {
				continue
			}
			switch n, _ := st.Elem().(*types.Named); {
			case n != nil && n.Obj().Name() == "Handler":
				handlersApp = call
			case n != nil && n.Obj().Name() == "Device":
				resultApp = call
			case n != nil && n.Obj().Name() == "DeviceInfo":
				// not the collection append (that one is a MapUpdate value)
				isCollection := false
				for _, r := range *call.Referrers() {
					if _, ok := r.(*ssa.MapUpdate); ok {
						isCollection = true
					}
				}
				if !isCollection {
					typeListApp = call
				}
			}
		}
	}
	check := func(rule, key string, app *ssa.Call, what string, wantMapLoop bool) {
		if app == nil {
			c.Bad(rule, key, pos, "no append found for "+what)
			return
		}
		every, h := onEveryIteration(app.Parent(), app)
		if !every || h == nil {
			c.Bad(rule, key, c.P.Pos(app.Pos()), what+": some iterations skip the append (a handler whose device cannot be opened, a filter, ...)")
			return
		}
		col := rangedCollection(h)
		isMap := false
		if col != nil {
			_, isMap = col.Type().Underlying().(*types.Map)
			// a stage function ranging over the group it was handed: the group must be what Normalize passes
			if prm, isPrm := col.(*ssa.Parameter); isPrm && app.Parent() != norm && !wantMapLoop {
				if sites, all := staticCallSites(c.P, app.Parent()); !all || len(sites) != 1 || paramIndex(prm) >= len(sites[0].Common().Args) || !(isGroupValue(sites[0].Common().Args[paramIndex(prm)]) || isGroupCopy(sites[0].Common().Args[paramIndex(prm)])) {
					c.Bad(rule, key, c.P.Pos(app.Pos()), what+": built by a helper that is not handed the group of the location itself")
					return
				}
			}
		}
		if wantMapLoop != isMap {
			c.Bad(rule, key, c.P.Pos(app.Pos()), what+": appended in the wrong loop")
			return
		}
		c.OK(rule, key, c.P.Pos(app.Pos()), what+": appended on every iteration of its loop")
	}
	check("R20.2", "input.Normalize/every-group-member-becomes-a-handler", handlersApp, "device handlers", false)
	// the type is decided from the whole group: DetermineDeviceType is given the group itself, or a list to which every member
	// of the group is appended
	groupItself := ddtCall != nil && (isGroupValue(ddtCall.Call.Args[0]) || isGroupCopy(ddtCall.Call.Args[0]))
	if groupItself {
		c.OK("R20.3", "input.Normalize/type-decided-from-whole-group", c.P.Pos(ddtCall.Pos()), "DetermineDeviceType is given the group of the location itself")
	} else {
		check("R20.3", "input.Normalize/type-decided-from-whole-group", typeListApp, "list handed to DetermineDeviceType", false)
	}
	check("R20.2", "input.Normalize/one-device-per-group", resultApp, "result devices", true)
	if groupItself {
		c.OK("R20.3", "input.Normalize/DetermineDeviceType-argument", c.P.Pos(ddtCall.Pos()), "DetermineDeviceType receives the whole group")
	} else if ddtCall != nil && typeListApp != nil {
		// the list given to DetermineDeviceType is the one appended to
		same := false
		var walk func(v ssa.Value, d int) bool
		walk = func(v ssa.Value, d int) bool {
			if d > 6 {
				return false
			}
			if v == ssa.Value(typeListApp) {
				return true
			}
			if phi, ok := v.(*ssa.Phi); ok {
				for _, e := range phi.Edges {
					if walk(e, d+1) {
						return true
					}
				}
			}
			return false
		}
		same = walk(ddtCall.Call.Args[0], 0)
		c.Check(same, "R20.3", "input.Normalize/DetermineDeviceType-argument", c.P.Pos(ddtCall.Pos()), "DetermineDeviceType receives the list built from every member of the group", "DetermineDeviceType is not given the list built from all handlers of the group")
	} else {
		c.Bad("R20.3", "input.Normalize/DetermineDeviceType-argument", pos, "call of DetermineDeviceType with the group's handlers not found")
	}
}

// rulePermutationInsensitive: R20.4.
func rulePermutationInsensitive(c *Ctx) {
	// the classifiers: the two entry points and every function of the package they (transitively) call - whichever
	// helpers the classification is written with
	var fns []*ssa.Function
	seenFn := map[*ssa.Function]bool{}
	var grow func(f *ssa.Function)
	grow = func(f *ssa.Function) {
		if f == nil || seenFn[f] || len(f.Blocks) == 0 || funcPkgPath(f) != pkgInput {
			return
		}
		seenFn[f] = true
		fns = append(fns, f)
		for _, b := range f.Blocks {
			for _, in := range b.Instrs {
				if ci, ok := in.(ssa.CallInstruction); ok {
					grow(ci.Common().StaticCallee())
				}
				if mc, ok := in.(*ssa.MakeClosure); ok {
					grow(mc.Fn.(*ssa.Function))
				}
			}
		}
	}
	for _, sp := range [][2]string{{"", "DetermineDeviceType"}, {"DeviceInfo", "HandlerType"}} {
		fn := c.P.Func(pkgInput, sp[0], sp[1])
		if fn == nil {
			c.Undec("R20.4", "input."+sp[1]+"/no-positional-access", "-", "function not found")
			continue
		}
		grow(fn)
	}
	sort.Slice(fns, func(i, j int) bool { return fns[i].String() < fns[j].String() })
	for _, fn := range fns {
		key := "input." + fn.Name() + "/no-positional-access"
		c.Fn(shortFn(fn))
		bad := ""
		sortedVars, _ := canonicalSorts(fn)
		if p := fn.Parent(); p != nil {
			if _, lessFns := canonicalSorts(p); lessFns[fn] {
				c.OK("R20.4", key, c.P.Pos(fn.Pos()), "the comparator of a sort by the elements' own values")
				continue
			}
		}
		afterCanonicalSort := func(x *ssa.IndexAddr) bool {
			v := x.X
			if ld, ok := v.(*ssa.UnOp); ok && ld.Op == token.MUL {
				if a, isA := ld.X.(*ssa.Alloc); isA {
					v = a
				}
			}
			sc := sortedVars[v]
			if sc == nil {
				return false
			}
			if sc.Block() == x.Block() {
				return instrBefore(sc, x)
			}
			return sc.Block().Dominates(x.Block())
		}
		for _, b := range fn.Blocks {
			for _, in := range b.Instrs {
				switch x := in.(type) {
				case *ssa.IndexAddr:
					if _, isSlice := x.X.Type().Underlying().(*types.Slice); !isSlice {
						continue
					}
					if allocRooted(x.X) {
						continue // the variadic argument array being built for a call
					}
					if afterCanonicalSort(x) {
						continue // a copy put into an order that its contents determine: positions say nothing about discovery order
					}
					if _, isConst := x.Index.(*ssa.Const); isConst {
						bad = fmt.Sprintf("element selected by constant position at %s: the result depends on discovery order", c.P.Pos(x.Pos()))
					} else if !nonNegativeIndex(x.Index) {
						bad = fmt.Sprintf("element selected by a computed position at %s", c.P.Pos(x.Pos()))
					} else {
						// the induction variable must not escape (be returned / compared with anything but len)
						if idxEscapes(x.Index) {
							bad = fmt.Sprintf("loop position is used for more than iteration at %s", c.P.Pos(x.Pos()))
						}
					}
				case *ssa.Slice:
					if _, isSlice := x.X.Type().Underlying().(*types.Slice); isSlice && (x.Low != nil || x.High != nil) {
						if !allocRooted(x.X) {
							bad = fmt.Sprintf("sub-slice taken at %s: positional selection", c.P.Pos(x.Pos()))
						}
					}
				}
			}
		}
		c.Check(bad == "", "R20.4", key, c.P.Pos(fn.Pos()), "slices are used only through len() and whole-slice iteration", bad)
		// R20.8 the classification does not depend on the iteration order of a map: a loop over a map may be left early only
		// with a result that does not come from the iteration (an all/any test), and nothing taken from the current entry
		// survives the loop
		if why := mapOrderDependence(c, fn); why != "" {
			c.Bad("R20.8", "input."+fn.Name()+"/no-map-order-dependence", c.P.Pos(fn.Pos()), why)
		} else {
			c.OK("R20.8", "input."+fn.Name()+"/no-map-order-dependence", c.P.Pos(fn.Pos()), "no result taken from the entry a map iteration happens to deliver first")
		}
	}
}

// mapOrderDependence: fn returns from inside a loop over a map with a value that is not a constant, or carries a value
// derived from the current entry out of the loop (first-wins / last-wins over an unordered collection).
func mapOrderDependence(c *Ctx, fn *ssa.Function) string {
	for _, b := range fn.Blocks {
		for _, in := range b.Instrs {
			nx, ok := in.(*ssa.Next)
			if !ok || nx.IsString {
				continue
			}
			rg, ok := nx.Iter.(*ssa.Range)
			if !ok {
				continue
			}
			if _, isMap := rg.X.Type().Underlying().(*types.Map); !isMap {
				continue
			}
			ifi, ok := b.Instrs[len(b.Instrs)-1].(*ssa.If)
			if !ok {
				continue
			}
			bodyEntry := ifi.Block().Succs[0]
			inBody := func(x *ssa.BasicBlock) bool { return bodyEntry.Dominates(x) }
			fromEntry := func(v ssa.Value) bool { return derivedFromValue(v, nx, map[ssa.Value]bool{}) }
			for _, bb := range fn.Blocks {
				if !inBody(bb) {
					// a value of the current entry merged into a variable that outlives the loop
					for _, pin := range bb.Instrs {
						phi, isPhi := pin.(*ssa.Phi)
						if !isPhi {
							break
						}
						if bb == b {
							continue // the loop header's own phis are judged through their uses
						}
						for i, e := range phi.Edges {
							if inBody(bb.Preds[i]) && fromEntry(e) {
								return fmt.Sprintf("a value of the current map entry leaves the loop over %s at %s: which entry that is depends on the map's iteration order", rg.X.Type(), c.P.Pos(phi.Pos()))
							}
						}
					}
					continue
				}
				ret, isRet := bb.Instrs[len(bb.Instrs)-1].(*ssa.Return)
				if !isRet {
					continue
				}
				for _, r := range ret.Results {
					if _, isK := r.(*ssa.Const); !isK {
						return fmt.Sprintf("returns %s from inside the loop over a %s at %s: the first matching entry wins and the map's iteration order is random", r.Name(), rg.X.Type(), c.P.Pos(ret.Pos()))
					}
				}
			}
		}
	}
	return ""
}

func derivedFromValue(v, src ssa.Value, seen map[ssa.Value]bool) bool {
	if v == nil || seen[v] {
		return false
	}
	seen[v] = true
	if v == src {
		return true
	}
	switch x := v.(type) {
	case *ssa.Extract:
		return derivedFromValue(x.Tuple, src, seen)
	case *ssa.Phi:
		for _, e := range x.Edges {
			if derivedFromValue(e, src, seen) {
				return true
			}
		}
	case *ssa.UnOp:
		return derivedFromValue(x.X, src, seen)
	case *ssa.BinOp:
		return derivedFromValue(x.X, src, seen) || derivedFromValue(x.Y, src, seen)
	case *ssa.Convert:
		return derivedFromValue(x.X, src, seen)
	case *ssa.ChangeType:
		return derivedFromValue(x.X, src, seen)
	case *ssa.Field:
		return derivedFromValue(x.X, src, seen)
	case *ssa.Index:
		return derivedFromValue(x.X, src, seen)
	case *ssa.Lookup:
		return derivedFromValue(x.X, src, seen) || derivedFromValue(x.Index, src, seen)
	case *ssa.Call:
		for _, a := range x.Call.Args {
			if derivedFromValue(a, src, seen) {
				return true
			}
		}
	}
	return false
}

func idxEscapes(idx ssa.Value) bool {
	var phi *ssa.Phi
	switch x := idx.(type) {
	case *ssa.Phi:
		phi = x
	case *ssa.BinOp:
		phi, _ = x.X.(*ssa.Phi)
	}
	if phi == nil {
		return true
	}
	for _, v := range []ssa.Value{phi, idx} {
		for _, r := range *v.Referrers() {
			switch u := r.(type) {
			case *ssa.IndexAddr, *ssa.Phi:
			case *ssa.BinOp:
				if u == idx {
					continue
				}
				// comparison with len(...)
				if call, ok := u.Y.(*ssa.Call); ok {
					if bi, ok := call.Call.Value.(*ssa.Builtin); ok && bi.Name() == "len" {
						continue
					}
				}
				if k, ok := u.Y.(*ssa.Const); ok && k.Int64() == 1 {
					continue // i+1
				}
				return true
			default:
				return true
			}
		}
	}
	return false
}

// ruleTypePrecedence: R20.5 joystick first, then standard keyboard.
func ruleTypePrecedence(c *Ctx, ddt *ssa.Function) {
	// decided by valuation: for every list of up to three handlers whose HandlerType() is joystick-like, standard keyboard,
	// mouse or something else (85 lists, hence every order of every multiset), the function is executed symbolically with
	// the list as a literal and the results of HandlerType() as constants; the one consistent path must return what the
	// statement says: joystick if any handler is joystick-like, otherwise keyboard if any is a standard keyboard, otherwise
	// neither.  Any formulation (ordered scans, a presence table, a fold) is accepted.
	pos := c.P.Pos(ddt.Pos())
	val := func(name string) int64 {
		v, ok := c.P.constValue(pkgInput, name)
		if !ok {
			return -999
		}
		i, _ := constant.Int64Val(v)
		return i
	}
	joyDev, kbdDev := val("JoystickDevice"), val("KeyboardDevice")
	joyH, kbdH, mouseH, otherH := val("DI_TYPE_JOYSTICK"), val("DI_TYPE_STD_KBD"), val("DI_TYPE_MOUSE"), val("DI_TYPE_NKRO_KBD")
	ht := c.P.Func(pkgInput, "DeviceInfo", "HandlerType")
	if !c.Require(joyDev != -999 && kbdDev != -999 && joyH != -999 && kbdH != -999 && ht != nil && len(ddt.Params) == 1, "R20.5", "anchor:input.DetermineDeviceType", "constants / HandlerType / parameter not found") {
		return
	}
	kinds := []int64{joyH, kbdH, mouseH, otherH}
	var elemType types.Type
	if sl, ok := ddt.Params[0].Type().Underlying().(*types.Slice); ok {
		elemType = sl.Elem()
	}
	n, bad := 0, ""
	var lists [][]int64
	for ln := 0; ln <= 3; ln++ {
		total := 1
		for i := 0; i < ln; i++ {
			total *= len(kinds)
		}
		for code := 0; code < total; code++ {
			var l []int64
			x := code
			for i := 0; i < ln; i++ {
				l = append(l, kinds[x%len(kinds)])
				x /= len(kinds)
			}
			lists = append(lists, l)
		}
	}
	for _, l := range lists {
		var elems []*Term
		for i := range l {
			elems = append(elems, &Term{Op: "param", Aux: fmt.Sprintf("handler#%d", i), Type: elemType})
		}
		list := &Term{Op: "slicelit", Args: elems, Type: ddt.Params[0].Type()}
		lcopy := l
		hook := func(callee *ssa.Function, args []*Term, load func(addr *Term, typ types.Type) *Term) *Term {
			if callee != ht || len(args) != 1 {
				return nil
			}
			t := args[0]
			if t.Op != "param" {
				t = load(args[0], elemType)
			}
			if t != nil && t.Op == "param" && strings.HasPrefix(t.Aux, "handler#") {
				var i int
				fmt.Sscanf(t.Aux, "handler#%d", &i)
				if i < len(lcopy) {
					return constTerm(constant.MakeInt64(lcopy[i]), callee.Signature.Results().At(0).Type())
				}
			}
			return nil
		}
		paths, err := Enumerate(ddt, SymConfig{Prog: c.P, MaxDepth: 3, MaxVisits: 8, ParamTerms: map[*ssa.Parameter]*Term{ddt.Params[0]: list}, CallHook: hook})
		if err != nil {
			c.Undec("R20.5", "input.DetermineDeviceType/valuations", pos, fmt.Sprint(err))
			return
		}
		c.Paths += len(paths)
		var rets []*Path
		for _, p := range paths {
			if p.End == "return" && len(p.Ret) == 1 {
				// only paths whose conditions are all decided (constants folded): a remaining symbolic atom means the
				// function looked at something other than the handler types
				rets = append(rets, p)
			} else if p.End != "cut" {
				bad = fmt.Sprintf("handler types %v: a path ends with %s", l, p.End)
			}
		}
		n++
		if len(rets) != 1 {
			if bad == "" {
				bad = fmt.Sprintf("handler types %v: %d returning paths (the result depends on something other than the handler types)", l, len(rets))
			}
			continue
		}
		got, isK := rets[0].Ret[0].IsIntConst()
		anyJoy, anyKbd := false, false
		for _, k := range l {
			anyJoy = anyJoy || k == joyH
			anyKbd = anyKbd || k == kbdH
		}
		switch {
		case !isK:
			bad = fmt.Sprintf("handler types %v: non-constant result %s", l, rets[0].Ret[0])
		case anyJoy && got != joyDev:
			bad = fmt.Sprintf("handler types %v (a joystick-like handler present): result %d is not JoystickDevice", l, got)
		case !anyJoy && anyKbd && got != kbdDev:
			bad = fmt.Sprintf("handler types %v (no joystick-like handler, a standard keyboard present): result %d is not KeyboardDevice", l, got)
		case !anyJoy && !anyKbd && (got == joyDev || got == kbdDev):
			bad = fmt.Sprintf("handler types %v (neither joystick-like nor standard keyboard): result %d is a playable device type", l, got)
		}
	}
	key := "input.DetermineDeviceType/joystick>keyboard>other-for-every-list-of-up-to-3-handlers"
	if bad != "" {
		c.Bad("R20.5", key, pos, bad)
	} else {
		c.OK("R20.5", key, pos, fmt.Sprintf("%d handler lists (all orders of all multisets over joystick-like / standard keyboard / mouse / other, length 0..3): result as specified", n))
	}
}

// ruleNoHiddenState: R20.6 grouping and classification are functions of the handlers handed in: nothing they reach
// reads package-level state that the program also modifies (a cache keyed by something the kernel reuses, a counter).
func ruleNoHiddenState(c *Ctx, roots []*ssa.Function) {
	// reachable repository functions (static calls and closures)
	reach := map[*ssa.Function]bool{}
	var visit func(f *ssa.Function)
	visit = func(f *ssa.Function) {
		if f == nil || reach[f] || len(f.Blocks) == 0 || !c.P.OwnedFunc(f) {
			return
		}
		reach[f] = true
		for _, b := range f.Blocks {
			for _, in := range b.Instrs {
				if ci, ok := in.(ssa.CallInstruction); ok {
					visit(ci.Common().StaticCallee())
					if ci.Common().IsInvoke() {
						// String()/Error() style interface calls on repository types: resolved by name over the package
						continue
					}
				}
				if mc, ok := in.(*ssa.MakeClosure); ok {
					visit(mc.Fn.(*ssa.Function))
				}
			}
		}
	}
	for _, r := range roots {
		visit(r)
	}
	// which globals are modified anywhere (outside package initialisers): stored to, map-updated, or handed by address
	// to a call (methods with pointer receivers such as sync.Map / sync.Mutex / atomic types)
	rootGlobal := func(v ssa.Value) *ssa.Global {
		for i := 0; i < 8 && v != nil; i++ {
			switch x := v.(type) {
			case *ssa.Global:
				return x
			case *ssa.FieldAddr:
				v = x.X
			case *ssa.IndexAddr:
				v = x.X
			case *ssa.UnOp:
				v = x.X
			case *ssa.Lookup:
				v = x.X
			default:
				return nil
			}
		}
		return nil
	}
	modified := map[*ssa.Global]string{}
	for _, f := range c.P.Funcs {
		if f.Name() == "init" || strings.HasPrefix(f.Name(), "init#") {
			continue
		}
		for _, b := range f.Blocks {
			for _, in := range b.Instrs {
				switch x := in.(type) {
				case *ssa.Store:
					if g := rootGlobal(x.Addr); g != nil {
						modified[g] = "assigned in " + shortFn(f)
					}
				case *ssa.MapUpdate:
					if g := rootGlobal(x.Map); g != nil {
						modified[g] = "map updated in " + shortFn(f)
					}
				case ssa.CallInstruction:
					for _, a := range x.Common().Args {
						if _, isPtr := a.Type().Underlying().(*types.Pointer); !isPtr {
							continue
						}
						if g := rootGlobal(a); g != nil {
							if callee := x.Common().StaticCallee(); callee != nil && inertPkgs[pkgPathOf(callee)] {
								continue
							}
							// a repository function that only reads through the pointer (a method with a pointer receiver on an
							// element of a rule table) does not modify it
							if callee := x.Common().StaticCallee(); callee != nil && c.P.OwnedFunc(callee) && len(callee.Blocks) > 0 {
								idx := -1
								for i, aa := range x.Common().Args {
									if aa == a {
										idx = i
									}
								}
								if idx >= 0 && idx < len(callee.Params) && !writesThrough(c.P, callee.Params[idx], 0) {
									continue
								}
							}
							modified[g] = "passed by address to a call in " + shortFn(f)
						}
					}
				}
			}
		}
	}
	n := 0
	var fns []*ssa.Function
	for f := range reach {
		fns = append(fns, f)
	}
	sort.Slice(fns, func(i, j int) bool { return fns[i].String() < fns[j].String() })
	for _, f := range fns {
		for _, b := range f.Blocks {
			for _, in := range b.Instrs {
				for _, op := range in.Operands(nil) {
					if op == nil || *op == nil {
						continue
					}
					g, ok := (*op).(*ssa.Global)
					if !ok || g.Pkg == nil || !c.P.owned(g.Pkg.Pkg.Path()) {
						continue
					}
					n++
					key := "state(" + g.Pkg.Pkg.Name() + "." + g.Name() + ")@" + shortFn(f)
					if why, bad := modified[g]; bad {
						c.Bad("R20.6", key, c.P.Pos(in.Pos()), fmt.Sprintf("device grouping/classification reads package-level state that is modified at run time (%s): the result depends on what was discovered earlier, not only on the handlers handed in", why))
					} else {
						c.OK("R20.6", key, c.P.Pos(in.Pos()), "package-level value that is never modified after initialisation")
					}
				}
			}
		}
	}
	c.OK("R20.6", "grouping+classification/no-hidden-state", "-", fmt.Sprintf("%d function(s) reachable from Normalize / DetermineDeviceType / PhysicalUUID, %d reference(s) to package-level values, none to modified state", len(fns), n))
}

// isGroupValue: v is the slice of handlers of one physical location as stored in the collection: the value of a range over a
// map keyed by PhysicalID, a lookup in such a map, or a load of the cell such a value was put in (a variable captured by a
// closure, e.g. the comparator that sorts the group in place).
func isGroupValue(v ssa.Value) bool {
	isCollection := func(m ssa.Value) bool {
		mt, ok := m.Type().Underlying().(*types.Map)
		if !ok {
			return false
		}
		nk, ok := mt.Key().(*types.Named)
		return ok && nk.Obj().Name() == "PhysicalID"
	}
	for i := 0; i < 4; i++ {
		switch x := v.(type) {
		case *ssa.Extract:
			if nx, ok := x.Tuple.(*ssa.Next); ok && x.Index == 2 {
				if r, ok := nx.Iter.(*ssa.Range); ok {
					return isCollection(r.X)
				}
			}
			return false
		case *ssa.Lookup:
			return isCollection(x.X)
		case *ssa.Parameter:
			// a stage function that is handed the group (`assembleDevice(phys, dis, ...)`): the value at its only call site
			sites, _ := staticCallSitesAny(x.Parent())
			if len(sites) != 1 || x.Parent().Parent() != nil || paramIndex(x) < 0 || paramIndex(x) >= len(sites[0].Common().Args) {
				return false
			}
			v = sites[0].Common().Args[paramIndex(x)]
		case *ssa.UnOp:
			cell, ok := x.X.(*ssa.Alloc)
			if !ok {
				return false
			}
			var stored ssa.Value
			n := 0
			for _, r := range *cell.Referrers() {
				if st, ok := r.(*ssa.Store); ok && st.Addr == ssa.Value(cell) {
					stored = st.Val
					n++
				}
			}
			if n != 1 {
				return false
			}
			v = stored
		default:
			return false
		}
	}
	return false
}

// isGroupCopy: v is a slice made with the group's length into which the whole group is copied (copy(v, group)).
func isGroupCopy(v ssa.Value) bool {
	mk, ok := v.(*ssa.MakeSlice)
	if !ok {
		return false
	}
	lenOfGroup := func(x ssa.Value) bool {
		call, ok := x.(*ssa.Call)
		if !ok {
			return false
		}
		bi, ok := call.Call.Value.(*ssa.Builtin)
		return ok && bi.Name() == "len" && len(call.Call.Args) == 1 && isGroupValue(call.Call.Args[0])
	}
	if !lenOfGroup(mk.Len) {
		return false
	}
	for _, r := range *mk.Referrers() {
		call, ok := r.(*ssa.Call)
		if !ok {
			continue
		}
		if bi, ok := call.Call.Value.(*ssa.Builtin); ok && bi.Name() == "copy" && len(call.Call.Args) == 2 && call.Call.Args[0] == ssa.Value(mk) && isGroupValue(call.Call.Args[1]) {
			return true
		}
	}
	return false
}

// writesThrough: the function may store through the pointer v (directly, through a field/element address derived from it,
// or by handing it on to a function that does). Unknown uses count as writes.
func writesThrough(p *Program, v ssa.Value, depth int) bool {
	if depth > 4 {
		return true
	}
	refs := v.Referrers()
	if refs == nil {
		return false
	}
	for _, r := range *refs {
		switch x := r.(type) {
		case *ssa.Store:
			if x.Addr == v {
				return true
			}
			return true // the pointer itself is stored somewhere
		case *ssa.FieldAddr, *ssa.IndexAddr:
			if writesThrough(p, x.(ssa.Value), depth+1) {
				return true
			}
		case *ssa.UnOp, *ssa.DebugRef, *ssa.BinOp:
		case *ssa.Phi:
			if writesThrough(p, x, depth+1) {
				return true
			}
		case ssa.CallInstruction:
			callee := x.Common().StaticCallee()
			if callee == nil || len(callee.Blocks) == 0 || !p.OwnedFunc(callee) {
				if callee != nil && inertPkgs[pkgPathOf(callee)] {
					continue
				}
				return true
			}
			for i, a := range x.Common().Args {
				if a == v && i < len(callee.Params) && writesThrough(p, callee.Params[i], depth+1) {
					return true
				}
			}
		default:
			return true
		}
	}
	return false
}

// canonicalSorts: slices of fn that are put into an order determined by their contents alone before they are looked at by
// position - sort.Slice / sort.SliceStable / slices.SortFunc with a comparator that compares the elements themselves
// (`s[i] < s[j]`, elements of a basic ordered type: a total order, ties are identical values), or slices.Sort / sort.Ints /
// sort.Strings. Returned: per sorted variable (the local cell it lives in, or the value) the sort call, and the comparator
// closures that only serve such a sort. Positions in such a slice after the sort say nothing about discovery order.
func canonicalSorts(fn *ssa.Function) (map[ssa.Value]*ssa.Call, map[*ssa.Function]bool) {
	sorted := map[ssa.Value]*ssa.Call{}
	lessFns := map[*ssa.Function]bool{}
	root := func(v ssa.Value) ssa.Value {
		for i := 0; i < 3; i++ {
			switch x := v.(type) {
			case *ssa.MakeInterface:
				v = x.X
			case *ssa.ChangeType:
				v = x.X
			}
		}
		if ld, ok := v.(*ssa.UnOp); ok && ld.Op == token.MUL {
			if a, isA := ld.X.(*ssa.Alloc); isA {
				return a
			}
		}
		return v
	}
	basicOrdered := func(t types.Type) bool {
		sl, ok := t.Underlying().(*types.Slice)
		if !ok {
			return false
		}
		b, ok := sl.Elem().Underlying().(*types.Basic)
		return ok && b.Info()&types.IsOrdered != 0
	}
	ownValueLess := func(less *ssa.Function, cell ssa.Value) bool {
		if less == nil || len(less.Blocks) != 1 || len(less.Params) != 2 {
			return false
		}
		ret, ok := less.Blocks[0].Instrs[len(less.Blocks[0].Instrs)-1].(*ssa.Return)
		if !ok || len(ret.Results) != 1 {
			return false
		}
		bo, ok := ret.Results[0].(*ssa.BinOp)
		if !ok || !(bo.Op == token.LSS || bo.Op == token.GTR) {
			return false
		}
		elem := func(v ssa.Value, p *ssa.Parameter) bool {
			ld, ok := v.(*ssa.UnOp)
			if !ok || ld.Op != token.MUL {
				return false
			}
			ia, ok := ld.X.(*ssa.IndexAddr)
			if !ok || ia.Index != ssa.Value(p) {
				return false
			}
			sl, ok := ia.X.(*ssa.UnOp)
			if !ok || sl.Op != token.MUL {
				return false
			}
			fv, ok := sl.X.(*ssa.FreeVar)
			if !ok {
				return false
			}
			// the captured cell is the sorted variable
			for i, f := range less.FreeVars {
				if f == fv {
					for _, b := range less.Parent().Blocks {
						for _, in := range b.Instrs {
							if mc, isMC := in.(*ssa.MakeClosure); isMC && mc.Fn == ssa.Value(less) && i < len(mc.Bindings) && mc.Bindings[i] == cell {
								return true
							}
						}
					}
				}
			}
			return false
		}
		return elem(bo.X, less.Params[0]) && elem(bo.Y, less.Params[1]) || elem(bo.X, less.Params[1]) && elem(bo.Y, less.Params[0])
	}
	for _, b := range fn.Blocks {
		for _, in := range b.Instrs {
			call, ok := in.(*ssa.Call)
			if !ok {
				continue
			}
			callee := call.Call.StaticCallee()
			if callee == nil {
				continue
			}
			if o := callee.Origin(); o != nil {
				callee = o
			}
			if callee.Object() == nil || callee.Object().Pkg() == nil || len(call.Call.Args) < 1 {
				continue
			}
			full := callee.Object().Pkg().Path() + "." + callee.Object().Name()
			r := root(call.Call.Args[0])
			switch {
			case full == "sort.Ints" || full == "sort.Strings" || full == "sort.Float64s" || full == "slices.Sort":
				sorted[r] = call
			case (full == "sort.Slice" || full == "sort.SliceStable" || full == "slices.SortFunc" || full == "slices.SortStableFunc") && len(call.Call.Args) >= 2:
				mc, ok := call.Call.Args[1].(*ssa.MakeClosure)
				if !ok {
					continue
				}
				less, _ := mc.Fn.(*ssa.Function)
				st := call.Call.Args[0].Type()
				if mi, isMI := call.Call.Args[0].(*ssa.MakeInterface); isMI {
					st = mi.X.Type()
				}
				if basicOrdered(st) && ownValueLess(less, r) {
					sorted[r] = call
					lessFns[less] = true
				}
			}
		}
	}
	return sorted, lessFns
}
