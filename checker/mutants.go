package main

// runMutants is implemented in mutants_run.go once seeded patches exist.
func runMutants(c *Ctx, verif, repo string, extra map[string]any) {
	runMutantsImpl(c, verif, repo, extra)
}
