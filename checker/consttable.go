package main

import (
	"go/constant"
	"go/types"

	"golang.org/x/tools/go/ssa"
)

// Constant local tables of structs that a loop walks (`for _, e := range [N]struct{dst *T; src V}{{&x.A, a}, ...} { *e.dst = f(e.src) }`):
// the loop is the N-fold repetition of its body, element i pairing the values of its own row.  constTable recovers the
// rows; elemFieldOf recognises `e.field` inside the loop; a tableBinding selects one row.

type tableBinding struct {
	Table *ssa.Alloc
	Index int
}

type constTable struct {
	alloc *ssa.Alloc
	rows  map[int]map[int]ssa.Value // element index -> field index -> value stored
	n     int
}

// constTableOf: the rows of a local array-of-struct literal, when every use of the array is either one of the
// constant-index initialising stores or a read (whole load, element address for reading).  ok=false otherwise.
func constTableOf(a *ssa.Alloc) (*constTable, bool) {
	arr, ok := deref(a.Type()).Underlying().(*types.Array)
	if !ok {
		return nil, false
	}
	if _, isStruct := arr.Elem().Underlying().(*types.Struct); !isStruct {
		return nil, false
	}
	ct := &constTable{alloc: a, rows: map[int]map[int]ssa.Value{}, n: int(arr.Len())}
	set := func(i, k int, v ssa.Value) bool {
		if ct.rows[i] == nil {
			ct.rows[i] = map[int]ssa.Value{}
		}
		if _, dup := ct.rows[i][k]; dup {
			return false
		}
		ct.rows[i][k] = v
		return true
	}
	// fieldsOf: the per-field stores into a struct-typed address (a temporary of the row literal or the element itself)
	fieldsOf := func(addr ssa.Value, i int) bool {
		for _, r := range *addr.Referrers() {
			switch x := r.(type) {
			case *ssa.FieldAddr:
				for _, rr := range *x.Referrers() {
					st, isSt := rr.(*ssa.Store)
					if !isSt || st.Addr != x {
						return false
					}
					if !set(i, x.Field, st.Val) {
						return false
					}
				}
			case *ssa.UnOp, *ssa.DebugRef:
			default:
				return false
			}
		}
		return true
	}
	if a.Referrers() == nil {
		return nil, false
	}
	for _, r := range *a.Referrers() {
		switch x := r.(type) {
		case *ssa.IndexAddr:
			k, isK := x.Index.(*ssa.Const)
			if !isK {
				// element address at a variable index: reading only
				if !addrOnlyRead(x) {
					return nil, false
				}
				continue
			}
			i := int(constant.Val(k.Value).(int64))
			for _, rr := range *x.Referrers() {
				switch y := rr.(type) {
				case *ssa.Store:
					if y.Addr != x {
						return nil, false
					}
					// whole row copied from the literal's temporary
					ld, isLd := y.Val.(*ssa.UnOp)
					if !isLd {
						return nil, false
					}
					tmp, isAlloc := ld.X.(*ssa.Alloc)
					if !isAlloc || !fieldsOf(tmp, i) {
						return nil, false
					}
				case *ssa.FieldAddr:
					for _, r3 := range *y.Referrers() {
						st, isSt := r3.(*ssa.Store)
						if !isSt || st.Addr != y || !set(i, y.Field, st.Val) {
							return nil, false
						}
					}
				case *ssa.DebugRef:
				default:
					return nil, false
				}
			}
		case *ssa.UnOp, *ssa.DebugRef:
		case *ssa.Slice:
			if !sliceOnlyRead(x) {
				return nil, false
			}
		default:
			return nil, false
		}
	}
	if len(ct.rows) != ct.n {
		return nil, false
	}
	return ct, true
}

// addrOnlyRead: an element address that is only loaded from (directly or through its field addresses).
func addrOnlyRead(v ssa.Value) bool {
	if v.Referrers() == nil {
		return false
	}
	for _, r := range *v.Referrers() {
		switch x := r.(type) {
		case *ssa.UnOp, *ssa.DebugRef:
		case *ssa.FieldAddr:
			if !addrOnlyRead(x) {
				return false
			}
		default:
			return false
		}
	}
	return true
}

// elemFieldOf: v is field k of "the current element" of a local table walked by a loop: Field(elem, k), or a load of
// FieldAddr(c, k) where c is the loop variable whose only store is the element, or a load of FieldAddr(&table[idx], k).
func elemFieldOf(v ssa.Value) (*ssa.Alloc, int, bool) {
	elemOf := func(e ssa.Value) (*ssa.Alloc, bool) {
		switch x := e.(type) {
		case *ssa.Index:
			if ld, ok := x.X.(*ssa.UnOp); ok {
				if a, ok := ld.X.(*ssa.Alloc); ok {
					if _, isK := x.Index.(*ssa.Const); !isK {
						return a, true
					}
				}
			}
		case *ssa.UnOp:
			if ia, ok := x.X.(*ssa.IndexAddr); ok {
				if a, ok := ia.X.(*ssa.Alloc); ok {
					if _, isK := ia.Index.(*ssa.Const); !isK {
						return a, true
					}
				}
			}
		}
		return nil, false
	}
	switch x := v.(type) {
	case *ssa.Field:
		if a, ok := elemOf(x.X); ok {
			return a, x.Field, true
		}
	case *ssa.UnOp:
		fa, ok := x.X.(*ssa.FieldAddr)
		if !ok {
			return nil, 0, false
		}
		switch base := fa.X.(type) {
		case *ssa.Alloc:
			// the loop variable: exactly one store, of the element
			var only *ssa.Store
			for _, r := range *base.Referrers() {
				if st, isSt := r.(*ssa.Store); isSt {
					if st.Addr != base || only != nil {
						return nil, 0, false
					}
					only = st
				}
			}
			if only == nil {
				return nil, 0, false
			}
			if a, ok := elemOf(only.Val); ok {
				return a, fa.Field, true
			}
		case *ssa.IndexAddr:
			if a, ok := base.X.(*ssa.Alloc); ok {
				if _, isK := base.Index.(*ssa.Const); !isK {
					return a, fa.Field, true
				}
			}
		}
	}
	return nil, 0, false
}
