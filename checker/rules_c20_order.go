package main

import (
	"fmt"
	"go/token"
	"go/types"
	"sort"
	"strings"

	"golang.org/x/tools/go/ssa"
)

// ruleGroupOrderFixed: R20.7 what a device takes from its handlers by position or by "first one wins" does not depend on the
// discovery order: the group of handlers is sorted - by a comparator key(g[i]) < key(g[j]) whose key reads every handler field
// that is later selected by position (g[0].ID) or by a first-wins scan (name, uniq) - before any such use.  Handlers that tie
// on the key then agree on all fields the device takes from them.
func ruleGroupOrderFixed(c *Ctx, norm *ssa.Function) {
	key := "input.Normalize/handler-order-fixed-before-positional-use"
	pos := c.P.Pos(norm.Pos())
	isInfoSlice := func(t types.Type) bool {
		sl, ok := t.Underlying().(*types.Slice)
		return ok && strings.HasSuffix(sl.Elem().String(), "input.DeviceInfo")
	}
	// group slices: every []DeviceInfo value of Normalize other than its parameter (the discovery sequence itself) and
	// other than the groups while they are being built (results of append)
	var groups []ssa.Value
	for _, b := range norm.Blocks {
		for _, in := range b.Instrs {
			v, ok := in.(ssa.Value)
			if !ok || !isInfoSlice(v.Type()) {
				continue
			}
			switch x := v.(type) {
			case *ssa.Extract, *ssa.Lookup, *ssa.Field, *ssa.Phi, *ssa.Slice:
				groups = append(groups, v)
			case *ssa.UnOp:
				if x.Op == token.MUL {
					// a load: of a struct field or of a plain local (not the cell of another group value, handled as alias)
					if _, isField := x.X.(*ssa.FieldAddr); isField {
						groups = append(groups, v)
					}
				}
			}
		}
	}
	if len(groups) == 0 {
		c.Undec("R20.7", key, pos, "no per-location group slice found in Normalize")
		return
	}
	anyUse := false
	for _, g := range groups {
		// element addresses g[idx]
		type use struct {
			at     ssa.Instruction
			fields map[string]bool
			what   string
		}
		var uses []use
		fieldsVia := func(addr ssa.Value) map[string]bool {
			// fields of the element read through this address (directly or through a local copy)
			out := map[string]bool{}
			var fromAddr func(a ssa.Value, prefix string, depth int)
			fromAddr = func(a ssa.Value, prefix string, depth int) {
				if depth > 4 {
					return
				}
				for _, r := range *a.Referrers() {
					switch x := r.(type) {
					case *ssa.FieldAddr:
						st := deref(x.X.Type()).Underlying().(*types.Struct)
						name := prefix + st.Field(x.Field).Name()
						out[name] = true
						fromAddr(x, name+".", depth+1)
					case *ssa.UnOp:
						if x.Op == token.MUL {
							// whole element loaded: stored into a local copy?
							for _, r2 := range *x.Referrers() {
								switch y := r2.(type) {
								case *ssa.Store:
									if al, ok := y.Addr.(*ssa.Alloc); ok {
										fromAddr(al, prefix, depth+1)
									}
								case *ssa.Field:
									st := y.X.Type().Underlying().(*types.Struct)
									out[prefix+st.Field(y.Field).Name()] = true
								}
							}
						}
					}
				}
			}
			fromAddr(addr, "", 0)
			return out
		}
		// the group under all its names: captured by the comparator closure it lives in a cell that is loaded at each use
		alias := map[ssa.Value]bool{g: true}
		for _, r := range *g.Referrers() {
			st, ok := r.(*ssa.Store)
			if !ok || st.Val != g {
				continue
			}
			cell, ok := st.Addr.(*ssa.Alloc)
			if !ok {
				continue
			}
			stores := 0
			for _, r2 := range *cell.Referrers() {
				if s2, ok := r2.(*ssa.Store); ok && s2.Addr == ssa.Value(cell) {
					stores++
				}
			}
			if stores != 1 {
				continue
			}
			for _, r2 := range *cell.Referrers() {
				if ld, ok := r2.(*ssa.UnOp); ok && ld.Op == token.MUL {
					alias[ld] = true
				}
			}
		}
		var refs []ssa.Instruction
		for a := range alias {
			refs = append(refs, *a.Referrers()...)
		}
		sort.Slice(refs, func(i, j int) bool { return refs[i].Pos() < refs[j].Pos() })
		var loopIdx []*ssa.IndexAddr
		for _, r := range refs {
			ia, ok := r.(*ssa.IndexAddr)
			if !ok {
				continue
			}
			if _, isConst := ia.Index.(*ssa.Const); isConst {
				uses = append(uses, use{at: ia, fields: fieldsVia(ia), what: "positional access " + c.P.Pos(ia.Pos())})
			} else {
				loopIdx = append(loopIdx, ia)
			}
		}
		// first-wins scans: loop-carried variables of a loop over g that take an element field
		for _, ia := range loopIdx {
			hdr := loopHeaderOf(ia.Block())
			if hdr == nil {
				continue
			}
			elemFields := fieldsVia(ia)
			_ = elemFields
			carried := map[string]bool{}
			for _, in := range hdr.Instrs {
				phi, ok := in.(*ssa.Phi)
				if !ok {
					break
				}
				if phi == ia.Index || isIndexPhi(phi) {
					continue
				}
				// does a value flowing into phi come from an element field?
				seen := map[ssa.Value]bool{}
				var walk func(v ssa.Value, depth int)
				walk = func(v ssa.Value, depth int) {
					if v == nil || seen[v] || depth > 12 {
						return
					}
					seen[v] = true
					switch x := v.(type) {
					case *ssa.Phi:
						for _, e := range x.Edges {
							walk(e, depth+1)
						}
					case *ssa.UnOp:
						if fa, ok := x.X.(*ssa.FieldAddr); ok {
							if elementRooted(fa.X, alias) {
								st := deref(fa.X.Type()).Underlying().(*types.Struct)
								carried[st.Field(fa.Field).Name()] = true
							}
						}
					case *ssa.Field:
						if ld, ok := x.X.(*ssa.UnOp); ok && elementRooted(ld.X, alias) {
							st := x.X.Type().Underlying().(*types.Struct)
							carried[st.Field(x.Field).Name()] = true
						}
					}
				}
				for i, e := range phi.Edges {
					if hdr.Dominates(hdr.Preds[i]) { // back edge
						walk(e, 0)
					}
				}
			}
			if len(carried) > 0 {
				uses = append(uses, use{at: hdr.Instrs[0], fields: carried, what: "first-wins scan in the loop at " + c.P.Pos(ia.Pos())})
			}
		}
		if len(uses) == 0 {
			continue
		}
		anyUse = true
		// the sort
		var sortCall *ssa.Call
		var less *ssa.Function
		for _, b := range norm.Blocks {
			for _, in := range b.Instrs {
				call, ok := in.(*ssa.Call)
				if !ok {
					continue
				}
				callee := call.Call.StaticCallee()
				if callee == nil {
					continue
				}
				if o := callee.Origin(); o != nil {
					callee = o
				}
				if callee.Object() == nil || callee.Object().Pkg() == nil {
					continue
				}
				full := callee.Object().Pkg().Path() + "." + callee.Object().Name()
				if !(full == "sort.Slice" || full == "sort.SliceStable" || strings.HasPrefix(full, "slices.SortFunc") || strings.HasPrefix(full, "slices.SortStableFunc")) || len(call.Call.Args) < 2 {
					continue
				}
				a0 := call.Call.Args[0]
				for i := 0; i < 3; i++ {
					switch x := a0.(type) {
					case *ssa.MakeInterface:
						a0 = x.X
					case *ssa.ChangeType:
						a0 = x.X
					}
				}
				if !alias[a0] {
					continue
				}
				if mc, ok := call.Call.Args[1].(*ssa.MakeClosure); ok {
					sortCall, less = call, mc.Fn.(*ssa.Function)
				} else if f, ok := call.Call.Args[1].(*ssa.Function); ok {
					sortCall, less = call, f
				}
			}
		}
		var orderedFrom *ssa.BasicBlock // decorate/sort/undecorate: the header of the write-back loop
		if sortCall == nil {
			if dc, keyFn, hdr, ok := decoratedSort(c.P, norm, alias); ok {
				sortCall, less, orderedFrom = dc, keyFn, hdr
			}
		}
		if sortCall == nil {
			var what []string
			for _, u := range uses {
				what = append(what, u.what+" (fields "+strings.Join(sortedKeys(u.fields), ",")+")")
			}
			c.Bad("R20.7", key, pos, "the handlers of a group keep their discovery order and the device takes "+strings.Join(what, "; ")+": two handlers at one physical location that differ in these fields give a different device depending on which was discovered first")
			continue
		}
		bad := ""
		for _, u := range uses {
			before := sortCall.Block().Dominates(u.at.Block())
			if sortCall.Block() == u.at.Block() {
				si, ui := -1, -1
				for i, in := range sortCall.Block().Instrs {
					if in == ssa.Instruction(sortCall) {
						si = i
					}
					if in == u.at {
						ui = i
					}
				}
				_, isPhi := u.at.(*ssa.Phi)
				before = si < ui && !isPhi
			}
			if orderedFrom != nil {
				// the group is in its final order once the write-back loop has run: the use lies behind that loop
				inLoop := false
				for _, pr := range orderedFrom.Preds {
					if orderedFrom.Dominates(pr) && loopBody(orderedFrom, pr)[u.at.Block()] {
						inLoop = true
					}
				}
				before = orderedFrom.Dominates(u.at.Block()) && orderedFrom != u.at.Block() && !inLoop
			}
			if !before {
				bad = "the sort at " + c.P.Pos(sortCall.Pos()) + " does not precede the " + u.what
			}
		}
		// comparator: key(x) < key(y) with the same key function, or direct comparisons; fields read
		keyFields := map[string]bool{}
		shapeOK := false
		var collect func(fn *ssa.Function, depth int)
		collect = func(fn *ssa.Function, depth int) {
			if fn == nil || fn.Blocks == nil || depth > 2 {
				return
			}
			for _, b := range fn.Blocks {
				for _, in := range b.Instrs {
					switch x := in.(type) {
					case *ssa.FieldAddr:
						st := deref(x.X.Type()).Underlying().(*types.Struct)
						if strings.HasSuffix(deref(x.X.Type()).String(), "input.DeviceInfo") {
							name := st.Field(x.Field).Name()
							keyFields[name] = true
							// sub-fields
							for _, r := range *x.Referrers() {
								if fa2, ok := r.(*ssa.FieldAddr); ok {
									st2 := deref(fa2.X.Type()).Underlying().(*types.Struct)
									keyFields[name+"."+st2.Field(fa2.Field).Name()] = true
								}
							}
						}
					case *ssa.Field:
						if strings.HasSuffix(x.X.Type().String(), "input.DeviceInfo") {
							st := x.X.Type().Underlying().(*types.Struct)
							keyFields[st.Field(x.Field).Name()] = true
						}
					case *ssa.Call:
						if cal := x.Call.StaticCallee(); cal != nil && c.P.OwnedFunc(cal) {
							collect(cal, depth+1)
						}
					}
				}
			}
		}
		collect(less, 0)
		for _, b := range less.Blocks {
			for _, in := range b.Instrs {
				ret, ok := in.(*ssa.Return)
				if !ok || len(ret.Results) != 1 {
					continue
				}
				sameKey := func(x, y ssa.Value) bool {
					cx, okx := x.(*ssa.Call)
					cy, oky := y.(*ssa.Call)
					return okx && oky && cx.Call.StaticCallee() != nil && cx.Call.StaticCallee() == cy.Call.StaticCallee()
				}
				if bo, ok := ret.Results[0].(*ssa.BinOp); ok && (bo.Op == token.LSS || bo.Op == token.GTR) {
					if sameKey(bo.X, bo.Y) {
						shapeOK = true
					}
				}
				// three-way comparators: strings.Compare(key(a), key(b)) / cmp.Compare(...)
				if cmpCall, ok := ret.Results[0].(*ssa.Call); ok && len(cmpCall.Call.Args) == 2 {
					cal := cmpCall.Call.StaticCallee()
					if cal != nil && cal.Origin() != nil {
						cal = cal.Origin()
					}
					if cal != nil && cal.Object() != nil && cal.Object().Pkg() != nil && (cal.Object().Pkg().Path() == "strings" || cal.Object().Pkg().Path() == "cmp") && cal.Object().Name() == "Compare" {
						if sameKey(cmpCall.Call.Args[0], cmpCall.Call.Args[1]) {
							shapeOK = true
						}
					}
				}
			}
		}
		if orderedFrom != nil {
			shapeOK = true // (rows[i].key < rows[j].key with key = less(element): checked by decoratedSort; `less` is the key function here)
		}
		if bad == "" && !shapeOK {
			c.Undec("R20.7", key, c.P.Pos(sortCall.Pos()), "the comparator is not of the form key(g[i]) < key(g[j]) with one key function")
			continue
		}
		if bad == "" {
			for _, u := range uses {
				for f := range u.fields {
					if strings.Contains(f, ".") {
						continue
					}
					if !keyFields[f] {
						bad = fmt.Sprintf("the sort key does not read DeviceInfo.%s, which the device takes by %s: handlers that tie on the key can still differ in it", f, u.what)
					}
					// a struct field taken as a whole: all its sub-fields are in the key
					if fld := infoField(g, f); fld != nil {
						if st, ok := fld.Type().Underlying().(*types.Struct); ok {
							for i := 0; i < st.NumFields(); i++ {
								if !keyFields[f+"."+st.Field(i).Name()] {
									bad = fmt.Sprintf("the sort key does not read DeviceInfo.%s.%s, but the device takes the whole %s by %s", f, st.Field(i).Name(), f, u.what)
								}
							}
						}
					}
				}
			}
		}
		var whats []string
		for _, u := range uses {
			whats = append(whats, u.what)
		}
		sort.Strings(whats)
		c.Check(bad == "", "R20.7", key, pos, fmt.Sprintf("group sorted at %s by a key reading %v before: %s", c.P.Pos(sortCall.Pos()), sortedKeys(keyFields), strings.Join(whats, "; ")), bad)
	}
	if !anyUse {
		c.OK("R20.7", key, pos, "no positional or first-wins use of a handler group")
	}
}

func infoField(g ssa.Value, name string) *types.Var {
	sl, ok := g.Type().Underlying().(*types.Slice)
	if !ok {
		return nil
	}
	st, ok := sl.Elem().Underlying().(*types.Struct)
	if !ok {
		return nil
	}
	for i := 0; i < st.NumFields(); i++ {
		if st.Field(i).Name() == name {
			return st.Field(i)
		}
	}
	return nil
}

// elementRooted: is addr the address of (a local copy of) an element of g?
func elementRooted(addr ssa.Value, g map[ssa.Value]bool) bool {
	switch x := addr.(type) {
	case *ssa.IndexAddr:
		return g[x.X]
	case *ssa.Alloc:
		for _, r := range *x.Referrers() {
			if st, ok := r.(*ssa.Store); ok && st.Addr == ssa.Value(x) {
				if ld, ok := st.Val.(*ssa.UnOp); ok && ld.Op == token.MUL {
					if ia, ok := ld.X.(*ssa.IndexAddr); ok && g[ia.X] {
						return true
					}
				}
			}
		}
	case *ssa.FieldAddr:
		return elementRooted(x.X, g)
	}
	return false
}

func isIndexPhi(phi *ssa.Phi) bool {
	b, ok := phi.Type().Underlying().(*types.Basic)
	return ok && b.Info()&types.IsInteger != 0
}

// loopHeaderOf: the innermost loop header that dominates b and is reached again from b.
func loopHeaderOf(b *ssa.BasicBlock) *ssa.BasicBlock {
	for d := b; d != nil; d = d.Idom() {
		for _, p := range d.Preds {
			if d.Dominates(p) && reaches(b, p, d) {
				return d
			}
		}
	}
	return nil
}

// reaches: is `to` reachable from `from` without passing through `stop` (unless from == stop)?
func reaches(from, to, stop *ssa.BasicBlock) bool {
	seen := map[*ssa.BasicBlock]bool{}
	var rec func(b *ssa.BasicBlock) bool
	rec = func(b *ssa.BasicBlock) bool {
		if b == to {
			return true
		}
		if seen[b] {
			return false
		}
		seen[b] = true
		for _, s := range b.Succs {
			if s == stop {
				continue
			}
			if rec(s) {
				return true
			}
		}
		return false
	}
	return rec(from)
}

// decoratedSort: the group is ordered by decorate / sort / undecorate - rows (key, element) are built from the elements of
// the group with one key function applied to that very element, the rows are sorted by their key field, and the elements
// are written back to the group position by position. This orders the group by the key function as a direct sort with
// `key(g[i]) < key(g[j])` does. Returned: the sort call, the key function, and the header of the write-back loop (from
// which on the group is in its final order).
func decoratedSort(p *Program, norm *ssa.Function, alias map[ssa.Value]bool) (*ssa.Call, *ssa.Function, *ssa.BasicBlock, bool) {
	rootOf := func(v ssa.Value) ssa.Value {
		for i := 0; i < 3; i++ {
			switch x := v.(type) {
			case *ssa.MakeInterface:
				v = x.X
			case *ssa.ChangeType:
				v = x.X
			}
		}
		if ld, ok := v.(*ssa.UnOp); ok && ld.Op == token.MUL {
			if a, isA := ld.X.(*ssa.Alloc); isA {
				// the cell of a captured variable: what was stored into it
				for _, r := range *a.Referrers() {
					if st, ok := r.(*ssa.Store); ok && st.Addr == ssa.Value(a) {
						return st.Val
					}
				}
			}
		}
		return v
	}
	for _, b := range norm.Blocks {
		for _, in := range b.Instrs {
			call, ok := in.(*ssa.Call)
			if !ok || len(call.Call.Args) < 2 {
				continue
			}
			callee := call.Call.StaticCallee()
			if callee == nil || callee.Object() == nil || callee.Object().Pkg() == nil {
				continue
			}
			full := callee.Object().Pkg().Path() + "." + callee.Object().Name()
			if full != "sort.Slice" && full != "sort.SliceStable" {
				continue
			}
			rows, ok := rootOf(call.Call.Args[0]).(*ssa.MakeSlice)
			if !ok {
				continue
			}
			// one row per element of the group
			if lc, isCall := rows.Len.(*ssa.Call); !isCall || len(lc.Call.Args) != 1 || !alias[lc.Call.Args[0]] {
				continue
			} else if bi, isB := lc.Call.Value.(*ssa.Builtin); !isB || bi.Name() != "len" {
				continue
			}
			mc, ok := call.Call.Args[1].(*ssa.MakeClosure)
			if !ok {
				continue
			}
			less := mc.Fn.(*ssa.Function)
			// the comparator: rows[i].key < rows[j].key
			keyField := -1
			if len(less.Blocks) == 1 && len(less.Params) == 2 {
				if ret, ok := less.Blocks[0].Instrs[len(less.Blocks[0].Instrs)-1].(*ssa.Return); ok && len(ret.Results) == 1 {
					if bo, ok := ret.Results[0].(*ssa.BinOp); ok && (bo.Op == token.LSS || bo.Op == token.GTR) {
						fieldOfRow := func(v ssa.Value) (int, ssa.Value) {
							ld, ok := v.(*ssa.UnOp)
							if !ok || ld.Op != token.MUL {
								return -1, nil
							}
							fa, ok := ld.X.(*ssa.FieldAddr)
							if !ok {
								return -1, nil
							}
							ia, ok := fa.X.(*ssa.IndexAddr)
							if !ok {
								return -1, nil
							}
							return fa.Field, ia.Index
						}
						fx, ix := fieldOfRow(bo.X)
						fy, iy := fieldOfRow(bo.Y)
						if fx >= 0 && fx == fy && ix != iy && ix != nil && iy != nil {
							if _, isP := ix.(*ssa.Parameter); isP {
								if _, isP2 := iy.(*ssa.Parameter); isP2 {
									keyField = fx
								}
							}
						}
					}
				}
			}
			if keyField < 0 {
				continue
			}
			isRows := func(v ssa.Value) bool { return rootOf(v) == ssa.Value(rows) }
			// the rows: rows[i].key = keyFn(&g[i]) and rows[i].elem = g[i] with the same i
			var keyFn *ssa.Function
			elemField := -1
			okBuild := true
			for _, b2 := range norm.Blocks {
				for _, in2 := range b2.Instrs {
					st, ok := in2.(*ssa.Store)
					if !ok {
						continue
					}
					fa, ok := st.Addr.(*ssa.FieldAddr)
					if !ok {
						continue
					}
					ia, ok := fa.X.(*ssa.IndexAddr)
					if !ok {
						// a composite literal assembled in a local and stored into the row as a whole
						if lit, isLit := fa.X.(*ssa.Alloc); isLit && lit.Referrers() != nil {
							for _, r := range *lit.Referrers() {
								if ld, isLd := r.(*ssa.UnOp); isLd && ld.Op == token.MUL && ld.Referrers() != nil {
									for _, rr := range *ld.Referrers() {
										if ws, isSt := rr.(*ssa.Store); isSt && ws.Val == ssa.Value(ld) {
											if wia, isIA := ws.Addr.(*ssa.IndexAddr); isIA {
												ia, ok = wia, true
											}
										}
									}
								}
							}
						}
					}
					if !ok || !isRows(ia.X) {
						continue
					}
					if fa.Field == keyField {
						kc, ok := st.Val.(*ssa.Call)
						if !ok || kc.Call.StaticCallee() == nil || !p.OwnedFunc(kc.Call.StaticCallee()) || len(kc.Call.Args) != 1 {
							okBuild = false
							continue
						}
						arg := kc.Call.Args[0]
						if ld, isLd := arg.(*ssa.UnOp); isLd && ld.Op == token.MUL {
							arg = ld.X
						}
						ga, ok := arg.(*ssa.IndexAddr)
						if !ok || !alias[ga.X] || ga.Index != ia.Index {
							okBuild = false
							continue
						}
						keyFn = kc.Call.StaticCallee()
					} else {
						ld, ok := st.Val.(*ssa.UnOp)
						if !ok || ld.Op != token.MUL {
							okBuild = false
							continue
						}
						ga, ok := ld.X.(*ssa.IndexAddr)
						if !ok || !alias[ga.X] || ga.Index != ia.Index {
							okBuild = false
							continue
						}
						elemField = fa.Field
					}
				}
			}
			if !okBuild || keyFn == nil || elemField < 0 {
				continue
			}
			// the write-back: g[i] = rows[i].elem, in a loop after the sort
			for _, b2 := range norm.Blocks {
				for _, in2 := range b2.Instrs {
					st, ok := in2.(*ssa.Store)
					if !ok {
						continue
					}
					ga, ok := st.Addr.(*ssa.IndexAddr)
					if !ok || !alias[ga.X] {
						continue
					}
					ld, ok := st.Val.(*ssa.UnOp)
					if !ok || ld.Op != token.MUL {
						continue
					}
					fa, ok := ld.X.(*ssa.FieldAddr)
					if !ok || fa.Field != elemField {
						continue
					}
					ia, ok := fa.X.(*ssa.IndexAddr)
					if !ok || !isRows(ia.X) || ia.Index != ga.Index {
						continue
					}
					hdr := loopHeaderOf(b2)
					if hdr == nil || !(call.Block().Dominates(hdr) && call.Block() != hdr) {
						continue
					}
					if _, bounded := loopKind(hdr); !bounded {
						continue
					}
					return call, keyFn, hdr, true
				}
			}
		}
	}
	return nil, nil, nil, false
}
