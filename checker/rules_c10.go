package main

import (
	"fmt"
	"go/constant"
	"go/token"
	"go/types"
	"reflect"
	"sort"
	"strings"

	"golang.org/x/tools/go/ssa"
)

func init() {
	registry["C10"] = checkC10
}

// tomlLeaves enumerates the leaf fields of config.TOMLDeviceConfig with their toml path.
func tomlLeaves(c *Ctx) map[*types.Var]string {
	out := map[*types.Var]string{}
	_, st := c.P.Struct(pkgConfig, "TOMLDeviceConfig")
	if st == nil {
		return out
	}
	var rec func(st *types.Struct, prefix string)
	rec = func(st *types.Struct, prefix string) {
		for i := 0; i < st.NumFields(); i++ {
			f := st.Field(i)
			tag := reflect.StructTag(st.Tag(i)).Get("toml")
			tag, _, _ = strings.Cut(tag, ",")
			if tag == "" {
				tag = f.Name()
			}
			path := tag
			if prefix != "" {
				path = prefix + "." + tag
			}
			t := f.Type()
			for {
				switch u := t.Underlying().(type) {
				case *types.Slice:
					t = u.Elem()
					continue
				case *types.Map:
					if _, isStruct := u.Elem().Underlying().(*types.Struct); isStruct {
						t = u.Elem()
						continue
					}
				}
				break
			}
			if s, ok := t.Underlying().(*types.Struct); ok {
				rec(s, path)
				continue
			}
			out[f] = path
		}
	}
	rec(st, "")
	return out
}

// expected sources per destination field ("Type.Field" -> allowed toml paths, data and control)
var fieldSources = map[string][]string{
	"Key.Note": {"mapping.keys.map"}, "Key.ChannelOffset": {"mapping.keys.map"},
	"Analog.MappingType": {"mapping.analog.map.type"},
	"Analog.CC":          {"mapping.analog.map.cc"}, "Analog.CCNeg": {"mapping.analog.map.cc_negative"},
	"Analog.Note": {"mapping.analog.map.note"}, "Analog.NoteNeg": {"mapping.analog.map.note_negative"},
	"Analog.ChannelOffset": {"mapping.analog.map.channel_offset"}, "Analog.ChannelOffsetNeg": {"mapping.analog.map.channel_offset_negative"},
	"Analog.Action": {"mapping.analog.map.action"}, "Analog.ActionNeg": {"mapping.analog.map.action_negative"},
	"Analog.FlipAxis": {"mapping.analog.map.flip_axis"}, "Analog.DeadzoneAtCenter": {"mapping.analog.map.deadzone_at_center"},
	"Analog.Bidirectional": {"mapping.analog.map.cc_negative", "mapping.analog.map.note_negative", "mapping.analog.map.action_negative"},
	"Defaults.Octave":      {"defaults.octave"}, "Defaults.Semitone": {"defaults.semitone"}, "Defaults.Channel": {"defaults.channel"},
	"Defaults.Velocity": {"defaults.velocity"}, "Defaults.Mapping": {"defaults.mapping", "mapping.name"},
	"Colors.White": {"open_rgb.white"}, "Colors.Black": {"open_rgb.black"}, "Colors.C": {"open_rgb.c"},
	"Colors.Unavailable": {"open_rgb.unavailable"}, "Colors.Other": {"open_rgb.other"}, "Colors.Active": {"open_rgb.active"},
	"Colors.ActiveExternal": {"open_rgb.active_external"},
	"InputID.Bus":           {"identifier.bus"}, "InputID.Vendor": {"identifier.vendor"}, "InputID.Product": {"identifier.product"}, "InputID.Version": {"identifier.version"},
	"Config.Uniq": {"identifier.uniq"}, "Config.CollisionMode": {"collision_mode"}, "Config.ExitSequence": {"exit_sequence"},
	"KeyMapping.Name": {"mapping.name"},
}

// which source must be present (data), the rest being optional control sources
var fieldMustSource = map[string]string{
	"Analog.Bidirectional": "", "Defaults.Mapping": "defaults.mapping",
}

func checkC10(c *Ctx) {
	pf := newParserFacts(c)
	if !c.Require(pf.err == nil, "R10.0", "config.ParseData", fmt.Sprint(pf.err)) {
		return
	}
	leaves := tomlLeaves(c)
	c.Check(len(leaves) >= 30, "R10.1", "config.TOMLDeviceConfig/leaves", "-", fmt.Sprintf("%d TOML leaf fields enumerated from the struct type", len(leaves)), "TOML struct not found or too small")
	ruleFieldCorrespondence(c, pf, leaves)
	ruleReaderWriterAgreement(c, pf)
	ruleRequiredWhereUsedUnguarded(c, pf, "R10.13")
	ruleBounds(c, pf)
	ruleVocabularies(c, pf)
	ruleUnknownFields(c, pf)
	ruleNoSilentSkip(c, pf, "R10.12")
	ruleRejectionTotal(c, pf)
	ruleConfigOnlyFromParser(c, pf, "R10.6")
	// R10.7 a value that fails to convert is a rejection, never a silent fallback to something the file does not say
	ruleErrorsReturnedAs(c, pf.regionFuncs(), "R10.7", nil)
	c.importRules(readIsParseRules, []string{"R12.6"}, "R10.10") // the configuration is built from the complete content of the file
	c.MinCount("R10.7", 8)
	// R10.1c presence must be representable: the optional *_negative fields are pointers in the decoded struct (with a plain
	// value "cc_negative = 0" and "no cc_negative" are the same thing)
	for f, path := range leaves {
		if !strings.HasSuffix(path, "_negative") || strings.HasSuffix(path, "channel_offset_negative") {
			continue
		}
		_, isPtr := f.Type().Underlying().(*types.Pointer)
		c.Check(isPtr, "R10.1c", "config.TOMLDeviceConfig/"+path+"/optional-is-pointer", c.P.Pos(f.Pos()), "decoded into a pointer: absence and zero are distinguishable",
			"the optional field "+path+" is decoded into a plain value: a stated `"+path[strings.LastIndex(path, ".")+1:]+" = 0` cannot be told from an absent one, so it is silently dropped (or silently assumed)")
	}
	ruleEvCodeProvenance(c, pf)
	c.importRules(checkC11, []string{"R11.1", "R11.2", "R11.3", "R11.4"}, "R10.9") // a note given by name is accepted iff it is one of the 128 names, and means that note
	c.MinCount("R10.8", 2)
	c.MinCount("R10.1", 30)
	c.MinCount("R10.1b", 5)
	c.MinCount("R10.2", 10)
	c.MinCount("R10.3", 5)
	c.MinCount("R10.4", 1)
	c.MinCount("R10.5", 4)
	c.DecidedClause("every scalar field of the resulting configuration (keys, analog mappings per type, defaults, colours, identifier, collision mode, exit sequence) is computed from exactly the TOML field(s) that should determine it (backward slice over SSA incl. one level of control sources at phis); every TOML leaf field reaches some destination; the runtime's reads of config.Analog per mapping type are a subset of what the parser writes for that type")
	c.DecidedClause("notes, controller numbers, channel offsets, velocity, default channel and default mapping are range-checked before they are narrowed/stored; actions, mapping types and collision modes are looked up in their Supported* table with the miss edge returning an error; DisallowUnknownFields precedes Decode; every error return returns the zero Config")
	c.UndecidedClause("go-toml's decoding of each TOML spelling into the struct; equality of whole configurations; map iteration order effects")
}

// sourcesOf: the TOML leaf fields occurring in the structural term of v (data), plus the leaf
// fields occurring in the branch conditions that select between phi edges (control).
func sourcesOf(pf *parserFacts, v ssa.Value, leaves map[*types.Var]string) (data, ctl map[string]bool) {
	return sourcesOfBound(pf, v, leaves, nil)
}

// sourcesOfBound: as sourcesOf, for the body of a loop over a constant local table taken at row bind.Index: a column of
// the current element stands for what that row holds in it.
func sourcesOfBound(pf *parserFacts, v ssa.Value, leaves map[*types.Var]string, bind *tableBinding) (data, ctl map[string]bool) {
	data, ctl = map[string]bool{}, map[string]bool{}
	var boundRow map[int]ssa.Value
	if bind != nil {
		if ct, ok := constTableOf(bind.Table); ok {
			boundRow = ct.rows[bind.Index]
		}
	}
	seen := map[ssa.Value]bool{}
	var collectTermIn func(fn *ssa.Function, t *Term, into map[string]bool, depth int)
	collectTermIn = func(fn *ssa.Function, t *Term, into map[string]bool, depth int) {
		t.Walk(func(x *Term) bool {
			if (x.Op == "fieldaddr" || x.Op == "field") && x.Obj != nil {
				if fv, ok := x.Obj.(*types.Var); ok {
					if p, isLeaf := leaves[fv]; isLeaf {
						into[p] = true
					}
				}
			}
			// a parameter of a parser helper stands for what its call sites pass
			if x.Op == "param" && fn != nil && depth < 4 && fn != pf.fn && pf.region[topFunc(fn)] && fn.Parent() == nil {
				if sites, ok := staticCallSites(pf.p, fn); ok {
					for i, prm := range fn.Params {
						if prm.Name() != x.Aux {
							continue
						}
						for _, ci := range sites {
							if i < len(ci.Common().Args) {
								collectTermIn(ci.Parent(), pf.view(ci.Parent()).Term(ci.Common().Args[i]), into, depth+1)
							}
						}
					}
				}
			}
			return true
		})
	}
	curFn := (*ssa.Function)(nil)
	collectTerm := func(t *Term, into map[string]bool) { collectTermIn(curFn, t, into, 0) }
	// a condition computed by a callback the helper was given (`if match(item)`): what the callbacks passed at the call
	// sites compute their result from decides
	cbSeen := map[ssa.Value]bool{}
	ctlOfCallback := func(cond ssa.Value) {
		for {
			u, ok := cond.(*ssa.UnOp)
			if !ok || u.Op != token.NOT {
				break
			}
			cond = u.X
		}
		call, ok := cond.(*ssa.Call)
		if !ok || call.Call.IsInvoke() || call.Call.StaticCallee() != nil || cbSeen[call] {
			return
		}
		cbSeen[call] = true
		targets, ok := paramFuncTargets(pf.p, call.Call.Value)
		if !ok {
			targets, ok = localFuncTargets(call.Call.Value)
		}
		if !ok {
			return
		}
		for _, tf := range targets {
			if tf == nil || !pf.region[topFunc(tf)] {
				continue
			}
			for _, b := range tf.Blocks {
				if r, isRet := b.Instrs[len(b.Instrs)-1].(*ssa.Return); isRet && len(r.Results) == 1 && b != tf.Recover {
					d2, c2 := sourcesOf(pf, r.Results[0], leaves)
					for k := range d2 {
						ctl[k] = true
					}
					for k := range c2 {
						ctl[k] = true
					}
				}
			}
		}
	}
	var rec func(v ssa.Value, depth int)
	rec = func(v ssa.Value, depth int) {
		if v == nil || seen[v] || depth > 12 {
			return
		}
		seen[v] = true
		if boundRow != nil {
			if ta, k, ok := elemFieldOf(v); ok && ta == bind.Table {
				rec(boundRow[k], depth+1)
				return
			}
		}
		fn := parentOf(v)
		if fn == nil {
			return
		}
		vw := pf.view(fn)
		saved := curFn
		curFn = fn
		defer func() { curFn = saved }()
		// `optional != nil` is the PRESENCE of the optional field, not its value: a control source
		if bo, ok := v.(*ssa.BinOp); ok && (bo.Op == token.EQL || bo.Op == token.NEQ) {
			isNilK := func(y ssa.Value) bool { k, ok := y.(*ssa.Const); return ok && k.Value == nil }
			var other ssa.Value
			if isNilK(bo.Y) {
				other = bo.X
			} else if isNilK(bo.X) {
				other = bo.Y
			}
			if other != nil {
				if _, isPtr := other.Type().Underlying().(*types.Pointer); isPtr {
					collectTerm(vw.Term(other), ctl)
					return
				}
			}
		}
		collectTerm(vw.Term(v), data)
		switch x := v.(type) {
		case *ssa.Phi:
			own := map[string]bool{}
			for _, a := range vw.GuardsAt(x.Block()) {
				own[a.Cond.String()] = true
			}
			for i, e := range x.Edges {
				rec(e, depth+1)
				pred := x.Block().Preds[i]
				for _, a := range vw.GuardsAt(pred) {
					if !own[a.Cond.String()] {
						collectTerm(a.Cond, ctl)
					}
				}
				if ifi, ok := pred.Instrs[len(pred.Instrs)-1].(*ssa.If); ok {
					collectTerm(vw.Term(ifi.Cond), ctl)
					ctlOfCallback(ifi.Cond)
				}
			}
		case *ssa.Convert:
			rec(x.X, depth+1)
		case *ssa.ChangeType:
			rec(x.X, depth+1)
		case *ssa.BinOp:
			rec(x.X, depth+1)
			rec(x.Y, depth+1)
		case *ssa.UnOp:
			// a field of a local struct read back (`devConfig.Defaults.Velocity == 0` after the literal was stored): what was
			// stored into that field of that variable
			if fa, ok := x.X.(*ssa.FieldAddr); ok && x.Op == token.MUL {
				if root, path := fieldPathOf(fa); root != nil {
					for _, st := range storesToPath(root, path) {
						rec(st.Val, depth+1)
					}
				}
			}
			// local variable assigned in several places (spilled)
			if a, ok := x.X.(*ssa.Alloc); ok {
				for _, r := range *a.Referrers() {
					if st, ok := r.(*ssa.Store); ok && st.Addr == a {
						rec(st.Val, depth+1)
						for _, at := range vw.GuardsAt(st.Block()) {
							collectTerm(at.Cond, ctl)
						}
					}
				}
			}
		case *ssa.Extract:
			if call, ok := x.Tuple.(*ssa.Call); ok && regionCallee(pf, call) != nil {
				recReturns(pf, call, x.Index, func(r ssa.Value, b *ssa.BasicBlock) {
					rec(r, depth+1)
					for _, at := range pf.view(b.Parent()).GuardsAt(b) {
						collectTermIn(b.Parent(), at.Cond, ctl, 0)
					}
				})
				break
			}
			rec(x.Tuple, depth+1)
		case *ssa.Call:
			if regionCallee(pf, x) != nil && x.Call.Signature().Results().Len() == 1 {
				recReturns(pf, x, 0, func(r ssa.Value, b *ssa.BasicBlock) {
					rec(r, depth+1)
					for _, at := range pf.view(b.Parent()).GuardsAt(b) {
						collectTermIn(b.Parent(), at.Cond, ctl, 0)
					}
				})
				break
			}
			for _, a := range x.Call.Args {
				rec(a, depth+1)
			}
		case *ssa.Parameter:
			// parameter of a parser helper: what the call sites pass, and what selects the call
			if pf.region[topFunc(x.Parent())] && x.Parent() != pf.fn {
				if sites, ok := staticCallSites(pf.p, x.Parent()); ok {
					idx := paramIndex(x)
					for _, ci := range sites {
						if idx >= 0 && idx < len(ci.Common().Args) {
							rec(ci.Common().Args[idx], depth+1)
						}
					}
				}
			}
		}
	}
	rec(v, 0)
	for k := range data {
		delete(ctl, k)
	}
	return
}

// regionCallee: the callee of call if it is a named helper inside the parser region.
func regionCallee(pf *parserFacts, call *ssa.Call) *ssa.Function {
	callee := call.Call.StaticCallee()
	if callee != nil && callee.Parent() == nil && pf.region[callee] && callee != pf.fn {
		return callee
	}
	return nil
}

// recReturns visits result idx of every normal return of call's (region) callee.
func recReturns(pf *parserFacts, call *ssa.Call, idx int, f func(r ssa.Value, b *ssa.BasicBlock)) {
	callee := call.Call.StaticCallee()
	for _, b := range callee.Blocks {
		if b == callee.Recover {
			continue
		}
		if r, ok := b.Instrs[len(b.Instrs)-1].(*ssa.Return); ok && idx < len(r.Results) {
			f(r.Results[idx], b)
		}
	}
}

func parentOf(v ssa.Value) *ssa.Function {
	if in, ok := v.(ssa.Instruction); ok {
		return in.Parent()
	}
	if p, ok := v.(*ssa.Parameter); ok {
		return p.Parent()
	}
	return nil
}

func setKeys(m map[string]bool) []string {
	var out []string
	for k := range m {
		out = append(out, k)
	}
	sort.Strings(out)
	return out
}

func ruleFieldCorrespondence(c *Ctx, pf *parserFacts, leaves map[*types.Var]string) {
	ruleFieldCorrespondenceFor(c, pf, leaves, "R10.1", nil)
}

// ruleFieldCorrespondenceFor restricts the check to destinations accepted by only (nil = all, incl. the coverage obligations).
func ruleFieldCorrespondenceFor(c *Ctx, pf *parserFacts, leaves map[*types.Var]string, rule string, only func(dest string) bool) {
	reached := map[string]bool{}
	seenDest := map[string]bool{}
	for _, typ := range []string{"Key", "Analog", "Defaults", "Colors", "Config", "KeyMapping", "InputID"} {
		stores := pf.fieldStores(typ)
		if typ == "InputID" {
			stores = pf.inputIDStores()
		}
		for _, fs := range stores {
			dest := typ + "." + fs.Field.Name()
			data, ctl := sourcesOfBound(pf, fs.Val, leaves, fs.Bind)
			if _, isConst := fs.Val.(*ssa.Const); isConst && fs.Store.Block() != fs.Lit.Block() {
				// a constant assigned to the field under a condition (entry.Bidirectional = true inside `if x != nil`): what the
				// conditions between the literal and the store read decides the field
				vw := pf.view(fs.Store.Parent())
				outer := map[*ssa.If]bool{}
				for _, a := range vw.GuardsAt(fs.Lit.Block()) {
					outer[a.Instr] = true
				}
				cons := consumers(fs.Lit)
				for _, a := range vw.GuardsAt(fs.Store.Block()) {
					if a.Instr == nil || outer[a.Instr] {
						continue
					}
					// a guard decides the field only if its other branch also delivers the entry (then with the zero value);
					// a validation whose other branch is an error return decides nothing
					gb := a.Instr.Block()
					other := gb.Succs[1]
					if !a.Taken {
						other = gb.Succs[0]
					}
					if len(cons) > 0 && !reachesAvoiding(other, cons, nil, nil) {
						continue
					}
					d2, c2 := sourcesOf(pf, a.Instr.Cond, leaves)
					for k := range d2 {
						ctl[k] = true
					}
					for k := range c2 {
						ctl[k] = true
					}
				}
			}
			for k := range data {
				reached[k] = true
			}
			for k := range ctl {
				reached[k] = true
			}
			want, tracked := fieldSources[dest]
			if !tracked || (only != nil && !only(dest)) {
				continue // container-valued fields (maps/slices of structs): covered through their elements
			}
			seenDest[dest] = true
			key := fmt.Sprintf("config.ParseData/%s<-sources[%s]", dest, pf.storeContext(fs))
			pos := c.P.Pos(fs.Store.Pos())
			allowed := map[string]bool{}
			for _, w := range want {
				allowed[w] = true
			}
			bad := ""
			for k := range data {
				if !allowed[k] {
					bad = fmt.Sprintf("is computed from %q", k)
				}
			}
			if dest == "Analog.Bidirectional" && bad == "" && len(data) > 0 && pf.storeContext(fs) != "action" {
				// (for actions the zero value "" is not an accepted action - R10.3 - so value and presence coincide)
				bad = fmt.Sprintf("is computed from the VALUE of %v; the PRESENCE of the negative field in the file (a nil test of the optional pointer) must decide it, otherwise a stated `..._negative = 0` is silently dropped", setKeys(data))
			}
			must, hasMust := fieldMustSource[dest]
			if !hasMust {
				must = want[0]
			}
			if bad == "" && must != "" && !data[must] && len(data) > 0 {
				bad = fmt.Sprintf("does not depend on %q", must)
			}
			if bad == "" && len(data) == 0 {
				// constants / flags: control sources must be among the allowed ones
				for k := range ctl {
					if !allowed[k] && !strings.HasSuffix(k, ".type") {
						bad = fmt.Sprintf("is decided by %q", k)
					}
				}
				if len(ctl) == 0 {
					if k, isConst := fs.Val.(*ssa.Const); !isConst || !isZeroConst(k) {
						bad = "is a constant"
					} else {
						continue
					}
				}
			}
			if bad != "" {
				c.Bad(rule, key, pos, fmt.Sprintf("%s %s (data sources %v, control %v); the file's %v must determine it", dest, bad, setKeys(data), setKeys(ctl), want))
			} else {
				c.OK(rule, key, pos, fmt.Sprintf("data %v control %v", setKeys(data), setKeys(ctl)))
			}
		}
	}
	// map/slice-valued destinations filled by MapUpdate / append: their sources count as reached
	for _, b := range pf.regionBlocks() {
		for _, in := range b.Instrs {
			switch x := in.(type) {
			case *ssa.MapUpdate:
				for _, v := range []ssa.Value{x.Key, x.Value} {
					d, ct := sourcesOf(pf, v, leaves)
					for k := range d {
						reached[k] = true
					}
					for k := range ct {
						reached[k] = true
					}
				}
			}
		}
	}
	if only != nil {
		return
	}
	for dest := range fieldSources {
		if !seenDest[dest] {
			c.Bad(rule, "config.ParseData/"+dest+"<-sources", c.P.Pos(pf.fn.Pos()), "destination field "+dest+" is never set from the file")
		}
	}
	var unused []string
	for _, p := range leaves {
		if !reached[p] {
			unused = append(unused, p)
		}
	}
	sort.Strings(unused)
	c.Check(len(unused) == 0, rule, "config.ParseData/every-toml-field-used", c.P.Pos(pf.fn.Pos()), fmt.Sprintf("all %d TOML leaf fields influence the result", len(leaves)),
		fmt.Sprintf("TOML fields that are decoded but never reach the configuration: %v", unused))
}

func isZeroConst(k *ssa.Const) bool {
	return k.Value == nil || k.Value.String() == "0" || k.Value.String() == "false" || k.Value.String() == `""`
}

// inputIDStores: the input.InputID literal inside the Config literal.
func (pf *parserFacts) inputIDStores() []fieldStore {
	var out []fieldStore
	for _, lit := range pf.literals("Config") {
		for _, r := range *lit.Referrers() {
			fa, ok := r.(*ssa.FieldAddr)
			if !ok || fieldOfAddr(fa).Name() != "ID" {
				continue
			}
			for _, rr := range *fa.Referrers() {
				// the identifier stored as a whole: a local input.InputID built field by field earlier
				if st, ok := rr.(*ssa.Store); ok && st.Addr == ssa.Value(fa) {
					if ld, ok := st.Val.(*ssa.UnOp); ok && ld.Op == token.MUL {
						if loc, ok := ld.X.(*ssa.Alloc); ok {
							for _, lr := range *loc.Referrers() {
								lfa, ok := lr.(*ssa.FieldAddr)
								if !ok {
									continue
								}
								for _, r3 := range *lfa.Referrers() {
									if st2, ok := r3.(*ssa.Store); ok && st2.Addr == ssa.Value(lfa) {
										out = append(out, fieldStore{lit, fieldOfAddr(lfa), st2.Val, st2, nil})
									}
								}
							}
						}
					}
					continue
				}
				fa2, ok := rr.(*ssa.FieldAddr)
				if !ok {
					continue
				}
				for _, r3 := range *fa2.Referrers() {
					if st, ok := r3.(*ssa.Store); ok && st.Addr == fa2 {
						out = append(out, fieldStore{lit, fieldOfAddr(fa2), st.Val, st, nil})
					}
				}
			}
		}
	}
	return out
}

// ruleReaderWriterAgreement: R10.1b per mapping type, runtime reads of config.Analog ⊆ parser writes.
func ruleReaderWriterAgreement(c *Ctx, pf *parserFacts) {
	dv := newDev(c, "R10.1b")
	if !dv.ok || dv.fn["handleABSEvent"] == nil {
		return
	}
	keys, _, _, _, ok := c.P.mapLiteral(pkgConfig, "SupportedMappingTypes")
	if !c.Require(ok, "R10.1b", "anchor:config.SupportedMappingTypes", "table not found") {
		return
	}
	types_ := constStrings(keys)
	_, ast := c.P.Struct(pkgConfig, "Analog")
	isAnalogField := func(f *types.Var) bool {
		for i := 0; i < ast.NumFields(); i++ {
			if ast.Field(i) == f {
				return true
			}
		}
		return false
	}
	// parser writes per type
	writes := map[string]map[string]bool{}
	shared := map[string]bool{} // fields every case gets: stored before the type switch into one entry the cases fill in
	for _, fs := range pf.fieldStores("Analog") {
		ctx := pf.storeContext(fs)
		if ctx == "-" {
			shared[fs.Field.Name()] = true
			continue
		}
		if writes[ctx] == nil {
			writes[ctx] = map[string]bool{}
		}
		writes[ctx][fs.Field.Name()] = true
	}
	var parserCases []string
	for k := range writes {
		parserCases = append(parserCases, k)
		for f := range shared {
			writes[k][f] = true
		}
	}
	// runtime reads per case region and before the switch
	fn := dv.fn["handleABSEvent"]
	reads := map[string]map[string]bool{}
	common := map[string]bool{}
	regions := map[string]map[*ssa.BasicBlock]bool{}
	var runtimeCases []string
	for _, t := range types_ {
		if r := caseRegion(fn, dv, t); r != nil {
			regions[t] = r
			runtimeCases = append(runtimeCases, t)
		}
	}
	var hostBlocks []*ssa.BasicBlock
	for _, h := range dv.hostsOf(fn) { // (the handler may be a pipeline of stage functions)
		hostBlocks = append(hostBlocks, h.Blocks...)
	}
	for _, b := range hostBlocks {
		for _, in := range b.Instrs {
			var f *types.Var
			switch x := in.(type) {
			case *ssa.Field:
				f = x.X.Type().Underlying().(*types.Struct).Field(x.Field)
			case *ssa.FieldAddr:
				f = fieldOfAddr(x)
			}
			if f == nil || !isAnalogField(f) {
				continue
			}
			// a read counts where its value is put to use: `channel := (d.channel + analog.ChannelOffset) % 16` computed ahead of
			// the type switch and used in two of its cases is a read of those two types
			for _, ub := range useBlocks(in.(ssa.Value)) {
				inCase := false
				for t, r := range regions {
					if r[ub] {
						inCase = true
						if reads[t] == nil {
							reads[t] = map[string]bool{}
						}
						reads[t][f.Name()] = true
					}
				}
				if !inCase {
					common[f.Name()] = true
				}
			}
		}
	}
	pos := c.P.Pos(fn.Pos())
	c.Check(sameSet(parserCases, types_) && sameSet(runtimeCases, types_), "R10.1b", "mapping-type-case-sets", pos,
		fmt.Sprintf("parser cases = runtime cases = SupportedMappingTypes = %v", types_),
		fmt.Sprintf("case sets differ: parser %v, runtime %v, supported %v", parserCases, runtimeCases, types_))
	for _, t := range types_ {
		var missing []string
		for f := range reads[t] {
			if !writes[t][f] {
				missing = append(missing, f)
			}
		}
		for f := range common {
			if !writes[t][f] {
				missing = append(missing, f+"(read for all types)")
			}
		}
		sort.Strings(missing)
		key := "analog-type[" + t + "]/runtime-reads-subset-of-parser-writes"
		if len(missing) > 0 {
			c.Bad("R10.1b", key, pos, fmt.Sprintf("for type %q the runtime reads Analog.%v but the parser never sets them for that type: the value in the file is silently dropped (always zero at run time)", t, missing))
		} else {
			c.OK("R10.1b", key, pos, fmt.Sprintf("reads %v ⊆ writes %v", setKeys(reads[t]), setKeys(writes[t])))
		}
	}
}

// useBlocks: the blocks in which the value read at v (a field, or what is loaded from a field address) is put to use -
// followed through pure value computations (arithmetic, conversions, loads, phis) to the instructions that do something
// with the result (calls, stores, branches, sends, returns, ...). A value nobody uses is used nowhere.
func useBlocks(v ssa.Value) []*ssa.BasicBlock {
	seen := map[ssa.Value]bool{}
	blocks := map[*ssa.BasicBlock]bool{}
	var out []*ssa.BasicBlock
	var walk func(v ssa.Value)
	walk = func(v ssa.Value) {
		if seen[v] || v.Referrers() == nil {
			return
		}
		seen[v] = true
		for _, r := range *v.Referrers() {
			switch x := r.(type) {
			case *ssa.DebugRef:
			case *ssa.BinOp, *ssa.Convert, *ssa.ChangeType, *ssa.Phi, *ssa.Field:
				walk(x.(ssa.Value))
			case *ssa.UnOp:
				walk(x)
			case *ssa.Store:
				// put into a local variable or a component of one (`negative := ccTarget{channel, analog.CCNeg}`, later
				// `active, opposite = negative, positive`): used where that variable is read. Any read of the variable counts
				// (its components are not told apart); an address of it that goes anywhere else is a use on the spot.
				if x.Val == v && allocRooted(x.Addr) {
					root := x.Addr
					for {
						switch y := root.(type) {
						case *ssa.FieldAddr:
							root = y.X
							continue
						case *ssa.IndexAddr:
							root = y.X
							continue
						}
						break
					}
					if a, isA := root.(*ssa.Alloc); isA && !seen[a] {
						seen[a] = true
						var reads func(addr ssa.Value)
						reads = func(addr ssa.Value) {
							if addr.Referrers() == nil {
								return
							}
							for _, ar := range *addr.Referrers() {
								switch y := ar.(type) {
								case *ssa.DebugRef:
								case *ssa.FieldAddr:
									reads(y)
								case *ssa.IndexAddr:
									reads(y)
								case *ssa.UnOp:
									walk(y)
								case *ssa.Store:
									if y.Addr != addr && !blocks[y.Block()] { // the address itself is stored somewhere
										blocks[y.Block()] = true
										out = append(out, y.Block())
									}
								default:
									if !blocks[ar.Block()] {
										blocks[ar.Block()] = true
										out = append(out, ar.Block())
									}
								}
							}
						}
						reads(a)
					}
					continue
				}
				if !blocks[r.Block()] {
					blocks[r.Block()] = true
					out = append(out, r.Block())
				}
			default:
				if !blocks[r.Block()] {
					blocks[r.Block()] = true
					out = append(out, r.Block())
				}
			}
		}
	}
	walk(v)
	return out
}

// ruleBounds: R10.2 validation before acceptance.
func ruleBounds(c *Ctx, pf *parserFacts) {
	var names []string
	for k := range configBounds {
		names = append(names, k)
	}
	sort.Strings(names)
	for _, n := range names {
		typ, field, _ := strings.Cut(n, ".")
		res := pf.checkBounds(typ, field)
		r := configBounds[n]
		if len(res) == 0 {
			c.Bad("R10.2", "config.ParseData/"+n+"/never-set", c.P.Pos(pf.fn.Pos()), n+" is never set")
		}
		for _, br := range res {
			if br.OK {
				c.OK("R10.2", br.Key, br.Pos, fmt.Sprintf("in [%d,%d]: %s", r.lo, r.hi, br.Why))
			} else {
				c.Bad("R10.2", br.Key, br.Pos, fmt.Sprintf("%s is stored without being proven within %d..%d: %s — an out-of-range value in the file is accepted (and silently wrapped by the narrowing conversion)", n, r.lo, r.hi, br.Why))
			}
		}
	}
	// Defaults.Mapping: an index found by search, -1 rejected
	for _, fs := range pf.fieldStores("Defaults") {
		if fs.Field.Name() != "Mapping" {
			continue
		}
		key := "config.ParseData/Defaults{Mapping}/valid-index"
		pos := c.P.Pos(fs.Store.Pos())
		vw := pf.view(fs.Store.Parent())
		t := vw.Term(fs.Val)
		b := vw.BoundsAt(fs.Store.Block(), t.String(), bound{})
		phi, isPhi := throughCtor(c.P, fs.Val).(*ssa.Phi) // also a search extracted into a helper with a single return
		okEdges := isPhi
		if isPhi {
			for ei, e := range phi.Edges {
				if k, isK := e.(*ssa.Const); isK {
					if k.Int64() != -1 {
						okEdges = false
					}
					continue
				}
				// a counter running down from len-1 that leaves the loop by `break`: where the edge starts the loop condition
				// `i >= 0` holds (and the counter only ever decreases from the last index)
				if cnt, isCnt := e.(*ssa.Phi); isCnt && ei < len(phi.Block().Preds) && descendingFromLast(cnt) {
					pv := pf.view(phi.Block().Preds[ei].Parent())
					if eb := pv.BoundsAt(phi.Block().Preds[ei], pv.Term(e).String(), bound{}); eb.hasLo && eb.lo >= 0 {
						continue
					}
				}
				if e == ssa.Value(phi) {
					continue // loop-carried value of the search variable itself
				}
				if bo, isBO := e.(*ssa.BinOp); isBO {
					k, isK := bo.Y.(*ssa.Const)
					if isK && bo.X == ssa.Value(phi) && (bo.Op == token.SUB || bo.Op == token.ADD) {
						continue // the search variable stepping through the list
					}
					if isK && bo.Op == token.SUB && k.Int64() == 1 {
						if call, isCall := bo.X.(*ssa.Call); isCall {
							if bi, isB := call.Call.Value.(*ssa.Builtin); isB && bi.Name() == "len" {
								continue // starts at the last element
							}
						}
					}
				}
				if !nonNegativeIndex(e) {
					okEdges = false
				}
			}
		}
		if okEdges && !b.excluded[-1] && b.hasLo && b.lo >= 0 {
			b.excluded[-1] = true // "not found" expressed as `index < 0`
		}
		// "not found" kept in a flag next to the index: the store is guarded by a boolean search variable that becomes true on
		// exactly the edges on which the index variable takes a list index, starts false where the index starts with a
		// constant, and is carried where the index is carried
		if isPhi && foundFlagGuards(vw, fs.Store.Block(), phi) {
			c.OK("R10.2", key, pos, "the store is guarded by a found flag that is set on exactly the edges where the index takes a position of the mapping list")
			continue
		}
		if okEdges && b.excluded[-1] {
			c.OK("R10.2", key, pos, "-1 (not found) is rejected by a dominating check; other values are range indices of the mapping list")
		} else {
			c.Bad("R10.2", key, pos, fmt.Sprintf("default mapping index %s is stored without rejecting the not-found case (edges ok=%v, bounds %s excl %v)", t, okEdges, b, b.excluded))
		}
	}
}

// descendingFromLast: a loop counter that starts at len(x)-1 and is only ever decremented.
func descendingFromLast(cnt *ssa.Phi) bool {
	start := false
	for _, e := range cnt.Edges {
		bo, ok := e.(*ssa.BinOp)
		if !ok || bo.Op != token.SUB {
			return false
		}
		k, isK := bo.Y.(*ssa.Const)
		if !isK || k.Value == nil || k.Int64() != 1 {
			return false
		}
		if bo.X == ssa.Value(cnt) {
			continue
		}
		if call, isCall := bo.X.(*ssa.Call); isCall {
			if bi, isB := call.Call.Value.(*ssa.Builtin); isB && bi.Name() == "len" {
				start = true
				continue
			}
		}
		return false
	}
	return start
}

// ruleVocabularies: R10.3 closed vocabularies.
func ruleVocabularies(c *Ctx, pf *parserFacts) {
	type dest struct{ typ, field, table string }
	dests := []dest{{"Analog", "MappingType", "SupportedMappingTypes"}, {"Analog", "Action", "SupportedActions"}, {"Analog", "ActionNeg", "SupportedActions"}, {"Config", "CollisionMode", "SupportedCollisionModes"}}
	check := func(v ssa.Value, at *ssa.BasicBlock, table string, extra []Atom) (bool, string) {
		vw := pf.view(at.Parent())
		t := vw.Term(v)
		for _, a := range append(vw.GuardsAt(at), extra...) {
			cnd, taken := a.Cond, a.Taken
			for cnd.Op == "unop" {
				cnd, taken = cnd.Args[0], !taken
			}
			if cnd.Op == "lookup" && taken && cnd.Args[1].String() == t.String() && cnd.Args[0].Any(func(x *Term) bool { return x.Op == "global" && x.Obj.Name() == table }) {
				return true, "dominated by " + table + "[" + accessName(t) + "]"
			}
		}
		return false, fmt.Sprintf("`%s` is stored without a dominating %s[...] lookup of that very value", t, table)
	}
	var checkVal func(v ssa.Value, at *ssa.BasicBlock, table string, extra []Atom) (bool, string)
	checkVal = func(v ssa.Value, at *ssa.BasicBlock, table string, extra []Atom) (bool, string) {
		if k, ok := v.(*ssa.Const); ok && isZeroConst(k) {
			return true, "absent (zero value)"
		}
		if phi, ok := v.(*ssa.Phi); ok {
			var whys []string
			for i, e := range phi.Edges {
				pred := phi.Block().Preds[i]
				ex := extra
				if ifi, isIf := pred.Instrs[len(pred.Instrs)-1].(*ssa.If); isIf && pred.Succs[0] != pred.Succs[1] {
					ex = append(ex, Atom{Cond: pf.view(pred.Parent()).Term(ifi.Cond), Taken: pred.Succs[0] == phi.Block()})
				}
				ok, why := checkVal(e, pred, table, ex)
				if !ok {
					return false, why
				}
				whys = append(whys, why)
			}
			return true, strings.Join(whys, " | ")
		}
		return check(v, at, table, extra)
	}
	for _, d := range dests {
		n := 0
		for _, fs := range pf.fieldStores(d.typ) {
			if fs.Field.Name() != d.field {
				continue
			}
			n++
			key := fmt.Sprintf("config.ParseData/%s{%s}[%s]/in-%s", d.typ, d.field, pf.storeContext(fs), d.table)
			ok, why := checkVal(fs.Val, fs.Store.Block(), d.table, nil)
			if !ok {
				// the entry is filled in first and checked afterwards: every way from the store to a point where the entry is
				// used passes a test `table[entry.field]` of the stored field whose failing branch does not deliver the entry
				if w, found := checkedAfterStore(pf, fs, d.table); found {
					ok, why = true, w
				}
			}
			if ok {
				c.OK("R10.3", key, c.P.Pos(fs.Store.Pos()), why)
			} else {
				c.Bad("R10.3", key, c.P.Pos(fs.Store.Pos()), why+": an unknown "+strings.ToLower(d.field)+" in the file is accepted")
			}
		}
		if n == 0 {
			c.Bad("R10.3", fmt.Sprintf("config.ParseData/%s{%s}/never-set", d.typ, d.field), c.P.Pos(pf.fn.Pos()), "field never set")
		}
	}
	// action mapping values
	for _, b := range pf.regionBlocks() {
		for _, in := range b.Instrs {
			mu, ok := in.(*ssa.MapUpdate)
			if !ok {
				continue
			}
			mt, ok := mu.Map.Type().Underlying().(*types.Map)
			if !ok {
				continue
			}
			if n, ok := mt.Elem().(*types.Named); !ok || n.Obj().Name() != "Action" {
				continue
			}
			okv, why := checkVal(mu.Value, b, "SupportedActions", nil)
			key := "config.ParseData/actionMapping[value]/in-SupportedActions"
			if okv {
				c.OK("R10.3", key, c.P.Pos(mu.Pos()), why)
			} else {
				c.Bad("R10.3", key, c.P.Pos(mu.Pos()), why+": an unknown action is accepted")
			}
		}
	}
}

// ruleUnknownFields: R10.4.
func ruleUnknownFields(c *Ctx, pf *parserFacts) {
	isToml := func(callee *ssa.Function, name string) bool {
		return callee != nil && callee.Pkg != nil && strings.Contains(callee.Pkg.Pkg.Path(), "go-toml") && callee.Name() == name
	}
	// the decode site in ParseData: a direct Decode call, or a call of a repository helper that calls Decode on its parameter
	var decodeSite *ssa.Call
	var decoder ssa.Value
	var disallow *ssa.Call
	for _, b := range pf.regionBlocks() { // ParseData or a stage function of the parser
		for _, in := range b.Instrs {
			call, ok := in.(*ssa.Call)
			if !ok {
				continue
			}
			callee := call.Call.StaticCallee()
			switch {
			case isToml(callee, "Decode"):
				if _, isParam := call.Call.Args[0].(*ssa.Parameter); isParam {
					continue // inside a decode helper: seen from its call site, where the decoder is created
				}
				decodeSite, decoder = call, call.Call.Args[0]
			case isToml(callee, "DisallowUnknownFields"):
				disallow = call
			case callee != nil && pf.p.OwnedFunc(callee) && callee.Blocks != nil:
				for _, hb := range callee.Blocks {
					for _, hi := range hb.Instrs {
						hc, ok := hi.(*ssa.Call)
						if !ok {
							continue
						}
						// Decode on the helper's parameter: a *toml.Decoder, or an interface the decoder is passed as
						var recv ssa.Value
						switch {
						case isToml(hc.Call.StaticCallee(), "Decode"):
							recv = hc.Call.Args[0]
						case hc.Call.IsInvoke() && hc.Call.Method.Name() == "Decode":
							recv = hc.Call.Value
						}
						for pi, prm := range callee.Params {
							if recv == ssa.Value(prm) && pi < len(call.Call.Args) {
								arg := call.Call.Args[pi]
								for k := 0; k < 3; k++ {
									switch y := arg.(type) {
									case *ssa.MakeInterface:
										arg = y.X
									case *ssa.ChangeInterface:
										arg = y.X
									}
								}
								if strings.Contains(arg.Type().String(), "go-toml") && strings.HasSuffix(arg.Type().String(), ".Decoder") {
									decodeSite, decoder = call, arg
								}
							}
						}
					}
				}
			}
		}
	}
	key := "config.ParseData/DisallowUnknownFields-before-Decode"
	if decodeSite == nil {
		c.Undec("R10.4", key, c.P.Pos(pf.fn.Pos()), "no Decode call of the TOML decoder found in ParseData (directly or through a helper)")
		return
	}
	// R10.11 the decode target is a fresh zero value of this very call: the address of a local variable that nothing was
	// stored into before (go-toml merges into what is already there: a target taken from a pool, a package-level variable or
	// a parameter carries the previous file's sections into a file that omits them)
	{
		var tgt ssa.Value
		for _, a := range decodeSite.Call.Args {
			if mi, ok := a.(*ssa.MakeInterface); ok {
				if _, isPtr := mi.X.Type().Underlying().(*types.Pointer); isPtr {
					tgt = mi.X
				}
			}
		}
		tkey := "config.ParseData/decode-target-is-a-fresh-zero-value"
		tpos := c.P.Pos(decodeSite.Pos())
		al, isAlloc := tgt.(*ssa.Alloc)
		switch {
		case tgt == nil:
			c.Undec("R10.11", tkey, tpos, "the value handed to the decoder was not identified")
		case !isAlloc:
			c.Bad("R10.11", tkey, tpos, "the decoder fills in "+pf.view(decodeSite.Parent()).Term(tgt).String()+", which is not a local variable of this call (a pooled, shared or passed-in object): sections the file omits keep the values of the previously decoded file")
		default:
			dirty := ""
			for _, r := range *al.Referrers() {
				in, ok := r.(ssa.Instruction)
				if !ok || in == ssa.Instruction(decodeSite) {
					continue
				}
				before := in.Block() == decodeSite.Block() && instrBefore(in, decodeSite) || in.Block() != decodeSite.Block() && in.Block().Dominates(decodeSite.Block())
				if !before {
					continue
				}
				switch x := r.(type) {
				case *ssa.Store:
					if x.Addr == ssa.Value(al) {
						if k, isK := x.Val.(*ssa.Const); !isK || !isZeroConst(k) {
							dirty = "it is assigned " + pf.view(decodeSite.Parent()).Term(x.Val).String() + " before decoding"
						}
					}
				case *ssa.MakeInterface, *ssa.DebugRef:
				case *ssa.FieldAddr, *ssa.IndexAddr:
					for _, rr := range *x.(ssa.Value).Referrers() {
						if st, ok := rr.(*ssa.Store); ok && st.Addr == x.(ssa.Value) {
							dirty = "a component of it is written before decoding"
						}
					}
				}
			}
			c.Check(dirty == "", "R10.11", tkey, tpos, "the decoder fills in a local variable that is still zero", "the decode target is not a fresh zero value: "+dirty)
		}
	}
	ok := disallow != nil && disallow.Call.Args[0] == decoder && (disallow.Block() == decodeSite.Block() && instrBefore(disallow, decodeSite) || disallow.Block() != decodeSite.Block() && disallow.Block().Dominates(decodeSite.Block()))
	c.Check(ok, "R10.4", key, c.P.Pos(decodeSite.Pos()), "called on the same decoder, on every path before Decode", "Decode is not preceded by DisallowUnknownFields on the same decoder: unknown fields in a file are silently ignored")
}

func instrBefore(a, b ssa.Instruction) bool {
	for _, x := range a.Block().Instrs {
		if x == a {
			return true
		}
		if x == b {
			return false
		}
	}
	return false
}

// ruleRejectionTotal: R10.5 every error return returns the zero Config: in ParseData and in every stage function of the
// parser that returns (Config, error) and whose results ParseData returns as they are.
func ruleRejectionTotal(c *Ctx, pf *parserFacts) {
	n := 0
	seen := map[*ssa.Function]bool{}
	var visit func(fn *ssa.Function)
	visit = func(fn *ssa.Function) {
		if seen[fn] {
			return
		}
		seen[fn] = true
		name := "config." + fn.Name()
		k := 0
		for _, b := range fn.Blocks {
			r, ok := b.Instrs[len(b.Instrs)-1].(*ssa.Return)
			if !ok || len(r.Results) != 2 || b == fn.Recover {
				continue
			}
			n++
			k++
			key := fmt.Sprintf("%s/return#%d", name, k)
			pos := c.P.Pos(r.Pos())
			// both results of one call of a parser stage, returned as they are
			if e0, ok := r.Results[0].(*ssa.Extract); ok {
				if e1, ok := r.Results[1].(*ssa.Extract); ok && e0.Tuple == e1.Tuple && e0.Index == 0 && e1.Index == 1 {
					if call, ok := e0.Tuple.(*ssa.Call); ok {
						if callee := call.Call.StaticCallee(); callee != nil && pf.region[callee] && callee.Blocks != nil {
							c.OK("R10.5", key+"(forwarded)", pos, "returns the results of "+callee.Name()+" as they are")
							visit(callee)
							continue
						}
					}
				}
			}
			errNil := false
			if k, isK := r.Results[1].(*ssa.Const); isK && k.Value == nil {
				errNil = true
			}
			_, cfgZero := r.Results[0].(*ssa.Const)
			if errNil {
				c.Check(!cfgZero, "R10.5", key+"(success)", pos, "returns the built configuration with a nil error", "success return hands out the zero Config")
			} else {
				c.Check(cfgZero, "R10.5", key+"(error)", pos, "error return hands out the zero Config", "an error is returned together with a partly built configuration")
			}
		}
	}
	visit(pf.fn)
	_ = token.NoPos
}

// ruleEvCodeProvenance: R10.8 a key/axis name is turned into an event code only by a hit in the name table or by a
// full-string strconv parse; anything laxer (a scanning parser that ignores trailing text, a prefix match) accepts names
// the file does not say.
func ruleEvCodeProvenance(c *Ctx, pf *parserFacts) {
	fn := c.P.Func(pkgConfig, "", "TomlKeyToEvCode")
	if !c.Require(fn != nil, "R10.8", "anchor:config.TomlKeyToEvCode", "function not found") {
		return
	}
	c.Fn(shortFn(fn))
	// decided on the paths of the function (whatever its shape: early returns, or one return of named results): on every
	// path that returns a nil error the returned code is a table hit or a full-string strconv parse
	paths, err := Enumerate(fn, SymConfig{Prog: c.P, MaxDepth: 1, Collapse: true})
	if !c.Require(err == nil, "R10.8", "config.TomlKeyToEvCode", fmt.Sprint(err)) {
		return
	}
	c.Paths += len(paths)
	n := 0
	seenSrc := map[string]bool{}
	for _, p := range paths {
		if p.End != "return" || len(p.Ret) != 2 || !p.Ret[1].IsNil() {
			continue
		}
		n++
		t := p.Ret[0].StripConv()
		src := ""
		var visit func(t *Term) bool
		visit = func(t *Term) bool {
			t = t.StripConv()
			switch t.Op {
			case "extract":
				if len(t.Args) == 1 {
					a := t.Args[0]
					if a.Op == "call" && strings.HasPrefix(a.Aux, "strconv.Parse") || a.Op == "call" && strings.HasPrefix(a.Aux, "strconv.Atoi") {
						src = "strconv parse of the whole string"
						return t.Aux == "0"
					}
					if a.Op == "lookup" || a.Op == "lookupok" {
						src = "table hit"
						return true
					}
				}
			case "lookup":
				src = "table hit"
				return true
			case "phi":
				okAll := len(t.Args) > 0
				for _, a := range t.Args {
					if !visit(a) {
						okAll = false
					}
				}
				return okAll
			}
			return false
		}
		okV := visit(t)
		key := "config.TomlKeyToEvCode/success-return/provenance[" + src + "]"
		if !okV {
			key = fmt.Sprintf("config.TomlKeyToEvCode/success-return#%d/provenance", n)
		} else if seenSrc[src] {
			continue
		}
		seenSrc[src] = true
		pos := c.P.Pos(fn.Pos())
		if okV {
			c.OK("R10.8", key, pos, "returned code is a "+src)
		} else {
			c.Bad("R10.8", key, pos, "the returned event code "+truncate(t.String(), 160)+" is neither a table hit nor the result of a full-string strconv parse: a lax conversion accepts names the file does not contain")
		}
	}
	if n == 0 {
		c.Undec("R10.8", "config.TomlKeyToEvCode/success-returns", c.P.Pos(fn.Pos()), "no success return found")
	}
	// the table says what kind of name it is: a key name is a name evdev knows as a key, an axis name one it knows as an
	// axis. Every table the conversion looks names up in is one of evdev's name tables - handed in by the caller, who knows
	// which kind it is reading, or consulted directly; a table of the package that holds the names of both kinds turns
	// "ABS_X" into a key code and "KEY_A" into an axis.
	evdevTable := func(v ssa.Value) string {
		if ld, ok := v.(*ssa.UnOp); ok && ld.Op == token.MUL {
			if g, isG := ld.X.(*ssa.Global); isG && g.Pkg != nil && strings.Contains(g.Pkg.Pkg.Path(), "go-evdev") {
				return g.Name()
			}
		}
		return ""
	}
	tables := map[string]bool{}
	bad8 := ""
	for _, b := range fn.Blocks {
		for _, in := range b.Instrs {
			lk, ok := in.(*ssa.Lookup)
			if !ok {
				continue
			}
			if _, isMap := lk.X.Type().Underlying().(*types.Map); !isMap {
				continue
			}
			if t := evdevTable(lk.X); t != "" {
				tables[t] = true
				continue
			}
			prm, isPrm := lk.X.(*ssa.Parameter)
			if !isPrm {
				bad8 = fmt.Sprintf("the name is looked up in %s at %s, which is neither one of evdev's name tables nor a table the caller hands in: the hit does not say whether the name is a key or an axis", lk.X.Name(), c.P.Pos(lk.Pos()))
				continue
			}
			sites, all := staticCallSites(c.P, fn)
			idx := paramIndex(prm)
			if !all || idx < 0 {
				bad8 = "the callers of the conversion are not all known"
				continue
			}
			var fromSites func(sites []ssa.CallInstruction, idx, depth int)
			fromSites = func(sites []ssa.CallInstruction, idx, depth int) {
				for _, cs := range sites {
					if idx >= len(cs.Common().Args) {
						continue
					}
					arg := cs.Common().Args[idx]
					if t := evdevTable(arg); t != "" {
						tables[t] = true
						continue
					}
					// handed on by a helper that was itself handed the table
					if p2, isP := arg.(*ssa.Parameter); isP && depth < 3 {
						if pf2 := p2.Parent(); pf2.TypeParams().Len() > 0 && len(pf2.TypeArgs()) == 0 {
							continue // the body of a generic helper as written: its instantiations are the ones that are called
						}
						if s2, all2 := staticCallSites(c.P, p2.Parent()); all2 && paramIndex(p2) >= 0 {
							fromSites(s2, paramIndex(p2), depth+1)
							continue
						}
					}
					bad8 = fmt.Sprintf("the call at %s hands in a table that is not one of evdev's name tables", c.P.Pos(cs.Pos()))
				}
			}
			fromSites(sites, idx, 0)
		}
	}
	if bad8 == "" && len(tables) == 0 {
		bad8 = "no lookup in a name table found"
	}
	c.Check(bad8 == "", "R10.8", "config.TomlKeyToEvCode/names-looked-up-in-a-table-of-one-kind", c.P.Pos(fn.Pos()), fmt.Sprintf("names are looked up in evdev's %v (one kind per table)", sortedKeys(tables)), bad8)
}

// foundFlagGuards: some guard that holds at block b is `F` (taken) or `!F` (not taken) for a boolean phi F that runs parallel
// to the index phi idx: same block, and edge by edge F is true where idx takes a non-negative list index, false where idx
// takes a constant, and F itself where idx is carried.
func foundFlagGuards(vw *FnView, b *ssa.BasicBlock, idx *ssa.Phi) bool {
	for _, a := range vw.GuardsAt(b) {
		if a.Instr == nil {
			continue
		}
		v, want := a.Instr.Cond, a.Taken
		for i := 0; i < 3; i++ {
			if u, ok := v.(*ssa.UnOp); ok && u.Op == token.NOT {
				v, want = u.X, !want
			}
		}
		f, ok := v.(*ssa.Phi)
		if !ok || !want || f.Block() != idx.Block() || len(f.Edges) != len(idx.Edges) {
			continue
		}
		parallel, sets := true, 0
		for k := range f.Edges {
			fe, ve := f.Edges[k], idx.Edges[k]
			switch {
			case fe == ssa.Value(f):
				parallel = parallel && ve == ssa.Value(idx)
			case isBoolConst(fe, false):
				_, isK := ve.(*ssa.Const)
				parallel = parallel && isK
			case isBoolConst(fe, true):
				_, isK := ve.(*ssa.Const)
				parallel = parallel && !isK && ve != ssa.Value(idx) && nonNegativeIndex(ve)
				sets++
			default:
				parallel = false
			}
		}
		if parallel && sets > 0 {
			return true
		}
	}
	return false
}

func isBoolConst(v ssa.Value, want bool) bool {
	k, ok := v.(*ssa.Const)
	return ok && k.Value != nil && k.Value.Kind() == constant.Bool && constant.BoolVal(k.Value) == want
}

// checkedAfterStore: see ruleVocabularies.
func checkedAfterStore(pf *parserFacts, fs fieldStore, table string) (string, bool) {
	cons := consumers(fs.Lit)
	if len(cons) == 0 {
		return "", false
	}
	fa, ok := fs.Store.Addr.(*ssa.FieldAddr)
	if !ok {
		return "", false
	}
	// exactly one store to this field of the literal on the way (a second one could follow the test)
	for _, r := range *fs.Lit.Referrers() {
		if fa2, ok := r.(*ssa.FieldAddr); ok && fa2.Field == fa.Field {
			for _, rr := range *fa2.Referrers() {
				if st, ok := rr.(*ssa.Store); ok && st != fs.Store && fs.Store.Block().Dominates(st.Block()) {
					return "", false
				}
			}
		}
	}
	fn := fs.Store.Parent()
	for _, b := range fn.Blocks {
		ifi, ok := b.Instrs[len(b.Instrs)-1].(*ssa.If)
		if !ok || !(fs.Store.Block().Dominates(b)) {
			continue
		}
		cond, pass := ifi.Cond, 0
		if u, isNot := cond.(*ssa.UnOp); isNot && u.Op == token.NOT {
			cond, pass = u.X, 1
		}
		lk, ok := cond.(*ssa.Lookup)
		if !ok {
			continue
		}
		g, isG := lk.X.(*ssa.UnOp)
		if !isG {
			continue
		}
		gl, isGl := g.X.(*ssa.Global)
		if !isGl || gl.Name() != table {
			continue
		}
		// the index is a load of that very field of the literal
		ld, isLd := lk.Index.(*ssa.UnOp)
		if !isLd || ld.Op != token.MUL {
			continue
		}
		lfa, isFA := ld.X.(*ssa.FieldAddr)
		if !isFA || lfa.X != fs.Lit || lfa.Field != fa.Field {
			continue
		}
		// same block: the test comes after the store
		if b == fs.Store.Block() && !instrBefore(fs.Store, ld) {
			continue
		}
		passSucc, failSucc := b.Succs[pass], b.Succs[1-pass]
		if reachesAvoiding(failSucc, cons, nil, nil) {
			continue // the failing branch still delivers the entry
		}
		if fs.Store.Block() != b && reachesAvoidingFromStore(fs.Store.Block(), cons, b, passSucc) {
			continue // some way from the store to a use avoids the passing edge of the test
		}
		return "stored, then tested with " + table + "[entry." + fieldOfAddr(fa).Name() + "] before the entry can be used (the failing branch returns without it)", true
	}
	return "", false
}

// reachesAvoidingFromStore: like reachesAvoiding, from the successors of the store's block.
func reachesAvoidingFromStore(from *ssa.BasicBlock, targets []*ssa.BasicBlock, cutFrom, cutTo *ssa.BasicBlock) bool {
	for _, s := range from.Succs {
		if from == cutFrom && s == cutTo {
			continue
		}
		if reachesAvoiding(s, targets, cutFrom, cutTo) {
			return true
		}
	}
	return false
}

// decodeTargetRules: R10.4/R10.11 for import by C12 (one file's content must not leak into the next one).
func decodeTargetRules(c *Ctx) {
	pf := newParserFacts(c)
	if pf.err != nil {
		return
	}
	ruleUnknownFields(c, pf)
}

// ruleNoSilentSkip: R10.12. The tables of the file (keys, axes, deadzones, action keys) are maps the parser ranges over:
// every iteration either stores an entry into a destination map or ends the parse with an error. An iteration that goes
// back to the loop header without a store (`continue` under some condition) drops what the file states, silently.
func ruleNoSilentSkip(c *Ctx, pf *parserFacts, rule string) {
	n := 0
	for _, fn := range pf.regionFuncs() {
		for _, hb := range fn.Blocks {
			for _, in := range hb.Instrs {
				nx, ok := in.(*ssa.Next)
				if !ok || nx.IsString {
					continue
				}
				rg, ok := nx.Iter.(*ssa.Range)
				if !ok {
					continue
				}
				if _, isMap := rg.X.Type().Underlying().(*types.Map); !isMap {
					continue
				}
				ifi, ok := hb.Instrs[len(hb.Instrs)-1].(*ssa.If)
				if !ok {
					continue
				}
				body := ifi.Block().Succs[0]
				// does the loop body store anything at all? (a pure search loop is not a table conversion)
				stores := map[*ssa.BasicBlock]bool{}
				for _, b := range fn.Blocks {
					if !body.Dominates(b) {
						continue
					}
					for _, bi := range b.Instrs {
						if _, isMU := bi.(*ssa.MapUpdate); isMU {
							stores[b] = true
						}
					}
				}
				if len(stores) == 0 {
					continue
				}
				n++
				tname := pf.view(fn).Term(rg.X).String()
				if i := strings.LastIndex(tname, "."); i >= 0 && i+1 < len(tname) {
					tname = tname[i+1:]
				}
				key := fmt.Sprintf("%s/table-loop(%s)/every-entry-stored-or-rejected", shortFn(fn), truncate(tname, 40))
				// the header reachable from the body entry without passing a storing block?
				seen := map[*ssa.BasicBlock]bool{}
				stack := []*ssa.BasicBlock{body}
				skipped := false
				for len(stack) > 0 && !skipped {
					b := stack[len(stack)-1]
					stack = stack[:len(stack)-1]
					if seen[b] || stores[b] {
						continue
					}
					seen[b] = true
					for _, s := range b.Succs {
						if s == hb {
							skipped = true
						}
						if body.Dominates(s) {
							stack = append(stack, s)
						}
					}
				}
				c.Check(!skipped, rule, key, c.P.Pos(rg.Pos()), "every iteration over the table stores an entry or leaves the parser with an error",
					"an iteration over a table of the file can go on to the next entry without storing anything: what the file states for that entry is dropped without an error")
			}
		}
	}
	if n == 0 {
		c.Trivial(rule, "table-loops", "-", "no loop over a table of the file that stores its entries directly (the conversion is delegated to callbacks): not judged by this rule")
	}
}

// fieldPathOf: fa addresses root.f1.f2...: the local variable and the field indices.
func fieldPathOf(fa *ssa.FieldAddr) (*ssa.Alloc, []int) {
	var path []int
	var cur ssa.Value = fa
	for {
		f, ok := cur.(*ssa.FieldAddr)
		if !ok {
			break
		}
		path = append([]int{f.Field}, path...)
		cur = f.X
	}
	a, ok := cur.(*ssa.Alloc)
	if !ok {
		return nil, nil
	}
	return a, path
}

// storesToPath: the stores into root.f1.f2... (the same field path of the same variable), anywhere in the function.
func storesToPath(root *ssa.Alloc, path []int) []*ssa.Store {
	var out []*ssa.Store
	var walk func(v ssa.Value, depth int)
	walk = func(v ssa.Value, depth int) {
		if v.Referrers() == nil {
			return
		}
		for _, r := range *v.Referrers() {
			switch x := r.(type) {
			case *ssa.FieldAddr:
				if depth < len(path) && x.X == v && x.Field == path[depth] {
					walk(x, depth+1)
				}
			case *ssa.Store:
				if depth == len(path) && x.Addr == v {
					out = append(out, x)
				}
			}
		}
	}
	walk(root, 0)
	return out
}
