package main

import (
	"fmt"
	"go/ast"
	"go/constant"
	"go/token"
	"go/types"
	"regexp/syntax"
	"sort"
	"strconv"
	"strings"
	"unicode"

	"golang.org/x/tools/go/ssa"
)

func init() {
	registry["C11"] = checkC11
}

// evalTerm evaluates an integer/boolean term under an assignment of its leaves (by String()),
// with Go's wrap-around semantics for sized integer types.  Returns ok=false if the term
// contains something it cannot evaluate.
func evalTerm(t *Term, env map[string]int64) (int64, bool) {
	if v, ok := env[t.String()]; ok {
		return v, true
	}
	if n, ok := t.IsIntConst(); ok {
		return n, true
	}
	if b, ok := t.IsBoolConst(); ok {
		if b {
			return 1, true
		}
		return 0, true
	}
	switch t.Op {
	case "convert":
		v, ok := evalTerm(t.Args[0], env)
		if !ok {
			return 0, false
		}
		return wrapTo(v, t.Type), isIntegerType(t.Type)
	case "unop":
		v, ok := evalTerm(t.Args[0], env)
		if !ok {
			return 0, false
		}
		switch t.Aux {
		case "-":
			return wrapTo(-v, t.Type), true
		case "!":
			if v == 0 {
				return 1, true
			}
			return 0, true
		}
	case "binop":
		x, ok1 := evalTerm(t.Args[0], env)
		y, ok2 := evalTerm(t.Args[1], env)
		if !ok1 || !ok2 {
			return 0, false
		}
		b2i := func(b bool) (int64, bool) {
			if b {
				return 1, true
			}
			return 0, true
		}
		switch t.Aux {
		case "+":
			return wrapTo(x+y, t.Type), true
		case "-":
			return wrapTo(x-y, t.Type), true
		case "*":
			return wrapTo(x*y, t.Type), true
		case "/":
			if y == 0 {
				return 0, false
			}
			return wrapTo(x/y, t.Type), true
		case "%":
			if y == 0 {
				return 0, false
			}
			return wrapTo(x%y, t.Type), true
		case "&":
			return wrapTo(x&y, t.Type), true
		case "|":
			return wrapTo(x|y, t.Type), true
		case "<<":
			return wrapTo(x<<uint(y), t.Type), true
		case ">>":
			return wrapTo(x>>uint(y), t.Type), true
		case "<":
			return b2i(x < y)
		case "<=":
			return b2i(x <= y)
		case ">":
			return b2i(x > y)
		case ">=":
			return b2i(x >= y)
		case "==":
			return b2i(x == y)
		case "!=":
			return b2i(x != y)
		}
	}
	return 0, false
}

func wrapTo(v int64, t types.Type) int64 {
	if t == nil {
		return v
	}
	b, ok := t.Underlying().(*types.Basic)
	if !ok {
		return v
	}
	switch b.Kind() {
	case types.Int8:
		return int64(int8(v))
	case types.Uint8:
		return int64(uint8(v))
	case types.Int16:
		return int64(int16(v))
	case types.Uint16:
		return int64(uint16(v))
	case types.Int32:
		return int64(int32(v))
	case types.Uint32:
		return int64(uint32(v))
	}
	return v
}

// regexLanguage enumerates the finite language of re (up to limit strings).
func regexLanguage(re *syntax.Regexp, limit int) ([]string, bool) {
	switch re.Op {
	case syntax.OpEmptyMatch:
		return []string{""}, true
	case syntax.OpLiteral:
		s := string(re.Rune)
		if re.Flags&syntax.FoldCase != 0 {
			return nil, false
		}
		return []string{s}, true
	case syntax.OpCharClass:
		var out []string
		for i := 0; i+1 < len(re.Rune); i += 2 {
			for r := re.Rune[i]; r <= re.Rune[i+1]; r++ {
				out = append(out, string(r))
				if len(out) > limit {
					return nil, false
				}
			}
		}
		return out, true
	case syntax.OpCapture:
		return regexLanguage(re.Sub[0], limit)
	case syntax.OpQuest:
		l, ok := regexLanguage(re.Sub[0], limit)
		if !ok {
			return nil, false
		}
		return append([]string{""}, l...), true
	case syntax.OpAlternate:
		var out []string
		for _, s := range re.Sub {
			l, ok := regexLanguage(s, limit)
			if !ok {
				return nil, false
			}
			out = append(out, l...)
		}
		return out, true
	case syntax.OpConcat:
		out := []string{""}
		for _, s := range re.Sub {
			l, ok := regexLanguage(s, limit)
			if !ok {
				return nil, false
			}
			var nxt []string
			for _, a := range out {
				for _, b := range l {
					nxt = append(nxt, a+b)
					if len(nxt) > limit {
						return nil, false
					}
				}
			}
			out = nxt
		}
		return out, true
	case syntax.OpRepeat:
		if re.Max < 0 || re.Max > 4 {
			return nil, false
		}
		l, ok := regexLanguage(re.Sub[0], limit)
		if !ok {
			return nil, false
		}
		var out []string
		cur := []string{""}
		for i := 0; i <= re.Max; i++ {
			if i >= re.Min {
				out = append(out, cur...)
			}
			var nxt []string
			for _, a := range cur {
				for _, b := range l {
					nxt = append(nxt, a+b)
				}
			}
			cur = nxt
			if len(out)+len(cur) > limit {
				return nil, false
			}
		}
		return out, true
	}
	return nil, false
}

// globalRegexPattern: the constant pattern a package-level *regexp.Regexp variable is compiled from.
func (p *Program) globalRegexPattern(pkgPath, name string) (string, token.Pos, bool) {
	pk := p.Pkgs[pkgPath]
	if pk == nil {
		return "", 0, false
	}
	for _, f := range pk.Syntax {
		for _, d := range f.Decls {
			gd, ok := d.(*ast.GenDecl)
			if !ok || gd.Tok != token.VAR {
				continue
			}
			for _, s := range gd.Specs {
				vs := s.(*ast.ValueSpec)
				for i, n := range vs.Names {
					if n.Name != name || i >= len(vs.Values) {
						continue
					}
					call, ok := vs.Values[i].(*ast.CallExpr)
					if !ok || len(call.Args) != 1 {
						return "", 0, false
					}
					tv := pk.TypesInfo.Types[call.Args[0]]
					if tv.Value == nil || tv.Value.Kind() != constant.String {
						return "", 0, false
					}
					return constant.StringVal(tv.Value), call.Pos(), true
				}
			}
		}
	}
	return "", 0, false
}

func checkC11(c *Ctx) {
	defer func() {
		if pf := newParserFacts(c); pf.err == nil {
			ruleErrorsReturnedAs(c, pf.regionFuncs(), "R11.6", func(key string) bool {
				return !strings.Contains(key, "StringToNote") && !strings.Contains(key, "Atoi#2")
			}) // a rejected name must reject the configuration
		}
	}()
	fn := c.P.Func(pkgConfig, "", "StringToNote")
	n2p := c.P.Func(pkgConfig, "", "NoteToPitch")
	n2o := c.P.Func(pkgConfig, "", "NoteToOctave")
	if !c.Require(fn != nil && n2p != nil && n2o != nil, "R11.0", "anchor:config.StringToNote", "StringToNote/NoteToPitch/NoteToOctave not found") {
		return
	}
	// the conversion may have moved into a package of its own, with the old names kept as one-line forwards
	fn, n2p, n2o = followForward(c.P, fn), followForward(c.P, n2p), followForward(c.P, n2o)
	c.Fn(shortFn(fn))
	c.Fn(shortFn(n2p))
	c.Fn(shortFn(n2o))
	pos := c.P.Pos(fn.Pos())

	// R11.3 pattern
	rePkg, reName := pkgConfig, "stringToNoteRegex"
	for _, b := range fn.Blocks { // the pattern the conversion matches with: the package-level regexp it loads
		for _, in := range b.Instrs {
			if u, isU := in.(*ssa.UnOp); isU && u.Op == token.MUL {
				if g, isG := u.X.(*ssa.Global); isG && g.Pkg != nil && strings.HasSuffix(g.Type().String(), "regexp.Regexp") {
					rePkg, reName = g.Pkg.Pkg.Path(), g.Name()
				}
			}
		}
	}
	// what the pattern is matched against is the name as given: a normalisation in front of it (a Replacer, a trim, a case
	// fold the pattern does not already express) gives strings that are no note names a number
	{
		nMatch, badArg := 0, ""
		for _, b := range fn.Blocks {
			for _, in := range b.Instrs {
				call, isCall := in.(*ssa.Call)
				if !isCall {
					continue
				}
				callee := call.Call.StaticCallee()
				if callee == nil || pkgPathOf(callee) != "regexp" || len(call.Call.Args) < 2 || !isStringType(call.Call.Args[1].Type()) {
					continue
				}
				nMatch++
				arg := call.Call.Args[1]
				if prm, isPrm := arg.(*ssa.Parameter); !isPrm || prm.Parent() != fn {
					badArg = fmt.Sprintf("the pattern is matched against %s at %s, not against the name as given", arg.String(), c.P.Pos(call.Pos()))
				}
			}
		}
		if nMatch > 0 {
			c.Check(badArg == "", "R11.3", "config.StringToNote/pattern-applied-to-the-name-itself", c.P.Pos(fn.Pos()), fmt.Sprintf("%d match(es), each on the string parameter itself", nMatch), badArg)
		}
	}
	pat, rpos, ok := c.P.globalRegexPattern(rePkg, reName)
	if !c.Require(ok, "R11.3", "anchor:config.stringToNoteRegex", "stringToNoteRegex is not compiled from a constant pattern") {
		return
	}
	re, err := syntax.Parse(pat, syntax.Perl)
	if !c.Require(err == nil, "R11.3", "config.stringToNoteRegex/parse", fmt.Sprint(err)) {
		return
	}
	var groups []*syntax.Regexp
	anchoredL, anchoredR, onlyGroups := false, false, true
	if re.Op == syntax.OpConcat {
		for i, s := range re.Sub {
			switch {
			case s.Op == syntax.OpBeginText && i == 0:
				anchoredL = true
			case s.Op == syntax.OpEndText && i == len(re.Sub)-1:
				anchoredR = true
			case s.Op == syntax.OpCapture:
				groups = append(groups, s)
			default:
				onlyGroups = false
			}
		}
	}
	c.Check(anchoredL && anchoredR && onlyGroups && len(groups) == 2, "R11.3", "config.stringToNoteRegex/anchored-two-groups", c.P.Pos(rpos),
		"pattern is ^(group)(group)$", fmt.Sprintf("pattern %q must be anchored at both ends and consist of exactly the pitch and octave groups (extra characters would be accepted otherwise)", pat))
	if len(groups) != 2 {
		return
	}
	pitchLang, okp := regexLanguage(groups[0], 2000)
	octLang, oko := regexLanguage(groups[1], 2000)
	if !c.Require(okp && oko, "R11.3", "config.stringToNoteRegex/finite-groups", "capture groups do not have a small finite language") {
		return
	}
	octs := map[int64]bool{}
	badOct := ""
	for _, s := range octLang {
		n, err := strconv.Atoi(s)
		if err != nil {
			badOct = fmt.Sprintf("octave group matches %q which is not a number", s)
			continue
		}
		octs[int64(n)] = true
	}
	for o := int64(-2); o <= 8; o++ {
		if !octs[o] {
			badOct = fmt.Sprintf("octave %d cannot be written", o)
		}
	}
	// one spelling per octave: a second spelling of an in-range octave (e.g. "-0", "08") makes a string outside the 128
	// names an accepted note name
	for _, sp := range octLang {
		if n, err := strconv.Atoi(sp); err == nil && n >= -2 && n <= 8 && sp != strconv.Itoa(n) {
			badOct = fmt.Sprintf("octave %d can also be written %q: e.g. \"c%s\" is accepted as a note although it is not one of the 128 names", n, sp, sp)
		}
	}
	if badOct != "" {
		c.Bad("R11.3", "config.stringToNoteRegex/octave-language", c.P.Pos(rpos), badOct)
	} else {
		c.OK("R11.3", "config.stringToNoteRegex/octave-language", c.P.Pos(rpos), fmt.Sprintf("octave group: %d spellings, values %d..%d", len(octLang), minKey(octs), maxKey(octs)))
	}
	for _, name := range []string{"C", "C#", "D", "D#", "E", "F", "F#", "G", "G#", "A", "A#", "B"} {
		found := false
		for _, s := range pitchLang {
			if strings.ToUpper(s) == name {
				found = true
			}
		}
		if !found {
			c.Bad("R11.3", "config.stringToNoteRegex/pitch-language", c.P.Pos(rpos), "the pitch group cannot match "+name)
		}
	}
	// both cases accepted
	lower := false
	for _, s := range pitchLang {
		if s == "c" {
			lower = true
		}
	}
	c.Check(lower, "R11.3", "config.stringToNoteRegex/any-letter-case", c.P.Pos(rpos), "lower-case spellings accepted", "lower-case note names are not accepted")

	// paths of StringToNote; a helper that maps the pitch name to its value (string -> (number, found)) is kept as a call
	helpers := map[*ssa.Function]bool{}
	for _, b := range fn.Blocks {
		for _, in := range b.Instrs {
			if ci, ok := in.(ssa.CallInstruction); ok {
				if h := ci.Common().StaticCallee(); h != nil && isPitchHelper(c.P, h) {
					helpers[h] = true
				}
			}
		}
	}
	paths, err := Enumerate(fn, SymConfig{Prog: c.P, MaxDepth: 1, Collapse: true, NoInline: helpers})
	if !c.Require(err == nil, "R11.1", "config.StringToNote", fmt.Sprint(err)) {
		return
	}
	c.Paths += len(paths)
	var success []*Path
	for _, p := range paths {
		if p.End != "return" || len(p.Ret) != 2 {
			c.Bad("R11.1", "config.StringToNote/ends", pos, "path ends with "+p.End+": a string can crash the conversion")
			continue
		}
		if p.Ret[1].IsNil() {
			success = append(success, p)
		}
	}
	if !c.Require(len(success) >= 1, "R11.1", "config.StringToNote/success-path", "no success path") {
		return
	}
	upper := map[string]bool{}
	for _, s := range pitchLang {
		upper[strings.ToUpper(s)] = true
	}
	// R11.2 the two directions of the name table, found where they are used: what StringToNote's success path consults
	// for the pitch (a map, or a search helper) and what NoteToPitch indexes (a map or an array)
	p2v, fwdDesc, ppos, ok1 := forwardPitchTable(c, success, helpers, upper)
	v2p, bwdDesc, ok2 := backwardPitchTable(c, n2p)
	if !c.Require(ok1 && ok2, "R11.2", "anchor:config.pitch-tables", "the pitch tables consulted by StringToNote / NoteToPitch are not constant tables: "+fwdDesc+" / "+bwdDesc) {
		return
	}
	bad := ""
	if len(p2v) != 12 || len(v2p) != 12 {
		bad = fmt.Sprintf("tables must have 12 distinct entries each (%s: %d, %s: %d)", fwdDesc, len(p2v), bwdDesc, len(v2p))
	}
	want := map[string]int64{"C": 0, "C#": 1, "D": 2, "D#": 3, "E": 4, "F": 5, "F#": 6, "G": 7, "G#": 8, "A": 9, "A#": 10, "B": 11}
	for _, k := range sortedKeys(p2v) {
		v := p2v[k]
		if w, ok := want[k]; !ok || w != v {
			bad = fmt.Sprintf("%s gives %q = %d, which is not a note name of the chromatic scale at its semitone", fwdDesc, k, v)
		}
		if v2p[v] != k {
			bad = fmt.Sprintf("%s gives %d = %q but %s gives %q = %d: the tables are not inverse", bwdDesc, v, v2p[v], fwdDesc, k, v)
		}
	}
	for v := int64(0); v < 12; v++ {
		if _, ok := v2p[v]; !ok {
			bad = fmt.Sprintf("%s has no entry for %d", bwdDesc, v)
		}
	}
	if bad != "" {
		c.Bad("R11.2", "config.pitchToVal<->valToPitch", ppos, bad)
	} else {
		c.OK("R11.2", "config.pitchToVal<->valToPitch", ppos, "12 names <-> 0..11, inverse bijections, letters A-G with # on C,D,F,G,A only ("+fwdDesc+"; "+bwdDesc+")")
	}
	// R11.1 the table lookup
	var unknown []string
	for s := range upper {
		if _, ok := p2v[s]; !ok {
			unknown = append(unknown, s)
		}
	}
	sort.Strings(unknown)
	for _, p := range success {
		lk, pitchLeaf, checked := pitchLookupOn(p, helpers)
		key := "config.StringToNote/pitch-table-lookup"
		if lk == nil {
			c.Undec("R11.1", key, pos, "no lookup of the pitch table on the success path")
			continue
		}
		// the key is ToUpper(match[1])
		kstr := lk.Args[len(lk.Args)-1].String()
		if !strings.Contains(kstr, "strings.ToUpper") {
			c.Bad("R11.1", key, pos, "the pitch is looked up without upper-casing: "+kstr)
			continue
		}
		if checked {
			c.OK("R11.1", key, pos, "comma-ok lookup: names outside the table are rejected on the miss edge")
		} else if len(unknown) == 0 {
			c.OK("R11.1", key, pos, "unchecked lookup, but every string the pitch group can match is a table key")
		} else {
			ex := unknown
			if len(ex) > 8 {
				ex = ex[:8]
			}
			c.Bad("R11.1", key, pos, fmt.Sprintf("pitchToVal[pitch] is an unchecked lookup and the pitch group matches %d upper-cased spellings that are not table keys (%v ...): such names silently become pitch 0 (a C), e.g. \"H4\", \"E#3\"", len(unknown), ex))
		}
		// R11.4 wrap-soundness of the returned value and its guards
		ruleNoteFormula(c, p, pitchLeaf, octs, p2v, pos)
	}

	// R11.5 inverse functions
	ruleInverseFunctions(c, n2p, n2o, v2p)
	c.MinCount("R11.1", 1)
	c.MinCount("R11.4", 1)
	c.MinCount("R11.5", 2)
	c.DecidedClause("the name pattern is anchored and consists of the pitch and octave groups only; the pitch lookup is checked (or the group's language is a subset of the table); the two tables are inverse bijections on the 12 names; the 8-bit formula (octave+2)*12+pitch with its range test accepts exactly the combinations whose mathematical value is in 0..127 and returns that value (evaluated abstractly over the finite languages of the groups); NoteToPitch/NoteToOctave invert it on 0..127")
	c.UndecidedClause("the round trip itself is not executed; it follows by arithmetic from the decided premises; strconv.Atoi/regexp semantics are trusted")
}

func minKey(m map[int64]bool) int64 {
	first := true
	var r int64
	for k := range m {
		if first || k < r {
			r, first = k, false
		}
	}
	return r
}
func maxKey(m map[int64]bool) int64 {
	first := true
	var r int64
	for k := range m {
		if first || k > r {
			r, first = k, false
		}
	}
	return r
}

func ruleNoteFormula(c *Ctx, p *Path, pitchLeaf *Term, octs map[int64]bool, p2v map[string]int64, pos string) {
	key := "config.StringToNote/8-bit-range-check"
	ret := p.Ret[0]
	// leaves: the octave number and the table value
	var octLeaf *Term
	ret.Walk(func(t *Term) bool {
		if t.Op == "extract" && t.Aux == "0" && t.Args[0].Op == "call" && strings.HasPrefix(t.Args[0].Aux, "strconv.Atoi") {
			octLeaf = t
		}
		return true
	})
	if octLeaf == nil || !strings.Contains(ret.String(), pitchLeaf.String()) {
		c.Undec("R11.4", key, pos, "returned value is not a function of the parsed octave and the table value: "+ret.String())
		return
	}
	cases, badCase := 0, ""
	var vals []int64
	for _, v := range p2v {
		vals = append(vals, v)
	}
	for o := range octs {
		for _, pv := range vals {
			env := map[string]int64{octLeaf.String(): o, pitchLeaf.String(): pv}
			got, ok := evalTerm(ret, env)
			if !ok {
				c.Undec("R11.4", key, pos, "cannot evaluate "+ret.String())
				return
			}
			accepted := true
			for _, a := range p.Atoms {
				v, ok := evalTerm(a.Cond, env)
				if !ok {
					continue // atoms about the match itself
				}
				if (v != 0) != a.Taken {
					accepted = false
				}
			}
			math := (o+2)*12 + pv
			cases++
			inRange := math >= 0 && math <= 127
			switch {
			case inRange && !accepted:
				badCase = fmt.Sprintf("octave %d pitch %d (note %d) is rejected", o, pv, math)
			case inRange && got != math:
				badCase = fmt.Sprintf("octave %d pitch %d yields %d instead of %d", o, pv, got, math)
			case !inRange && accepted:
				badCase = fmt.Sprintf("octave %d pitch %d is outside 0..127 (value %d) but is accepted as note %d (8-bit wrap-around)", o, pv, math, got)
			}
		}
	}
	if badCase != "" {
		c.Bad("R11.4", key, pos, badCase)
	} else {
		c.OK("R11.4", key, pos, fmt.Sprintf("%d (octave, pitch) combinations evaluated abstractly: accepted iff 12*(octave+2)+pitch in 0..127, and then returned exactly", cases))
	}
}

func ruleInverseFunctions(c *Ctx, n2p, n2o *ssa.Function, v2p map[int64]string) {
	for _, spec := range []struct {
		fn   *ssa.Function
		name string
	}{{n2p, "NoteToPitch"}, {n2o, "NoteToOctave"}} {
		key := "config." + spec.name + "/inverse"
		pos := c.P.Pos(spec.fn.Pos())
		paths, err := Enumerate(spec.fn, SymConfig{Prog: c.P, MaxDepth: 1, Collapse: true})
		if err != nil || len(paths) != 1 || len(paths[0].Ret) != 1 {
			c.Undec("R11.5", key, pos, "not a single straight-line function")
			continue
		}
		c.Paths++
		ret := paths[0].Ret[0]
		bad := ""
		for n := int64(0); n <= 127 && bad == ""; n++ {
			env := map[string]int64{"note": n}
			if len(spec.fn.Params) == 1 {
				env = map[string]int64{spec.fn.Params[0].Name(): n}
			}
			if spec.name == "NoteToPitch" {
				_, it := tableAccess(ret)
				if it == nil {
					bad = "does not look the name up in the name table: " + ret.String()
					break
				}
				idx, ok := evalTerm(it, env)
				if !ok || idx != n%12 {
					bad = fmt.Sprintf("note %d is looked up at index %d, expected %d", n, idx, n%12)
				}
				if _, has := v2p[idx]; !has {
					bad = fmt.Sprintf("index %d has no table entry", idx)
				}
			} else {
				o, ok := evalTerm(ret, env)
				if !ok || o != n/12-2 {
					bad = fmt.Sprintf("note %d gives octave %d, expected %d", n, o, n/12-2)
				}
			}
		}
		if bad != "" {
			c.Bad("R11.5", key, pos, bad)
		} else {
			c.OK("R11.5", key, pos, "evaluated abstractly for notes 0..127: "+ret.String())
		}
	}
}

var _ = unicode.IsUpper

// isPitchHelper: a function of this repository of the shape func(string) (number, bool).
func isPitchHelper(p *Program, h *ssa.Function) bool {
	if len(h.Blocks) == 0 || !p.OwnedFunc(h) || h.Signature.Recv() != nil {
		return false
	}
	ps, rs := h.Signature.Params(), h.Signature.Results()
	if ps.Len() != 1 || rs.Len() != 2 || !isBoolType(rs.At(1).Type()) {
		return false
	}
	pb, ok1 := ps.At(0).Type().Underlying().(*types.Basic)
	rb, ok2 := rs.At(0).Type().Underlying().(*types.Basic)
	return ok1 && ok2 && pb.Info()&types.IsString != 0 && rb.Info()&types.IsInteger != 0
}

// tableAccess: t reads a package-level table: a map lookup or an element of an array/slice. Returns the table's variable
// and the key/index term.
func tableAccess(t *Term) (types.Object, *Term) {
	var base, idx *Term
	switch {
	case (t.Op == "lookup" || t.Op == "lookupok") && len(t.Args) == 2:
		base, idx = t.Args[0], t.Args[1]
	case t.Op == "load" && len(t.Args) == 1 && t.Args[0].Op == "indexaddr" && len(t.Args[0].Args) == 2:
		base, idx = t.Args[0].Args[0], t.Args[0].Args[1]
	case t.Op == "index" && len(t.Args) == 2:
		base, idx = t.Args[0], t.Args[1]
	default:
		return nil, nil
	}
	var g types.Object
	base.Walk(func(x *Term) bool {
		if x.Op == "global" && x.Obj != nil && g == nil {
			g = x.Obj
		}
		return true
	})
	if g == nil {
		return nil, nil
	}
	return g, idx
}

// pitchLookupOn: where the success path gets the pitch value from: the lookup term (last argument = the name), the term
// that stands for the value in the returned formula, and whether a miss is tested.
func pitchLookupOn(p *Path, helpers map[*ssa.Function]bool) (lk, leaf *Term, checked bool) {
	for _, a := range p.Atoms {
		cnd, taken := a.Cond, a.Taken
		for cnd.Op == "unop" {
			cnd, taken = cnd.Args[0], !taken
		}
		if !taken {
			continue
		}
		if g, _ := tableAccess(cnd); cnd.Op == "lookupok" && g != nil {
			return cnd, &Term{Op: "lookup", Args: cnd.Args, Aux: cnd.Aux}, true
		}
		if cnd.Op == "extract" && cnd.Aux == "1" && cnd.Args[0].Op == "call" && len(cnd.Args[0].Args) == 1 {
			for h := range helpers {
				if strings.HasPrefix(cnd.Args[0].Aux, h.String()+"#") || cnd.Args[0].Aux == h.String() {
					return cnd.Args[0], &Term{Op: "extract", Args: cnd.Args, Aux: "0", Type: h.Signature.Results().At(0).Type()}, true
				}
			}
		}
	}
	p.Ret[0].Walk(func(t *Term) bool {
		if g, _ := tableAccess(t); t.Op == "lookup" && g != nil && lk == nil {
			lk, leaf = t, t
		}
		return true
	})
	return lk, leaf, false
}

// forwardPitchTable: the partial function name -> semitone that StringToNote's success paths consult.
func forwardPitchTable(c *Ctx, success []*Path, helpers map[*ssa.Function]bool, spellings map[string]bool) (map[string]int64, string, string, bool) {
	var lk *Term
	for _, p := range success {
		if l, _, _ := pitchLookupOn(p, helpers); l != nil {
			lk = l
		}
	}
	if lk == nil {
		return nil, "no pitch lookup on the success path", "", false
	}
	out := map[string]int64{}
	if g, _ := tableAccess(lk); g != nil {
		ks, vs, _, pos, ok := c.P.mapLiteral(g.Pkg().Path(), g.Name())
		if !ok {
			return nil, g.Name() + " is not a constant map literal", "", false
		}
		for i, k := range ks {
			if k.Kind() != constant.String || vs[i] == nil {
				return nil, g.Name() + " is not a map from names to numbers", "", false
			}
			n, _ := constant.Int64Val(vs[i])
			if _, dup := out[constant.StringVal(k)]; dup {
				return nil, g.Name() + " has a duplicate key", "", false
			}
			out[constant.StringVal(k)] = n
		}
		return out, g.Name(), c.P.Pos(pos), true
	}
	// a search helper: its result for every spelling the pattern admits (and the twelve names), by folding its conditions
	// on the constant argument over the constant table it searches
	var h *ssa.Function
	for f := range helpers {
		if strings.HasPrefix(lk.Aux, f.String()) {
			h = f
		}
	}
	if h == nil {
		return nil, "pitch helper not resolved", "", false
	}
	c.Fn(shortFn(h))
	names := map[string]bool{}
	for s := range spellings {
		names[s] = true
	}
	for _, s := range []string{"C", "C#", "D", "D#", "E", "F", "F#", "G", "G#", "A", "A#", "B"} {
		names[s] = true
	}
	for _, name := range sortedKeys(names) {
		pt := map[*ssa.Parameter]*Term{h.Params[0]: constTerm(constant.MakeString(name), h.Params[0].Type())}
		paths, err := Enumerate(h, SymConfig{Prog: c.P, MaxDepth: 1, Collapse: true, MaxVisits: 40, ParamTerms: pt, MaxPaths: 256})
		if err != nil {
			return nil, h.Name() + ": " + err.Error(), "", false
		}
		var live []*Path
		for _, p := range paths {
			if p.End == "cut" {
				continue
			}
			live = append(live, p)
		}
		c.Paths += len(paths)
		if len(live) != 1 || live[0].End != "return" || len(live[0].Ret) != 2 {
			return nil, fmt.Sprintf("%s(%q) does not fold to one outcome (%d paths)", h.Name(), name, len(live)), "", false
		}
		okV, isB := live[0].Ret[1].IsConst()
		val, isI := live[0].Ret[0].StripConv().IsIntConst()
		if !isB || okV.Kind() != constant.Bool {
			return nil, fmt.Sprintf("%s(%q): the found flag is not decided by the table", h.Name(), name), "", false
		}
		if !constant.BoolVal(okV) {
			continue
		}
		if !isI {
			return nil, fmt.Sprintf("%s(%q): the value is not decided by the table", h.Name(), name), "", false
		}
		out[name] = val
	}
	return out, h.Name() + "()", c.P.Pos(h.Pos()), true
}

// backwardPitchTable: the table NoteToPitch reads, as semitone -> name.
func backwardPitchTable(c *Ctx, n2p *ssa.Function) (map[int64]string, string, bool) {
	paths, err := Enumerate(n2p, SymConfig{Prog: c.P, MaxDepth: 1, Collapse: true})
	if err != nil || len(paths) != 1 || len(paths[0].Ret) != 1 {
		return nil, "NoteToPitch is not a single straight-line function", false
	}
	g, _ := tableAccess(paths[0].Ret[0])
	if g == nil {
		return nil, "NoteToPitch does not read a package-level table: " + paths[0].Ret[0].String(), false
	}
	out := map[int64]string{}
	if ks, vs, _, _, ok := c.P.mapLiteral(g.Pkg().Path(), g.Name()); ok {
		for i, k := range ks {
			n, exact := constant.Int64Val(k)
			if !exact || vs[i] == nil || vs[i].Kind() != constant.String {
				return nil, g.Name() + " is not a map from numbers to names", false
			}
			if _, dup := out[n]; dup {
				return nil, g.Name() + " has a duplicate key", false
			}
			out[n] = constant.StringVal(vs[i])
		}
		return out, g.Name(), true
	}
	if vs, ok := c.P.listLiteral(g.Pkg().Path(), g.Name()); ok {
		for i, v := range vs {
			if v == nil || v.Kind() != constant.String {
				return nil, g.Name() + " is not a list of names", false
			}
			out[int64(i)] = constant.StringVal(v)
		}
		return out, g.Name(), true
	}
	return nil, g.Name() + " is not a constant map or list literal", false
}

// followForward: fn only hands its arguments to another function of the repository and returns what that returns
// (`func StringToNote(s string) (byte, error) { return notename.Parse(s) }`): that function.
func followForward(p *Program, fn *ssa.Function) *ssa.Function {
	for hop := 0; hop < 3; hop++ {
		if fn == nil || len(fn.Blocks) != 1 {
			return fn
		}
		var call *ssa.Call
		okShape := true
		for _, in := range fn.Blocks[0].Instrs {
			switch x := in.(type) {
			case *ssa.Call:
				if call != nil {
					okShape = false
				}
				call = x
			case *ssa.Extract, *ssa.Return, *ssa.DebugRef:
			default:
				okShape = false
			}
		}
		if !okShape || call == nil {
			return fn
		}
		callee := call.Call.StaticCallee()
		if callee == nil || len(callee.Blocks) == 0 || !p.OwnedFunc(callee) || len(call.Call.Args) != len(fn.Params) {
			return fn
		}
		for i, a := range call.Call.Args {
			if a != ssa.Value(fn.Params[i]) {
				return fn
			}
		}
		fn = callee
	}
	return fn
}

func isStringType(t types.Type) bool {
	b, ok := t.Underlying().(*types.Basic)
	return ok && b.Info()&types.IsString != 0
}
