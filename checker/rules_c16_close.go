package main

import (
	"fmt"
	"go/constant"
	"go/token"
	"go/types"
	"sort"
	"strings"

	"golang.org/x/tools/go/ssa"
)

// ruleClientClosed: R16.8 "leaves nothing behind": the connection to the OpenRGB server that handleOpenrgb opens is closed on
// every path on which it was opened.  Typestate over the function's CFG: the state becomes OPEN on the edge on which the
// error result of the acquiring call is nil, CLOSED at a call or a defer of (*Client).Close; a Return reached in state OPEN
// is a leaked connection (one per device attach: a socket here, a client slot in the OpenRGB server).  Values known to be
// nil on the path (the error of the successful call, and the phis it flows into) prune the branches that test them, so the
// usual `if err != nil { return }` after a retry loop is not taken for a leak.
func ruleClientClosed(c *Ctx, dv *dev, rule string) {
	fn := dv.fn["handleOpenrgb"]
	pos := c.P.Pos(fn.Pos())
	key := "device.handleOpenrgb/openrgb-client-closed-on-every-exit"
	isClient := func(t types.Type) bool {
		return strings.HasSuffix(strings.TrimPrefix(t.String(), "*"), "openrgb-go.Client") && strings.HasPrefix(t.String(), "*")
	}
	// acquiring calls: result (*Client, error)
	var acquires []*ssa.Call
	for _, b := range fn.Blocks {
		for _, in := range b.Instrs {
			call, ok := in.(*ssa.Call)
			if !ok {
				continue
			}
			tup, ok := call.Type().(*types.Tuple)
			if !ok || tup.Len() != 2 || !isClient(tup.At(0).Type()) || tup.At(1).Type().String() != "error" {
				continue
			}
			acquires = append(acquires, call)
		}
	}
	if len(acquires) == 0 {
		c.Undec(rule, key, pos, "no call returning (*openrgb.Client, error) in handleOpenrgb")
		return
	}
	closesClient := func(in ssa.Instruction, holds map[ssa.Value]bool, cells map[ssa.Value]bool) bool {
		var cc *ssa.CallCommon
		switch x := in.(type) {
		case *ssa.Call:
			cc = &x.Call
		case *ssa.Defer:
			cc = &x.Call
		default:
			return false
		}
		isClose := func(callee *ssa.Function) bool {
			return callee != nil && callee.Name() == "Close" && callee.Signature.Recv() != nil && isClient(callee.Signature.Recv().Type())
		}
		if isClose(cc.StaticCallee()) {
			// the client closed must be the one this exploration follows: `old.Close(); c = fresh` closes another one, and a
			// `defer c.Close()` registered before a re-dial stays bound to the client of that time
			return len(cc.Args) > 0 && holds[cc.Args[0]]
		}
		// defer func() { ...; c.Close() }(): closes whatever the captured variable holds when the function ends
		if mc, ok := cc.Value.(*ssa.MakeClosure); ok {
			if cl, ok := mc.Fn.(*ssa.Function); ok {
				for _, b := range cl.Blocks {
					for _, i2 := range b.Instrs {
						if call, ok := i2.(*ssa.Call); ok && isClose(call.Call.StaticCallee()) {
							for _, bnd := range mc.Bindings {
								if cells[bnd] || cellEverHolds(bnd, holds) {
									return true
								}
							}
						}
					}
				}
			}
		}
		return false
	}
	isNil := func(v ssa.Value) bool {
		k, ok := v.(*ssa.Const)
		return ok && k.Value == nil
	}
	type state struct {
		b       *ssa.BasicBlock
		idx     int // first instruction to execute
		nilVals string
		known   map[ssa.Value]bool
		bools   map[ssa.Value]bool // boolean values whose truth is known on the path (`connecting = err != nil` with err known nil)
		holds   map[ssa.Value]bool // SSA values that are the client acquired by the call being followed
		cells   map[ssa.Value]bool // local variables currently holding it
	}
	keyOf := func(m map[ssa.Value]bool) string {
		var s []string
		for v := range m {
			s = append(s, v.Name())
		}
		sort.Strings(s)
		return strings.Join(s, ",")
	}
	var leaks []string
	for _, acq := range acquires {
		var errVal ssa.Value
		for _, r := range *acq.Referrers() {
			if ex, ok := r.(*ssa.Extract); ok && ex.Index == 1 {
				errVal = ex
			}
		}
		if errVal == nil {
			c.Bad(rule, key, c.P.Pos(acq.Pos()), "the error of the connecting call is discarded: whether a connection is open cannot be known")
			return
		}
		// explore from the instruction after the acquiring call, state OPEN, errVal known nil
		seen := map[string]bool{}
		start := state{b: acq.Block(), known: map[ssa.Value]bool{errVal: true}, bools: map[ssa.Value]bool{}, holds: map[ssa.Value]bool{}, cells: map[ssa.Value]bool{}}
		for i, in := range acq.Block().Instrs {
			if in == ssa.Instruction(acq) {
				start.idx = i + 1
			}
		}
		work := []state{start}
		steps := 0
		for len(work) > 0 && steps < 20000 {
			st := work[len(work)-1]
			work = work[:len(work)-1]
			steps++
			k := fmt.Sprintf("%d:%d:%s|%s|%s|%s", st.b.Index, st.idx, keyOf(st.known), boolKey(st.bools), keyOf(st.holds), keyOf(st.cells))
			if seen[k] {
				continue
			}
			seen[k] = true
			closed := false
			for i := st.idx; i < len(st.b.Instrs) && !closed; i++ {
				in := st.b.Instrs[i]
				if closesClient(in, st.holds, st.cells) {
					closed = true
					break
				}
				// who holds the acquired client
				switch y := in.(type) {
				case *ssa.Extract:
					if y.Tuple == ssa.Value(acq) && y.Index == 0 {
						st.holds[y] = true
					}
				case *ssa.Store:
					if _, isAlloc := y.Addr.(*ssa.Alloc); isAlloc {
						if st.holds[y.Val] {
							st.cells[y.Addr] = true
						} else {
							delete(st.cells, y.Addr)
						}
					}
				case *ssa.UnOp:
					if y.Op == token.MUL && st.cells[y.X] {
						st.holds[y] = true
					}
				}
				if in == ssa.Instruction(acq) {
					closed = true // a new attempt: explored from its own start (the previous connection, if any, is lost: flagged below)
					if st.b != start.b || st.idx != 0 || true {
						leaks = append(leaks, fmt.Sprintf("%s: the connecting call is reached again while the connection of the previous successful call is still open", c.P.Pos(acq.Pos())))
					}
					break
				}
				switch x := in.(type) {
				case *ssa.BinOp:
					if x.Op == token.NEQ || x.Op == token.EQL {
						var v ssa.Value
						if isNil(x.Y) {
							v = x.X
						} else if isNil(x.X) {
							v = x.Y
						}
						if v != nil && st.known[v] {
							st.bools[x] = x.Op == token.EQL
						}
					}
				case *ssa.UnOp:
					if x.Op == token.NOT {
						if bv, ok := st.bools[x.X]; ok {
							st.bools[x] = !bv
						}
					}
				case *ssa.Return:
					where := c.P.Pos(x.Pos())
					if where == "-" || where == "" {
						where = "the end of the function"
						for j := i - 1; j >= 0; j-- {
							if p := c.P.Pos(st.b.Instrs[j].Pos()); p != "-" && p != "" {
								where = "the end of the block after " + p
								break
							}
						}
					}
					_ = x
					leaks = append(leaks, fmt.Sprintf("return at %s is reached with the connection opened at %s still open (no Close, no deferred Close on the way)", where, c.P.Pos(acq.Pos())))
				case *ssa.If:
					// prune by known-nil values
					next := []int{0, 1}
					if bo, ok := x.Cond.(*ssa.BinOp); ok && (bo.Op == token.NEQ || bo.Op == token.EQL) {
						var v ssa.Value
						if isNil(bo.Y) {
							v = bo.X
						} else if isNil(bo.X) {
							v = bo.Y
						}
						if v != nil && st.known[v] {
							if bo.Op == token.NEQ {
								next = []int{1}
							} else {
								next = []int{0}
							}
						}
					}
					if bv, ok := st.bools[x.Cond]; ok {
						if bv {
							next = []int{0}
						} else {
							next = []int{1}
						}
					}
					for _, si := range next {
						ns := enter(st.b, st.b.Succs[si], st.known)
						work = append(work, state{b: ns.b, idx: ns.idx, known: ns.known, bools: enterBools(st.b, st.b.Succs[si], st.bools), holds: enterHolds(st.b, st.b.Succs[si], st.holds), cells: copySet(st.cells)})
					}
				case *ssa.Jump:
					ns := enter(st.b, st.b.Succs[0], st.known)
					work = append(work, state{b: ns.b, idx: ns.idx, known: ns.known, bools: enterBools(st.b, st.b.Succs[0], st.bools), holds: enterHolds(st.b, st.b.Succs[0], st.holds), cells: copySet(st.cells)})
				}
			}
		}
		if steps >= 20000 {
			c.Undec(rule, key, pos, "state exploration did not finish")
			return
		}
	}
	sort.Strings(leaks)
	bad := ""
	if len(leaks) > 0 {
		bad = leaks[0] + ": every attach of a device leaves a TCP connection (and a client slot in the OpenRGB server) behind"
	}
	c.Check(bad == "", rule, key, pos, fmt.Sprintf("%d connecting call(s): from the success edge every path to a return passes Close or a deferred Close", len(acquires)), bad)
}

// enter: the state on entering succ from pred: phis of succ whose incoming value from pred is known nil are known nil too;
// knowledge about values defined in succ itself (a new loop iteration) is dropped.
func enter(pred, succ *ssa.BasicBlock, known map[ssa.Value]bool) (st struct {
	b       *ssa.BasicBlock
	idx     int
	nilVals string
	known   map[ssa.Value]bool
}) {
	st.b = succ
	st.known = map[ssa.Value]bool{}
	for v := range known {
		if in, ok := v.(ssa.Instruction); ok && in.Block() == succ {
			if _, isPhi := v.(*ssa.Phi); isPhi {
				continue
			}
		}
		st.known[v] = true
	}
	pi := -1
	for i, p := range succ.Preds {
		if p == pred {
			pi = i
		}
	}
	for _, in := range succ.Instrs {
		phi, ok := in.(*ssa.Phi)
		if !ok {
			break
		}
		if pi >= 0 && known[phi.Edges[pi]] {
			st.known[phi] = true
		}
	}
	return st
}

func boolKey(m map[ssa.Value]bool) string {
	var s []string
	for v, b := range m {
		s = append(s, fmt.Sprintf("%s=%v", v.Name(), b))
	}
	sort.Strings(s)
	return strings.Join(s, ",")
}

// enterBools: boolean knowledge on entering succ from pred: phis of succ take the constant or the known truth of their
// incoming value; knowledge about values defined in succ itself (a new iteration) is dropped.
func enterBools(pred, succ *ssa.BasicBlock, bools map[ssa.Value]bool) map[ssa.Value]bool {
	out := map[ssa.Value]bool{}
	for v, b := range bools {
		if in, ok := v.(ssa.Instruction); ok && in.Block() == succ {
			continue
		}
		out[v] = b
	}
	pi := -1
	for i, p := range succ.Preds {
		if p == pred {
			pi = i
		}
	}
	for _, in := range succ.Instrs {
		phi, ok := in.(*ssa.Phi)
		if !ok {
			break
		}
		if pi < 0 {
			continue
		}
		e := phi.Edges[pi]
		if k, isK := e.(*ssa.Const); isK && k.Value != nil && k.Value.Kind() == constant.Bool {
			out[phi] = constant.BoolVal(k.Value)
		} else if b, known := bools[e]; known {
			out[phi] = b
		}
	}
	return out
}

func copySet(m map[ssa.Value]bool) map[ssa.Value]bool {
	out := map[ssa.Value]bool{}
	for k, v := range m {
		if v {
			out[k] = true
		}
	}
	return out
}

// enterHolds: the values holding the followed client on entering succ from pred (phis take their incoming value's status).
func enterHolds(pred, succ *ssa.BasicBlock, holds map[ssa.Value]bool) map[ssa.Value]bool {
	out := map[ssa.Value]bool{}
	for v := range holds {
		if in, ok := v.(ssa.Instruction); ok && in.Block() == succ {
			if _, isPhi := v.(*ssa.Phi); isPhi {
				continue
			}
		}
		out[v] = true
	}
	pi := -1
	for i, p := range succ.Preds {
		if p == pred {
			pi = i
		}
	}
	for _, in := range succ.Instrs {
		phi, ok := in.(*ssa.Phi)
		if !ok {
			break
		}
		if pi >= 0 && holds[phi.Edges[pi]] {
			out[phi] = true
		}
	}
	return out
}

// cellEverHolds: some store into the captured variable assigns a value that holds the followed client (the deferred
// closure reads the variable when the function ends: it closes the client assigned last).
func cellEverHolds(cell ssa.Value, holds map[ssa.Value]bool) bool {
	refs := cell.Referrers()
	if refs == nil {
		return false
	}
	for _, r := range *refs {
		if st, ok := r.(*ssa.Store); ok && st.Addr == cell && holds[st.Val] {
			return true
		}
	}
	return false
}
