package main

import (
	"go/types"
	"strings"

	"golang.org/x/tools/go/ssa"
)

// A package-level table that is built once, by the package initialiser, and only read afterwards: a map variable of an
// analysed package whose only store is `g = make(map...)` in init, that no function outside init updates, deletes from or
// clears - neither through the variable nor through the struct fields it is put into. Devices referring to such a table
// share nothing that changes (concurrent lookups in a map nobody writes are safe).
type pkgTable struct {
	g    *ssa.Global
	mm   *ssa.MakeMap
	init *ssa.Function
}

func isInitFunc(fn *ssa.Function) bool {
	top := topFunc(fn)
	return top.Name() == "init" || strings.HasPrefix(top.Name(), "init#")
}

// readOnlyPkgTable: v is a load of such a variable; `through` are the struct fields the table is known to be put into.
func readOnlyPkgTable(p *Program, v ssa.Value, through ...*types.Var) (pkgTable, bool) {
	var t pkgTable
	u, ok := v.(*ssa.UnOp)
	if !ok {
		return t, false
	}
	g, ok := u.X.(*ssa.Global)
	if !ok || g.Pkg == nil {
		return t, false
	}
	mt, ok := deref(g.Type()).Underlying().(*types.Map)
	if !ok {
		return t, false
	}
	switch mt.Elem().Underlying().(type) {
	case *types.Map, *types.Slice, *types.Pointer, *types.Chan, *types.Interface:
		return t, false // the elements would have to be followed as well
	}
	t.g = g
	touches := func(m ssa.Value) bool {
		if globalRootVal(m) == g {
			return true
		}
		for _, f := range through {
			if f != nil && derivesFromField(m, f, map[ssa.Value]bool{}) {
				return true
			}
		}
		return false
	}
	stores := 0
	for _, fn := range p.Funcs {
		ini := isInitFunc(fn) && fn.Pkg == g.Pkg
		for _, b := range fn.Blocks {
			for _, in := range b.Instrs {
				switch x := in.(type) {
				case *ssa.Store:
					if globalRoot(x.Addr) != g {
						continue
					}
					mm, isMake := x.Val.(*ssa.MakeMap)
					if !ini || !isMake || x.Addr != ssa.Value(g) {
						return t, false
					}
					stores++
					t.mm, t.init = mm, fn
				case *ssa.MapUpdate:
					if ini && t.mm != nil && x.Map == ssa.Value(t.mm) {
						continue
					}
					if touches(x.Map) {
						return t, false
					}
				case *ssa.Call:
					if bi, isB := x.Call.Value.(*ssa.Builtin); isB && (bi.Name() == "delete" || bi.Name() == "clear") && len(x.Call.Args) > 0 && touches(x.Call.Args[0]) {
						return t, false
					}
				}
			}
		}
	}
	// (package initialisers store before anything else runs; p.Funcs lists init of the package once)
	return t, stores == 1 && t.mm != nil
}
