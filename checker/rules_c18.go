package main

import (
	"fmt"
	"go/constant"
	"os"
	"path/filepath"
	"sort"
	"strings"

	"golang.org/x/tools/go/ssa"
)

func init() {
	registry["C18"] = checkC18
}

type fsFlags struct{ wronly, rdwr, create, trunc, appendF int64 }

func osFlags(c *Ctx) (fsFlags, bool) {
	get := func(n string) (int64, bool) {
		v, ok := c.P.constValue("os", n)
		if !ok {
			return 0, false
		}
		i, _ := constant.Int64Val(v)
		return i, true
	}
	var f fsFlags
	var ok [5]bool
	f.wronly, ok[0] = get("O_WRONLY")
	f.rdwr, ok[1] = get("O_RDWR")
	f.create, ok[2] = get("O_CREATE")
	f.trunc, ok[3] = get("O_TRUNC")
	f.appendF, ok[4] = get("O_APPEND")
	for _, o := range ok {
		if !o {
			return f, false
		}
	}
	return f, true
}

var fsBanned = map[string]bool{"Remove": true, "RemoveAll": true, "Rename": true, "WriteFile": true, "Truncate": true, "Chmod": true, "Chown": true,
	"Create": true, "MkdirAll": true, "Symlink": true, "Link": true, "Chtimes": true, "CreateTemp": true}

type fsCall struct {
	e      Effect
	name   string // os.Mkdir, os.OpenFile, (*os.File).Write, io/fs.ReadFile, ...
	path   *Term
	flags  int64
	write  bool
	result *Term // term of the call's first result
}

func calleeName(fn *ssa.Function) string {
	if fn == nil {
		return ""
	}
	s := fn.String()
	return s
}

// fsCallsOf extracts the file-system relevant calls of a path, in order.
func fsCallsOf(p *Path, fl fsFlags) []fsCall {
	var out []fsCall
	for _, e := range p.Effects {
		if e.Kind != "call" || e.Callee == nil {
			continue
		}
		n := calleeName(e.Callee)
		fc := fsCall{e: e, name: n}
		switch n {
		case "os.Mkdir", "os.Stat", "os.Lstat":
			fc.path = e.Args[0]
			fc.write = n == "os.Mkdir"
		case "os.OpenFile":
			fc.path = e.Args[0]
			if k, ok := e.Args[1].IsIntConst(); ok {
				fc.flags = k
				fc.write = k&(fl.wronly|fl.rdwr|fl.create|fl.trunc|fl.appendF) != 0
			} else {
				fc.flags, fc.write = -1, true
			}
		case "(*os.File).Write", "(*os.File).WriteString", "(*os.File).WriteAt":
			fc.write = true
		case "io/fs.ReadFile", "io.ReadAll", "io/fs.WalkDir", "os.ReadFile":
		default:
			if e.Callee.Pkg != nil && e.Callee.Pkg.Pkg.Path() == "os" && fsBanned[e.Callee.Name()] {
				fc.write = true
				if len(e.Args) > 0 {
					fc.path = e.Args[0]
				}
			} else {
				continue
			}
		}
		out = append(out, fc)
	}
	return out
}

// callResult builds the term `call#i` result 0 for matching (by instruction identity inside other terms).
func resultOfCall(p *Path, e Effect, idx int) string {
	// the value of a call appears in later terms as call:<name>#<id>(args); find it by instruction
	return ""
}

var c18Helpers map[*ssa.Function]bool

// touchesFS: fn itself calls into os / *os.File / io/fs.ReadFile / io.ReadAll.
func touchesFS(fn *ssa.Function) bool {
	for _, b := range fn.Blocks {
		for _, in := range b.Instrs {
			if ci, ok := in.(ssa.CallInstruction); ok {
				if callee := ci.Common().StaticCallee(); callee != nil && callee.Pkg != nil {
					switch callee.Pkg.Pkg.Path() {
					case "os", "io/fs", "io":
						return true
					}
				}
			}
		}
	}
	return false
}

// fsHelpers: named repository functions statically reachable from the upkeep function (and its closures) that touch the
// file system directly or through another helper, and the deepest helper nesting.
func fsHelpers(p *Program, root *ssa.Function) (map[*ssa.Function]bool, int) {
	out := map[*ssa.Function]bool{}
	memo := map[*ssa.Function]int{} // 0 = does not touch, n = touches at nesting n
	var visit func(fn *ssa.Function, stack map[*ssa.Function]bool) int
	visit = func(fn *ssa.Function, stack map[*ssa.Function]bool) int {
		if d, ok := memo[fn]; ok {
			return d
		}
		if stack[fn] {
			return 0
		}
		stack[fn] = true
		defer delete(stack, fn)
		d := 0
		if touchesFS(fn) {
			d = 1
		}
		for _, b := range fn.Blocks {
			for _, in := range b.Instrs {
				if ci, ok := in.(ssa.CallInstruction); ok {
					if callee := ci.Common().StaticCallee(); callee != nil && p.OwnedFunc(callee) && callee.Parent() == nil && len(callee.Blocks) > 0 {
						if cd := visit(callee, stack); cd > 0 && cd+1 > d {
							d = cd + 1
						}
					}
				}
			}
		}
		memo[fn] = d
		return d
	}
	max := 0
	var walk func(fn *ssa.Function)
	seen := map[*ssa.Function]bool{}
	walk = func(fn *ssa.Function) {
		if seen[fn] {
			return
		}
		seen[fn] = true
		for _, b := range fn.Blocks {
			for _, in := range b.Instrs {
				if ci, ok := in.(ssa.CallInstruction); ok {
					if callee := ci.Common().StaticCallee(); callee != nil && p.OwnedFunc(callee) && callee.Parent() == nil && len(callee.Blocks) > 0 {
						if d := visit(callee, map[*ssa.Function]bool{}); d > 0 {
							out[callee] = true
							if d > max {
								max = d
							}
							walk(callee)
						}
					}
				}
			}
		}
		for _, af := range fn.AnonFuncs {
			walk(af)
		}
	}
	walk(root)
	return out, max
}

func checkC18(c *Ctx) {
	fn := c.P.Func(pkgMain, "", "updateHIDIConfiguration")
	if !c.Require(fn != nil, "R18.0", "anchor:updateHIDIConfiguration", "function not found") {
		return
	}
	c.Fn(shortFn(fn))
	fl, ok := osFlags(c)
	if !c.Require(ok, "R18.0", "anchor:os.O_*", "os flag constants not resolved") {
		return
	}
	configDir, okc := c.P.constString(pkgMain, "configDir")
	if !c.Require(okc, "R18.0", "anchor:configDir", "constant configDir not found") {
		return
	}
	// the two walk callbacks, by the constant root they are used with
	var absentCB, presentCB *ssa.Function
	var absentRoot, presentRoot string
	// helpers of the upkeep code that touch the file system (e.g. an extracted "write the template" function) are inlined
	helpers, depth := fsHelpers(c.P, fn)
	if !c.Require(depth <= 3, "R18.0", "updateHIDIConfiguration/helper-nesting", fmt.Sprintf("file-system helpers nest %d deep; the path rules inline 3 levels", depth)) {
		return
	}
	c18Helpers = helpers
	ruleLogBound(c, "R18.10", fn) // the upkeep runs before the log consumer: the number of its log writes must not be file-driven
	paths, err := Enumerate(fn, SymConfig{Prog: c.P, MaxDepth: 4, Collapse: true, OnlyInline: helpers})
	if !c.Require(err == nil, "R18.0", "updateHIDIConfiguration/paths", fmt.Sprint(err)) {
		return
	}
	c.Paths += len(paths)
	pos := c.P.Pos(fn.Pos())
	type walkUse struct {
		root    string
		cb      *ssa.Function
		absent  bool // on a path where the directory was found missing
		present bool
	}
	uses := map[string]*walkUse{}
	for _, p := range paths {
		missing, tested := dirMissingOnPath(p, configDir)
		for _, e := range p.Effects {
			if e.Kind != "call" || e.Callee == nil || calleeName(e.Callee) != "io/fs.WalkDir" {
				continue
			}
			root, _ := e.Args[1].IsStringConst()
			var cb *ssa.Function
			if a := e.Args[2].StripConv(); a.Op == "closure" || a.Op == "func" {
				cb = findFuncByName(c.P, a.Aux)
			}
			usesTemplate := e.Args[0].Any(func(t *Term) bool { return t.Op == "global" && t.Obj.Name() == "templateConfig" })
			k := root
			if uses[k] == nil {
				uses[k] = &walkUse{root: root, cb: cb}
			}
			if !usesTemplate {
				c.Bad("R18.2", "updateHIDIConfiguration/walk("+root+")/source", c.P.Pos(e.Instr.Pos()), "the walk does not iterate the embedded template tree")
			}
			if tested && missing {
				uses[k].absent = true
			} else {
				uses[k].present = true
			}
		}
	}
	for _, u := range uses {
		key := "updateHIDIConfiguration/walk(" + u.root + ")"
		switch {
		case u.absent && !u.present:
			if u.root != configDir {
				c.Bad("R18.2", key, pos, "the tree created when the directory is absent does not start at "+configDir)
			} else {
				c.OK("R18.2", key, pos, "runs only when "+configDir+" was found missing (ErrNotExist); walks the whole template tree")
			}
			absentCB, absentRoot = u.cb, u.root
		case u.present && !u.absent:
			if !strings.HasPrefix(u.root, configDir+"/factory") {
				c.Bad("R18.3", key, pos, fmt.Sprintf("when %s exists, the walk that may write files starts at %q: it must stay below %s/factory (user/, hidi.toml and the blacklist must not be touched)", configDir, u.root, configDir))
			} else {
				c.OK("R18.3", key, pos, "when the directory exists only the template tree below "+u.root+" is walked")
			}
			presentCB, presentRoot = u.cb, u.root
		default:
			c.Bad("R18.2", key, pos, "the same walk runs both when the directory is missing and when it exists")
		}
	}
	_ = absentRoot
	_ = presentRoot
	// R18.9 upkeep is complete whenever it reports success: a path on which the directory exists and nil is returned has
	// walked the factory tree (an early `return nil` of another step - the blacklist created - must not end the run before)
	{
		n, bad := 0, ""
		for _, p := range paths {
			if p.End != "return" || len(p.Ret) != 1 {
				continue
			}
			if !p.Ret[0].IsNil() {
				continue
			}
			missing, tested := dirMissingOnPath(p, configDir)
			if tested && missing {
				continue
			}
			n++
			walked := false
			for _, e := range p.Effects {
				if e.Kind == "call" && e.Callee != nil && calleeName(e.Callee) == "io/fs.WalkDir" {
					if root, ok := e.Args[1].IsStringConst(); ok && strings.HasPrefix(root, configDir+"/factory") {
						walked = true
					}
				}
			}
			if !walked && bad == "" {
				bad = "a path returns success with the directory present without having walked the factory tree: " + truncate(p.String(), 200)
			}
		}
		c.Check(bad == "" && n > 0, "R18.9", "updateHIDIConfiguration/success-only-after-the-factory-walk", pos, fmt.Sprintf("%d successful path(s) with the directory present, each after the factory walk", n), bad+ifs(n == 0, "no successful path with the directory present found"))
	}
	if !c.Require(absentCB != nil && presentCB != nil, "R18.2", "updateHIDIConfiguration/callbacks", "the two walk callbacks (absent / present) were not found") {
		return
	}
	ruleFSCallback(c, absentCB, fl, true)
	ruleFSCallback(c, presentCB, fl, false)
	ruleBlacklist(c, fn, paths, fl, configDir)
	ruleFSInventory(c, fn, []*ssa.Function{absentCB, presentCB})
	fns := []*ssa.Function{fn, absentCB, presentCB}
	for _, f := range c.P.Funcs { // deterministic order
		if c18Helpers[f] {
			fns = append(fns, f)
		}
	}
	sub := NewCtx(c.P, c.Property, c.Tier)
	ruleErrorsReturned(sub, fns)
	for _, o := range sub.Obs {
		if strings.Contains(o.Key, "Close") {
			continue // deferred Close results are exempt (listed)
		}
		o.Rule = "R18.7"
		c.Obs = append(c.Obs, o)
		c.Counts["R18.7"]++
	}
	ruleEmbedCoversTemplate(c, configDir)
	c.MinCount("R18.8", 1)
	c.MinCount("R18.9", 1)
	c.MinCount("R18.1", 5)
	c.MinCount("R18.5", 2)
	c.MinCount("R18.6", 2)
	c.MinCount("R18.7", 10)
	c.DecidedClause("effect confinement of start-up upkeep: the complete inventory of calls that can change the file system (Mkdir x2, write-OpenFile x4, Write x4; none of Remove/Rename/WriteFile/Truncate/Chmod/Create/MkdirAll/...), each confined by region: the whole template tree is created only when the directory is absent; when it exists only paths handed out by the walk of the embedded factory tree are written; the blacklist is created only on a not-exist edge, without truncation")
	c.DecidedClause("content: every Write writes the embedded template read for the very path that was opened; an existing factory file is compared with its template and either left alone (equal) or replaced whole (O_TRUNC); errors of all mutating calls and template reads are returned")
	c.UndecidedClause("crash atomicity of a single write(2) (a truncated file is repaired by the next run - that part is decided), permissions, symlinks, a file where a directory is expected")
}

func findFuncByName(p *Program, name string) *ssa.Function {
	for _, f := range p.Funcs {
		if f.String() == name {
			return f
		}
	}
	return nil
}

// dirMissingOnPath: does the path establish that opening configDir failed with ErrNotExist?
func dirMissingOnPath(p *Path, configDir string) (missing, tested bool) {
	for _, a := range p.Atoms {
		cnd, taken := a.Cond, a.Taken
		for cnd.Op == "unop" && cnd.Aux == "!" {
			cnd, taken = cnd.Args[0], !taken
		}
		s := cnd.String()
		if !strings.Contains(s, `os.OpenFile`) || !strings.Contains(s, `"`+configDir+`"`) {
			continue
		}
		switch {
		case cnd.Op == "call" && (strings.HasPrefix(cnd.Aux, "errors.Is") || strings.HasPrefix(cnd.Aux, "os.IsNotExist")):
			tested = true
			missing = taken
		case cnd.Op == "binop" && cnd.Aux == "!=" && cnd.Args[1].IsNil():
			if !taken {
				tested, missing = true, false
			}
		case cnd.Op == "binop" && cnd.Aux == "==" && cnd.Args[1].IsNil():
			if taken {
				tested, missing = true, false
			}
		}
	}
	return
}

// ruleFSCallback checks one walk callback.
func ruleFSCallback(c *Ctx, cb *ssa.Function, fl fsFlags, absent bool) {
	c.Fn(shortFn(cb))
	region := "present"
	if absent {
		region = "absent"
	}
	paths, err := Enumerate(cb, SymConfig{Prog: c.P, MaxDepth: 4, Collapse: true, OnlyInline: c18Helpers})
	if !c.Require(err == nil, "R18.2", "callback("+region+")", fmt.Sprint(err)) {
		return
	}
	c.Paths += len(paths)
	pos := c.P.Pos(cb.Pos())
	pathParam := cb.Params[0].Name()
	isPathParam := func(t *Term) bool { return t != nil && t.Op == "param" && t.Aux == pathParam }
	type res struct {
		n   int
		bad string
	}
	agg := map[string]*res{}
	note := func(rule, k, bad string) {
		k = rule + "|" + k
		if agg[k] == nil {
			agg[k] = &res{}
		}
		agg[k].n++
		if bad != "" && agg[k].bad == "" {
			agg[k].bad = bad
		}
	}
	for _, p := range paths {
		calls := fsCallsOf(p, fl)
		isDir, dirKnown := false, false
		notExist := false   // a read-only open / stat of `path` failed with ErrNotExist on this path
		existsOpen := false // a read-only open of `path` succeeded
		equal, equalKnown := false, false
		for _, a := range p.Atoms {
			cnd, taken := a.Cond, a.Taken
			for cnd.Op == "unop" && cnd.Aux == "!" {
				cnd, taken = cnd.Args[0], !taken
			}
			s := cnd.String()
			switch {
			case cnd.Op == "call" && strings.HasPrefix(cnd.Aux, ".IsDir"):
				isDir, dirKnown = taken, true
			case cnd.Op == "call" && (strings.HasPrefix(cnd.Aux, "errors.Is") || strings.HasPrefix(cnd.Aux, "os.IsNotExist")) && strings.Contains(s, "ErrNotExist") || strings.HasPrefix(cnd.Aux, "os.IsNotExist"):
				if taken && (strings.Contains(s, "os.OpenFile") && strings.Contains(s, "("+pathParam+", 0,") || strings.Contains(s, "os.Stat") && strings.Contains(s, "("+pathParam+")")) {
					notExist = true
				}
			case cnd.Op == "binop" && cnd.Aux == "!=" && cnd.Args[1].IsNil() && strings.Contains(s, "os.OpenFile") && strings.Contains(s, "("+pathParam+", 0,"):
				if !taken {
					existsOpen = true
				}
			case cnd.Op == "call" && strings.HasPrefix(cnd.Aux, "bytes.Equal"),
				cnd.Op == "binop" && (cnd.Aux == "==" || cnd.Aux == "!=") && len(cnd.Args) == 2 && strings.Contains(cnd.String(), "io.ReadAll") && strings.Contains(cnd.String(), "io/fs.ReadFile"):
				// bytes.Equal(a, b), or the same comparison written string(a) == string(b)
				equal, equalKnown = taken, true
				if cnd.Op == "binop" && cnd.Aux == "!=" {
					equal = !taken
				}
				// operands: disk content of `path` and template of `path`
				okOps := len(cnd.Args) == 2
				if okOps {
					a0, a1 := cnd.Args[0].String(), cnd.Args[1].String()
					disk := strings.Contains(a0, "io.ReadAll") && strings.Contains(a0, "os.OpenFile") && strings.Contains(a0, "("+pathParam+", 0,")
					tmpl := strings.Contains(a1, "io/fs.ReadFile") && strings.Contains(a1, "templateConfig") && strings.Contains(a1, ", "+pathParam+")")
					if !disk || !tmpl {
						disk = strings.Contains(a1, "io.ReadAll") && strings.Contains(a1, "("+pathParam+", 0,")
						tmpl = strings.Contains(a0, "io/fs.ReadFile") && strings.Contains(a0, "templateConfig") && strings.Contains(a0, ", "+pathParam+")")
					}
					okOps = disk && tmpl
				}
				if !okOps {
					note("R18.6", "callback("+region+")/compare-operands", "bytes.Equal does not compare the file on disk at `path` with the embedded template of `path`")
				}
			}
		}
		var muts []fsCall
		for _, fc := range calls {
			if fc.write {
				muts = append(muts, fc)
			}
		}
		retNil := p.End == "return" && len(p.Ret) == 1 && p.Ret[0].IsNil()
		// M1: path arguments
		for _, fc := range muts {
			if fc.path != nil && !isPathParam(fc.path) {
				note("R18.3", "callback("+region+")/path-argument", fmt.Sprintf("%s is applied to %s, not to the path handed out by the walk of the template tree", fc.name, fc.path))
			} else if fc.path != nil {
				note("R18.3", "callback("+region+")/path-argument", "")
			}
			if fc.e.Callee.Pkg != nil && fc.e.Callee.Pkg.Pkg.Path() == "os" && fsBanned[fc.e.Callee.Name()] {
				note("R18.1", "callback("+region+")/banned-call", "os."+fc.e.Callee.Name()+" is used during upkeep")
			}
		}
		// M2: flags
		for _, fc := range muts {
			if fc.name != "os.OpenFile" {
				continue
			}
			k := "callback(" + region + ")/open-flags"
			switch {
			case fc.flags < 0:
				note("R18.6", k, "write-open with non-constant flags")
			case fc.flags&fl.create == 0:
				note("R18.6", k, "file opened for writing without O_CREATE")
			case fc.flags&fl.appendF != 0:
				note("R18.6", k, "file opened with O_APPEND: the template would be appended to the old content")
			case !absent && !notExist && fc.flags&fl.trunc == 0:
				note("R18.6", k, "an existing factory file is opened for writing without O_TRUNC: a longer old file keeps its tail and never becomes identical to the template")
			default:
				note("R18.6", k, "")
			}
		}
		// M3: content
		for _, fc := range muts {
			if !strings.HasPrefix(fc.name, "(*os.File).Write") {
				continue
			}
			k := "callback(" + region + ")/write-content"
			fd, data := fc.e.Args[0].String(), fc.e.Args[1].String()
			okFd := strings.Contains(fd, "os.OpenFile") && strings.Contains(fd, "("+pathParam+", ") && !strings.Contains(fd, "("+pathParam+", 0,")
			okData := isTemplateOf(fc.e.Args[1], pathParam)
			switch {
			case !okFd:
				note("R18.5", k, "Write goes to a file that was not opened for writing at the walked path: "+fd)
			case !okData:
				note("R18.5", k, "the data written is not the embedded template of the same path (fs.ReadFile(templateConfig, path)): "+truncate(data, 120))
			default:
				note("R18.5", k, "")
			}
		}
		if !retNil {
			continue
		}
		// success paths: what must have happened
		switch {
		case dirKnown && isDir:
			k := "callback(" + region + ")/directory"
			hasMkdir := false
			for _, fc := range muts {
				if fc.name == "os.Mkdir" {
					hasMkdir = true
				} else {
					note("R18.2", k, "a directory entry leads to "+fc.name)
				}
			}
			if absent && !hasMkdir {
				note("R18.2", k, "a template directory is not created")
			} else if !absent && hasMkdir != notExist {
				note("R18.3", k, "directories must be created exactly when they do not exist")
			} else {
				note("R18.2", k, "")
			}
		default:
			k := "callback(" + region + ")/file"
			wrote := false
			for _, fc := range muts {
				if strings.HasPrefix(fc.name, "(*os.File).Write") {
					wrote = true
				}
			}
			switch {
			case absent && !wrote:
				note("R18.2", k, "a template file is skipped when the configuration tree is generated (the tree would be incomplete)")
			case !absent && notExist && !wrote:
				note("R18.6", k, "a missing factory file is not created")
			case !absent && existsOpen && !wrote && !(equalKnown && equal):
				note("R18.6", k, "an existing factory file is left as it is without having been found identical to its template")
			case !absent && existsOpen && wrote && equalKnown && equal:
				note("R18.6", k, "an identical factory file is rewritten (a second run must change nothing)")
			default:
				note("R18.6", k, "")
			}
		}
	}
	var keys []string
	for k := range agg {
		keys = append(keys, k)
	}
	sort.Strings(keys)
	for _, k := range keys {
		rule, key, _ := strings.Cut(k, "|")
		if agg[k].bad != "" {
			c.Bad(rule, key, pos, agg[k].bad)
		} else {
			c.OK(rule, key, pos, fmt.Sprintf("%d path occurrence(s)", agg[k].n))
		}
	}
}

func truncate(s string, n int) string {
	if len(s) > n {
		return s[:n] + "..."
	}
	return s
}

// ruleBlacklist: R18.4 the only mutating sites outside the callbacks.
func ruleBlacklist(c *Ctx, fn *ssa.Function, paths []*Path, fl fsFlags, configDir string) {
	pos := c.P.Pos(fn.Pos())
	want := configDir + "/device blacklist.txt"
	type res struct {
		n   int
		bad string
	}
	agg := map[string]*res{}
	note := func(k, bad string) {
		if agg[k] == nil {
			agg[k] = &res{}
		}
		agg[k].n++
		if bad != "" && agg[k].bad == "" {
			agg[k].bad = bad
		}
	}
	for _, p := range paths {
		calls := fsCallsOf(p, fl)
		notExist := false
		for _, a := range p.Atoms {
			cnd, taken := a.Cond, a.Taken
			for cnd.Op == "unop" && cnd.Aux == "!" {
				cnd, taken = cnd.Args[0], !taken
			}
			s := cnd.String()
			if cnd.Op == "call" && (strings.HasPrefix(cnd.Aux, "os.IsNotExist") || strings.HasPrefix(cnd.Aux, "errors.Is")) && taken && strings.Contains(s, `os.OpenFile`) && strings.Contains(s, `"`+want+`", 0,`) {
				notExist = true
			}
		}
		for _, fc := range calls {
			if !fc.write {
				continue
			}
			k := "updateHIDIConfiguration/direct:" + fc.name
			switch fc.name {
			case "os.OpenFile":
				pth, isConst := fc.path.IsStringConst()
				switch {
				case !isConst || pth != want:
					note(k, "a file other than the blacklist is opened for writing outside the template walks: "+fc.path.String())
				case !notExist:
					note(k, "the blacklist is opened for writing without having been found missing: an existing blacklist would be modified")
				case fc.flags&fl.create == 0 || fc.flags&(fl.trunc|fl.appendF) != 0:
					note(k, "blacklist must be created with O_CREATE and without O_TRUNC/O_APPEND")
				default:
					note(k, "")
				}
			case "(*os.File).Write":
				fd, data := fc.e.Args[0].String(), fc.e.Args[1].String()
				if !strings.Contains(fd, `"`+want+`"`) || !isTemplateOf(fc.e.Args[1], `"`+want+`"`) {
					_ = data
					note(k, "blacklist content is not the embedded template of the blacklist")
				} else if !notExist {
					note(k, "the blacklist is written although it exists")
				} else {
					note(k, "")
				}
			default:
				note(k, fc.name+" outside the template walks")
			}
		}
	}
	if len(agg) == 0 {
		c.Bad("R18.4", "updateHIDIConfiguration/blacklist-created-if-missing", pos, "the blacklist is never created")
	}
	for _, k := range sortedKeys(agg) {
		if agg[k].bad != "" {
			c.Bad("R18.4", k, pos, agg[k].bad)
		} else {
			c.OK("R18.4", k, pos, fmt.Sprintf("%d path occurrence(s): only the blacklist, only when missing, O_CREATE without O_TRUNC, template content", agg[k].n))
		}
	}
}

// ruleFSInventory: R18.1 all mutating call sites reachable from upkeep.
func ruleFSInventory(c *Ctx, fn *ssa.Function, cbs []*ssa.Function) {
	n := map[string]int{}
	scan := append([]*ssa.Function{fn}, cbs...)
	var hs []*ssa.Function
	for h := range c18Helpers {
		hs = append(hs, h)
	}
	sort.Slice(hs, func(i, j int) bool { return hs[i].String() < hs[j].String() })
	scan = append(scan, hs...)
	for _, f := range scan {
		for _, b := range f.Blocks {
			for _, in := range b.Instrs {
				ci, ok := in.(ssa.CallInstruction)
				if !ok {
					continue
				}
				callee := ci.Common().StaticCallee()
				if callee == nil {
					continue
				}
				name := calleeName(callee)
				key := fmt.Sprintf("%s/%s", shortFn(f), name)
				switch {
				case name == "os.Mkdir" || strings.HasPrefix(name, "(*os.File).Write"):
					n[name]++
					c.OK("R18.1", fmt.Sprintf("%s#%d", key, n[key]+1), c.P.Pos(in.Pos()), "mutating call, confined by the region rules")
					n[key]++
				case name == "os.OpenFile":
					if k, isK := ci.Common().Args[1].(*ssa.Const); isK && k.Int64() == 0 {
						continue
					}
					n[name]++
					c.OK("R18.1", fmt.Sprintf("%s#%d", key, n[key]+1), c.P.Pos(in.Pos()), "write-open, confined by the region rules")
					n[key]++
				case callee.Pkg != nil && callee.Pkg.Pkg.Path() == "os" && fsBanned[callee.Name()]:
					c.Bad("R18.1", key, c.P.Pos(in.Pos()), "os."+callee.Name()+" during start-up upkeep: files can be removed/renamed/overwritten wholesale")
				case callee.Pkg != nil && c.P.OwnedFunc(callee) && !c.P.isOneOf(callee, cbs) && !c18Helpers[callee]:
					// helper functions must be analysed too
					if mutatesFS(c.P, callee, map[*ssa.Function]bool{}) {
						c.Bad("R18.1", key, c.P.Pos(in.Pos()), "upkeep calls "+name+" which changes the file system outside the analysed regions")
					}
				}
			}
		}
	}
	// every site counted here lies in the upkeep function, one of its two walk callbacks or an inlined helper, i.e. on the
	// paths the region rules enumerate; the roles (create directory / create file / replace file / create blacklist) are
	// demanded by those rules, so the inventory only requires that each kind of mutating call exists at all
	c.Check(n["os.Mkdir"] >= 1 && n["os.OpenFile"] >= 1 && n["(*os.File).Write"] >= 1, "R18.1", "updateHIDIConfiguration/mutating-call-inventory", c.P.Pos(fn.Pos()),
		fmt.Sprintf("Mkdir x%d, write-OpenFile x%d, Write x%d, all inside the analysed regions", n["os.Mkdir"], n["os.OpenFile"], n["(*os.File).Write"]),
		fmt.Sprintf("inventory: Mkdir x%d, write-OpenFile x%d, Write x%d - upkeep no longer creates directories/files", n["os.Mkdir"], n["os.OpenFile"], n["(*os.File).Write"]))
}

func (p *Program) isOneOf(f *ssa.Function, fs []*ssa.Function) bool {
	for _, x := range fs {
		if x == f {
			return true
		}
	}
	return false
}

func mutatesFS(p *Program, fn *ssa.Function, seen map[*ssa.Function]bool) bool {
	if seen[fn] || fn.Blocks == nil {
		return false
	}
	seen[fn] = true
	for _, b := range fn.Blocks {
		for _, in := range b.Instrs {
			ci, ok := in.(ssa.CallInstruction)
			if !ok {
				continue
			}
			callee := ci.Common().StaticCallee()
			if callee == nil {
				continue
			}
			if callee.Pkg != nil && callee.Pkg.Pkg.Path() == "os" {
				switch callee.Name() {
				case "Mkdir", "OpenFile", "WriteFile":
					return true
				}
				if fsBanned[callee.Name()] {
					return true
				}
			}
			if p.OwnedFunc(callee) && mutatesFS(p, callee, seen) {
				return true
			}
		}
	}
	return false
}

// isTemplateOf: t is exactly the first result of fs.ReadFile(templateConfig, <path>) - not a slice or transformation of it.
func isTemplateOf(t *Term, path string) bool {
	t = t.StripConv()
	if t.Op != "extract" || t.Aux != "0" || t.Args[0].Op != "call" || !strings.HasPrefix(t.Args[0].Aux, "io/fs.ReadFile") {
		return false
	}
	call := t.Args[0]
	if len(call.Args) != 2 {
		return false
	}
	if !call.Args[0].Any(func(x *Term) bool { return x.Op == "global" && x.Obj.Name() == "templateConfig" }) {
		return false
	}
	return call.Args[1].String() == path
}

// ruleEmbedCoversTemplate: R18.8 the embedded template tree is the shipped hidi-config tree: every regular file below
// cmd/hidi/hidi-config in the source is matched by a //go:embed pattern of templateConfig (a directory pattern silently
// leaves out dot- and underscore-files, and with them the directories that only hold a placeholder).
func ruleEmbedCoversTemplate(c *Ctx, configDir string) {
	pk := c.P.Pkgs[pkgMain]
	key := "cmd/hidi/templateConfig/embeds-whole-" + configDir
	if pk == nil || len(pk.GoFiles) == 0 {
		c.Undec("R18.8", key, "-", "package cmd/hidi not loaded")
		return
	}
	dir := filepath.Dir(pk.GoFiles[0])
	embedded := map[string]bool{}
	for _, f := range pk.EmbedFiles {
		embedded[f] = true
	}
	var missing []string
	n := 0
	err := filepath.Walk(filepath.Join(dir, configDir), func(path string, info os.FileInfo, err error) error {
		if err != nil {
			return err
		}
		if info.Mode().IsRegular() {
			n++
			if !embedded[path] {
				rel, _ := filepath.Rel(dir, path)
				missing = append(missing, rel)
			}
		}
		return nil
	})
	if err != nil || n == 0 {
		c.Undec("R18.8", key, "-", fmt.Sprintf("template tree %s not readable in the source (%v)", filepath.Join(dir, configDir), err))
		return
	}
	sort.Strings(missing)
	c.Check(len(missing) == 0, "R18.8", key, "-", fmt.Sprintf("all %d files of the shipped tree are embedded (patterns %v)", n, pk.EmbedPatterns),
		fmt.Sprintf("files of the shipped template tree that the //go:embed patterns %v leave out: %v - on a first start these (and directories holding only them) are not created, the tree is incomplete", pk.EmbedPatterns, missing))
}
