package main

import (
	"fmt"
	"go/constant"
	"go/types"
	"strings"
)

// Term is a symbolic value: the abstraction of an SSA value as an expression over
// parameters, constants, memory loads (by access path) and opaque unknowns.
// Terms are immutable; equality is equality of String().
type Term struct {
	Op   string
	Args []*Term
	Aux  string
	Obj  types.Object
	Type types.Type
	Cval constant.Value
	s    string
}

func (t *Term) String() string {
	if t == nil {
		return "<nil>"
	}
	if t.s != "" {
		return t.s
	}
	var b strings.Builder
	switch t.Op {
	case "const":
		b.WriteString(t.Aux)
	case "param", "freevar":
		b.WriteString(t.Aux)
	case "global":
		b.WriteString("&" + t.Obj.Pkg().Name() + "." + t.Obj.Name())
	case "fieldaddr":
		// a field promoted from an embedded struct is named as Go names it: d.octave for d.keyboardState.octave
		base := t.Args[0]
		if base.Op == "fieldaddr" && promotedThrough(base, t) {
			base = base.Args[0]
		}
		b.WriteString("&" + strings.TrimPrefix(base.String(), "&") + "." + t.Obj.Name())
	case "field":
		base := t.Args[0]
		if base.Op == "field" && promotedThrough(base, t) {
			base = base.Args[0]
		}
		b.WriteString(base.String() + "." + t.Obj.Name())
	case "load":
		a := t.Args[0]
		s := a.String()
		if strings.HasPrefix(s, "&") {
			b.WriteString(s[1:])
		} else {
			b.WriteString("*" + s)
		}
		if t.Aux != "" {
			b.WriteString("@" + t.Aux)
		}
	case "indexaddr":
		b.WriteString("&" + strings.TrimPrefix(t.Args[0].String(), "&") + "[" + t.Args[1].String() + "]")
	case "index":
		b.WriteString(t.Args[0].String() + "[" + t.Args[1].String() + "]")
	case "lookup":
		b.WriteString(t.Args[0].String() + "[" + t.Args[1].String() + "]")
		if t.Aux != "" {
			b.WriteString("@" + t.Aux)
		}
	case "binop":
		b.WriteString("(" + t.Args[0].String() + " " + t.Aux + " " + t.Args[1].String() + ")")
	case "unop":
		b.WriteString(t.Aux + t.Args[0].String())
	case "convert":
		b.WriteString(types.TypeString(t.Type, func(p *types.Package) string { return p.Name() }) + "(" + t.Args[0].String() + ")")
	case "extract":
		b.WriteString(t.Args[0].String() + "#" + t.Aux)
	case "func":
		b.WriteString(t.Aux)
	default:
		b.WriteString(t.Op)
		if t.Aux != "" {
			b.WriteString(":" + t.Aux)
		}
		if len(t.Args) > 0 {
			b.WriteString("(")
			for i, a := range t.Args {
				if i > 0 {
					b.WriteString(", ")
				}
				b.WriteString(a.String())
			}
			b.WriteString(")")
		}
	}
	t.s = b.String()
	return t.s
}

func mk(op string, aux string, args ...*Term) *Term { return &Term{Op: op, Aux: aux, Args: args} }

func constTerm(v constant.Value, typ types.Type) *Term {
	t := &Term{Op: "const", Type: typ, Cval: v}
	if v == nil {
		// zero / nil
		t.Aux = zeroString(typ)
		if b, ok := typ.Underlying().(*types.Basic); ok {
			switch {
			case b.Info()&types.IsBoolean != 0:
				t.Cval = constant.MakeBool(false)
			case b.Info()&types.IsNumeric != 0:
				t.Cval = constant.MakeInt64(0)
			case b.Info()&types.IsString != 0:
				t.Cval = constant.MakeString("")
			}
		}
		return t
	}
	t.Aux = v.ExactString()
	return t
}

func zeroString(typ types.Type) string {
	if typ == nil {
		return "nil"
	}
	switch u := typ.Underlying().(type) {
	case *types.Basic:
		switch {
		case u.Info()&types.IsBoolean != 0:
			return "false"
		case u.Info()&types.IsNumeric != 0:
			return "0"
		case u.Info()&types.IsString != 0:
			return `""`
		}
		return "nil"
	case *types.Struct, *types.Array:
		return "zero:" + types.TypeString(typ, func(p *types.Package) string { return p.Name() })
	}
	return "nil"
}

func intConst(n int64) *Term { return constTerm(constant.MakeInt64(n), types.Typ[types.Int]) }

// IsConst reports whether t is a constant and returns its value.
func (t *Term) IsConst() (constant.Value, bool) {
	if t != nil && t.Op == "const" && t.Cval != nil {
		return t.Cval, true
	}
	return nil, false
}

func (t *Term) IsIntConst() (int64, bool) {
	if v, ok := t.IsConst(); ok && v.Kind() == constant.Int {
		n, exact := constant.Int64Val(v)
		return n, exact
	}
	return 0, false
}

func (t *Term) IsStringConst() (string, bool) {
	if v, ok := t.IsConst(); ok && v.Kind() == constant.String {
		return constant.StringVal(v), true
	}
	return "", false
}

func (t *Term) IsBoolConst() (bool, bool) {
	if v, ok := t.IsConst(); ok && v.Kind() == constant.Bool {
		return constant.BoolVal(v), true
	}
	return false, false
}

func (t *Term) IsNil() bool { return t != nil && t.Op == "const" && t.Aux == "nil" }

// Walk visits t and all sub-terms; stop descending when f returns false.
func (t *Term) Walk(f func(*Term) bool) {
	if t == nil {
		return
	}
	if !f(t) {
		return
	}
	for _, a := range t.Args {
		a.Walk(f)
	}
}

// Any reports whether any sub-term satisfies pred.
func (t *Term) Any(pred func(*Term) bool) bool {
	found := false
	t.Walk(func(x *Term) bool {
		if found {
			return false
		}
		if pred(x) {
			found = true
			return false
		}
		return true
	})
	return found
}

// StripConv removes value-preserving wrappers (conversions, interface boxing).
func (t *Term) StripConv() *Term {
	for t != nil && (t.Op == "convert" || t.Op == "iface" || t.Op == "changetype") {
		t = t.Args[0]
	}
	return t
}

// FieldLoad: is t a load of field f (through any base)? returns base address term.
func (t *Term) FieldLoad(f *types.Var) (*Term, bool) {
	if t == nil {
		return nil, false
	}
	if t.Op == "load" && t.Args[0].Op == "fieldaddr" && t.Args[0].Obj == f {
		return t.Args[0].Args[0], true
	}
	if t.Op == "field" && t.Obj == f {
		return t.Args[0], true
	}
	return nil, false
}

// LoadsField reports whether any sub-term reads field f.
func (t *Term) LoadsField(f *types.Var) bool {
	return t.Any(func(x *Term) bool { _, ok := x.FieldLoad(f); return ok })
}

// FieldsRead returns the set of struct fields (types.Var) read anywhere in t.
func (t *Term) FieldsRead() map[*types.Var]bool {
	out := map[*types.Var]bool{}
	t.Walk(func(x *Term) bool {
		if (x.Op == "fieldaddr" || x.Op == "field") && x.Obj != nil {
			if v, ok := x.Obj.(*types.Var); ok {
				out[v] = true
			}
		}
		return true
	})
	return out
}

func termsString(ts []*Term) string {
	var ss []string
	for _, t := range ts {
		ss = append(ss, t.String())
	}
	return strings.Join(ss, ", ")
}

func sprintf(f string, a ...any) string { return fmt.Sprintf(f, a...) }

// promotedThrough: hop selects an embedded (anonymous) struct field and sel a field of that struct which the enclosing
// struct does not declare itself: sel is a promoted field.
func promotedThrough(hop, sel *Term) bool {
	hv, ok := hop.Obj.(*types.Var)
	if !ok || !hv.Embedded() {
		return false
	}
	sv, ok := sel.Obj.(*types.Var)
	if !ok {
		return false
	}
	return hv.Name() != sv.Name()
}
