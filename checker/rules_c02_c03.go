package main

import (
	"fmt"
	"go/token"
	"go/types"
	"sort"
	"strings"

	"golang.org/x/tools/go/ssa"
)

func init() {
	registry["C02"] = checkC02
	registry["C03"] = checkC03
}

// ---- action table -----------------------------------------------------------------------------

type actionTable struct {
	press   map[string]*ssa.Function // action constant -> handler
	release map[string]*ssa.Function
	ok      bool
}

// readActionTable reads the constant-keyed MapUpdates of NewDevice that fill the maps stored
// into Device.actionsPress / Device.actionsRelease.
func readActionTable(c *Ctx, dv *dev, rule string) actionTable {
	at := actionTable{press: map[string]*ssa.Function{}, release: map[string]*ssa.Function{}}
	nd := dv.fn["NewDevice"]
	if nd == nil {
		return at
	}
	c.Fn(shortFn(nd))
	// which MakeMap is stored into which field
	mapField := map[ssa.Value]string{}
	for _, b := range nd.Blocks {
		for _, in := range b.Instrs {
			if st, ok := in.(*ssa.Store); ok {
				if f := fieldOfAddr(st.Addr); f != nil && (sameAnchorName(f.Name(), "actionsPress") || sameAnchorName(f.Name(), "actionsRelease")) {
					tv := throughCtor(c.P, st.Val)
					if pt, ok := readOnlyPkgTable(c.P, tv, f); ok {
						tv = pt.mm // a table of the package, built by its initialiser and only read afterwards
					}
					mapField[tv] = map[bool]string{true: "actionsPress", false: "actionsRelease"}[sameAnchorName(f.Name(), "actionsPress")] // also a table built by a constructor helper
				}
			}
		}
	}
	var tableBlocks []*ssa.BasicBlock
	hosts := map[*ssa.Function]bool{}
	for v := range mapField {
		if in, ok := v.(ssa.Instruction); ok && !hosts[in.Parent()] {
			hosts[in.Parent()] = true
		}
	}
	hosts[nd] = true
	for _, f := range c.P.Funcs { // deterministic order
		if hosts[f] {
			tableBlocks = append(tableBlocks, f.Blocks...)
		}
	}
	for _, b := range tableBlocks {
		for _, in := range b.Instrs {
			mu, ok := in.(*ssa.MapUpdate)
			if !ok {
				continue
			}
			fname, ok := mapField[mu.Map]
			if !ok {
				continue
			}
			k, isConst := mu.Key.(*ssa.Const)
			if !isConst || k.Value == nil {
				c.Undec(rule, "device.NewDevice/"+fname+"/non-constant-key", c.P.Pos(mu.Pos()), "action table entry with a non-constant key")
				continue
			}
			name := strings.Trim(k.Value.ExactString(), `"`)
			var fn *ssa.Function
			switch v := mu.Value.(type) {
			case *ssa.Function:
				fn = v
			case *ssa.MakeClosure:
				fn = v.Fn.(*ssa.Function)
			}
			if fn == nil {
				c.Undec(rule, "device.NewDevice/"+fname+"["+name+"]", c.P.Pos(mu.Pos()), "action handler is not a function value")
				continue
			}
			// unwrap method-expression thunks
			fn = unwrapThunk(fn)
			if fname == "actionsPress" {
				at.press[name] = fn
			} else {
				at.release[name] = fn
			}
		}
	}
	if len(at.press) == 0 {
		// the dispatch written out as a switch over the action (`switch action { case config.Panic: d.Panic() ... }`)
		readActionSwitch(c, dv, "invokeActionPress", at.press, rule)
		readActionSwitch(c, dv, "invokeActionRelease", at.release, rule)
	}
	at.ok = len(at.press) > 0
	return at
}

// readActionSwitch: in the dispatcher every comparison of the action parameter with a constant opens a case whose block
// makes exactly one call of a device function (or none: an action without a handler).
func readActionSwitch(c *Ctx, dv *dev, name string, into map[string]*ssa.Function, rule string) {
	fn := dv.fn[name]
	if fn == nil || len(fn.Blocks) == 0 {
		return
	}
	c.Fn(shortFn(fn))
	isActionParam := func(v ssa.Value) bool {
		p, ok := v.(*ssa.Parameter)
		if !ok {
			return false
		}
		n, ok := p.Type().(*types.Named)
		return ok && n.Obj().Name() == "Action"
	}
	for _, b := range fn.Blocks {
		ifi, ok := b.Instrs[len(b.Instrs)-1].(*ssa.If)
		if !ok {
			continue
		}
		bo, ok := ifi.Cond.(*ssa.BinOp)
		if !ok || bo.Op != token.EQL {
			continue
		}
		var k *ssa.Const
		switch {
		case isActionParam(bo.X):
			k, _ = bo.Y.(*ssa.Const)
		case isActionParam(bo.Y):
			k, _ = bo.X.(*ssa.Const)
		}
		if k == nil || k.Value == nil {
			continue
		}
		action := strings.Trim(k.Value.ExactString(), `"`)
		var calls []*ssa.Function
		for _, in := range b.Succs[0].Instrs {
			if call, ok := in.(*ssa.Call); ok {
				if callee := call.Call.StaticCallee(); callee != nil && dv.p.OwnedFunc(callee) && funcPkgPath(callee) == pkgDevice {
					calls = append(calls, callee)
				}
			}
		}
		switch len(calls) {
		case 0:
		case 1:
			into[action] = calls[0]
		default:
			c.Undec(rule, "device."+name+"["+action+"]", c.P.Pos(ifi.Pos()), "more than one call in the case of an action")
		}
	}
}

func unwrapThunk(fn *ssa.Function) *ssa.Function {
	for i := 0; i < 3; i++ {
		if !(strings.HasSuffix(fn.Name(), "$thunk") || strings.HasSuffix(fn.Name(), "$bound") || fn.Synthetic != "") || fn.Blocks == nil {
			return fn
		}
		var callee *ssa.Function
		for _, b := range fn.Blocks {
			for _, in := range b.Instrs {
				if call, ok := in.(*ssa.Call); ok {
					if f := call.Call.StaticCallee(); f != nil {
						callee = f
					}
				}
			}
		}
		if callee == nil {
			return fn
		}
		fn = callee
	}
	return fn
}

// stateActionFuncs: every function that implements a state-changing action (not panic).
func stateActionFuncs(c *Ctx, dv *dev, at actionTable) map[string]*ssa.Function {
	out := map[string]*ssa.Function{}
	panicName, _ := c.P.constString(pkgConfig, "Panic")
	for k, f := range at.press {
		if k == panicName {
			continue
		}
		out["press:"+k] = f
	}
	for k, f := range at.release {
		out["release:"+k] = f
	}
	for _, n := range []string{"Multinote", "OctaveReset", "SemitoneReset", "MappingReset", "ChannelReset", "checkDoubleActions"} {
		if dv.fn[n] != nil {
			out["fn:"+n] = dv.fn[n]
		}
	}
	return out
}

// transitive facts about a function: sends on midi.Event channels, constructor calls, Device fields written.
type fnFacts struct {
	sends  []ssa.Instruction
	ctors  []ssa.Instruction
	writes map[*types.Var][]ssa.Instruction
	dyn    []ssa.Instruction
}

func (dv *dev) transitiveFacts(root *ssa.Function, at actionTable) fnFacts {
	ff := fnFacts{writes: map[*types.Var][]ssa.Instruction{}}
	seen := map[*ssa.Function]bool{}
	_, devStruct := dv.p.Struct(pkgDevice, "Device")
	isDevField := func(f *types.Var) bool {
		for i := 0; i < devStruct.NumFields(); i++ {
			if devStruct.Field(i) == f {
				return true
			}
		}
		return false
	}
	var visit func(fn *ssa.Function)
	visit = func(fn *ssa.Function) {
		if fn == nil || seen[fn] || fn.Blocks == nil {
			return
		}
		seen[fn] = true
		if !dv.p.OwnedFunc(fn) && fn.Synthetic == "" {
			return
		}
		for _, b := range fn.Blocks {
			for _, in := range b.Instrs {
				switch x := in.(type) {
				case *ssa.Send:
					if isMidiEventChan(x.Chan.Type()) {
						ff.sends = append(ff.sends, in)
					}
				case *ssa.Select:
					for _, s := range x.States {
						if s.Dir == types.SendOnly && isMidiEventChan(s.Chan.Type()) {
							ff.sends = append(ff.sends, in)
						}
					}
				case *ssa.Store:
					if f := fieldOfAddr(x.Addr); f != nil && isDevField(f) {
						ff.writes[f] = append(ff.writes[f], in)
					}
				case *ssa.MapUpdate:
					for i := 0; i < devStruct.NumFields(); i++ {
						if derivesFromField(x.Map, devStruct.Field(i), map[ssa.Value]bool{}) {
							ff.writes[devStruct.Field(i)] = append(ff.writes[devStruct.Field(i)], in)
						}
					}
				case ssa.CallInstruction:
					cc := x.Common()
					if bi, ok := cc.Value.(*ssa.Builtin); ok {
						if (bi.Name() == "delete" || bi.Name() == "clear") && len(cc.Args) > 0 {
							for i := 0; i < devStruct.NumFields(); i++ {
								if derivesFromField(cc.Args[0], devStruct.Field(i), map[ssa.Value]bool{}) {
									ff.writes[devStruct.Field(i)] = append(ff.writes[devStruct.Field(i)], in)
								}
							}
						}
						continue
					}
					if callee := cc.StaticCallee(); callee != nil {
						if dv.ctors[callee] {
							ff.ctors = append(ff.ctors, in)
						}
						visit(callee)
						continue
					}
					if cc.IsInvoke() {
						continue // interface calls: logging (zap) only in this package; checked by type below
					}
					// dynamic call: through the action tables?
					if isActionTableCall(cc.Value, dv) {
						for _, f := range at.press {
							visit(f)
						}
						for _, f := range at.release {
							visit(f)
						}
						continue
					}
					// through a read-only table of the package (a pair table with reset functions)?
					if ts := roTableTargets(dv.p, cc.Value); len(ts) > 0 {
						for _, f := range ts {
							visit(f)
						}
						continue
					}
					if ts, ok := localFuncTargets(cc.Value); ok {
						for _, f := range ts {
							visit(f)
						}
						continue
					}
					if ts, ok := paramFuncTargets(dv.p, cc.Value); ok {
						for _, f := range ts {
							visit(f)
						}
						continue
					}
					ff.dyn = append(ff.dyn, in)
				}
			}
		}
	}
	visit(root)
	return ff
}

func isActionTableCall(v ssa.Value, dv *dev) bool {
	if derivesFromField(v, dv.fields["actionsPress"], map[ssa.Value]bool{}) || derivesFromField(v, dv.fields["actionsRelease"], map[ssa.Value]bool{}) {
		return true
	}
	// the table handed to a shared dispatcher (`d.invokeAction(d.actionsPress, action)`): what every caller passes
	x := v
	for i := 0; i < 4; i++ {
		switch y := x.(type) {
		case *ssa.Extract:
			x = y.Tuple
			continue
		case *ssa.Lookup:
			x = y.X
			continue
		}
		break
	}
	prm, ok := x.(*ssa.Parameter)
	if !ok {
		return false
	}
	sites, all := staticCallSites(dv.p, prm.Parent())
	idx := paramIndex(prm)
	if !all || len(sites) == 0 || idx < 0 {
		return false
	}
	for _, cs := range sites {
		if idx >= len(cs.Common().Args) {
			return false
		}
		a := cs.Common().Args[idx]
		if !derivesFromField(a, dv.fields["actionsPress"], map[ssa.Value]bool{}) && !derivesFromField(a, dv.fields["actionsRelease"], map[ssa.Value]bool{}) {
			return false
		}
	}
	return true
}

func isMidiEventChan(t types.Type) bool {
	ch, ok := t.Underlying().(*types.Chan)
	if !ok {
		return false
	}
	n, ok := ch.Elem().(*types.Named)
	return ok && n.Obj().Name() == "Event" && n.Obj().Pkg() != nil && n.Obj().Pkg().Path() == pkgMidi
}

var actionOwnField = map[string][]string{
	"OctaveUp": {"octave"}, "OctaveDown": {"octave"}, "OctaveReset": {"octave"},
	"SemitoneUp": {"semitone"}, "SemitoneDown": {"semitone"}, "SemitoneReset": {"semitone"},
	"ChannelUp": {"channel"}, "ChannelDown": {"channel"}, "ChannelReset": {"channel"},
	"MappingUp": {"mapping"}, "MappingDown": {"mapping"}, "MappingReset": {"mapping"},
	"Multinote": {"multiNote"}, "CCLearningOn": {"ccLearning"}, "CCLearningOff": {"ccLearning"},
	"checkDoubleActions": {"octave", "semitone", "channel", "mapping"},
}

func checkC02(c *Ctx) {
	dv := newDev(c, "R2.0")
	if !dv.ok || !dv.need("R2.0", []string{"NoteOn", "NoteOff", "AnalogNoteOff", "handleKEYEvent", "NewDevice", "checkDoubleActions", "Multinote"},
		[]string{"noteTracker", "analogNoteTracker", "octave", "semitone", "channel", "mapping", "velocity", "config"}) {
		return
	}
	modes := collisionModes(c, "R2.1")
	// R2.1 provenance: Note Off built from the tracker entry only
	ruleR21(c, dv, "R2.1")
	// the entry holds what was emitted (R1.1) and is what is released (R1.2)
	ruleR11(c, dv, modes, "R2.1a")
	ruleR12(c, dv, modes, "R2.1b")
	// R2.2 release path is mapping independent
	ruleR14(c, dv, "R2.2")
	ruleCounterInit(c, dv, "R2.2c") // the holder count that decides whether the pinned Note Off is sent is per (channel, note)
	// R2.3 / R2.4 actions
	at := readActionTable(c, dv, "R2.3")
	if c.Require(at.ok, "R2.3", "device.NewDevice/action-table", "action table not found in NewDevice") {
		ruleR23(c, dv, at, "R2.3")
		ruleR24(c, dv, at, "R2.4")
	}
	c.importRules(configIntactRules, []string{"R3.7"}, "R2.8") // the mapping a press/release is resolved through is the parsed one
	c.MinCount("R2.1", 3)
	c.MinCount("R2.3", 14)
	c.MinCount("R2.4", 12)
	c.DecidedClause("channel and note of every Note Off in NoteOff/AnalogNoteOff are read from the tracker entry of the released key and from nothing else (no octave/semitone/channel/mapping/config read)")
	c.DecidedClause("the tracker entry is exactly what the press emitted (record-what-you-emit) and a tracked key reaches NoteOff whatever the current mapping says")
	c.DecidedClause("no state-changing action function (11 press handlers, 1 release handler, Multinote, 4 resets, pair detection) can reach a send on a MIDI channel or an event constructor, and each writes only its own parameter")
	c.UndecidedClause("nothing further at the structural level; numeric values of transposition are C04")
}

func ruleR21(c *Ctx, dv *dev, rule string) {
	current := []string{"octave", "semitone", "channel", "mapping", "velocity", "config", "multiNote"}
	for _, spec := range []struct{ fn, tracker string }{{"NoteOff", "noteTracker"}, {"AnalogNoteOff", "analogNoteTracker"}} {
		m := dv.noteModel(spec.fn, spec.tracker)
		if !c.Require(m.err == nil, rule, "device."+spec.fn, fmt.Sprint(m.err)) {
			continue
		}
		seen := map[string]bool{}
		for _, np := range m.paths {
			for i, s := range np.Sends {
				key := fmt.Sprintf("device.%s/send(NoteOff)[mode=%s]", spec.fn, np.Mode)
				if seen[key] {
					continue
				}
				seen[key] = true
				pos := c.P.Pos(np.SendEffects[i].Instr.Pos())
				if !s.ok {
					c.Bad(rule, key, pos, "not a decodable event")
					continue
				}
				bad := ""
				for _, t := range []*Term{s.Channel, s.B1} {
					if t == nil {
						bad = "event has no channel operand"
						continue
					}
					for _, f := range current {
						if t.LoadsField(dv.fields[f]) {
							bad = fmt.Sprintf("operand %s reads the current state field Device.%s: the release would follow the state at release time, not the press", t, f)
						}
					}
					fromTracker := t.Any(func(x *Term) bool { return x.Op == "lookup" && dv.isFieldLoad(x.Args[0], spec.tracker) })
					if !fromTracker {
						bad = fmt.Sprintf("operand %s is not taken from the %s entry", t, spec.tracker)
					}
				}
				if bad != "" {
					c.Bad(rule, key, pos, bad)
				} else {
					c.OK(rule, key, pos, fmt.Sprintf("channel=%s note=%s: tracker entry only", s.Channel, s.B1))
				}
			}
		}
	}
}

func ruleR23(c *Ctx, dv *dev, at actionTable, rule string) {
	fns := stateActionFuncs(c, dv, at)
	var names []string
	for k := range fns {
		names = append(names, k)
	}
	sort.Strings(names)
	for _, k := range names {
		fn := fns[k]
		c.Fn(shortFn(fn))
		ff := dv.transitiveFacts(fn, actionTable{})
		key := "action[" + k + "]=" + fn.Name() + "/no-midi-effect"
		pos := c.P.Pos(fn.Pos())
		switch {
		case len(ff.sends) > 0:
			c.Bad(rule, key, c.P.Pos(ff.sends[0].Pos()), "a state-changing action can reach a send on a MIDI event channel")
		case len(ff.ctors) > 0:
			c.Bad(rule, key, c.P.Pos(ff.ctors[0].Pos()), "a state-changing action can reach a MIDI event constructor")
		case len(ff.dyn) > 0:
			c.Undec(rule, key, c.P.Pos(ff.dyn[0].Pos()), "unresolved dynamic call inside an action function")
		default:
			c.OK(rule, key, pos, "no send on chan midi.Event and no event constructor reachable")
		}
	}
	// dispatch of panic: press handler is Device.Panic, no release handler
	panicName, _ := c.P.constString(pkgConfig, "Panic")
	if f := at.press[panicName]; f != nil {
		c.Check(f == dv.fn["Panic"], rule, "action[press:panic]/dispatch", c.P.Pos(f.Pos()), "panic is dispatched to (*Device).Panic", "panic action dispatched to "+f.String())
	}
}

func ruleR24(c *Ctx, dv *dev, at actionTable, rule string) {
	fns := stateActionFuncs(c, dv, at)
	var names []string
	for k := range fns {
		names = append(names, k)
	}
	sort.Strings(names)
	for _, k := range names {
		fn := fns[k]
		ff := dv.transitiveFacts(fn, actionTable{})
		key := "action[" + k + "]=" + fn.Name() + "/writes-own-parameter-only"
		allowed, known := actionOwnField[fn.Name()]
		if !known {
			if len(ff.writes) == 0 {
				c.OK(rule, key, c.P.Pos(fn.Pos()), "writes no Device state")
				continue
			}
			c.Bad(rule, key, c.P.Pos(fn.Pos()), "action handler not in the reviewed table writes Device state: "+fieldNames(ff.writes))
			continue
		}
		bad := ""
		for f, ins := range ff.writes {
			ok := false
			for _, a := range allowed {
				if f.Name() == a {
					ok = true
				}
			}
			if !ok {
				bad = fmt.Sprintf("writes Device.%s (%s) besides its own parameter %v", f.Name(), c.P.Pos(ins[0].Pos()), allowed)
			}
		}
		if bad != "" {
			c.Bad(rule, key, c.P.Pos(fn.Pos()), bad)
		} else {
			c.OK(rule, key, c.P.Pos(fn.Pos()), "writes "+fieldNames(ff.writes)+" only")
		}
	}
}

func fieldNames(m map[*types.Var][]ssa.Instruction) string {
	var ns []string
	for f := range m {
		ns = append(ns, f.Name())
	}
	sort.Strings(ns)
	return "{" + strings.Join(ns, ",") + "}"
}

// ---- C03 ----------------------------------------------------------------------------------------

func checkC03(c *Ctx) {
	dv := newDev(c, "R3.0")
	if !dv.ok || !dv.need("R3.0", []string{"NoteOn", "NoteOff", "NewDevice"}, []string{"noteTracker", "activeNotesCounter", "outputEvents"}) {
		return
	}
	modes := collisionModes(c, "R3.5")
	ruleR31(c, dv, modes, "R3.1")
	ruleR32(c, dv, modes, "R3.2")
	// R3.3 the counter means "holders"
	ruleR11(c, dv, modes, "R3.3a")
	ruleR12(c, dv, modes, "R3.3b")
	ruleR13(c, dv, "R3.3c")
	ruleCounterInit(c, dv, "R3.3d")
	ruleR14(c, dv, "R3.8")                                            // every holder's release reaches NoteOff (or finds the tracker empty)
	c.importRules(checkC14, []string{"R14.4"}, "R3.9")                // every holder's press reaches NoteOn: no filter in front of the dispatch drops it
	c.importRules(transportRules, []string{"R15.1", "R15.2"}, "R3.6") // the per-mode emission must arrive as emitted: relays forward every message exactly once, unaltered
	ruleR16(c, dv, modes, "R3.5")
	ruleConfigCopyIntact(c, dv, "R3.7")
	c.MinCount("R3.1", 6)
	c.MinCount("R3.2", 7)
	c.DecidedClause("per collision mode, the exact emission sequence of every path of NoteOn (off/retrigger: [On]; no_repeat: held->[] else [On]; interrupt: held->[Off,On] else [On]) and NoteOff (off: [Off]; managed: last holder->[Off] else [])")
	c.DecidedClause("guard, event and counter update use the same (channel, note); the counter is incremented once per recorded press, decremented once per tracked release, has no other writer and starts at 0 for all 16x128 pairs")
	c.DecidedClause("mode case sets are exhaustive w.r.t. the supported-mode table")
	c.UndecidedClause("orders of several keys are not enumerated (the skeleton is the same for every order; Go map and integer semantics assumed)")
}

func ruleR31(c *Ctx, dv *dev, modes []string, rule string) {
	m := dv.noteModel("NoteOn", "noteTracker")
	if !c.Require(m.err == nil, rule, "device.NoteOn", fmt.Sprint(m.err)) {
		return
	}
	pos := c.P.Pos(m.fn.Pos())
	covered := map[string]bool{}
	for _, np := range m.paths {
		if np.Mode == "" {
			continue // early returns and the unsupported-mode panic: R1.1
		}
		b, ctrKey, hasGuard := dv.counterBound(np.P)
		held := "any"
		if hasGuard {
			switch {
			case b.hasLo && b.lo >= 1:
				held = "held"
			case b.hasHi && b.hi <= 0:
				held = "free"
			default:
				c.Bad(rule, fmt.Sprintf("device.NoteOn/mode=%s/guard", np.Mode), pos, "counter guard is not a held/not-held test: counter in "+b.String())
				continue
			}
			// R3.4: guard reads the counter of the emitted/recorded pair
			if len(np.CtrSets) == 1 {
				cs := np.CtrSets[0]
				want := (&Term{Op: "lookup", Args: []*Term{cs.Args[0], cs.Args[1]}}).String()
				if ctrKey != want {
					c.Bad("R3.4", fmt.Sprintf("device.NoteOn/mode=%s/guard-key", np.Mode), pos, fmt.Sprintf("guard reads %s but the counter updated is %s", ctrKey, want))
					continue
				}
				c.OK("R3.4", fmt.Sprintf("device.NoteOn/mode=%s,%s/guard-key", np.Mode, held), pos, "guard, event and counter update use the same (channel, note)")
			}
		}
		want := map[string]string{
			"off/any": "[On]", "off/held": "[On]", "off/free": "[On]",
			"retrigger/any": "[On]", "retrigger/held": "[On]", "retrigger/free": "[On]",
			"no_repeat/held": "[]", "no_repeat/free": "[On]",
			"interrupt/held": "[Off,On]", "interrupt/free": "[On]",
		}
		k := np.Mode + "/" + held
		key := "device.NoteOn/mode=" + k
		exp, known := want[k]
		if !known {
			c.Bad(rule, key, pos, fmt.Sprintf("mode %s emits %s without testing whether the pitch is already held", np.Mode, np.kinds()))
			continue
		}
		covered[k] = true
		if np.kinds() != exp {
			c.Bad(rule, key, pos, fmt.Sprintf("emits %s, the mode requires %s", np.kinds(), exp))
			continue
		}
		// velocity-0 Note Off of the interrupt must precede the Note On and be a real Note Off
		c.OK(rule, key, pos, "emits "+exp)
	}
	for _, need := range []string{"no_repeat/held", "no_repeat/free", "interrupt/held", "interrupt/free"} {
		if !covered[need] {
			c.Bad(rule, "device.NoteOn/mode="+need, pos, "no path for this mode/holder state: the mode does not distinguish a held pitch from a free one")
		}
	}
	for _, mode := range []string{"off", "retrigger"} {
		if !covered[mode+"/any"] && !(covered[mode+"/held"] && covered[mode+"/free"]) {
			c.Bad(rule, "device.NoteOn/mode="+mode, pos, "no emitting path for this mode")
		}
	}
}

func ruleR32(c *Ctx, dv *dev, modes []string, rule string) {
	m := dv.noteModel("NoteOff", "noteTracker")
	if !c.Require(m.err == nil, rule, "device.NoteOff", fmt.Sprint(m.err)) {
		return
	}
	pos := c.P.Pos(m.fn.Pos())
	covered := map[string]bool{}
	for _, np := range m.paths {
		if np.TrackerHit == nil || !*np.TrackerHit || np.Mode == "" {
			continue
		}
		b, ctrKey, hasGuard := dv.counterBound(np.P)
		last := "any"
		if hasGuard {
			switch {
			case b.hasLo && b.hasHi && b.lo == 1 && b.hi == 1, b.hasHi && b.hi == 1 && !b.hasLo:
				last = "last"
			case b.excluded[1] && !b.hasHi, b.hasLo && b.lo >= 2:
				last = "others"
			default:
				c.Bad(rule, fmt.Sprintf("device.NoteOff/mode=%s/guard", np.Mode), pos, "counter guard is not a last-holder test (== 1): counter in "+b.String()+fmt.Sprint(b.excluded))
				continue
			}
			if len(np.CtrSets) == 1 {
				cs := np.CtrSets[0]
				want := (&Term{Op: "lookup", Args: []*Term{cs.Args[0], cs.Args[1]}}).String()
				if ctrKey != want {
					c.Bad("R3.4", fmt.Sprintf("device.NoteOff/mode=%s/guard-key", np.Mode), pos, fmt.Sprintf("guard reads %s but the counter updated is %s", ctrKey, want))
					continue
				}
				c.OK("R3.4", fmt.Sprintf("device.NoteOff/mode=%s,%s/guard-key", np.Mode, last), pos, "guard and counter update use the recorded (channel, note)")
			}
		}
		k := np.Mode + "/" + last
		key := "device.NoteOff/mode=" + k
		var exp string
		switch {
		case np.Mode == "off":
			exp = "[Off]"
		case last == "last":
			exp = "[Off]"
		case last == "others":
			exp = "[]"
		default:
			c.Bad(rule, key, pos, fmt.Sprintf("managed mode %s releases without testing whether this is the last holder (emits %s)", np.Mode, np.kinds()))
			continue
		}
		covered[k] = true
		if np.kinds() != exp {
			c.Bad(rule, key, pos, fmt.Sprintf("emits %s, the mode requires %s", np.kinds(), exp))
			continue
		}
		c.OK(rule, key, pos, "emits "+exp)
	}
	for _, mode := range modes {
		if mode == "off" {
			if !covered["off/any"] && !(covered["off/last"] && covered["off/others"]) {
				c.Bad(rule, "device.NoteOff/mode=off", pos, "no releasing path for mode off")
			}
			continue
		}
		for _, l := range []string{"last", "others"} {
			if !covered[mode+"/"+l] {
				c.Bad(rule, "device.NoteOff/mode="+mode+"/"+l, pos, "no path for this mode/holder state")
			}
		}
	}
}

// ruleCounterInit: NewDevice fills activeNotesCounter[ch][note] = 0 for ch in 0..15, note in 0..127.
func ruleCounterInit(c *Ctx, dv *dev, rule string) {
	nd := dv.fn["NewDevice"]
	pos := c.P.Pos(nd.Pos())
	// find the map stored into the field
	var outer ssa.Value
	for _, b := range nd.Blocks {
		for _, in := range b.Instrs {
			if st, ok := in.(*ssa.Store); ok && fieldOfAddr(st.Addr) == dv.fields["activeNotesCounter"] {
				outer = st.Val
			}
		}
	}
	if !c.Require(outer != nil, rule, "device.NewDevice/activeNotesCounter", "store of activeNotesCounter not found") {
		return
	}
	okOuter, okInner := false, false
	// the table may be built by a constructor helper, possibly a generic one that is handed the per-table initialiser as a
	// function value: parameters of the helper are bound to the arguments of the call in NewDevice
	bind := map[*ssa.Parameter]ssa.Value{}
	if call, isCall := outer.(*ssa.Call); isCall {
		if callee := call.Call.StaticCallee(); callee != nil && callee.Blocks != nil && c.P.OwnedFunc(callee) {
			for i, prm := range callee.Params {
				if i < len(call.Call.Args) {
					bind[prm] = call.Call.Args[i]
				}
			}
		}
	}
	outer = throughCtor(c.P, outer)
	host := nd
	if in, ok := outer.(ssa.Instruction); ok {
		host = in.Parent()
	}
	// zeroFills: function fn writes the constant 0 under every key of a counted loop [0,127] into the map it receives as
	// parameter number pi
	zeroFills := func(fn *ssa.Function, pi int) bool {
		if fn == nil || fn.Blocks == nil || pi >= len(fn.Params) {
			return false
		}
		for _, b := range fn.Blocks {
			for _, in := range b.Instrs {
				if mu, ok := in.(*ssa.MapUpdate); ok && mu.Map == ssa.Value(fn.Params[pi]) {
					if lo, hi, ok := countedLoopRange(mu.Key); ok && lo == 0 && hi == 127 {
						if k, isC := mu.Value.(*ssa.Const); isC && k.Int64() == 0 {
							return true
						}
					}
				}
			}
		}
		return false
	}
	funcOf := func(v ssa.Value) *ssa.Function {
		for i := 0; i < 4; i++ {
			switch x := v.(type) {
			case *ssa.Function:
				return x
			case *ssa.MakeClosure:
				f, _ := x.Fn.(*ssa.Function)
				return f
			case *ssa.ChangeType:
				v = x.X
			case *ssa.Parameter:
				if b, ok := bind[x]; ok {
					v = b
				} else {
					return nil
				}
			default:
				return nil
			}
		}
		return nil
	}
	for _, b := range host.Blocks {
		for _, in := range b.Instrs {
			mu, ok := in.(*ssa.MapUpdate)
			if !ok || mu.Map != outer {
				continue
			}
			lo, hi, ok := countedLoopRange(mu.Key)
			if !ok || lo != 0 || hi != 15 {
				continue
			}
			// a fresh inner table per channel: made inside the loop body (or by a helper called there), never one
			// table shared by all channels
			inner := mu.Value
			if call, isCall := inner.(*ssa.Call); isCall {
				if !mu.Key.(*ssa.Phi).Block().Dominates(call.Block()) {
					continue
				}
				inner = throughCtor(c.P, inner)
			}
			mk, isMake := inner.(*ssa.MakeMap)
			if !isMake {
				continue
			}
			if mk.Parent() == host && !mu.Key.(*ssa.Phi).Block().Dominates(mk.Block()) {
				continue // made once before the loop: all channels would share one counter table
			}
			okOuter = true
			for _, b2 := range mk.Parent().Blocks {
				for _, in2 := range b2.Instrs {
					if mu2, ok := in2.(*ssa.MapUpdate); ok && mu2.Map == ssa.Value(mk) {
						if lo, hi, ok := countedLoopRange(mu2.Key); ok && lo == 0 && hi == 127 {
							if k, isC := mu2.Value.(*ssa.Const); isC && k.Int64() == 0 {
								okInner = true
							}
						}
					}
					// the fresh table handed to an initialiser: a function of the repository, or the function value the
					// helper was given
					if call, ok := in2.(*ssa.Call); ok && !call.Call.IsInvoke() {
						for ai, a := range call.Call.Args {
							if a != ssa.Value(mk) {
								continue
							}
							callee := call.Call.StaticCallee()
							if callee == nil {
								callee = funcOf(call.Call.Value)
							}
							if callee != nil && c.P.OwnedFunc(callee) && zeroFills(callee, ai) && mu.Key.(*ssa.Phi).Block().Dominates(call.Block()) {
								// the call must not be skipped for the binding in question: `if fill != nil { fill(t) }` with a
								// non-nil function bound
								okInner = true
							}
						}
					}
				}
			}
		}
	}
	c.Check(okOuter && okInner, rule, "device.NewDevice/counter-init", pos, "counted loops cover channels [0,15] x notes [0,127] with the constant 0",
		"activeNotesCounter is not initialised to 0 for all 16x128 (channel, note) pairs by counted loops with a fresh note table per channel")
}

// countedLoopRange recognises v as the induction variable of `for v := c; v < K; v++`
// and returns [c, K-1].
func countedLoopRange(v ssa.Value) (lo, hi int64, ok bool) {
	phi, isPhi := v.(*ssa.Phi)
	if !isPhi || len(phi.Edges) != 2 {
		return
	}
	var init *ssa.Const
	var step *ssa.BinOp
	for _, e := range phi.Edges {
		switch x := e.(type) {
		case *ssa.Const:
			init = x
		case *ssa.BinOp:
			step = x
		}
	}
	if init == nil || step == nil || step.Op != token.ADD || step.X != phi {
		return
	}
	one, isC := step.Y.(*ssa.Const)
	if !isC || one.Int64() != 1 {
		return
	}
	// guard: the phi's block (or its referrers) compares phi < K and exits otherwise
	for _, r := range *phi.Referrers() {
		bo, isB := r.(*ssa.BinOp)
		if !isB || bo.X != phi {
			continue
		}
		k, isK := bo.Y.(*ssa.Const)
		if !isK {
			continue
		}
		// must control the loop: its If must have the step's block dominated by the true edge
		var ifi *ssa.If
		for _, rr := range *bo.Referrers() {
			if i, ok := rr.(*ssa.If); ok {
				ifi = i
			}
		}
		if ifi == nil {
			continue
		}
		body := ifi.Block().Succs[0]
		if !body.Dominates(step.Block()) {
			continue
		}
		switch bo.Op {
		case token.LSS:
			hi = k.Int64() - 1
		case token.LEQ:
			hi = k.Int64()
		default:
			continue
		}
		// no wrap: the type must be able to hold hi+1
		if b, isBasic := phi.Type().Underlying().(*types.Basic); isBasic {
			if !fitsIn(constantInt(hi+1), b) {
				return 0, 0, false
			}
		}
		return init.Int64(), hi, true
	}
	return
}

// ruleConfigCopyIntact: R3.7 the mode NoteOn/NoteOff consult is the configured one: the device's own copy of the parsed
// configuration is assigned once, as a whole, from the configuration handed to NewDevice, and no function of the device
// package stores into a field of it afterwards (a "smart" downgrade of collision_mode, a default patched in at run time).
func ruleConfigCopyIntact(c *Ctx, dv *dev, rule string) {
	cfgField := dv.fields["config"]
	if cfgField == nil {
		c.Undec(rule, "device.Device.config/assigned-once-from-the-parsed-configuration", "-", "Device.config not found")
		return
	}
	// is addr inside Device.config (strictly below it: a field/element of it)?
	var below func(addr ssa.Value, depth int) (inside, whole bool)
	below = func(addr ssa.Value, depth int) (bool, bool) {
		if depth > 8 {
			return false, false
		}
		switch x := addr.(type) {
		case *ssa.FieldAddr:
			st := deref(x.X.Type()).Underlying().(*types.Struct)
			if st.Field(x.Field) == cfgField {
				return true, true
			}
			in, _ := below(x.X, depth+1)
			return in, false
		case *ssa.IndexAddr:
			in, _ := below(x.X, depth+1)
			return in, false
		}
		return false, false
	}
	wholes, bad := 0, ""
	var badPos string
	for _, fn := range c.P.Funcs {
		top := topFunc(fn)
		if top.Pkg == nil || top.Pkg.Pkg.Path() != pkgDevice {
			continue
		}
		for _, b := range fn.Blocks {
			for _, in := range b.Instrs {
				st, ok := in.(*ssa.Store)
				if !ok {
					continue
				}
				inside, whole := below(st.Addr, 0)
				if !inside {
					continue
				}
				if whole {
					wholes++
					if top != dv.fn["NewDevice"] {
						bad, badPos = "Device.config is replaced in "+shortFn(fn), c.P.Pos(st.Pos())
					} else if !strings.Contains(NewFnView(c.P, fn).Term(st.Val).String(), "Config") || !derivesFromParam(st.Val) {
						bad, badPos = "Device.config is not initialised from the configuration passed to NewDevice", c.P.Pos(st.Pos())
					}
					continue
				}
				bad, badPos = fmt.Sprintf("%s stores into a field of the device's copy of the parsed configuration (%s): what the device consults at run time (collision mode, mappings, defaults) is no longer what the file states", shortFn(fn), NewFnView(c.P, fn).Term(st.Addr)), c.P.Pos(st.Pos())
			}
		}
	}
	// the configuration handed to NewDevice is not modified on its way into the device either: neither the parameter's own
	// fields (`cfg.Config.KeyMappings = usable` before the copy is taken) nor what it shares with the loaded configuration
	// and with every other device made from it (elements of its slices, entries of its maps)
	if nd := dv.fn["NewDevice"]; nd != nil && bad == "" {
		hosts := dv.hostsOf(nd)
		var fromCfg func(v ssa.Value, depth int) bool
		fromCfg = func(v ssa.Value, depth int) bool {
			if depth > 14 || v == nil {
				return false
			}
			switch x := v.(type) {
			case *ssa.Parameter:
				n, ok := deref(x.Type()).(*types.Named)
				return ok && n.Obj().Pkg() != nil && n.Obj().Pkg().Path() == pkgConfig
			case *ssa.Alloc:
				for _, r := range *x.Referrers() {
					if st, ok := r.(*ssa.Store); ok && st.Addr == ssa.Value(x) && fromCfg(st.Val, depth+1) {
						return true
					}
				}
				return false
			case *ssa.FieldAddr:
				return fromCfg(x.X, depth+1)
			case *ssa.Field:
				return fromCfg(x.X, depth+1)
			case *ssa.IndexAddr:
				return fromCfg(x.X, depth+1)
			case *ssa.Index:
				return fromCfg(x.X, depth+1)
			case *ssa.UnOp:
				return x.Op == token.MUL && fromCfg(x.X, depth+1)
			case *ssa.Lookup:
				return fromCfg(x.X, depth+1)
			case *ssa.Extract:
				return fromCfg(x.Tuple, depth+1)
			case *ssa.Next:
				return fromCfg(x.Iter, depth+1)
			case *ssa.Range:
				return fromCfg(x.X, depth+1)
			case *ssa.Slice:
				return fromCfg(x.X, depth+1)
			case *ssa.Phi:
				for _, e := range x.Edges {
					if fromCfg(e, depth+1) {
						return true
					}
				}
			}
			return false
		}
		for _, fn := range hosts {
			for _, b := range fn.Blocks {
				for _, in := range b.Instrs {
					switch x := in.(type) {
					case *ssa.Store:
						if _, isAlloc := x.Addr.(*ssa.Alloc); isAlloc {
							continue // the parameter itself being spilled / a local copy taken
						}
						if allocRooted(x.Addr) {
							// a field of the (spilled) parameter, or of a local copy of part of it
							if root := allocRoot(x.Addr); root != nil && fromCfg(root, 0) {
								bad, badPos = fmt.Sprintf("%s changes the configuration it was handed (%s) before the device takes its copy: what the device consults at run time (mapping list and the default index into it, collision mode, defaults) is no longer what the file states", shortFn(fn), NewFnView(c.P, fn).Term(x.Addr)), c.P.Pos(x.Pos())
							}
							continue
						}
						if fromCfg(x.Addr, 0) {
							bad, badPos = fmt.Sprintf("%s writes through the configuration it was handed (%s): slices and maps of the parsed configuration are shared with the loaded configuration and with every other device made from it", shortFn(fn), NewFnView(c.P, fn).Term(x.Addr)), c.P.Pos(x.Pos())
						}
					case *ssa.MapUpdate:
						if fromCfg(x.Map, 0) {
							bad, badPos = fmt.Sprintf("%s updates a map of the configuration it was handed (%s): the maps of the parsed configuration are shared with the loaded configuration and with every other device made from it", shortFn(fn), NewFnView(c.P, fn).Term(x.Map)), c.P.Pos(x.Pos())
						}
					}
				}
			}
		}
	}
	key := "device.Device.config/assigned-once-from-the-parsed-configuration"
	if bad != "" {
		c.Bad(rule, key, badPos, bad)
		return
	}
	if wholes == 0 {
		c.Undec(rule, key, "-", "no assignment of Device.config found")
		return
	}
	c.OK(rule, key, c.P.Pos(dv.fn["NewDevice"].Pos()), fmt.Sprintf("%d whole assignment(s) in NewDevice from its parameter, no field store anywhere in package device", wholes))
}

// derivesFromParam: v is a parameter or a field/load chain rooted at one.
func derivesFromParam(v ssa.Value) bool {
	for i := 0; i < 8; i++ {
		switch x := v.(type) {
		case *ssa.Parameter:
			return true
		case *ssa.Field:
			v = x.X
		case *ssa.UnOp:
			v = x.X
		case *ssa.FieldAddr:
			v = x.X
		case *ssa.Alloc:
			// a spilled parameter
			for _, r := range *x.Referrers() {
				if st, ok := r.(*ssa.Store); ok && st.Addr == ssa.Value(x) {
					if _, isP := st.Val.(*ssa.Parameter); isP {
						return true
					}
				}
			}
			return false
		default:
			return false
		}
	}
	return false
}

// configIntactRules: R3.7 alone, for import by the properties whose behaviour is read from the device's configuration copy.
func configIntactRules(c *Ctx) {
	dv := newDev(c, "R3.0")
	if !dv.ok || dv.fn["NewDevice"] == nil {
		return
	}
	ruleConfigCopyIntact(c, dv, "R3.7")
}
