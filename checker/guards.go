package main

import (
	"go/types"

	"golang.org/x/tools/go/ssa"
)

// FnView gives structural (path-independent) terms for the SSA values of one function and
// the branch conditions that dominate a program point (E3 "dominating guard" facts).
// Loads are keyed by access path; this is sound for memory the function never stores to
// between guard and use (checked by the callers through noStoresThrough).
type FnView struct {
	p  *Program
	fn *ssa.Function
	se *symExec
	fr *frame
	st *state
}

func NewFnView(p *Program, fn *ssa.Function) *FnView {
	se := &symExec{cfg: SymConfig{Prog: p}, inert: map[*ssa.Function]int{}, pdom: map[*ssa.Function]map[*ssa.BasicBlock]*ssa.BasicBlock{}, colla: map[*ssa.BasicBlock]*collapseInfo{}, phiExpand: true}
	u := 0
	st := &state{mem: map[string]*Term{}, memAddr: map[string]*Term{}, fresh: map[string]bool{}, fepoch: map[types.Object]int{}, mepoch: map[string]int{},
		eq: map[string]string{}, ne: map[string]map[string]bool{}, truth: map[string]bool{}, uniq: &u}
	fr := &frame{fn: fn, vals: map[ssa.Value]*Term{}, visits: map[int]int{}}
	for _, pa := range fn.Params {
		fr.vals[pa] = &Term{Op: "param", Aux: pa.Name(), Type: pa.Type()}
	}
	for _, fv := range fn.FreeVars {
		fr.vals[fv] = &Term{Op: "freevar", Aux: "^" + fv.Name(), Type: fv.Type()}
	}
	st.frames = []*frame{fr}
	return &FnView{p: p, fn: fn, se: se, fr: fr, st: st}
}

// Term returns the structural term of v.
func (v *FnView) Term(x ssa.Value) *Term { return v.se.val(v.st, v.fr, x) }

// GuardsAt returns the branch conditions that hold whenever block b executes: for every
// dominator d ending in an If, the edge d->s is taken iff s dominates b and s is entered
// only through that edge (other predecessors of s being dominated by s itself).
func (v *FnView) GuardsAt(b *ssa.BasicBlock) []Atom {
	var out []Atom
	for d := b.Idom(); d != nil; d = d.Idom() {
		if len(d.Instrs) == 0 {
			continue
		}
		ifi, ok := d.Instrs[len(d.Instrs)-1].(*ssa.If)
		if !ok {
			continue
		}
		for i, s := range d.Succs {
			if !s.Dominates(b) {
				continue
			}
			if d.Succs[0] == d.Succs[1] {
				continue
			}
			only := true
			for _, pr := range s.Preds {
				if pr != d && !s.Dominates(pr) {
					only = false
				}
			}
			if !only {
				continue
			}
			out = append(out, Atom{Cond: v.Term(ifi.Cond), Taken: i == 0, Instr: ifi, Fn: v.fn})
		}
	}
	// outermost first
	for i, j := 0, len(out)-1; i < j; i, j = i+1, j-1 {
		out[i], out[j] = out[j], out[i]
	}
	return out
}

// compositeFields returns, for a struct allocated for a composite literal, the value stored
// into each field (fields not mentioned keep the zero value and are absent).
func compositeFields(alloc ssa.Value) map[*types.Var]ssa.Value {
	out := map[*types.Var]ssa.Value{}
	refs := alloc.Referrers()
	if refs == nil {
		return out
	}
	for _, r := range *refs {
		fa, ok := r.(*ssa.FieldAddr)
		if !ok {
			continue
		}
		f := fieldOfAddr(fa)
		if fr := fa.Referrers(); fr != nil {
			for _, rr := range *fr {
				if st, ok := rr.(*ssa.Store); ok && st.Addr == fa {
					out[f] = st.Val
				}
			}
		}
	}
	return out
}

// literalOf: if v is `load(alloc)` of a composite literal (or the alloc itself), return the alloc.
func literalOf(v ssa.Value) *ssa.Alloc {
	switch x := v.(type) {
	case *ssa.Alloc:
		return x
	case *ssa.UnOp:
		if a, ok := x.X.(*ssa.Alloc); ok {
			return a
		}
	}
	return nil
}

// wholeStore: if the local allocation is initialised exactly once by storing a whole value
// into it (a spilled local such as `analog, ok := m[k]`), return that value.
func wholeStore(a *ssa.Alloc) ssa.Value {
	refs := a.Referrers()
	if refs == nil {
		return nil
	}
	var val ssa.Value
	n := 0
	for _, r := range *refs {
		if st, ok := r.(*ssa.Store); ok && st.Addr == a {
			val = st.Val
			n++
		}
	}
	if n != 1 {
		return nil
	}
	// no stores through component addresses
	for _, r := range *refs {
		switch x := r.(type) {
		case *ssa.FieldAddr:
			for _, rr := range *x.Referrers() {
				if st, ok := rr.(*ssa.Store); ok && st.Addr == x {
					return nil
				}
			}
		case *ssa.IndexAddr:
			for _, rr := range *x.Referrers() {
				if st, ok := rr.(*ssa.Store); ok && st.Addr == x {
					return nil
				}
			}
		}
	}
	return val
}
