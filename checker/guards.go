package main

import (
	"go/constant"
	"go/token"
	"go/types"
	"strings"

	"golang.org/x/tools/go/ssa"
)

// FnView gives structural (path-independent) terms for the SSA values of one function and
// the branch conditions that dominate a program point (E3 "dominating guard" facts).
// Loads are keyed by access path; this is sound for memory the function never stores to
// between guard and use (checked by the callers through noStoresThrough).
type FnView struct {
	p  *Program
	fn *ssa.Function
	se *symExec
	fr *frame
	st *state
}

func NewFnView(p *Program, fn *ssa.Function) *FnView {
	se := &symExec{cfg: SymConfig{Prog: p}, inert: map[*ssa.Function]int{}, pdom: map[*ssa.Function]map[*ssa.BasicBlock]*ssa.BasicBlock{}, colla: map[*ssa.BasicBlock]*collapseInfo{}, phiExpand: true}
	u := 0
	st := &state{mem: map[string]*Term{}, memAddr: map[string]*Term{}, fresh: map[string]bool{}, fepoch: map[types.Object]int{}, mepoch: map[string]int{},
		eq: map[string]string{}, ne: map[string]map[string]bool{}, truth: map[string]bool{}, uniq: &u}
	fr := &frame{fn: fn, vals: map[ssa.Value]*Term{}, visits: map[int]int{}}
	for _, pa := range fn.Params {
		fr.vals[pa] = &Term{Op: "param", Aux: pa.Name(), Type: pa.Type()}
	}
	for _, fv := range fn.FreeVars {
		fr.vals[fv] = &Term{Op: "freevar", Aux: "^" + fv.Name(), Type: fv.Type()}
	}
	st.frames = []*frame{fr}
	return &FnView{p: p, fn: fn, se: se, fr: fr, st: st}
}

// Term returns the structural term of v.
func (v *FnView) Term(x ssa.Value) *Term { return v.se.val(v.st, v.fr, x) }

// GuardsAt returns the branch conditions that hold whenever block b executes: for every
// dominator d ending in an If, the edge d->s is taken iff s dominates b and s is entered
// only through that edge (other predecessors of s being dominated by s itself).
func (v *FnView) GuardsAt(b *ssa.BasicBlock) []Atom {
	var out []Atom
	for d := b.Idom(); d != nil; d = d.Idom() {
		if len(d.Instrs) == 0 {
			continue
		}
		ifi, ok := d.Instrs[len(d.Instrs)-1].(*ssa.If)
		if !ok {
			continue
		}
		for i, s := range d.Succs {
			if !s.Dominates(b) {
				continue
			}
			if d.Succs[0] == d.Succs[1] {
				continue
			}
			only := true
			for _, pr := range s.Preds {
				if pr != d && !s.Dominates(pr) {
					only = false
				}
			}
			if !only {
				continue
			}
			out = append(out, Atom{Cond: v.Term(ifi.Cond), Taken: i == 0, Instr: ifi, Fn: v.fn})
			// a condition computed by a side-effect free predicate of the repository (`if outside(v, 0, 15)`,
			// `if !supported(set, key)`) also states what the predicate's own conditions state
			ex := v.predicateAtoms(ifi.Cond, i == 0)
			for k := len(ex) - 1; k >= 0; k-- { // (the list is reversed below)
				ex[k].Instr = ifi
				out = append(out, ex[k])
			}
		}
	}
	// outermost first
	for i, j := 0, len(out)-1; i < j; i, j = i+1, j-1 {
		out[i], out[j] = out[j], out[i]
	}
	return out
}

// predicateAtoms: cond is (a negation of) a call of a repository function returning one bool, whose body has no effect
// but computing the result. When exactly one of its paths can produce the outcome `taken`, everything that path tested
// holds at the branch; the atoms are expressed over the caller's argument terms.
func (v *FnView) predicateAtoms(cond ssa.Value, taken bool) []Atom {
	for {
		u, ok := cond.(*ssa.UnOp)
		if !ok || u.Op != token.NOT {
			break
		}
		cond, taken = u.X, !taken
	}
	ridx := 0
	if ex, isEx := cond.(*ssa.Extract); isEx { // `name, isConfig := tomlFileName(x); if isConfig`: one bool of several results
		cond, ridx = ex.Tuple, ex.Index
	}
	call, ok := cond.(*ssa.Call)
	if !ok || call.Call.IsInvoke() {
		return nil
	}
	callee := call.Call.StaticCallee()
	if callee == nil || len(callee.Blocks) == 0 || !v.p.OwnedFunc(callee) || callee == v.fn || len(callee.FreeVars) > 0 {
		return nil
	}
	res := callee.Signature.Results()
	if ridx >= res.Len() || (res.Len() != 1 && ridx == 0 && cond != call) || !isBoolType(res.At(ridx).Type()) || len(callee.Params) != len(call.Call.Args) {
		return nil
	}
	pt := map[*ssa.Parameter]*Term{}
	for i, prm := range callee.Params {
		pt[prm] = v.Term(call.Call.Args[i])
	}
	paths, err := Enumerate(callee, SymConfig{Prog: v.p, MaxDepth: 1, Collapse: true, ParamTerms: pt, MaxPaths: 64})
	if err != nil || len(paths) == 0 {
		return nil
	}
	var cands []*Path
	for _, p := range paths {
		if p.End != "return" || len(p.Ret) != res.Len() {
			return nil // a panicking or cut path: not a plain predicate
		}
		for _, e := range p.Effects {
			switch {
			case e.Kind == "store" && e.Local, e.Kind == "return":
			case e.Kind == "call" && (e.Inlined || e.Callee != nil && isPureExternal(e.Callee)):
			default:
				return nil
			}
		}
		if k, isK := p.Ret[ridx].IsConst(); isK {
			if k.Kind() == constant.Bool && constant.BoolVal(k) == taken {
				cands = append(cands, p)
			}
			continue
		}
		cands = append(cands, p)
	}
	if len(cands) != 1 {
		return nil
	}
	var out []Atom
	for _, a := range cands[0].Atoms {
		out = append(out, Atom{Cond: a.Cond, Taken: a.Taken, Fn: v.fn})
	}
	if _, isK := cands[0].Ret[ridx].IsConst(); !isK {
		out = append(out, Atom{Cond: cands[0].Ret[ridx], Taken: taken, Fn: v.fn})
	}
	return out
}

func isBoolType(t types.Type) bool {
	b, ok := t.Underlying().(*types.Basic)
	return ok && b.Kind() == types.Bool
}

// compositeFields returns, for a struct allocated for a composite literal, the value stored
// into each field (fields not mentioned keep the zero value and are absent).
func compositeFields(alloc ssa.Value) map[*types.Var]ssa.Value {
	out := map[*types.Var]ssa.Value{}
	refs := alloc.Referrers()
	if refs == nil {
		return out
	}
	for _, r := range *refs {
		fa, ok := r.(*ssa.FieldAddr)
		if !ok {
			continue
		}
		f := fieldOfAddr(fa)
		if fr := fa.Referrers(); fr != nil {
			for _, rr := range *fr {
				if st, ok := rr.(*ssa.Store); ok && st.Addr == fa {
					out[f] = st.Val
				}
			}
		}
	}
	return out
}

// literalOf: if v is `load(alloc)` of a composite literal (or the alloc itself), return the alloc.
func literalOf(v ssa.Value) *ssa.Alloc {
	switch x := v.(type) {
	case *ssa.Alloc:
		return x
	case *ssa.UnOp:
		if a, ok := x.X.(*ssa.Alloc); ok {
			return a
		}
	}
	return nil
}

// wholeStore: if the local allocation is initialised exactly once by storing a whole value
// into it (a spilled local such as `analog, ok := m[k]`), return that value.
func wholeStore(a *ssa.Alloc) ssa.Value {
	refs := a.Referrers()
	if refs == nil {
		return nil
	}
	var val ssa.Value
	n := 0
	for _, r := range *refs {
		if st, ok := r.(*ssa.Store); ok && st.Addr == a {
			val = st.Val
			n++
		}
	}
	if n != 1 {
		return nil
	}
	// no stores through component addresses
	for _, r := range *refs {
		switch x := r.(type) {
		case *ssa.FieldAddr:
			for _, rr := range *x.Referrers() {
				if st, ok := rr.(*ssa.Store); ok && st.Addr == x {
					return nil
				}
			}
		case *ssa.IndexAddr:
			for _, rr := range *x.Referrers() {
				if st, ok := rr.(*ssa.Store); ok && st.Addr == x {
					return nil
				}
			}
		}
	}
	return val
}

// BoundsAt: what is known about the integer term `key` whenever block b executes.  Besides the dominating guards
// (GuardsAt) it joins the facts of the incoming edges: at a block with several predecessors a fact holds if it holds on
// every incoming edge (interval hull), which is how `if !(n == 1 || n == 2) { return }` or a switch with fall-together
// cases bound n afterwards.  Back edges are ignored only for terms that no loop can change (no phi inside the term).
func (v *FnView) BoundsAt(b *ssa.BasicBlock, key string, init bound) bound {
	memo := map[*ssa.BasicBlock]*bound{}
	return v.boundsAt(b, key, init, 0, memo, map[*ssa.BasicBlock]bool{})
}

func (v *FnView) boundsAt(b *ssa.BasicBlock, key string, init bound, depth int, memo map[*ssa.BasicBlock]*bound, onStack map[*ssa.BasicBlock]bool) bound {
	if m, ok := memo[b]; ok {
		return *m
	}
	base := boundsFrom(v.GuardsAt(b), key, init)
	if depth > 12 || onStack[b] || len(b.Preds) == 0 {
		return base
	}
	loopVariant := strings.Contains(key, "phi:")
	onStack[b] = true
	defer delete(onStack, b)
	var hull *bound
	for _, p := range b.Preds {
		if b.Dominates(p) { // back edge
			if loopVariant {
				return base
			}
			continue
		}
		pb := v.boundsAt(p, key, init, depth+1, memo, onStack)
		// the edge's own condition
		if ifi, ok := p.Instrs[len(p.Instrs)-1].(*ssa.If); ok && p.Succs[0] != p.Succs[1] {
			edge := Atom{Cond: v.Term(ifi.Cond), Taken: p.Succs[0] == b, Instr: ifi, Fn: v.fn}
			eb := boundsFrom([]Atom{edge}, key, pb)
			for k := range pb.excluded {
				eb.excluded[k] = true
			}
			pb = tighten(eb)
		}
		if hull == nil {
			cp := pb
			cp.excluded = map[int64]bool{}
			for k := range pb.excluded {
				cp.excluded[k] = true
			}
			hull = &cp
			continue
		}
		// interval hull
		if !(hull.hasLo && pb.hasLo) {
			hull.hasLo = false
		} else if pb.lo < hull.lo {
			hull.lo = pb.lo
		}
		if !(hull.hasHi && pb.hasHi) {
			hull.hasHi = false
		} else if pb.hi > hull.hi {
			hull.hi = pb.hi
		}
		for k := range hull.excluded {
			outside := pb.hasLo && k < pb.lo || pb.hasHi && k > pb.hi
			if !pb.excluded[k] && !outside {
				delete(hull.excluded, k)
			}
		}
	}
	res := base
	if hull != nil {
		if hull.hasLo && (!res.hasLo || hull.lo > res.lo) {
			res.lo, res.hasLo = hull.lo, true
		}
		if hull.hasHi && (!res.hasHi || hull.hi < res.hi) {
			res.hi, res.hasHi = hull.hi, true
		}
		for k := range hull.excluded {
			res.excluded[k] = true
		}
		res = tighten(res)
	}
	memo[b] = &res
	return res
}

func tighten(b bound) bound {
	if b.excluded == nil {
		b.excluded = map[int64]bool{}
	}
	for changed := true; changed; {
		changed = false
		if b.hasLo && b.excluded[b.lo] {
			b.lo++
			changed = true
		}
		if b.hasHi && b.excluded[b.hi] {
			b.hi--
			changed = true
		}
	}
	return b
}

// NewFnViewBound is NewFnView for a helper that has exactly one static call site in the repository: its parameters stand
// for the caller's argument terms (recursively), so that what the helper computes and tests reads as if it were written
// in the caller (a stage function, arithmetic moved into a small package).
func NewFnViewBound(p *Program, fn *ssa.Function, root *ssa.Function, depth int) *FnView {
	v := NewFnView(p, fn)
	if depth > 3 || fn.Parent() != nil || fn == root {
		return v // (the anchored function keeps its own parameter names: the rules are written in terms of them)
	}
	sites, ok := staticCallSites(p, fn)
	if !ok || len(sites) != 1 {
		return v
	}
	call, isCall := sites[0].(*ssa.Call)
	if !isCall || !p.OwnedFunc(call.Parent()) || len(call.Call.Args) != len(fn.Params) {
		return v
	}
	cv := NewFnViewBound(p, call.Parent(), root, depth+1)
	for i, prm := range fn.Params {
		v.fr.vals[prm] = cv.Term(call.Call.Args[i])
	}
	return v
}
