package main

import (
	"fmt"
	"go/types"
	"regexp"
	"strings"

	"golang.org/x/tools/go/ssa"
)

var ctrlCallID = regexp.MustCompile(`GetDeviceController#\d+`)

// ruleOwnControllerOnly: R16.11 "what one device does never changes another device's output" for the LED output: the
// controller a device paints is one that was matched to the device's own event nodes. Decided on the paths of
// findController: every return without an error is taken under a successful lookup of the map parameter (the event nodes of
// this device) - and the controller handed back is the one that lookup was made for. A fallback ("the only keyboard
// controller there is", "the first one") gives the same controller to every device that asks, and two LED loops then paint
// over each other.
func ruleOwnControllerOnly(c *Ctx, rule string) {
	fn := c.P.Func(pkgDevice, "", "findController")
	if !c.Require(fn != nil, rule, "anchor:device.findController", "function not found") {
		return
	}
	c.Fn(shortFn(fn))
	var own *ssa.Parameter
	for _, p := range fn.Params {
		if isMapType(p.Type()) {
			own = p
		}
	}
	pos := c.P.Pos(fn.Pos())
	if !c.Require(own != nil, rule, "device.findController/own-event-nodes", "no map parameter (the event nodes of the asking device)") {
		return
	}
	paths, err := Enumerate(fn, SymConfig{Prog: c.P, MaxDepth: 1, Collapse: true, OnlyInline: map[*ssa.Function]bool{}})
	if !c.Require(err == nil, rule, "device.findController/paths", fmt.Sprint(err)) {
		return
	}
	c.Paths += len(paths)
	n, bad := 0, ""
	for _, p := range paths {
		if p.End != "return" || len(p.Ret) == 0 {
			continue
		}
		last := p.Ret[len(p.Ret)-1]
		if !(last.Op == "const" && last.Cval == nil) {
			continue // an error is returned
		}
		n++
		ids := ctrlCallID.FindAllString(p.Ret[0].String(), -1)
		matched := false
		for _, a := range p.Atoms {
			cnd, taken := a.Cond, a.Taken
			for cnd.Op == "unop" && cnd.Aux == "!" {
				cnd, taken = cnd.Args[0], !taken
			}
			if !taken {
				continue
			}
			cs := cnd.String()
			if !strings.HasPrefix(cs, own.Name()+"[") && !strings.HasPrefix(cs, "lookupok("+own.Name()+",") {
				continue
			}
			for _, id := range ids {
				if strings.Contains(cs, id) {
					matched = true
				}
			}
		}
		if !matched && bad == "" {
			bad = fmt.Sprintf("a controller (%s) is returned without an error on a path where it was not found among the asking device's own event nodes (no successful lookup in %s for that controller): every device that asks is given the same controller, and their LED loops paint over each other", truncate(p.Ret[0].String(), 80), own.Name())
		}
	}
	if !c.Require(n > 0, rule, "device.findController/success", "no path returns a controller") {
		return
	}
	c.Check(bad == "", rule, "device.findController/only-a-controller-matched-to-this-device", pos, fmt.Sprintf("%d successful return(s), each under a successful lookup of the returned controller's event node in %s", n, own.Name()), bad)
}

func isMapType(t types.Type) bool {
	_, ok := t.Underlying().(*types.Map)
	return ok
}

// ownControllerRules: R16.11 alone (imported by C17).
func ownControllerRules(c *Ctx) { ruleOwnControllerOnly(c, "R16.11") }

// inputConsumerRules: R16.3 and R16.10 alone (imported by C15: the consumer of a fan-out output keeps consuming).
func inputConsumerRules(c *Ctx) {
	dv := newDev(c, "R16.0")
	if !dv.ok || dv.fn["handleInputEvents"] == nil || dv.fn["handleOpenrgb"] == nil {
		return
	}
	ruleCancelAwareWaits(c, dv)
	ruleInputConsumed(c, dv, "R16.10")
}
