package main

import (
	"fmt"
	"go/constant"
	"go/token"
	"go/types"
	"sort"
	"strings"

	"golang.org/x/tools/go/ssa"
)

func init() {
	registry["C16"] = checkC16
	controlRegistry["C16"] = controlsC16
}

// deviceRoots computes the accesses of the three per-device goroutine roots.
func deviceRoots(c *Ctx, dv *dev) (*lockAnalysis, bool) {
	named, _ := c.P.Struct(pkgDevice, "Device")
	la := newLockAnalysis(c.P, named)
	at := readActionTable(c, dv, "R16.1")
	la.dynamic = func(cc *ssa.CallCommon) []*ssa.Function {
		if isActionTableCall(cc.Value, dv) {
			var out []*ssa.Function
			for _, f := range at.press {
				out = append(out, f)
			}
			for _, f := range at.release {
				out = append(out, f)
			}
			return out
		}
		// a handler taken from a read-only dispatch table of the package
		if ts := roTableTargets(c.P, cc.Value); len(ts) > 0 {
			return ts
		}
		// a local variable holding one of several method values / closures
		if ts, ok := localFuncTargets(cc.Value); ok {
			return ts
		}
		// a function value the enclosing helper was handed by its callers
		if ts, ok := paramFuncTargets(c.P, cc.Value); ok {
			if ts == nil {
				ts = []*ssa.Function{}
			}
			return ts
		}
		return nil
	}
	pe := dv.fn["ProcessEvents"]
	// T0: the part of ProcessEvents that runs while the helpers may run: reachable from a `go`
	// statement and not dominated by wg.Wait()
	var gos []*ssa.Go
	var wait *ssa.Call
	for _, b := range pe.Blocks {
		for _, in := range b.Instrs {
			switch x := in.(type) {
			case *ssa.Go:
				gos = append(gos, x)
			case *ssa.Call:
				if callee := x.Call.StaticCallee(); callee != nil && callee.Pkg != nil && callee.Pkg.Pkg.Path() == "sync" && callee.Name() == "Wait" {
					wait = x
				}
			}
		}
	}
	if !c.Require(len(gos) >= 1 && wait != nil, "R16.1", "device.ProcessEvents/go+wait", "go statements / wg.Wait() not found in ProcessEvents") {
		return nil, false
	}
	afterGo := map[ssa.Instruction]bool{}
	for _, g := range gos {
		// instructions after g in its block, and all blocks reachable
		seenB := map[*ssa.BasicBlock]bool{}
		past := false
		for _, in := range g.Block().Instrs {
			if past {
				afterGo[in] = true
			}
			if in == ssa.Instruction(g) {
				past = true
			}
		}
		stack := append([]*ssa.BasicBlock{}, g.Block().Succs...)
		for len(stack) > 0 {
			b := stack[len(stack)-1]
			stack = stack[:len(stack)-1]
			if seenB[b] {
				continue
			}
			seenB[b] = true
			for _, in := range b.Instrs {
				afterGo[in] = true
			}
			stack = append(stack, b.Succs...)
		}
	}
	afterWait := func(in ssa.Instruction) bool {
		if in.Block() == wait.Block() {
			return instrBefore(wait, in) && in != ssa.Instruction(wait)
		}
		return wait.Block().Dominates(in.Block())
	}
	la.Walk("T0:event-loop+cleanup", pe, lockset{}, func(in ssa.Instruction) bool { return afterGo[in] && !afterWait(in) })
	for _, g := range gos {
		callee := g.Call.StaticCallee()
		if callee == nil {
			c.Undec("R16.1", "device.ProcessEvents/go-target", c.P.Pos(g.Pos()), "goroutine target not static")
			continue
		}
		la.Walk("T:"+callee.Name(), callee, lockset{}, nil)
	}
	for _, u := range la.unres {
		c.Undec("R16.1", "unresolved-dynamic-call@"+shortFn(u.Parent()), c.P.Pos(u.Pos()), "dynamic call not resolved while collecting accesses")
	}
	return la, true
}

func checkC16(c *Ctx) {
	c.importRules(transportRules, []string{"R15.3"}, "R16.7") // the MIDI-input fan-out used around ProcessEvents: delivery and removal in one critical section
	dv := newDev(c, "R16.0")
	if !dv.ok || !dv.need("R16.0", []string{"ProcessEvents", "processEvent", "handleInputEvents", "handleOpenrgb", "NewDevice", "NoteOff", "AnalogNoteOff", "Panic"},
		[]string{"eventProcessMutex", "externalTrackerMutex", "noteTracker", "externalNoteTracker", "config", "outputEvents"}) {
		return
	}
	ruleOwnControllerOnly(c, "R16.11")
	la, ok := deviceRoots(c, dv)
	if ok {
		ruleRaces(c, la, "R16.1")
		ruleLockOrder(c, la, "R16.4")
	}
	ruleLockBalance(c, pkgDevice, "R16.6")
	ruleStructuredTermination(c, dv)
	ruleCancelAwareWaits(c, dv)
	ruleNoCrossTalk(c, dv)
	ruleClientClosed(c, dv, "R16.8")
	ruleNoStrayGoroutines(c, dv)
	ruleInputConsumed(c, dv, "R16.10")
	c.MinCount("R16.10", 1)
	c.MinCount("R16.1", 6)
	c.MinCount("R16.2", 4)
	c.MinCount("R16.3", 4)
	c.MinCount("R16.5", 10)
	c.DecidedClause("static lockset race freedom of every Device field over the three per-device goroutine roots (event loop + clean-up between the go statements and wg.Wait, LED refresh, MIDI-input tracking): any two accesses from different roots with a write hold a common mutex on all paths; lock acquisition order is acyclic")
	c.DecidedClause("structured termination: as many helper goroutines as wg.Add counts, each deferring wg.Done first, cancel() then wg.Wait() on every path from the end of the input loop to return, the cancelled context is the one the helpers received; every wait in the helpers (select, loop) observes that context; sleeps are bounded constants")
	c.DecidedClause("no cross-talk channel: no package-level variable of device/config/midi/input is written after initialisation, every reference-typed Device field that is not deliberately shared is created fresh in NewDevice, nothing stores through the shared parsed configuration")
	c.UndecidedClause("'promptly': goroutine progress and the time OpenRGB client calls take (Connect, GetControllerCount, UpdateLEDs are not cancellable) are runtime quantities")
	c.Assumption("OpenRGB client calls return; input.Device.ProcessEvents closes the event channel when the device disappears")
}

// ruleRaces: R16.1.
func ruleRaces(c *Ctx, la *lockAnalysis, rule string) {
	byField := map[*types.Var][]access{}
	for _, a := range la.accesses {
		byField[a.Field] = append(byField[a.Field], a)
	}
	var fields []*types.Var
	for f := range byField {
		fields = append(fields, f)
	}
	sort.Slice(fields, func(i, j int) bool { return fields[i].Name() < fields[j].Name() })
	for _, f := range fields {
		as := byField[f]
		roots := map[string]bool{}
		written := false
		for _, a := range as {
			roots[a.Root] = true
			if a.Write {
				written = true
			}
		}
		if !written || len(roots) < 2 {
			continue // immutable after NewDevice, or touched by one root only
		}
		// pairwise
		type conflict struct{ a, b access }
		var conflicts []conflict
		common := lockset(nil)
		for i := range as {
			for j := i + 1; j < len(as); j++ {
				a, b := as[i], as[j]
				if a.Root == b.Root || (!a.Write && !b.Write) {
					continue
				}
				inter := intersect(a.Locks, b.Locks)
				if len(inter) == 0 {
					conflicts = append(conflicts, conflict{a, b})
				} else if common == nil {
					common = inter
				} else {
					common = intersect(common, inter)
				}
			}
		}
		var rs []string
		for r := range roots {
			rs = append(rs, r)
		}
		sort.Strings(rs)
		key := "Device." + f.Name() + "/roots[" + strings.Join(rs, " | ") + "]"
		if len(conflicts) == 0 {
			c.OK(rule, key, c.P.Pos(as[0].Instr.Pos()), fmt.Sprintf("%d accesses from %d roots, every cross-root pair with a write shares a lock (%s)", len(as), len(roots), common.key()))
			continue
		}
		// report distinct (function, function) pairs
		seen := map[string]bool{}
		for _, cf := range conflicts {
			w, o := cf.a, cf.b
			if !w.Write {
				w, o = o, w
			}
			k := fmt.Sprintf("Device.%s/%s@%s{%s} vs %s@%s{%s}", f.Name(), rw(w), shortFn(topFunc(w.Fn)), w.Locks.key(), rw(o), shortFn(topFunc(o.Fn)), o.Locks.key())
			if seen[k] {
				continue
			}
			seen[k] = true
			c.Bad(rule, k, c.P.Pos(w.Instr.Pos()), fmt.Sprintf("data race: %s of Device.%s in root %s (locks held: {%s}) is not ordered with the %s in root %s at %s (locks held: {%s})",
				rw(w), f.Name(), w.Root, w.Locks.key(), rw(o), o.Root, c.P.Pos(o.Instr.Pos()), o.Locks.key()))
		}
	}
}

func rw(a access) string {
	if a.Write {
		return "write"
	}
	return "read"
}

// ruleLockOrder: R16.4.
func ruleLockOrder(c *Ctx, la *lockAnalysis, rule string) {
	g := map[string]map[string]ssa.Instruction{}
	for _, e := range la.edges {
		if g[e.Held] == nil {
			g[e.Held] = map[string]ssa.Instruction{}
		}
		g[e.Held][e.Acquired] = e.Instr
	}
	var cyc []string
	var visit func(n string, stack []string, on map[string]bool)
	done := map[string]bool{}
	visit = func(n string, stack []string, on map[string]bool) {
		if on[n] {
			cyc = append(cyc, strings.Join(append(stack, n), " -> "))
			return
		}
		if done[n] {
			return
		}
		on[n] = true
		for m := range g[n] {
			visit(m, append(stack, n), on)
		}
		on[n] = false
		done[n] = true
	}
	for n := range g {
		visit(n, nil, map[string]bool{})
	}
	var es []string
	for a, m := range g {
		for b := range m {
			es = append(es, a+" -> "+b)
			if a == b {
				cyc = append(cyc, a+" -> "+b+" (re-acquired while held)")
			}
		}
	}
	sort.Strings(es)
	if len(cyc) > 0 {
		c.Bad(rule, "lock-order/acyclic", "-", "lock acquisition order has a cycle: "+strings.Join(cyc, "; "))
	} else {
		c.OK(rule, "lock-order/acyclic", "-", fmt.Sprintf("acquisition order edges: %v", es))
	}
}

// ruleStructuredTermination: R16.2.
func ruleStructuredTermination(c *Ctx, dv *dev) {
	fn := dv.fn["ProcessEvents"]
	pos := c.P.Pos(fn.Pos())
	var gos []*ssa.Go
	var add, wait, cancelCall *ssa.Call
	var withCancel *ssa.Call
	var loopExitRecv *ssa.UnOp
	for _, b := range fn.Blocks {
		for _, in := range b.Instrs {
			switch x := in.(type) {
			case *ssa.Go:
				gos = append(gos, x)
			case *ssa.UnOp:
				if x.Op == token.ARROW && x.CommaOk {
					if _, isParam := x.X.(*ssa.Parameter); isParam {
						loopExitRecv = x
					}
				}
			case *ssa.Call:
				callee := x.Call.StaticCallee()
				if callee != nil && callee.Pkg != nil {
					switch {
					case callee.Pkg.Pkg.Path() == "sync" && callee.Name() == "Add":
						add = x
					case callee.Pkg.Pkg.Path() == "sync" && callee.Name() == "Wait":
						wait = x
					case callee.Pkg.Pkg.Path() == "context" && callee.Name() == "WithCancel":
						withCancel = x
					}
				}
				if callee == nil && !x.Call.IsInvoke() {
					if ex, ok := x.Call.Value.(*ssa.Extract); ok && ex.Index == 1 {
						if wc, ok := ex.Tuple.(*ssa.Call); ok && wc.Call.StaticCallee() != nil && wc.Call.StaticCallee().Name() == "WithCancel" {
							cancelCall = x
						}
					}
				}
			}
		}
	}
	if !c.Require(add != nil && wait != nil && withCancel != nil && len(gos) > 0 && loopExitRecv != nil, "R16.2", "device.ProcessEvents/anchors", "wg.Add / wg.Wait / context.WithCancel / go statements / input loop not found") {
		return
	}
	// count
	n := int64(-1)
	if k, ok := add.Call.Args[1].(*ssa.Const); ok && k.Value != nil && k.Value.Kind() == constant.Int {
		n = k.Int64()
	}
	wgGos := 0
	for _, g := range gos {
		usesWg, usesCtx := false, false
		for _, a := range g.Call.Args {
			if a == add.Call.Args[0] {
				usesWg = true
			}
			if ex, ok := a.(*ssa.Extract); ok && ex.Tuple == ssa.Value(withCancel) && ex.Index == 0 {
				usesCtx = true
			}
			if mi, ok := a.(*ssa.MakeInterface); ok {
				if ex, ok := mi.X.(*ssa.Extract); ok && ex.Tuple == ssa.Value(withCancel) && ex.Index == 0 {
					usesCtx = true
				}
			}
		}
		callee := g.Call.StaticCallee()
		key := "device.ProcessEvents/go:" + func() string {
			if callee != nil {
				return callee.Name()
			}
			return "?"
		}()
		if !usesWg {
			if why, ok := joinedThroughDoneChannel(c, fn, g); ok {
				c.OK("R16.2", key, c.P.Pos(g.Pos()), why)
				continue
			}
			c.Bad("R16.2", key, c.P.Pos(g.Pos()), "helper goroutine is started without the WaitGroup: nothing waits for it (left-over background activity)")
			continue
		}
		wgGos++
		bad := ""
		if !usesCtx {
			bad = "helper does not receive the context that ProcessEvents cancels"
		} else if callee == nil || !firstIsDeferDone(callee) {
			bad = "helper does not `defer wg.Done()` before anything that can return"
		} else if !instrOrderedBefore(add, g) {
			bad = "wg.Add does not precede the go statement"
		}
		if bad != "" {
			c.Bad("R16.2", key, c.P.Pos(g.Pos()), bad)
		} else {
			c.OK("R16.2", key, c.P.Pos(g.Pos()), "receives ctx and &wg, defers wg.Done() first")
		}
	}
	c.Check(int64(wgGos) == n, "R16.2", "device.ProcessEvents/wg.Add==helpers", c.P.Pos(add.Pos()), fmt.Sprintf("wg.Add(%d) and %d helper goroutines", n, wgGos),
		fmt.Sprintf("wg.Add(%d) but %d helper goroutines take the WaitGroup: Wait would return early or never", n, wgGos))
	// cancel then wait on every path from the loop exit to every return
	exitBlock := (*ssa.BasicBlock)(nil)
	for _, r := range *loopExitRecv.Referrers() {
		if ex, ok := r.(*ssa.Extract); ok && ex.Index == 1 {
			for _, rr := range *ex.Referrers() {
				if ifi, ok := rr.(*ssa.If); ok {
					exitBlock = ifi.Block().Succs[1]
				}
			}
		}
	}
	okOrder := cancelCall != nil && exitBlock != nil
	why := ""
	if okOrder {
		for _, b := range fn.Blocks {
			if _, isRet := b.Instrs[len(b.Instrs)-1].(*ssa.Return); !isRet {
				continue
			}
			if !(blockDominatesOrSame(cancelCall.Block(), b) && blockDominatesOrSame(wait.Block(), b)) {
				okOrder, why = false, "a return is reachable without passing cancel() and wg.Wait()"
			}
		}
		if !instrOrderedBefore(cancelCall, wait) {
			okOrder, why = false, "wg.Wait() is not preceded by cancel(): the helpers are never told to stop and Wait blocks forever"
		}
		if !blockDominatesOrSame(exitBlock, cancelCall.Block()) {
			okOrder, why = false, "cancel() is not on the path after the input loop"
		}
	} else {
		why = "cancel() call of the WithCancel context / loop exit not found"
	}
	c.Check(okOrder, "R16.2", "device.ProcessEvents/cancel-then-wait-before-return", pos, "input loop exit -> cancel() -> wg.Wait() -> return on every path", why)
}

func blockDominatesOrSame(a, b *ssa.BasicBlock) bool { return a == b || a.Dominates(b) }

// instrOrderedBefore: a executes before b whenever b executes.
func instrOrderedBefore(a, b ssa.Instruction) bool {
	if a.Block() == b.Block() {
		return instrBefore(a, b) && a != b
	}
	return a.Block().Dominates(b.Block())
}

// joinedThroughDoneChannel: the goroutine is not counted in the WaitGroup but ProcessEvents still waits for it: it is handed
// a channel that ProcessEvents makes, closes that channel in a deferred call registered before it can return, and
// ProcessEvents receives from the channel on every way to its returns. So that the wait ends, every loop of the goroutine
// is a range over a channel that ProcessEvents closes before it waits.
func joinedThroughDoneChannel(c *Ctx, pe *ssa.Function, g *ssa.Go) (string, bool) {
	callee := g.Call.StaticCallee()
	if callee == nil || len(callee.Blocks) == 0 {
		return "", false
	}
	args := g.Call.Args
	params := callee.Params
	for i, a := range args {
		if i >= len(params) {
			break
		}
		mk := a
		if ct, ok := mk.(*ssa.ChangeType); ok {
			mk = ct.X
		}
		if _, ok := mk.(*ssa.MakeChan); !ok {
			continue
		}
		// the goroutine: defer close(param), dominating its returns
		closes := false
		for _, b := range callee.Blocks {
			for _, in := range b.Instrs {
				d, ok := in.(*ssa.Defer)
				if !ok {
					continue
				}
				if bi, isB := d.Call.Value.(*ssa.Builtin); isB && bi.Name() == "close" && len(d.Call.Args) == 1 && d.Call.Args[0] == ssa.Value(params[i]) {
					all := true
					for _, rb := range callee.Blocks {
						if rb == callee.Recover {
							continue
						}
						if _, isRet := rb.Instrs[len(rb.Instrs)-1].(*ssa.Return); isRet && !blockDominatesOrSame(b, rb) {
							all = false
						}
					}
					closes = all
				}
			}
		}
		if !closes {
			continue
		}
		// ProcessEvents: a receive from the channel on every way to a return
		var join *ssa.UnOp
		if mk.Referrers() != nil {
			for _, r := range *mk.Referrers() {
				if u, ok := r.(*ssa.UnOp); ok && u.Op == token.ARROW && u.X == mk && dominatesAllReturns(u.Block(), pe) {
					join = u
				}
			}
		}
		if join == nil {
			continue
		}
		// every loop of the goroutine ranges over a channel closed by ProcessEvents before the join
		cf := buildChanFlow(c.P)
		loops, ok := 0, true
		for _, b := range callee.Blocks {
			for _, sc := range b.Succs {
				if !sc.Dominates(b) {
					continue
				}
				loops++
				ranged := false
				for blk := range loopBody(sc, b) {
					for _, in := range blk.Instrs {
						u, isU := in.(*ssa.UnOp)
						if !isU || u.Op != token.ARROW || !u.CommaOk {
							continue
						}
						for _, cl := range cf.Classes() {
							has := false
							for _, r := range cl.Recvs {
								if r.Instr == ssa.Instruction(u) {
									has = true
								}
							}
							if !has {
								continue
							}
							for _, k := range cl.Close {
								if k.Fn == pe && (k.Instr.Block() == join.Block() && instrBefore(k.Instr, join) || k.Instr.Block() != join.Block() && k.Instr.Block().Dominates(join.Block())) {
									ranged = true
								}
							}
						}
					}
				}
				if !ranged {
					ok = false
				}
			}
		}
		if !ok {
			continue
		}
		return fmt.Sprintf("joined through the channel made at %s: the goroutine closes it in a deferred call, ProcessEvents receives from it before every return, and the goroutine's %d loop(s) end when ProcessEvents closes the channel they range over", c.P.Pos(mk.Pos()), loops), true
	}
	return "", false
}

func firstIsDeferDone(fn *ssa.Function) bool {
	for _, b := range fn.Blocks {
		for _, in := range b.Instrs {
			if d, ok := in.(*ssa.Defer); ok {
				if callee := d.Call.StaticCallee(); callee != nil && callee.Name() == "Done" && callee.Pkg != nil && callee.Pkg.Pkg.Path() == "sync" {
					// must dominate every return and come before any blocking operation in its block
					okAll := true
					for _, rb := range fn.Blocks {
						if rb == fn.Recover {
							continue
						}
						if _, isRet := rb.Instrs[len(rb.Instrs)-1].(*ssa.Return); isRet && !blockDominatesOrSame(b, rb) {
							okAll = false
						}
					}
					return okAll
				}
			}
		}
	}
	return false
}

// ruleCancelAwareWaits: R16.3 every wait in the helper goroutines observes the context.
func ruleCancelAwareWaits(c *Ctx, dv *dev) {
	for _, name := range []string{"handleInputEvents", "handleOpenrgb"} {
		root := dv.fn[name]
		fns := c.P.Reachable(c.P.CallGraph(), root)
		var list []*ssa.Function
		for f := range fns {
			top := topFunc(f)
			if top.Pkg != nil && top.Pkg.Pkg.Path() == pkgDevice {
				list = append(list, f)
			}
		}
		sort.Slice(list, func(i, j int) bool { return list[i].String() < list[j].String() })
		for _, fn := range list {
			c.Fn(shortFn(fn))
			nSel, nLoop := 0, 0
			for _, b := range fn.Blocks {
				for _, in := range b.Instrs {
					switch x := in.(type) {
					case *ssa.Select:
						nSel++
						key := fmt.Sprintf("%s/select#%d", shortFn(fn), nSel)
						if !x.Blocking {
							c.OK("R16.3", key, c.P.Pos(x.Pos()), "non-blocking select (has default)")
							continue
						}
						hasDone := false
						for _, st := range x.States {
							if isCtxDone(st.Chan) {
								hasDone = true
							}
						}
						c.Check(hasDone, "R16.3", key, c.P.Pos(x.Pos()), "has a <-ctx.Done() case", "blocking select without a <-ctx.Done() case: the helper cannot be told to stop while it waits here")
					case *ssa.UnOp:
						if x.Op == token.ARROW && !isCtxDone(x.X) && fn != root || (x.Op == token.ARROW && !isCtxDone(x.X) && !isTimeAfter(x.X)) {
							c.Bad("R16.3", fmt.Sprintf("%s/bare-receive", shortFn(fn)), c.P.Pos(x.Pos()), "blocking receive outside a select with <-ctx.Done()")
						}
					case *ssa.Send:
						c.Bad("R16.3", fmt.Sprintf("%s/bare-send", shortFn(fn)), c.P.Pos(x.Pos()), "blocking send in a helper goroutine outside a select with <-ctx.Done()")
					case *ssa.Call:
						if callee := x.Call.StaticCallee(); callee != nil && callee.Pkg != nil && callee.Pkg.Pkg.Path() == "time" && callee.Name() == "Sleep" {
							k, ok := x.Call.Args[0].(*ssa.Const)
							key := fmt.Sprintf("%s/sleep", shortFn(fn))
							if ok && k.Value != nil && k.Int64() <= 250_000_000 {
								c.OK("R16.3", key, c.P.Pos(x.Pos()), fmt.Sprintf("constant sleep of %d ms", k.Int64()/1_000_000))
							} else {
								c.Bad("R16.3", key, c.P.Pos(x.Pos()), "sleep that is not a constant <= 250 ms delays termination")
							}
						}
					}
				}
			}
			// loops that are not range/counted loops must contain a ctx.Done select that leaves the loop
			for _, b := range fn.Blocks {
				for _, s := range b.Succs {
					if !s.Dominates(b) {
						continue
					}
					if _, bounded := loopKind(s); bounded {
						continue
					}
					nLoop++
					key := fmt.Sprintf("%s/loop#%d", shortFn(fn), nLoop)
					body := loopBody(s, b)
					okLoop := false
					for blk := range body {
						for _, in := range blk.Instrs {
							if sel, ok := in.(*ssa.Select); ok {
								for _, st := range sel.States {
									if isCtxDone(st.Chan) {
										okLoop = true
									}
								}
							}
						}
					}
					// the select must be on every cycle: its block dominates the back-edge source
					why := "unbounded loop in a helper goroutine that can iterate without looking at ctx.Done(): it would outlive the device"
					if okLoop {
						okLoop, why = loopLeavesOnCancel(s, b, isCtxDone)
					}
					c.Check(okLoop, "R16.3", key, c.P.Pos(firstPos(s)), "every iteration passes a select with <-ctx.Done(), whose case leaves the loop", why)
				}
			}
		}
	}
}

func loopBody(header, latch *ssa.BasicBlock) map[*ssa.BasicBlock]bool {
	body := map[*ssa.BasicBlock]bool{header: true}
	stack := []*ssa.BasicBlock{latch}
	for len(stack) > 0 {
		b := stack[len(stack)-1]
		stack = stack[:len(stack)-1]
		if body[b] {
			continue
		}
		body[b] = true
		stack = append(stack, b.Preds...)
	}
	return body
}

func isCtxDone(v ssa.Value) bool {
	call, ok := v.(*ssa.Call)
	if !ok {
		return false
	}
	if call.Call.IsInvoke() && call.Call.Method.Name() == "Done" {
		if n, ok := call.Call.Value.Type().(*types.Named); ok && n.Obj().Name() == "Context" {
			// the context must be the one the helper was given, or derived from it: a context made from
			// context.Background() is not cancelled when the device ends
			return ctxFromCaller(call.Call.Value, 0)
		}
	}
	return false
}

// ctxFromCaller: v is a context handed in by the caller (parameter, captured variable) or derived from one by
// context.WithCancel/WithTimeout/WithDeadline/WithValue.
func ctxFromCaller(v ssa.Value, depth int) bool {
	if depth > 8 {
		return false
	}
	switch x := v.(type) {
	case *ssa.Parameter, *ssa.FreeVar:
		return true
	case *ssa.MakeInterface:
		return ctxFromCaller(x.X, depth+1)
	case *ssa.ChangeInterface:
		return ctxFromCaller(x.X, depth+1)
	case *ssa.Phi:
		for _, e := range x.Edges {
			if !ctxFromCaller(e, depth+1) {
				return false
			}
		}
		return true
	case *ssa.Extract:
		if call, ok := x.Tuple.(*ssa.Call); ok && x.Index == 0 {
			if f := call.Call.StaticCallee(); f != nil && f.Pkg != nil && f.Pkg.Pkg.Path() == "context" && strings.HasPrefix(f.Name(), "With") && len(call.Call.Args) > 0 {
				return ctxFromCaller(call.Call.Args[0], depth+1)
			}
		}
	case *ssa.Call:
		if f := x.Call.StaticCallee(); f != nil && f.Pkg != nil && f.Pkg.Pkg.Path() == "context" && strings.HasPrefix(f.Name(), "With") && len(x.Call.Args) > 0 {
			return ctxFromCaller(x.Call.Args[0], depth+1)
		}
	case *ssa.UnOp:
		// a captured or spilled context variable
		if a, ok := x.X.(*ssa.Alloc); ok {
			if w := wholeStore(a); w != nil {
				return ctxFromCaller(w, depth+1)
			}
		}
		if _, ok := x.X.(*ssa.FreeVar); ok {
			return true
		}
	}
	return false
}

func isTimeAfter(v ssa.Value) bool {
	call, ok := v.(*ssa.Call)
	if !ok {
		return false
	}
	callee := call.Call.StaticCallee()
	return callee != nil && callee.Pkg != nil && callee.Pkg.Pkg.Path() == "time" && callee.Name() == "After"
}

// ruleNoCrossTalk: R16.5.
func ruleNoCrossTalk(c *Ctx, dv *dev) {
	// (a) package-level variables are not written after initialisation
	pkgs := map[string]bool{pkgDevice: true, pkgConfig: true, pkgMidi: true, pkgInput: true}
	n := 0
	for _, fn := range c.P.Funcs {
		top := topFunc(fn)
		if top.Pkg == nil || !pkgs[top.Pkg.Pkg.Path()] || top.Name() == "init" || strings.HasPrefix(top.Name(), "init#") {
			continue
		}
		for _, b := range fn.Blocks {
			for _, in := range b.Instrs {
				switch x := in.(type) {
				case *ssa.Store:
					if g := globalRoot(x.Addr); g != nil {
						n++
						c.Bad("R16.5", "global-write("+g.Name()+")@"+shortFn(fn), c.P.Pos(x.Pos()), "package-level variable "+g.Name()+" is written at run time: state shared between devices")
					}
				case *ssa.MapUpdate:
					if g := globalRootVal(x.Map); g != nil {
						n++
						c.Bad("R16.5", "global-write("+g.Name()+")@"+shortFn(fn), c.P.Pos(x.Pos()), "package-level map "+g.Name()+" is written at run time: state shared between devices")
					}
				}
			}
		}
	}
	if n == 0 {
		c.OK("R16.5", "no-global-writes", "-", "no store to a package-level variable of device/config/midi/input outside init")
	}
	// (b) reference-typed fields are fresh per device
	shared := map[string]string{"outputEvents": "the MIDI output channel (deliberately shared)", "sigs": "process signal channel", "midiIn": "this device's own fan-out output", "config": "parsed configuration, read-only (c)", "InputDevice": "value copy of the input device description", "target": "address of the output channel parameter", "multiNote": "fresh empty slice"}
	nd := dv.fn["NewDevice"]
	_, dst := c.P.Struct(pkgDevice, "Device")
	inits := map[string]ssa.Value{}
	for _, b := range nd.Blocks {
		for _, in := range b.Instrs {
			if st, ok := in.(*ssa.Store); ok {
				if f := fieldOfAddr(st.Addr); f != nil && dv.fields[f.Name()] == f {
					inits[f.Name()] = st.Val
				}
			}
		}
	}
	for i := 0; i < dst.NumFields(); i++ {
		f := dst.Field(i)
		if !isRefType(f.Type()) {
			continue
		}
		key := "device.NewDevice/fresh(Device." + f.Name() + ")"
		if reason, ok := shared[f.Name()]; ok {
			c.Trivial("R16.5", key, c.P.Pos(nd.Pos()), "listed as shared/by-value: "+reason)
			continue
		}
		v := inits[f.Name()]
		if v == nil {
			c.Bad("R16.5", key, c.P.Pos(nd.Pos()), "reference-typed field is not initialised in NewDevice")
			continue
		}
		v = throughCtor(c.P, v) // a constructor helper returning a value it makes itself is as good as make() in place
		if isFresh(v, map[ssa.Value]bool{}) {
			// reference-typed elements put into the fresh container must be fresh as well
			stale := ""
			for _, b := range v.Parent().Blocks {
				for _, in := range b.Instrs {
					if mu, ok := in.(*ssa.MapUpdate); ok && mu.Map == v && isRefType(mu.Value.Type()) && !isFresh(mu.Value, map[ssa.Value]bool{}) {
						stale = c.P.Pos(mu.Pos())
					}
				}
			}
			if stale != "" {
				c.Bad("R16.5", key, stale, "the container is fresh but a reference-typed element stored into it is not created inside NewDevice (e.g. copied from a package-level template): the inner maps are shared by all devices")
			} else {
				c.OK("R16.5", key, c.P.Pos(v.Pos()), "created with make/&T{} inside NewDevice")
			}
		} else if pt, ok := readOnlyPkgTable(c.P, v, f); ok {
			c.OK("R16.5", key, c.P.Pos(v.Pos()), "refers to the package-level table "+pt.g.Name()+", built by the package initialiser and never updated, deleted from or cleared afterwards (neither through the variable nor through this field): nothing in it changes")
		} else {
			c.Bad("R16.5", key, c.P.Pos(v.Pos()), "field is initialised from a value that is not created inside NewDevice: two devices could share it")
		}
	}
	// (c) nothing stores through the shared configuration
	bad := 0
	for _, fn := range c.P.Funcs {
		top := topFunc(fn)
		if top.Pkg == nil || top.Pkg.Pkg.Path() != pkgDevice || top == nd {
			continue
		}
		for _, b := range fn.Blocks {
			for _, in := range b.Instrs {
				switch x := in.(type) {
				case *ssa.MapUpdate:
					if derivesFromField(x.Map, dv.fields["config"], map[ssa.Value]bool{}) {
						bad++
						c.Bad("R16.5", "config-write@"+shortFn(fn), c.P.Pos(x.Pos()), "the parsed configuration (shared by devices using the same file) is modified")
					}
				case *ssa.Store:
					if ia, ok := x.Addr.(*ssa.IndexAddr); ok && derivesFromField(ia.X, dv.fields["config"], map[ssa.Value]bool{}) {
						bad++
						c.Bad("R16.5", "config-write@"+shortFn(fn), c.P.Pos(x.Pos()), "the parsed configuration is modified")
					}
				case *ssa.Call:
					if bi, ok := x.Call.Value.(*ssa.Builtin); ok && (bi.Name() == "delete" || bi.Name() == "clear") && len(x.Call.Args) > 0 && derivesFromField(x.Call.Args[0], dv.fields["config"], map[ssa.Value]bool{}) {
						bad++
						c.Bad("R16.5", "config-write@"+shortFn(fn), c.P.Pos(x.Pos()), "the parsed configuration is modified")
					}
				}
			}
		}
	}
	if bad == 0 {
		c.OK("R16.5", "config-read-only", "-", "nothing in package device stores through Device.config")
	}
}

func globalRoot(addr ssa.Value) *ssa.Global {
	for i := 0; i < 8; i++ {
		switch x := addr.(type) {
		case *ssa.Global:
			return x
		case *ssa.FieldAddr:
			addr = x.X
		case *ssa.IndexAddr:
			addr = x.X
		default:
			return nil
		}
	}
	return nil
}

func globalRootVal(v ssa.Value) *ssa.Global {
	for i := 0; i < 8; i++ {
		switch x := v.(type) {
		case *ssa.UnOp:
			if g, ok := x.X.(*ssa.Global); ok {
				return g
			}
			return nil
		case *ssa.Lookup:
			v = x.X
		default:
			return nil
		}
	}
	return nil
}

// throughCtor: if v is the result of a call to a repository function with a single normal return, the returned value
// (inside the callee), followed through up to three such helpers; otherwise v.
func throughCtor(p *Program, v ssa.Value) ssa.Value {
	for i := 0; i < 3; i++ {
		call, ok := v.(*ssa.Call)
		if !ok {
			return v
		}
		callee := call.Call.StaticCallee()
		if callee == nil || !p.OwnedFunc(callee) || len(callee.Blocks) == 0 || callee.Signature.Results().Len() != 1 {
			return v
		}
		var ret *ssa.Return
		n := 0
		for _, b := range callee.Blocks {
			if r, ok := b.Instrs[len(b.Instrs)-1].(*ssa.Return); ok && b != callee.Recover {
				ret = r
				n++
			}
		}
		if n != 1 {
			return v
		}
		v = ret.Results[0]
	}
	return v
}

func isFresh(v ssa.Value, seen map[ssa.Value]bool) bool {
	if seen[v] {
		return true
	}
	seen[v] = true
	switch x := v.(type) {
	case *ssa.MakeMap, *ssa.MakeChan, *ssa.MakeSlice, *ssa.Alloc:
		return true
	case *ssa.Slice:
		return isFresh(x.X, seen)
	case *ssa.Phi:
		for _, e := range x.Edges {
			if !isFresh(e, seen) {
				return false
			}
		}
		return true
	case *ssa.ChangeType:
		return isFresh(x.X, seen)
	}
	return false
}

func controlsC16(p *Program) []controlResult {
	// controls/race: type Box with Bad (unsynchronised write vs locked read) and Good (both locked)
	var res []controlResult
	for _, name := range []string{"BadBox", "GoodBox"} {
		var named *types.Named
		var run, helper *ssa.Function
		for path, pk := range p.Pkgs {
			if !strings.HasSuffix(path, "/race") {
				continue
			}
			if o := pk.Types.Scope().Lookup(name); o != nil {
				named = o.Type().(*types.Named)
			}
		}
		if named == nil {
			res = append(res, controlResult{"R16.1 control " + name, false, "type not found"})
			continue
		}
		for _, f := range p.Funcs {
			if f.Signature.Recv() != nil && namedName(f.Signature.Recv().Type()) == name {
				switch f.Name() {
				case "Run":
					run = f
				case "helper":
					helper = f
				}
			}
		}
		if run == nil || helper == nil {
			res = append(res, controlResult{"R16.1 control " + name, false, "methods not found"})
			continue
		}
		la := newLockAnalysis(p, named)
		la.Walk("T0", run, lockset{}, nil)
		la.Walk("T1", helper, lockset{}, nil)
		races := 0
		for i := range la.accesses {
			for j := i + 1; j < len(la.accesses); j++ {
				a, b := la.accesses[i], la.accesses[j]
				if a.Field == b.Field && a.Root != b.Root && (a.Write || b.Write) && len(intersect(a.Locks, b.Locks)) == 0 {
					races++
				}
			}
		}
		want := name == "BadBox"
		res = append(res, controlResult{"R16.1 lockset control " + name, (races > 0) == want, fmt.Sprintf("races=%d (expected race: %v)", races, want)})
	}
	return res
}

// lockBalance: forward may-held analysis per mutex; reports returns reachable with a lock
// still held (no deferred unlock) and Lock calls reachable while the same lock may be held.
func lockBalance(fn *ssa.Function) (leaks, relocks []ssa.Instruction) {
	deferred := map[string]bool{}
	for _, b := range fn.Blocks {
		for _, in := range b.Instrs {
			if d, ok := in.(*ssa.Defer); ok {
				if op, name := mutexOp(&d.Call); op == "unlock" {
					deferred[name] = true
				}
			}
		}
	}
	out := map[*ssa.BasicBlock]lockset{}
	changed := true
	for iter := 0; changed && iter < 50; iter++ {
		changed = false
		for _, b := range fn.Blocks {
			cur := lockset{}
			for _, p := range b.Preds {
				for k := range out[p] {
					cur[k] = true
				}
			}
			for _, in := range b.Instrs {
				if call, ok := in.(*ssa.Call); ok {
					if op, name := mutexOp(&call.Call); op == "lock" {
						cur[name] = true
					} else if op == "unlock" {
						delete(cur, name)
					}
				}
			}
			if cur.key() != out[b].key() {
				out[b] = cur
				changed = true
			}
		}
	}
	for _, b := range fn.Blocks {
		cur := lockset{}
		for _, p := range b.Preds {
			for k := range out[p] {
				cur[k] = true
			}
		}
		for _, in := range b.Instrs {
			switch x := in.(type) {
			case *ssa.Call:
				if op, name := mutexOp(&x.Call); op == "lock" {
					if cur[name] {
						relocks = append(relocks, in)
					}
					cur[name] = true
				} else if op == "unlock" {
					delete(cur, name)
				}
			case *ssa.Return:
				if b == fn.Recover {
					continue
				}
				for k := range cur {
					if !deferred[k] {
						leaks = append(leaks, in)
					}
				}
			}
		}
	}
	return
}

// ruleLockBalance: every Lock is released on every path (R16.6).
func ruleLockBalance(c *Ctx, pkgPath, rule string) {
	n := 0
	for _, fn := range c.P.Funcs {
		top := topFunc(fn)
		if top.Pkg == nil || top.Pkg.Pkg.Path() != pkgPath {
			continue
		}
		locks := false
		for _, b := range fn.Blocks {
			for _, in := range b.Instrs {
				if call, ok := in.(*ssa.Call); ok {
					if op, _ := mutexOp(&call.Call); op == "lock" {
						locks = true
					}
				}
			}
		}
		if !locks {
			continue
		}
		n++
		key := shortFn(fn) + "/every-lock-released"
		leaks, relocks := lockBalance(fn)
		switch {
		case len(relocks) > 0:
			c.Bad(rule, key, c.P.Pos(relocks[0].Pos()), "a path reaches this Lock() while the same mutex may still be held (an earlier path skipped its Unlock, e.g. by `continue`/`break`/early return): the goroutine deadlocks on itself and the device can never finish")
		case len(leaks) > 0:
			c.Bad(rule, key, c.P.Pos(leaks[0].Pos()), "a return is reachable with the mutex still locked (no deferred Unlock): every other user of the mutex blocks forever")
		default:
			c.OK(rule, key, c.P.Pos(fn.Pos()), "every Lock is followed by its Unlock on all paths (or the Unlock is deferred)")
		}
	}
	if n == 0 {
		c.Undec(rule, "lock-balance/"+pkgPath, "-", "no locking function found")
	}
}

// ruleNoStrayGoroutines: R16.9 "leaves no background activity behind": the only goroutines device code starts are the helpers
// ProcessEvents starts and joins (R16.2).  Any other go statement in the device package - in a function, method or closure
// that event processing, the LED loop, MIDI-input tracking or the clean-up can reach - runs detached from the device's
// WaitGroup: it can still be writing to the shared MIDI output after ProcessEvents has returned (and after main closed that
// channel), and its messages interleave with what the event loop emits.
func ruleNoStrayGoroutines(c *Ctx, dv *dev) {
	pe := dv.fn["ProcessEvents"]
	var stray []string
	n := 0
	for _, fn := range c.P.Funcs {
		top := topFunc(fn)
		if top.Pkg == nil || top.Pkg.Pkg.Path() != pkgDevice {
			continue
		}
		for _, b := range fn.Blocks {
			for _, in := range b.Instrs {
				g, ok := in.(*ssa.Go)
				if !ok {
					continue
				}
				n++
				if fn == pe {
					continue // accounted for by R16.2
				}
				if dv.newHelpers()[fn] && dv.ownerOf(fn) == pe {
					// a helper extracted from ProcessEvents that hands the WaitGroup to what it starts
					joined := false
					for _, a := range g.Call.Args {
						if strings.HasSuffix(a.Type().String(), "sync.WaitGroup") {
							joined = true
						}
					}
					if joined {
						continue
					}
				}
				stray = append(stray, fmt.Sprintf("%s at %s", shortFn(fn), c.P.Pos(g.Pos())))
			}
		}
	}
	sort.Strings(stray)
	key := "device/no-goroutine-outside-the-joined-helpers"
	bad := ""
	if len(stray) > 0 {
		bad = "a goroutine is started outside ProcessEvents' joined helpers (" + strings.Join(stray, "; ") + "): nothing waits for it when the device ends, it may still emit to the shared MIDI output after ProcessEvents returned"
	}
	c.Check(bad == "", "R16.9", key, c.P.Pos(pe.Pos()), fmt.Sprintf("%d go statement(s) in package device, all in ProcessEvents (joined through the WaitGroup, R16.2)", n), bad)
}

// loopLeavesOnCancel: the loop (header, latch = source of the back edge) passes, on every cycle, a select with a
// cancellation case, and the code that runs when that case is taken leaves the loop (a `break` that only leaves the
// select does not).
func loopLeavesOnCancel(header, latch *ssa.BasicBlock, isDone func(ssa.Value) bool) (bool, string) {
	body := loopBody(header, latch)
	found := false
	why := "unbounded loop that can iterate without looking at ctx.Done()"
	for blk := range body {
		for _, in := range blk.Instrs {
			sel, ok := in.(*ssa.Select)
			if !ok || !blockDominatesOrSame(blk, latch) {
				continue
			}
			for k, st := range sel.States {
				if !isDone(st.Chan) {
					continue
				}
				caseBlk := selectCaseBlock(sel, k)
				if caseBlk == nil {
					found = true // shape not recognised: keep the weaker verdict (the case exists on every cycle)
					continue
				}
				// can the code of the cancellation case get back to the loop header without leaving the body?
				seen := map[*ssa.BasicBlock]bool{}
				stack := []*ssa.BasicBlock{caseBlk}
				stays := false
				for len(stack) > 0 && !stays {
					x := stack[len(stack)-1]
					stack = stack[:len(stack)-1]
					if seen[x] || !body[x] {
						continue
					}
					seen[x] = true
					for _, nx := range x.Succs {
						if nx == header {
							// arriving at the header with the loop's flag cleared (`running = false`) leaves the loop there
							if !headerExitsFrom(header, x, body) {
								stays = true
							}
							continue
						}
						stack = append(stack, nx)
					}
				}
				if caseBlk == header {
					stays = true
				}
				if stays {
					why = "the <-ctx.Done() case of the loop's select does not leave the loop (a `break` inside a select leaves only the select): after cancellation the loop keeps iterating"
				} else {
					found = true
				}
			}
		}
	}
	return found, why
}

// selectCaseBlock: the block executed when case k of the select was chosen.
func selectCaseBlock(sel *ssa.Select, k int) *ssa.BasicBlock {
	refs := sel.Referrers()
	if refs == nil {
		return nil
	}
	for _, r := range *refs {
		ex, ok := r.(*ssa.Extract)
		if !ok || ex.Index != 0 || ex.Referrers() == nil {
			continue
		}
		for _, rr := range *ex.Referrers() {
			bo, ok := rr.(*ssa.BinOp)
			if !ok || bo.Op != token.EQL {
				continue
			}
			kc, ok := bo.Y.(*ssa.Const)
			if !ok || kc.Value == nil || int(kc.Int64()) != k || bo.Referrers() == nil {
				continue
			}
			for _, r3 := range *bo.Referrers() {
				if ifi, ok := r3.(*ssa.If); ok {
					return ifi.Block().Succs[0]
				}
			}
		}
	}
	return nil
}

// headerExitsFrom: the loop header tests a flag that is a phi in the header, and on the edge from pred the flag has the
// constant value that makes the test leave the loop.
func headerExitsFrom(header, pred *ssa.BasicBlock, body map[*ssa.BasicBlock]bool) bool {
	ifi, ok := header.Instrs[len(header.Instrs)-1].(*ssa.If)
	if !ok || len(header.Succs) != 2 {
		return false
	}
	cond := ifi.Cond
	neg := false
	for {
		u, ok := cond.(*ssa.UnOp)
		if !ok || u.Op != token.NOT {
			break
		}
		cond, neg = u.X, !neg
	}
	phi, ok := cond.(*ssa.Phi)
	if !ok || phi.Block() != header {
		return false
	}
	for i, p := range header.Preds {
		if p != pred || i >= len(phi.Edges) {
			continue
		}
		k, ok := phi.Edges[i].(*ssa.Const)
		if !ok || k.Value == nil || k.Value.Kind() != constant.Bool {
			return false
		}
		v := constant.BoolVal(k.Value) != neg // value of the tested condition
		taken := header.Succs[1]
		if v {
			taken = header.Succs[0]
		}
		return !body[taken]
	}
	return false
}

// ruleInputConsumed: R16.10. The device's MIDI-input channel is an output of the fan-out, which delivers with a blocking
// send under its lock: a device that stops receiving while it is attached stalls the MIDI input of every device after a
// few messages, and its own detach. So the consumer (handleInputEvents and what runs on its behalf) may end only by
// observing the cancellation (or the end of its input): no return is reachable from its entry without passing the code
// of a cancellation case, or a call of a helper that itself ends only that way.
func ruleInputConsumed(c *Ctx, dv *dev, rule string) {
	fn := dv.fn["handleInputEvents"]
	if fn == nil || len(fn.Blocks) == 0 {
		return
	}
	key := "device.handleInputEvents/ends-only-on-cancellation"
	pos := c.P.Pos(fn.Pos())
	midiIn := dv.fields["midiIn"]
	receives := 0
	memo := map[*ssa.Function]*ssa.BasicBlock{}
	done := map[*ssa.Function]bool{}
	waitsForCancel := map[*ssa.Function]bool{}
	cutAfter := map[ssa.Instruction]bool{}
	var earlyReturn func(f *ssa.Function, depth int) *ssa.BasicBlock
	earlyReturn = func(f *ssa.Function, depth int) *ssa.BasicBlock {
		if done[f] {
			return memo[f]
		}
		done[f] = true
		cut := map[*ssa.BasicBlock]bool{}
		for _, b := range f.Blocks {
			for _, in := range b.Instrs {
				switch x := in.(type) {
				case *ssa.Select:
					for k, st := range x.States {
						if st.Dir != types.RecvOnly {
							continue
						}
						if midiIn != nil && derivesFromField(st.Chan, midiIn, map[ssa.Value]bool{}) {
							receives++
						}
						if isCtxDone(st.Chan) {
							if cb := selectCaseBlock(x, k); cb != nil {
								cut[cb] = true
							}
						}
					}
				case *ssa.UnOp:
					if x.Op != token.ARROW {
						continue
					}
					if midiIn != nil && derivesFromField(x.X, midiIn, map[ssa.Value]bool{}) {
						receives++
						// `ev, ok := <-d.midiIn; if !ok { return }`: the closed-channel branch is an end of the input
						if x.CommaOk && x.Referrers() != nil {
							for _, r := range *x.Referrers() {
								if ex, isEx := r.(*ssa.Extract); isEx && ex.Index == 1 && ex.Referrers() != nil {
									for _, rr := range *ex.Referrers() {
										if ifi, isIf := rr.(*ssa.If); isIf {
											cut[ifi.Block().Succs[1]] = true
										}
									}
								}
							}
						}
					}
					if isCtxDone(x.X) {
						// a plain blocking `<-ctx.Done()`: whatever follows has observed the cancellation
						for _, s := range b.Succs {
							cut[s] = true
						}
						if len(b.Succs) == 0 {
							cut[b] = true
						}
					}
				case *ssa.Range:
					if midiIn != nil && derivesFromField(x.X, midiIn, map[ssa.Value]bool{}) {
						receives++
					}
				case *ssa.Call:
					// a helper of the device that itself ends only on cancellation: what follows the call has observed it
					callee := x.Call.StaticCallee()
					if callee != nil && depth < 3 && len(callee.Blocks) > 0 && funcPkgPath(callee) == pkgDevice && passesContext(x) {
						before := receives
						if earlyReturn(callee, depth+1) == nil && (receives > before || done[callee]) && waitsForCancel[callee] {
							cutAfter[in] = true
						}
					}
				}
			}
		}
		waitsForCancel[f] = len(cut) > 0
		// is a return reachable from the entry without entering a cancellation block? The walk is edge-sensitive at loop
		// headers that test a boolean loop variable: arriving with the constant true only enters the body, with false only
		// leaves; arriving from the body with the variable unchanged stays in the loop (it was true when the body was entered)
		type edge struct {
			b    *ssa.BasicBlock
			from *ssa.BasicBlock
		}
		seen := map[edge]bool{}
		stack := []edge{{f.Blocks[0], nil}}
		var early *ssa.BasicBlock
		for len(stack) > 0 && early == nil {
			e := stack[len(stack)-1]
			stack = stack[:len(stack)-1]
			if seen[e] || cut[e.b] || e.b == f.Recover {
				continue
			}
			seen[e] = true
			// a call after which the cancellation has been observed ends the walk inside its block
			stop := false
			for _, in := range e.b.Instrs {
				if cutAfter[in] {
					stop = true
				}
			}
			if stop {
				continue
			}
			last := e.b.Instrs[len(e.b.Instrs)-1]
			if _, isRet := last.(*ssa.Return); isRet {
				if !rangeOverInputEnds(e.b, midiIn) {
					early = e.b
				}
				continue
			}
			succs := e.b.Succs
			if ifi, isIf := last.(*ssa.If); isIf && e.from != nil {
				cond, neg := ifi.Cond, false
				for {
					u, ok := cond.(*ssa.UnOp)
					if !ok || u.Op != token.NOT {
						break
					}
					cond, neg = u.X, !neg
				}
				if phi, isPhi := cond.(*ssa.Phi); isPhi && phi.Block() == e.b {
					for i, p := range e.b.Preds {
						if p != e.from {
							continue
						}
						if k, isK := phi.Edges[i].(*ssa.Const); isK && k.Value != nil && k.Value.Kind() == constant.Bool {
							if constant.BoolVal(k.Value) != neg {
								succs = e.b.Succs[:1]
							} else {
								succs = e.b.Succs[1:]
							}
						} else if phi.Edges[i] == ssa.Value(phi) {
							// unchanged since the body was entered: the test comes out as it did then, back into the body
							var body []*ssa.BasicBlock
							for _, sc := range e.b.Succs {
								if reachesWithout(sc, e.from, e.b) {
									body = append(body, sc)
								}
							}
							if len(body) == 1 {
								succs = body
							}
						}
					}
				}
			}
			for _, s := range succs {
				stack = append(stack, edge{s, e.b})
			}
		}
		memo[f] = early
		return early
	}
	early := earlyReturn(fn, 0)
	if receives == 0 {
		c.Bad(rule, key, pos, "the device never receives from its MIDI-input channel: the fan-out blocks on it after the channel's buffer is full")
		return
	}
	if early != nil {
		c.Bad(rule, key, c.P.Pos(firstPos(early)), "the MIDI-input consumer can return without having observed the cancellation or the end of its input: the device stays attached to the fan-out, whose blocking delivery then stalls the MIDI input of every device")
		return
	}
	c.OK(rule, key, pos, fmt.Sprintf("%d receive site(s); every return lies behind a cancellation case (or the closed input)", receives))
}

// reachesWithout: to is reachable from from without passing through avoid.
func reachesWithout(from, to, avoid *ssa.BasicBlock) bool {
	seen := map[*ssa.BasicBlock]bool{}
	stack := []*ssa.BasicBlock{from}
	for len(stack) > 0 {
		x := stack[len(stack)-1]
		stack = stack[:len(stack)-1]
		if x == to {
			return true
		}
		if seen[x] || x == avoid {
			continue
		}
		seen[x] = true
		stack = append(stack, x.Succs...)
	}
	return false
}

// passesContext: one of the call's arguments is a context handed down by the caller.
func passesContext(call *ssa.Call) bool {
	for _, a := range call.Call.Args {
		if n, ok := a.Type().(*types.Named); ok && n.Obj().Name() == "Context" && ctxFromCaller(a, 0) {
			return true
		}
	}
	return false
}

// rangeOverInputEnds: b is only reached through the exit edge of a `for range d.midiIn` loop.
func rangeOverInputEnds(b *ssa.BasicBlock, midiIn *types.Var) bool {
	if midiIn == nil {
		return false
	}
	fn := b.Parent()
	for _, blk := range fn.Blocks {
		for _, in := range blk.Instrs {
			nx, ok := in.(*ssa.Next)
			if !ok {
				continue
			}
			rg, ok := nx.Iter.(*ssa.Range)
			if !ok || !derivesFromField(rg.X, midiIn, map[ssa.Value]bool{}) {
				continue
			}
			if ifi, ok := blk.Instrs[len(blk.Instrs)-1].(*ssa.If); ok && ifi.Block().Succs[1].Dominates(b) {
				return true
			}
		}
	}
	return false
}
