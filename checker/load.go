package main

import (
	"fmt"
	"go/ast"
	"go/token"
	"go/types"
	"os"
	"path/filepath"
	"sort"
	"strings"

	"golang.org/x/tools/go/callgraph"
	"golang.org/x/tools/go/callgraph/cha"
	"golang.org/x/tools/go/callgraph/vta"
	"golang.org/x/tools/go/packages"
	"golang.org/x/tools/go/ssa"
	"golang.org/x/tools/go/ssa/ssautil"
)

const modPath = "github.com/gethiox/HIDI"

// expected HIDI packages; a load in which one of them is missing is a checker failure
var expectedPkgs = []string{
	modPath,
	modPath + "/cmd/hidi",
	modPath + "/cmd/hidi/openrgb",
	modPath + "/internal/pkg/fs",
	modPath + "/internal/pkg/input",
	modPath + "/internal/pkg/logger",
	modPath + "/internal/pkg/midi",
	modPath + "/internal/pkg/midi/device",
	modPath + "/internal/pkg/midi/device/config",
	modPath + "/internal/pkg/midi/driver",
	modPath + "/internal/pkg/midi/driver/alsa",
	modPath + "/internal/pkg/utils",
}

const (
	pkgMain   = modPath + "/cmd/hidi"
	pkgInput  = modPath + "/internal/pkg/input"
	pkgMidi   = modPath + "/internal/pkg/midi"
	pkgDevice = modPath + "/internal/pkg/midi/device"
	pkgConfig = modPath + "/internal/pkg/midi/device/config"
	pkgUtils  = modPath + "/internal/pkg/utils"
	pkgAlsa   = modPath + "/internal/pkg/midi/driver/alsa"
	pkgDriver = modPath + "/internal/pkg/midi/driver"
	pkgLogger = modPath + "/internal/pkg/logger"
)

// Program is the loaded, type-checked, SSA-built view of a repository tree.
type Program struct {
	Repo        string
	Fset        *token.FileSet
	Pkgs        map[string]*packages.Package // HIDI packages by import path
	All         []*packages.Package
	SSA         *ssa.Program
	SSAPkgs     map[string]*ssa.Package
	Funcs       []*ssa.Function // all HIDI-owned source functions (incl. anonymous, instantiations)
	pure        map[*ssa.Function]bool
	cg          *callgraph.Graph
	chaCg       *callgraph.Graph
	siteTargets map[ssa.CallInstruction][]*ssa.Function
	isCtl       bool
}

func goEnv() []string {
	env := []string{}
	for _, e := range os.Environ() {
		if strings.HasPrefix(e, "GOWORK=") || strings.HasPrefix(e, "GOFLAGS=") || strings.HasPrefix(e, "GOPROXY=") ||
			strings.HasPrefix(e, "GOSUMDB=") || strings.HasPrefix(e, "GOTOOLCHAIN=") || strings.HasPrefix(e, "GOARCH=") ||
			strings.HasPrefix(e, "GOOS=") || strings.HasPrefix(e, "CGO_ENABLED=") {
			continue
		}
		env = append(env, e)
	}
	env = append(env, "GOFLAGS=-mod=mod", "GOPROXY=off", "GOSUMDB=off", "GOTOOLCHAIN=local", "GOWORK=off", "CGO_ENABLED=1", "GOOS=linux")
	return env
}

// rtmidiStub finds the third-party C++ translation unit that cannot be compiled in this
// sandbox (needs alsa/asoundlib.h) so it can be replaced by an empty file for loading only.
func rtmidiStub(env []string) string {
	gomodcache := os.Getenv("GOMODCACHE")
	if gomodcache == "" {
		gopath := os.Getenv("GOPATH")
		if gopath == "" {
			home, _ := os.UserHomeDir()
			gopath = filepath.Join(home, "go")
		}
		gomodcache = filepath.Join(gopath, "pkg", "mod")
	}
	return filepath.Join(gomodcache, "gitlab.com/gomidi/midi/v2@v2.0.23/drivers/rtmididrv/imported/rtmidi/rtmidi_stub.cpp")
}

// LoadRepo loads every package of the module rooted at repo with full syntax and builds SSA.
func LoadRepo(repo string, goarch string) (*Program, error) {
	env := goEnv()
	if goarch != "" {
		env = append(env, "GOARCH="+goarch)
	}
	fset := token.NewFileSet()
	cfg := &packages.Config{
		Mode:  packages.LoadAllSyntax | packages.NeedEmbedFiles | packages.NeedEmbedPatterns,
		Dir:   repo,
		Env:   env,
		Fset:  fset,
		Tests: false,
		Overlay: map[string][]byte{
			rtmidiStub(env): []byte("// stub for loading only\n"),
		},
	}
	pkgs, err := packages.Load(cfg, "./...")
	if err != nil {
		return nil, fmt.Errorf("packages.Load: %w", err)
	}
	p := &Program{Repo: repo, Fset: fset, Pkgs: map[string]*packages.Package{}, SSAPkgs: map[string]*ssa.Package{}}
	for _, pk := range pkgs {
		if strings.HasPrefix(pk.PkgPath, modPath) {
			p.Pkgs[pk.PkgPath] = pk
			if len(pk.Errors) > 0 {
				return nil, fmt.Errorf("package %s has errors: %v", pk.PkgPath, pk.Errors)
			}
			if pk.IllTyped {
				return nil, fmt.Errorf("package %s is ill-typed", pk.PkgPath)
			}
		}
	}
	var got []string
	for k := range p.Pkgs {
		got = append(got, k)
	}
	sort.Strings(got)
	want := append([]string{}, expectedPkgs...)
	sort.Strings(want)
	// every package the rules are anchored in must be there; additional packages of the module (code moved into a new
	// package, a new helper package) are loaded and analysed like the others
	for _, w := range want {
		if p.Pkgs[w] == nil {
			return nil, fmt.Errorf("package set mismatch: %s is missing (got %v)", w, got)
		}
	}
	p.All = pkgs
	p.buildSSA(pkgs)
	if n := len(p.Funcs); n < 150 {
		return nil, fmt.Errorf("only %d HIDI SSA functions (expected >= 150): incomplete load", n)
	}
	return p, nil
}

// LoadControls loads the positive/negative control packages under dir (a self-contained module).
func LoadControls(dir string) (*Program, error) {
	env := goEnv()
	fset := token.NewFileSet()
	cfg := &packages.Config{Mode: packages.LoadAllSyntax, Dir: dir, Env: env, Fset: fset}
	pkgs, err := packages.Load(cfg, "./...")
	if err != nil {
		return nil, err
	}
	p := &Program{Repo: dir, Fset: fset, Pkgs: map[string]*packages.Package{}, SSAPkgs: map[string]*ssa.Package{}, isCtl: true}
	for _, pk := range pkgs {
		if len(pk.Errors) > 0 {
			return nil, fmt.Errorf("control package %s has errors: %v", pk.PkgPath, pk.Errors)
		}
		p.Pkgs[pk.PkgPath] = pk
	}
	if len(p.Pkgs) == 0 {
		return nil, fmt.Errorf("no control packages found in %s", dir)
	}
	p.All = pkgs
	p.buildSSA(pkgs)
	return p, nil
}

func (p *Program) owned(pkgPath string) bool {
	if p.isCtl {
		_, ok := p.Pkgs[pkgPath]
		return ok
	}
	return strings.HasPrefix(pkgPath, modPath)
}

func (p *Program) buildSSA(pkgs []*packages.Package) {
	prog, spkgs := ssautil.AllPackages(pkgs, ssa.InstantiateGenerics)
	prog.Build()
	p.SSA = prog
	for i, sp := range spkgs {
		if sp != nil && p.owned(pkgs[i].PkgPath) {
			p.SSAPkgs[pkgs[i].PkgPath] = sp
		}
	}
	// deps too
	for _, sp := range prog.AllPackages() {
		if sp.Pkg != nil && p.owned(sp.Pkg.Path()) {
			p.SSAPkgs[sp.Pkg.Path()] = sp
		}
	}
	all := ssautil.AllFunctions(prog)
	for fn := range all {
		if p.OwnedFunc(fn) && fn.Blocks != nil {
			p.Funcs = append(p.Funcs, fn)
		}
	}
	sort.Slice(p.Funcs, func(i, j int) bool { return p.Funcs[i].String() < p.Funcs[j].String() })
}

// OwnedFunc reports whether fn's code belongs to the analysed repository (including
// anonymous functions, generic instantiations and synthetic wrappers of owned methods).
func (p *Program) OwnedFunc(fn *ssa.Function) bool {
	f := fn
	for f.Parent() != nil {
		f = f.Parent()
	}
	if o := f.Origin(); o != nil {
		f = o
	}
	if f.Pkg != nil && f.Pkg.Pkg != nil {
		return p.owned(f.Pkg.Pkg.Path())
	}
	if obj := f.Object(); obj != nil && obj.Pkg() != nil {
		return p.owned(obj.Pkg().Path())
	}
	return false
}

func (p *Program) CallGraph() *callgraph.Graph {
	if p.cg == nil {
		p.chaCg = cha.CallGraph(p.SSA)
		p.cg = vta.CallGraph(ssautil.AllFunctions(p.SSA), p.chaCg)
	}
	return p.cg
}

func (p *Program) CHAGraph() *callgraph.Graph {
	p.CallGraph()
	return p.chaCg
}

// Func resolves a package-level function or method by object lookup, e.g.
// Func(pkgDevice, "Device", "NoteOn") or Func(pkgConfig, "", "ParseData").
func (p *Program) Func(pkgPath, recv, name string) *ssa.Function {
	sp := p.SSAPkgs[pkgPath]
	if sp == nil {
		return nil
	}
	if recv == "" {
		if f := sp.Func(name); f != nil {
			return f
		}
		// a change of letter case / underscores in the name (ParseData -> parseData) is still the same anchor
		var found *ssa.Function
		n := 0
		for _, m := range sp.Members {
			if f, ok := m.(*ssa.Function); ok && sameAnchorName(f.Name(), name) {
				found = f
				n++
			}
		}
		if n == 1 {
			return found
		}
		// a function turned into a method of a small type of its package (loadDirectory(root, kind, m) ->
		// (*dirInfo).loadDirectory()): still the same anchor, if the name is unique among the package's methods
		n = 0
		for _, f := range p.Funcs {
			if f.Signature.Recv() != nil && f.Parent() == nil && f.Pkg == sp && sameAnchorName(f.Name(), name) && f.Synthetic == "" {
				found = f
				n++
			}
		}
		if n == 1 {
			return found
		}
		return nil
	}
	obj := sp.Pkg.Scope().Lookup(recv)
	if obj == nil {
		return nil
	}
	tn, ok := obj.(*types.TypeName)
	if !ok {
		return nil
	}
	for _, t := range []types.Type{tn.Type(), types.NewPointer(tn.Type())} {
		ms := p.SSA.MethodSets.MethodSet(t)
		for i := 0; i < ms.Len(); i++ {
			if ms.At(i).Obj().Name() == name {
				return p.SSA.MethodValue(ms.At(i))
			}
		}
	}
	// fallback: the same name up to letter case / underscores (handleKEYEvent -> handleKeyEvent), if unique
	var found *ssa.Function
	n := 0
	ms := p.SSA.MethodSets.MethodSet(types.NewPointer(tn.Type()))
	for i := 0; i < ms.Len(); i++ {
		if sameAnchorName(ms.At(i).Obj().Name(), name) {
			found = p.SSA.MethodValue(ms.At(i))
			n++
		}
	}
	if n == 1 {
		return found
	}
	// a method turned into a function that takes the receiver as its first parameter (`func handleKEYEvent(d *Device, ...)`)
	// is still that anchor
	for _, m := range sp.Members {
		f, ok := m.(*ssa.Function)
		if !ok || !sameAnchorName(f.Name(), name) || len(f.Params) == 0 || f.Signature.Recv() != nil {
			continue
		}
		if nt, isN := deref(f.Params[0].Type()).(*types.Named); isN && nt.Obj() == tn {
			return f
		}
	}
	return nil
}

// sameAnchorName: equal up to letter case and underscores.
func sameAnchorName(a, b string) bool {
	norm := func(s string) string { return strings.ToLower(strings.ReplaceAll(s, "_", "")) }
	return norm(a) == norm(b)
}

// Instances returns the instantiations (or the function itself if not generic) of a
// generic method, looked up by receiver type name and method name in the owned functions.
func (p *Program) Instances(pkgPath, recv, name string) []*ssa.Function {
	var out []*ssa.Function
	for _, fn := range p.Funcs {
		if fn.Parent() != nil {
			continue
		}
		o := fn
		if fn.Origin() != nil {
			o = fn.Origin()
		}
		if o.Name() != name {
			continue
		}
		if o.Pkg == nil || o.Pkg.Pkg.Path() != pkgPath {
			continue
		}
		if recv == "" {
			if o.Signature.Recv() == nil {
				out = append(out, fn)
			}
			continue
		}
		if o.Signature.Recv() == nil {
			continue
		}
		if namedName(o.Signature.Recv().Type()) == recv {
			if fn.TypeParams().Len() > 0 && len(fn.TypeArgs()) == 0 {
				continue // uninstantiated generic body
			}
			if n, ok := deref(fn.Signature.Recv().Type()).(*types.Named); ok {
				generic := n.TypeParams().Len() > 0 && n.TypeArgs().Len() == 0
				for i := 0; i < n.TypeArgs().Len(); i++ {
					if _, isTP := n.TypeArgs().At(i).(*types.TypeParam); isTP {
						generic = true
					}
				}
				if generic {
					continue // method of the uninstantiated generic type
				}
			}
			out = append(out, fn)
		}
	}
	return out
}

func namedName(t types.Type) string {
	if pt, ok := t.(*types.Pointer); ok {
		t = pt.Elem()
	}
	if n, ok := t.(*types.Named); ok {
		return n.Obj().Name()
	}
	return ""
}

// Struct returns the named struct type pkgPath.name.
func (p *Program) Struct(pkgPath, name string) (*types.Named, *types.Struct) {
	pk := p.Pkgs[pkgPath]
	if pk == nil {
		return nil, nil
	}
	obj := pk.Types.Scope().Lookup(name)
	if obj == nil {
		return nil, nil
	}
	n, ok := obj.Type().(*types.Named)
	if !ok {
		return nil, nil
	}
	st, _ := n.Underlying().(*types.Struct)
	return n, st
}

func (p *Program) Field(pkgPath, typ, field string) *types.Var {
	_, st := p.Struct(pkgPath, typ)
	if st == nil {
		return nil
	}
	for i := 0; i < st.NumFields(); i++ {
		if st.Field(i).Name() == field {
			return st.Field(i)
		}
	}
	var found *types.Var
	n := 0
	for i := 0; i < st.NumFields(); i++ {
		if sameAnchorName(st.Field(i).Name(), field) {
			found = st.Field(i)
			n++
		}
	}
	if n == 1 {
		return found
	}
	return nil
}

func (p *Program) Pos(pos token.Pos) string {
	if !pos.IsValid() {
		return "-"
	}
	ps := p.Fset.Position(pos)
	rel, err := filepath.Rel(p.Repo, ps.Filename)
	if err != nil || strings.HasPrefix(rel, "..") {
		rel = ps.Filename
	}
	return fmt.Sprintf("%s:%d", rel, ps.Line)
}

// FuncDecl finds the syntax of a declared function.
func (p *Program) FuncDecl(fn *ssa.Function) *ast.FuncDecl {
	if fn == nil {
		return nil
	}
	if d, ok := fn.Syntax().(*ast.FuncDecl); ok {
		return d
	}
	return nil
}

// PkgOf returns the packages.Package that holds fn's syntax.
func (p *Program) PkgOf(fn *ssa.Function) *packages.Package {
	f := fn
	for f.Parent() != nil {
		f = f.Parent()
	}
	if o := f.Origin(); o != nil {
		f = o
	}
	if f.Pkg == nil {
		return nil
	}
	return p.Pkgs[f.Pkg.Pkg.Path()]
}

// Reachable returns the set of owned functions reachable from roots through the call
// graph g (only traversing into owned functions; synthetic wrappers are transparent).
func (p *Program) Reachable(g *callgraph.Graph, roots ...*ssa.Function) map[*ssa.Function]bool {
	seen := map[*ssa.Function]bool{}
	var visit func(fn *ssa.Function)
	visit = func(fn *ssa.Function) {
		if fn == nil || seen[fn] {
			return
		}
		if !p.OwnedFunc(fn) {
			return
		}
		seen[fn] = true
		n := g.Nodes[fn]
		if n == nil {
			return
		}
		for _, e := range n.Out {
			visit(e.Callee.Func)
		}
		// anonymous functions created here are considered reachable (closures passed around)
		for _, af := range fn.AnonFuncs {
			visit(af)
		}
	}
	for _, r := range roots {
		visit(r)
	}
	return seen
}

// AnyPkg finds a loaded package (HIDI or dependency) by import path.
func (p *Program) AnyPkg(path string) *packages.Package {
	if pk, ok := p.Pkgs[path]; ok {
		return pk
	}
	seen := map[*packages.Package]bool{}
	var found *packages.Package
	var visit func(pk *packages.Package)
	visit = func(pk *packages.Package) {
		if found != nil || seen[pk] {
			return
		}
		seen[pk] = true
		if pk.PkgPath == path {
			found = pk
			return
		}
		for _, im := range pk.Imports {
			visit(im)
		}
	}
	for _, pk := range p.All {
		visit(pk)
	}
	return found
}

// InvokeTargets: the functions an interface method call can dispatch to according to the VTA call graph.
func (p *Program) InvokeTargets(site ssa.CallInstruction) []*ssa.Function {
	if p.siteTargets == nil {
		p.siteTargets = map[ssa.CallInstruction][]*ssa.Function{}
		g := p.CallGraph()
		for _, n := range g.Nodes {
			for _, e := range n.Out {
				if e.Site != nil && e.Site.Common().IsInvoke() && e.Callee != nil && e.Callee.Func != nil {
					p.siteTargets[e.Site] = append(p.siteTargets[e.Site], e.Callee.Func)
				}
			}
		}
	}
	return p.siteTargets[site]
}
