package main

import (
	"fmt"
	"go/constant"
	"go/token"
	"go/types"
	"sort"
	"strings"

	"golang.org/x/tools/go/ssa"
)

func init() {
	registry["C12"] = checkC12
	controlRegistry["C12"] = controlsC12
}

func checkC12(c *Ctx) {
	ruleFindConfig(c)
	ruleDirTable(c)
	ruleLoadDirectoryCallback(c)
	ruleWalkProtocol(c, c.P, "R12.4")
	ruleReadIsParse(c)
	ruleParsedConfigNotAltered(c, "R12.10")
	c.importRules(decodeTargetRules, []string{"R10.11"}, "R12.8") // a file is decoded into a fresh zero value: nothing of another (valid or broken) file leaks into it
	c.MinCount("R12.6", 1)
	// R12.5 "a file that fails to parse is reported and skipped" needs the parse chain to report every failure
	if pf := newParserFacts(c); pf.err == nil {
		fns := pf.regionFuncs()
		if rd := c.P.Func(pkgConfig, "", "readDeviceConfig"); rd != nil {
			fns = append(fns, rd)
		}
		ruleErrorsReturnedAs(c, fns, "R12.5", nil)
		c.importRules(checkC09, []string{"R9.9"}, "R12.5") // a decoder panic must become that file's error, not abort the load of all four directories
		// the same for every other way a file's content can make the parse chain panic (an index into an empty key name, a nil
		// optional field, a division): a panic is not "that file reported and skipped", it ends the load of all four directories
		c.importRules(checkC09, []string{"R9.1", "R9.2", "R9.3", "R9.4", "R9.5", "R9.6"}, "R12.9")
		c.MinCount("R12.5", 8)
	}
	c.MinCount("R12.1", 11)
	c.MinCount("R12.2", 5)
	c.MinCount("R12.3", 4)
	c.MinCount("R12.4", 1)
	c.DecidedClause("FindConfig consults user[id], user[default], factory[id], factory[default] in this order for keyboards and (mirrored) for joysticks, each hit returning that entry with a nil error and the all-miss path an error; other device types return an error without any lookup")
	c.DecidedClause("the directory table pairs each constant root with the matching map and label; a file that fails to parse is skipped without touching the map and without aborting the walk; directories and non-.toml files are skipped unread; the Walk callback never touches its FileInfo before having tested its error parameter")
	c.UndecidedClause("OS semantics of filepath.Walk on unreadable (as opposed to missing) directories beyond the documented callback contract")
}

// ---- R12.1 ------------------------------------------------------------------------------------

func ruleFindConfig(c *Ctx) {
	fn := c.P.Func(pkgConfig, "DeviceConfigs", "FindConfig")
	if !c.Require(fn != nil, "R12.1", "anchor:config.FindConfig", "FindConfig not found") {
		return
	}
	c.Fn(shortFn(fn))
	paths, err := Enumerate(fn, SymConfig{Prog: c.P, MaxDepth: 2, Collapse: true, MaxVisits: 9}) // a lookup chain written as a loop over a small fixed table unrolls completely
	if !c.Require(err == nil, "R12.1", "config.FindConfig", fmt.Sprint(err)) {
		return
	}
	c.Paths += len(paths)
	pos := c.P.Pos(fn.Pos())
	kbd, _ := c.P.constValue(pkgInput, "KeyboardDevice")
	joy, _ := c.P.constValue(pkgInput, "JoystickDevice")
	if !c.Require(kbd != nil && joy != nil, "R12.1", "anchor:input.DeviceType constants", "KeyboardDevice/JoystickDevice not found") {
		return
	}
	kv, _ := constant.Int64Val(kbd)
	jv, _ := constant.Int64Val(joy)
	class := map[int64]string{kv: "Keyboards", jv: "Gamepads"}
	className := map[int64]string{kv: "keyboard", jv: "joystick"}
	wantChain := func(m string) []string {
		return []string{"User." + m + "[id]", "User." + m + "[default]", "Factory." + m + "[id]", "Factory." + m + "[default]"}
	}
	seen := map[string]bool{}
	for _, p := range paths {
		if p.End != "return" || len(p.Ret) != 2 {
			c.Bad("R12.1", "config.FindConfig/ends", pos, "path ends with "+p.End)
			continue
		}
		// device type selected
		var sel int64 = -1
		for _, a := range p.Atoms {
			op, x, y, ok := normAtom(a)
			if !ok || op != "==" {
				continue
			}
			if x.Op == "param" {
				if k, isK := y.IsIntConst(); isK {
					sel = k
				}
			}
		}
		// ordered lookups
		var chain []string
		var last *Term
		lastHit := false
		for _, a := range p.Atoms {
			cnd, taken := a.Cond, a.Taken
			for cnd.Op == "unop" {
				cnd, taken = cnd.Args[0], !taken
			}
			if cnd.Op != "lookupok" {
				continue
			}
			chain = append(chain, describeCfgLookup(cnd))
			last, lastHit = cnd, taken
			if taken {
				break
			}
		}
		errNil := p.Ret[1].IsNil()
		m, isClass := class[sel]
		if !isClass {
			key := "config.FindConfig/other-device-types"
			if seen[key] {
				continue
			}
			seen[key] = true
			e := p.Ret[1]
			c.Check(len(chain) == 0 && !errNil, "R12.1", key, pos, "returns a non-nil error without any lookup: "+e.String(),
				"device types other than keyboard/joystick must return an error (device skipped) without picking a configuration; got "+e.String())
			continue
		}
		want := wantChain(m)
		key := fmt.Sprintf("config.FindConfig/%s/%d-lookups-hit=%v", className[sel], len(chain), lastHit)
		bad := ""
		if len(chain) > len(want) {
			bad = "more lookups than the four candidates"
		} else {
			for i := range chain {
				if chain[i] != want[i] {
					bad = fmt.Sprintf("lookup %d is %s, required order is %v", i+1, chain[i], want)
					break
				}
			}
		}
		if bad == "" {
			if lastHit {
				ret := p.Ret[0]
				if !(ret.Op == "lookup" && sameTerm(ret.Args[0], last.Args[0]) && sameTerm(ret.Args[1], last.Args[1])) {
					bad = "a hit does not return the entry that was found: returns " + ret.String()
				} else if !errNil {
					bad = "a hit returns a non-nil error"
				}
			} else {
				if len(chain) != 4 {
					bad = fmt.Sprintf("gives up after %d of 4 candidates", len(chain))
				} else if errNil {
					bad = "all candidates missing but a nil error is returned"
				}
			}
		}
		if bad != "" {
			c.Bad("R12.1", key, pos, bad)
		} else {
			c.OK("R12.1", key, pos, strings.Join(chain, " -> "))
		}
		seen[key] = true
	}
	for _, cl := range []string{"keyboard", "joystick"} {
		for n := 1; n <= 4; n++ {
			k := fmt.Sprintf("config.FindConfig/%s/%d-lookups-hit=true", cl, n)
			if !seen[k] {
				c.Bad("R12.1", k, pos, "no path returns the candidate number "+fmt.Sprint(n)+" for this device class")
			}
		}
		k := fmt.Sprintf("config.FindConfig/%s/4-lookups-hit=false", cl)
		if !seen[k] {
			c.Bad("R12.1", k, pos, "no all-miss error path for this device class")
		}
	}
}

func describeCfgLookup(l *Term) string {
	m := l.Args[0].String() // c.User.Keyboards
	parts := strings.Split(m, ".")
	name := m
	if len(parts) >= 2 {
		name = strings.Join(parts[len(parts)-2:], ".")
	}
	k := "?"
	switch {
	case l.Args[1].Op == "param":
		k = "id"
	case l.Args[1].Op == "const" && strings.HasPrefix(l.Args[1].Aux, "zero:"):
		k = "default"
	case l.Args[1].Op == "struct":
		allZero := true
		for _, a := range l.Args[1].Args {
			if n, ok := a.IsIntConst(); !ok || n != 0 {
				allZero = false
			}
		}
		if allZero {
			k = "default"
		}
	}
	return name + "[" + k + "]"
}

// ---- R12.2 ------------------------------------------------------------------------------------

func ruleDirTable(c *Ctx) {
	fn := c.P.Func(pkgConfig, "", "LoadDeviceConfigs")
	ld := c.P.Func(pkgConfig, "", "loadDirectory")
	if !c.Require(fn != nil && ld != nil, "R12.2", "anchor:config.LoadDeviceConfigs", "LoadDeviceConfigs/loadDirectory not found") {
		return
	}
	c.Fn(shortFn(fn))
	_, di := c.P.Struct(pkgConfig, "dirInfo")
	direct := directLoaderCalls(fn, ld)
	if !c.Require(di != nil || len(direct) > 0, "R12.2", "anchor:config.dirInfo", "neither the dirInfo table nor direct calls of loadDirectory with constant directories found") {
		return
	}
	// rows: stores into &array[i].field
	type row struct {
		root, label string
		mapPath     string
		pos         token.Pos
	}
	rows := map[int64]*row{}
	for _, b := range fn.Blocks {
		for _, in := range b.Instrs {
			st, ok := in.(*ssa.Store)
			if !ok {
				continue
			}
			fa, ok := st.Addr.(*ssa.FieldAddr)
			if !ok {
				continue
			}
			ia, ok := fa.X.(*ssa.IndexAddr)
			if !ok {
				continue
			}
			n, ok := deref(fa.X.Type()).(*types.Named)
			if !ok || n.Obj().Name() != "dirInfo" {
				continue
			}
			idx, ok := ia.Index.(*ssa.Const)
			if !ok {
				continue
			}
			r := rows[idx.Int64()]
			if r == nil {
				r = &row{pos: st.Pos()}
				rows[idx.Int64()] = r
			}
			f := fieldOfAddr(fa)
			switch f.Type().Underlying().(type) {
			case *types.Map:
				r.mapPath = fieldPath(st.Val)
			default:
				if k, ok := st.Val.(*ssa.Const); ok && k.Value != nil && k.Value.Kind() == constant.String {
					s := constant.StringVal(k.Value)
					if strings.Contains(s, "/") {
						r.root = s
					} else {
						r.label = s
					}
				}
			}
		}
	}
	if len(rows) == 0 {
		// the table written out: one call per directory with the directory, the label and the map given directly
		for i, dc := range direct {
			rows[int64(i)] = &row{root: dc.root, label: dc.label, mapPath: dc.mapPath, pos: dc.call.Pos()}
		}
	}
	var idxs []int
	for i := range rows {
		idxs = append(idxs, int(i))
	}
	sort.Ints(idxs)
	combos := map[string]bool{}
	for _, i := range idxs {
		r := rows[int64(i)]
		key := fmt.Sprintf("config.LoadDeviceConfigs/dir[%s]", r.root)
		pos := c.P.Pos(r.pos)
		tier, class := "", ""
		switch {
		case strings.Contains(r.root, "/factory/"):
			tier = "Factory"
		case strings.Contains(r.root, "/user/"):
			tier = "User"
		}
		switch {
		case strings.HasSuffix(r.root, "/keyboard"):
			class = "Keyboards"
		case strings.HasSuffix(r.root, "/gamepad"):
			class = "Gamepads"
		}
		want := tier + "." + class
		if tier == "" || class == "" {
			c.Bad("R12.2", key, pos, "root is not one of the four known configuration directories")
			continue
		}
		if r.mapPath != want || r.label != strings.ToLower(tier) {
			c.Bad("R12.2", key, pos, fmt.Sprintf("directory %q is loaded into %s with label %q; it must fill %s with label %q", r.root, r.mapPath, r.label, want, strings.ToLower(tier)))
			continue
		}
		combos[want] = true
		c.OK("R12.2", key, pos, fmt.Sprintf("-> %s, label %q", r.mapPath, r.label))
	}
	c.Check(len(combos) == 4, "R12.2", "config.LoadDeviceConfigs/four-directories", c.P.Pos(fn.Pos()), "user/factory x keyboard/gamepad all present", fmt.Sprintf("only %d of the 4 tier x class combinations are loaded", len(combos)))
	// the four maps are created
	made := 0
	for _, b := range fn.Blocks {
		for _, in := range b.Instrs {
			if st, ok := in.(*ssa.Store); ok {
				if _, isMk := st.Val.(*ssa.MakeMap); isMk {
					if p := fieldPathAddr(st.Addr); strings.Count(p, ".") == 1 {
						made++
					}
				}
			}
		}
	}
	c.Check(made >= 4, "R12.2", "config.LoadDeviceConfigs/maps-created", c.P.Pos(fn.Pos()), "four maps created with make", fmt.Sprintf("%d of 4 maps created: a store into a nil map would panic", made))
	// loadDirectory(root, identifier, configMap) argument order
	for _, b := range fn.Blocks {
		for _, in := range b.Instrs {
			call, ok := in.(*ssa.Call)
			if !ok || call.Call.StaticCallee() != ld {
				continue
			}
			if len(direct) > 0 && di == nil {
				// direct form: the directory goes where loadDirectory takes the directory it walks
				okPos := false
				for _, dc := range direct {
					if dc.call == call {
						okPos = dc.rootIsWalked
					}
				}
				c.Check(okPos, "R12.2", fmt.Sprintf("config.LoadDeviceConfigs/call(loadDirectory)@%s", lastPathElems(constArgWithSlash(call), 2)), c.P.Pos(call.Pos()),
					"the directory is passed as the parameter loadDirectory walks", "the constant directory is not passed as the parameter that loadDirectory walks")
				continue
			}
			names := []string{}
			for _, a := range call.Call.Args {
				names = append(names, lastFieldName(a))
			}
			want := []string{"root", "identifier", "configMap"}
			if ld.Signature.Recv() != nil && len(call.Call.Args) == 1 {
				// the loader is a method of the row: the row goes as a whole
				c.OK("R12.2", "config.LoadDeviceConfigs/call(loadDirectory)", c.P.Pos(call.Pos()), "called on the row itself (a method of the row type reads root, identifier and map of that row)")
				continue
			}
			c.Check(strings.Join(names, ",") == strings.Join(want, ","), "R12.2", "config.LoadDeviceConfigs/call(loadDirectory)", c.P.Pos(call.Pos()),
				"called with (row.root, row.identifier, row.configMap)", "loadDirectory is called with "+strings.Join(names, ",")+", expected root,identifier,configMap of the same row")
		}
	}
}

type directLoad struct {
	call                 *ssa.Call
	root, label, mapPath string
	rootIsWalked         bool
}

// directLoaderCalls: calls loadDirectory("dir/ectory", "label", cfg.X.Y) in fn - the directory table written out.
func directLoaderCalls(fn, ld *ssa.Function) []directLoad {
	var out []directLoad
	for _, b := range fn.Blocks {
		for _, in := range b.Instrs {
			call, ok := in.(*ssa.Call)
			if !ok || call.Call.StaticCallee() != ld {
				continue
			}
			d := directLoad{call: call}
			rootPos := -1
			for i, a := range call.Call.Args {
				if k, ok := a.(*ssa.Const); ok && k.Value != nil && k.Value.Kind() == constant.String {
					if sv := constant.StringVal(k.Value); strings.Contains(sv, "/") {
						d.root, rootPos = sv, i
					} else {
						d.label = sv
					}
					continue
				}
				if _, isMap := a.Type().Underlying().(*types.Map); isMap {
					d.mapPath = fieldPath(a)
				}
			}
			if d.root == "" || d.mapPath == "" || d.mapPath == "?" {
				continue
			}
			// the parameter at that position is what loadDirectory hands to filepath.Walk / WalkDir
			if rootPos < len(ld.Params) {
				prm := ld.Params[rootPos]
				if prm.Referrers() != nil {
					for _, r := range *prm.Referrers() {
						if wc, ok := r.(*ssa.Call); ok {
							if cal := wc.Call.StaticCallee(); cal != nil && cal.Pkg != nil && cal.Pkg.Pkg.Path() == "path/filepath" && strings.HasPrefix(cal.Name(), "Walk") && len(wc.Call.Args) > 0 && wc.Call.Args[0] == ssa.Value(prm) {
								d.rootIsWalked = true
							}
						}
					}
				}
			}
			out = append(out, d)
		}
	}
	return out
}

func constArgWithSlash(call *ssa.Call) string {
	for _, a := range call.Call.Args {
		if k, ok := a.(*ssa.Const); ok && k.Value != nil && k.Value.Kind() == constant.String {
			if sv := constant.StringVal(k.Value); strings.Contains(sv, "/") {
				return sv
			}
		}
	}
	return "?"
}

func lastPathElems(p string, n int) string {
	parts := strings.Split(p, "/")
	if len(parts) > n {
		parts = parts[len(parts)-n:]
	}
	return strings.Join(parts, "/")
}

func lastFieldName(v ssa.Value) string {
	switch x := v.(type) {
	case *ssa.Field:
		return x.X.Type().Underlying().(*types.Struct).Field(x.Field).Name()
	case *ssa.UnOp:
		if f := fieldOfAddr(x.X); f != nil {
			return f.Name()
		}
	}
	return "?"
}

// fieldPath: load of &x.A.B -> "A.B"
func fieldPath(v ssa.Value) string {
	if u, ok := v.(*ssa.UnOp); ok {
		return fieldPathAddr(u.X)
	}
	return "?"
}

func fieldPathAddr(v ssa.Value) string {
	var parts []string
	for {
		fa, ok := v.(*ssa.FieldAddr)
		if !ok {
			break
		}
		parts = append([]string{fieldOfAddr(fa).Name()}, parts...)
		v = fa.X
	}
	return strings.Join(parts, ".")
}

// ---- R12.3 ------------------------------------------------------------------------------------

func walkCallbacks(p *Program) []struct {
	fn     *ssa.Function
	site   ssa.Instruction
	walker string
} {
	var out []struct {
		fn     *ssa.Function
		site   ssa.Instruction
		walker string
	}
	for _, fn := range p.Funcs {
		for _, b := range fn.Blocks {
			for _, in := range b.Instrs {
				call, ok := in.(*ssa.Call)
				if !ok {
					continue
				}
				callee := call.Call.StaticCallee()
				if callee == nil || callee.Pkg == nil {
					continue
				}
				pk := callee.Pkg.Pkg.Path()
				if !((pk == "path/filepath" && (callee.Name() == "Walk" || callee.Name() == "WalkDir")) || (pk == "io/fs" && callee.Name() == "WalkDir")) {
					continue
				}
				for _, a := range call.Call.Args {
					var cb *ssa.Function
					switch x := a.(type) {
					case *ssa.MakeClosure:
						cb = x.Fn.(*ssa.Function)
					case *ssa.Function:
						cb = x
					case *ssa.ChangeType:
						if mc, ok := x.X.(*ssa.MakeClosure); ok {
							cb = mc.Fn.(*ssa.Function)
						} else if f, ok := x.X.(*ssa.Function); ok {
							cb = f
						}
					}
					if cb != nil {
						cb = unwrapThunk(cb) // a method value (loader.visit) reaches Walk through a synthetic $bound wrapper
						out = append(out, struct {
							fn     *ssa.Function
							site   ssa.Instruction
							walker string
						}{cb, in, pk + "." + callee.Name()})
					}
				}
			}
		}
	}
	return out
}

func ruleLoadDirectoryCallback(c *Ctx) {
	ld := c.P.Func(pkgConfig, "", "loadDirectory")
	rdc := c.P.Func(pkgConfig, "", "readDeviceConfig")
	if !c.Require(ld != nil && rdc != nil, "R12.3", "anchor:config.loadDirectory", "loadDirectory/readDeviceConfig not found") {
		return
	}
	var cb *ssa.Function
	for _, w := range walkCallbacks(c.P) {
		if w.site.Parent() == ld {
			cb = w.fn
		}
	}
	if !c.Require(cb != nil, "R12.3", "config.loadDirectory/callback", "no Walk callback found in loadDirectory") {
		return
	}
	c.Fn(shortFn(cb))
	paths, err := Enumerate(cb, SymConfig{Prog: c.P, MaxDepth: 1, Collapse: true, OnlyInline: valueHelpers(c.P)}) // (a file-name test in a value helper is seen as its conditions)
	if !c.Require(err == nil, "R12.3", "config.loadDirectory/callback", fmt.Sprint(err)) {
		return
	}
	c.Paths += len(paths)
	pos := c.P.Pos(cb.Pos())
	type res struct {
		n   int
		bad string
	}
	agg := map[string]*res{}
	note := func(k, bad string) {
		if agg[k] == nil {
			agg[k] = &res{}
		}
		agg[k].n++
		if bad != "" && agg[k].bad == "" {
			agg[k].bad = bad
		}
	}
	for _, p := range paths {
		if p.End != "return" {
			note("config.loadDirectory$cb/ends", "path ends with "+p.End)
			continue
		}
		reads := p.Calls(rdc)
		var sets []Effect
		for _, e := range p.Effects {
			if e.Kind == "mapset" && rootOp(e.Args[0]) != "makemap" {
				sets = append(sets, e)
			}
		}
		retNil := p.Ret[0].IsNil()
		// which case?
		isDir, hasSuffix, suffixKnown, dirKnown := false, false, false, false
		readErr, readKnown := false, false
		paramErr, paramErrKnown := false, false
		for _, a := range p.Atoms {
			cnd, taken := a.Cond, a.Taken
			for cnd.Op == "unop" {
				cnd, taken = cnd.Args[0], !taken
			}
			switch {
			case cnd.Op == "call" && strings.HasPrefix(cnd.Aux, ".IsDir"):
				isDir, dirKnown = taken, true
			case cnd.Op == "call" && strings.HasPrefix(cnd.Aux, "strings.HasSuffix"):
				hasSuffix, suffixKnown = taken, true
				if s, ok := cnd.Args[1].IsStringConst(); !ok || s != ".toml" {
					note("config.loadDirectory$cb/suffix", "file filter is not the suffix \".toml\"")
				}
				if !strings.Contains(cnd.Args[0].String(), "strings.ToLower") {
					note("config.loadDirectory$cb/suffix", "file filter is case sensitive")
				}
			case cnd.Op == "binop" && (cnd.Aux == "!=" || cnd.Aux == "==") && cnd.Args[1].IsNil():
				ne := taken == (cnd.Aux == "!=")
				if cnd.Args[0].Op == "param" {
					paramErr, paramErrKnown = ne, true
				} else if strings.Contains(cnd.Args[0].String(), "readDeviceConfig") {
					readErr, readKnown = ne, true
				}
			}
		}
		switch {
		case paramErrKnown && paramErr:
			k := "config.loadDirectory$cb/walk-error"
			if len(reads)+len(sets) > 0 {
				note(k, "on a walk error the callback still reads or stores a configuration")
			} else {
				note(k, "")
			}
		case dirKnown && isDir:
			k := "config.loadDirectory$cb/directory"
			if len(reads)+len(sets) > 0 || !retNil {
				note(k, "a directory entry must be skipped without reading (return nil)")
			} else {
				note(k, "")
			}
		case suffixKnown && !hasSuffix:
			k := "config.loadDirectory$cb/non-toml"
			if len(reads)+len(sets) > 0 || !retNil {
				note(k, "a non-.toml file must be skipped without reading (return nil)")
			} else {
				note(k, "")
			}
		case readKnown && readErr:
			k := "config.loadDirectory$cb/parse-failure"
			if len(sets) > 0 {
				note(k, "a file that failed to load still stores an entry")
			} else if !retNil {
				note(k, "a file that failed to load aborts the walk (returns a non-nil error): the other files are not loaded")
			} else {
				note(k, "")
			}
		case readKnown && !readErr:
			k := "config.loadDirectory$cb/success"
			if len(sets) != 1 || !retNil {
				note(k, "a loaded configuration must be stored exactly once and the walk continue")
			} else {
				e := sets[0]
				if e.Args[0].Op != "freevar" && !(e.Args[0].Op == "load" && e.Args[0].Args[0].Op == "freevar") && !receiverFieldIsParam(ld, cb, e.Args[0]) && !rowMapOfReceiver(ld, e.Args[0]) {
					note(k, "entry stored into something else than the directory's map: "+e.Args[0].String())
				} else if !strings.HasSuffix(e.Args[1].String(), ".Config.ID") {
					note(k, "entry stored under "+e.Args[1].String()+" instead of the configuration's identifier")
				} else {
					note(k, "")
				}
			}
		default:
			note("config.loadDirectory$cb/unclassified", "path could not be classified: "+atomsString(p))
		}
	}
	for _, need := range []string{"directory", "non-toml", "parse-failure", "success"} {
		if agg["config.loadDirectory$cb/"+need] == nil {
			c.Bad("R12.3", "config.loadDirectory$cb/"+need, pos, "the callback has no such case")
		}
	}
	for _, k := range sortedKeys(agg) {
		if agg[k].bad != "" {
			c.Bad("R12.3", k, pos, agg[k].bad)
		} else {
			c.OK("R12.3", k, pos, fmt.Sprintf("%d path(s)", agg[k].n))
		}
	}
}

// ---- R12.4 Walk-callback protocol (generic; also run on the controls) ----------------------------

// ruleWalkProtocol: in a callback passed to path/filepath.Walk or WalkDir the FileInfo/DirEntry
// parameter may only be used where the error parameter has been tested nil.
func ruleWalkProtocol(c *Ctx, p *Program, rule string) (violations, total int) {
	for _, w := range walkCallbacks(p) {
		if !strings.HasPrefix(w.walker, "path/filepath.") {
			continue // io/fs.WalkDir over an embedded FS: roots are compile-time facts
		}
		total++
		cb := w.fn
		if len(cb.Params) < 3 {
			continue
		}
		info, errp := cb.Params[len(cb.Params)-2], cb.Params[len(cb.Params)-1]
		vw := NewFnView(p, cb)
		key := "walk-callback@" + shortFn(cb) + "/info-used-after-err-check"
		bad := ""
		var badPos token.Pos
		uses := 0
		for _, r := range *info.Referrers() {
			if _, isDbg := r.(*ssa.DebugRef); isDbg {
				continue
			}
			uses++
			guarded := false
			for _, a := range vw.GuardsAt(r.Block()) {
				op, x, y, ok := normAtom(a)
				if !ok {
					continue
				}
				if x.IsNil() {
					x, y = y, x
				}
				if x.Op == "param" && x.Aux == errp.Name() && y.IsNil() && op == "==" {
					guarded = true
				}
			}
			if !guarded {
				bad = fmt.Sprintf("parameter %q is used where %q has not been tested: filepath.Walk calls the function with a nil %s when the root (or an entry) cannot be lstat'ed, so a missing directory crashes with a nil dereference instead of producing an error", info.Name(), errp.Name(), info.Name())
				badPos = r.Pos()
			}
		}
		if c != nil {
			if bad != "" {
				c.Bad(rule, key, p.Pos(badPos), bad)
			} else {
				c.OK(rule, key, p.Pos(cb.Pos()), fmt.Sprintf("%d use(s) of the info parameter, all dominated by err == nil", uses))
			}
		}
		if bad != "" {
			violations++
		}
	}
	return
}

func controlsC12(p *Program) []controlResult {
	v, total := ruleWalkProtocol(nil, p, "R12.4")
	// controls/walk has one broken and one correct callback
	ok := total == 2 && v == 1
	return []controlResult{{Name: "R12.4 walk-callback protocol fires on controls/walk.Bad and not on controls/walk.Good", OK: ok, Detail: fmt.Sprintf("callbacks=%d violations=%d (expected 2 and 1)", total, v)}}
}

// receiverFieldIsParam: t is `recv.F` inside the method cb (a Walk callback given as a method value) and the function
// that builds the receiver (host) stores one of its own map-typed parameters into field F.
func receiverFieldIsParam(host, cb *ssa.Function, t *Term) bool {
	if cb.Signature.Recv() == nil || len(cb.Params) == 0 {
		return false
	}
	t = t.StripConv()
	var f *types.Var
	switch {
	case t.Op == "field" && len(t.Args) == 1 && t.Args[0].Op == "param" && t.Args[0].Aux == cb.Params[0].Name():
		f, _ = t.Obj.(*types.Var)
	case t.Op == "load" && len(t.Args) == 1 && t.Args[0].Op == "fieldaddr" && len(t.Args[0].Args) == 1:
		base := t.Args[0].Args[0]
		if base.Op == "param" && base.Aux == cb.Params[0].Name() || base.Op == "alloc" {
			f, _ = t.Args[0].Obj.(*types.Var)
		}
	}
	if f == nil {
		return false
	}
	for _, b := range host.Blocks {
		for _, in := range b.Instrs {
			st, ok := in.(*ssa.Store)
			if !ok {
				continue
			}
			if g := fieldOfAddr(st.Addr); g != nil && sameField(g, f) {
				if _, isParam := st.Val.(*ssa.Parameter); isParam {
					return true
				}
			}
		}
	}
	return false
}

// rowMapOfReceiver: the loader is a method of the row type (`(dir *dirInfo) loadDirectory()`) and t is the map field of the
// row it was called on, reached from the callback through the captured receiver.
func rowMapOfReceiver(host *ssa.Function, t *Term) bool {
	if host.Signature.Recv() == nil {
		return false
	}
	t = t.StripConv()
	if t.Op != "load" || len(t.Args) != 1 || t.Args[0].Op != "fieldaddr" {
		return false
	}
	if f, ok := t.Args[0].Obj.(*types.Var); !ok {
		return false
	} else if _, isMap := f.Type().Underlying().(*types.Map); !isMap {
		return false
	}
	base := t.Args[0].Args[0]
	if base.Op == "load" && len(base.Args) == 1 {
		base = base.Args[0]
	}
	return base.Op == "freevar" || base.Op == "param"
}

// ruleReadIsParse: R12.6 a file is registered only with the configuration ParseData accepted for it: every nil-error
// return of readDeviceConfig hands out a DeviceConfig whose Config is the first result of the ParseData call whose error
// was found nil on that path (an empty or unreadable file must not yield an "empty success").
func ruleReadIsParse(c *Ctx) {
	fn := c.P.Func(pkgConfig, "", "readDeviceConfig")
	pd := c.P.Func(pkgConfig, "", "ParseData")
	if !c.Require(fn != nil && pd != nil, "R12.6", "anchor:config.readDeviceConfig", "readDeviceConfig/ParseData not found") {
		return
	}
	c.Fn(shortFn(fn))
	paths, err := Enumerate(fn, SymConfig{Prog: c.P, MaxDepth: 2, Collapse: true, NoInline: map[*ssa.Function]bool{pd: true}})
	if !c.Require(err == nil, "R12.6", "config.readDeviceConfig/paths", fmt.Sprint(err)) {
		return
	}
	c.Paths += len(paths)
	pos := c.P.Pos(fn.Pos())
	n, bad := 0, ""
	for _, p := range paths {
		if p.End != "return" || len(p.Ret) != 2 || !knownNilOnPath(p, p.Ret[1]) {
			continue
		}
		n++
		calls := p.Calls(pd)
		if len(calls) != 1 {
			bad = fmt.Sprintf("a success return is reached with %d ParseData call(s) on the path: a file is registered without having been parsed", len(calls))
			continue
		}
		// ParseData's error was tested nil on this path
		errNil := false
		for _, a := range p.Atoms {
			op, l, r, ok := normAtom(a)
			if !ok {
				continue
			}
			if r.IsNil() && op == "==" && strings.Contains(l.String(), pd.Name()) && l.Op == "extract" && l.Aux == "1" {
				errNil = true
			}
			if l.IsNil() && op == "==" && strings.Contains(r.String(), pd.Name()) && r.Op == "extract" && r.Aux == "1" {
				errNil = true
			}
		}
		if !errNil {
			bad = "a success return does not depend on ParseData's error being nil"
			continue
		}
		// what is parsed is the whole content of the file at the given path: io.ReadAll of the opened file itself (no limiting
		// or buffering reader in between that could cut it short), or os.ReadFile
		{
			data := calls[0].Args[0].StripConv()
			isCallTo := func(t *Term, names ...string) bool {
				if t.Op != "extract" || t.Aux != "0" || len(t.Args) != 1 || t.Args[0].Op != "call" {
					return false
				}
				for _, n := range names {
					if strings.HasPrefix(t.Args[0].Aux, n+"#") || t.Args[0].Aux == n {
						return true
					}
				}
				return false
			}
			whole := false
			switch {
			case isCallTo(data, "os.ReadFile", "io/ioutil.ReadFile"):
				whole = len(data.Args[0].Args) > 0 && data.Args[0].Args[0].Op == "param"
			case isCallTo(data, "io.ReadAll", "io/ioutil.ReadAll"):
				if len(data.Args[0].Args) > 0 {
					rd := data.Args[0].Args[0].StripConv()
					whole = isCallTo(rd, "os.OpenFile", "os.Open") && len(rd.Args[0].Args) > 0 && rd.Args[0].Args[0].Op == "param"
				}
			}
			if !whole {
				bad = "what is handed to ParseData is not the complete content of the file (io.ReadAll of the opened file, or os.ReadFile): " + truncate(data.String(), 160) + " - a reader that limits or re-slices the input lets a cut-off file be accepted with its later mappings missing"
				continue
			}
		}
		// the returned struct carries ParseData's first result
		if !p.Ret[0].Any(func(x *Term) bool {
			return x.Op == "extract" && x.Aux == "0" && len(x.Args) == 1 && x.Args[0].Op == "call" && strings.Contains(x.Args[0].Aux, pd.Name())
		}) {
			bad = "the DeviceConfig handed out on success does not carry the configuration ParseData returned: " + truncate(p.Ret[0].String(), 140)
		}
	}
	if n == 0 {
		c.Undec("R12.6", "config.readDeviceConfig/success-returns", pos, "no nil-error return found")
		return
	}
	c.Check(bad == "", "R12.6", "config.readDeviceConfig/success=parsed", pos, fmt.Sprintf("%d success path(s), each returns ParseData's result under its nil error", n), bad)
}

// readIsParseRules: R12.6 alone, for import by C10 (what the file states is what is parsed: the whole file).
func readIsParseRules(c *Ctx) { ruleReadIsParse(c) }

// knownNilOnPath: t is the nil constant, or the path has found t equal to nil (`return cfg, err` behind `if err == nil`).
func knownNilOnPath(p *Path, t *Term) bool {
	if t.IsNil() {
		return true
	}
	key := t.String()
	for _, a := range p.Atoms {
		op, l, r, ok := normAtom(a)
		if !ok || op != "==" {
			continue
		}
		if r.IsNil() && l.String() == key || l.IsNil() && r.String() == key {
			return true
		}
	}
	return false
}

// ruleParsedConfigNotAltered: R12.10 (imported by C14 as R14.8). What a device is built from is what the parser made of
// its file: outside the parser (ParseData and the stage functions it is split into) no function of the repository stores
// into a field of a config.Config value. A loader that "completes" parsed configurations - an exit sequence for keyboards
// whose file gave none - makes devices act on something no file says (C14: "with an empty exit sequence the signal is
// never raised"), and the parser has no way to tell an absent list from an explicitly empty one afterwards.
func ruleParsedConfigNotAltered(c *Ctx, rule string) {
	pf := newParserFacts(c)
	if !c.Require(pf.err == nil, rule, "config.ParseData", fmt.Sprint(pf.err)) {
		return
	}
	n, bad, badPos := 0, "", ""
	for _, fn := range c.P.Funcs {
		top := topFunc(fn)
		if pf.region[top] || pf.region[fn] || len(fn.Blocks) == 0 || strings.HasSuffix(funcPkgPath(top), "/controls") {
			continue
		}
		for _, b := range fn.Blocks {
			for _, in := range b.Instrs {
				var fa *ssa.FieldAddr
				switch x := in.(type) {
				case *ssa.Store:
					fa, _ = x.Addr.(*ssa.FieldAddr)
				case *ssa.MapUpdate:
					// a map that is a field of a Config reached from a Config value
					if ld, ok := x.Map.(*ssa.UnOp); ok {
						fa, _ = ld.X.(*ssa.FieldAddr)
					}
				}
				if fa == nil {
					continue
				}
				named, ok := deref(fa.X.Type()).(*types.Named)
				if !ok || named.Obj().Pkg() == nil || named.Obj().Pkg().Path() != pkgConfig || named.Obj().Name() != "Config" {
					continue
				}
				// a Config being assembled in a local literal of this function is its own (tests helpers, defaults): only
				// values that came from elsewhere count
				if a, isAlloc := fa.X.(*ssa.Alloc); isAlloc && wholeStore(a) == nil {
					continue
				}
				n++
				if bad == "" {
					bad = fmt.Sprintf("%s stores into Config.%s outside the parser: the configuration a device is built from is then not what its file says", shortFn(fn), fieldOfAddr(fa).Name())
					badPos = c.P.Pos(in.Pos())
				}
			}
		}
	}
	if bad != "" {
		c.Bad(rule, "config.Config/fields-written-by-the-parser-only", badPos, bad)
	} else {
		c.OK(rule, "config.Config/fields-written-by-the-parser-only", "-", "no store into a field of a config.Config value outside ParseData and its stage functions")
	}
}

// parsedConfigRules: R12.10 alone (imported by C14).
func parsedConfigRules(c *Ctx) { ruleParsedConfigNotAltered(c, "R12.10") }
