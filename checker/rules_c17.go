package main

import (
	"fmt"
	"go/constant"
	"go/token"
	"go/types"
	"sort"
	"strings"

	"golang.org/x/tools/go/ssa"
)

func init() {
	registry["C17"] = checkC17
}

func checkC17(c *Ctx) {
	dv := newDev(c, "R17.0")
	if !dv.ok || !dv.need("R17.0", []string{"handleInputEvents", "handleOpenrgb", "Panic", "ProcessEvents", "NoteOn"},
		[]string{"externalNoteTracker", "externalTrackerMutex", "eventProcessMutex", "octave", "semitone", "channel", "mapping", "noteTracker"}) {
		return
	}
	ruleVelocityZero(c, dv)
	ruleLedIndices(c, dv)
	ruleFinalRedFrame(c, dv)
	ruleExternalReset(c, dv, dv.fn["Panic"], "R17.4")
	ruleFrameUnderLocks(c, dv)
	ruleLedOffset(c, dv)
	c.MinCount("R17.1", 2)
	c.MinCount("R17.2", 4)
	c.MinCount("R17.3", 1)
	c.MinCount("R17.5", 5)
	c.MinCount("R17.6", 1)
	c.DecidedClause("MIDI-input tracking lights a key only for a Note On with non-zero velocity and clears it for Note Off and for Note On with velocity 0, under the tracker mutex; no LED slot is written through a failed map lookup; after the refresh loop every LED is set to red and the frame is sent; panic replaces the external highlight map; the whole frame is computed and sent inside one critical section of the event mutex (external notes under their own mutex); the LED transposition offset is the same affine int form 12*octave+semitone as in NoteOn")
	c.UndecidedClause("the colour function itself (which colour each LED shows for each reachable state and LED layout): a 170-line value-level function of the device state; deciding it means evaluating it, which is testing, not static analysis")
	c.Assumption("len(dev.Colors) == len(dev.LEDs) (OpenRGB protocol)")
}

// velocityTerm: t is the velocity byte of a MIDI event (ev[2] or ev.Velocity()).
func velocityTerm(t *Term) bool {
	t = t.StripConv()
	switch t.Op {
	case "index":
		k, ok := t.Args[1].IsIntConst()
		return ok && k == 2
	case "load":
		if t.Args[0].Op == "indexaddr" {
			k, ok := t.Args[0].Args[1].IsIntConst()
			return ok && k == 2
		}
	case "call":
		return strings.Contains(t.Aux, ".Velocity")
	}
	return false
}

// ruleVelocityZero: R17.1.
func ruleVelocityZero(c *Ctx, dv *dev) {
	fn := dv.fn["handleInputEvents"]
	c.Fn(shortFn(fn))
	vw := NewFnView(c.P, fn)
	ext := dv.fields["externalNoteTracker"]
	noteOn, _ := c.P.constValue(pkgMidi, "NoteOn")
	onV, _ := constant.Int64Val(noteOn)
	sets, dels := 0, 0
	delOnZero, delOnOff := false, false
	noteOff, _ := c.P.constValue(pkgMidi, "NoteOff")
	offV, _ := constant.Int64Val(noteOff)
	for _, b := range fn.Blocks {
		for _, in := range b.Instrs {
			switch x := in.(type) {
			case *ssa.MapUpdate:
				if !derivesFromField(x.Map, ext, map[ssa.Value]bool{}) {
					continue
				}
				k, isK := x.Value.(*ssa.Const)
				if !isK || k.Value == nil || !constant.BoolVal(k.Value) {
					continue
				}
				sets++
				key := fmt.Sprintf("device.handleInputEvents/mark-sounding#%d", sets)
				pos := c.P.Pos(x.Pos())
				atoms := vw.GuardsAt(b)
				nonZero := false
				for _, a := range atoms {
					op, l, r, ok := normAtom(a)
					if !ok {
						continue
					}
					if _, isC := l.IsConst(); isC {
						l, r, op = r, l, flipOp(op)
					}
					if kk, isKK := r.IsIntConst(); isKK && velocityTerm(l) {
						bd := boundsFrom([]Atom{a}, l.String(), bound{lo: 0, hi: 255, hasLo: true, hasHi: true})
						if bd.lo >= 1 {
							nonZero = true
						}
						_ = kk
					}
				}
				locked := heldAt(x, dv.fields["externalTrackerMutex"])
				switch {
				case !nonZero:
					c.Bad("R17.1", key, pos, "a key is marked as sounding for every Note On without looking at the velocity: a Note On with velocity 0 (the running-status spelling of Note Off that most keyboards send) lights the key and it stays lit")
				case !locked:
					c.Bad("R17.1", key, pos, "external tracker written without its mutex")
				default:
					c.OK("R17.1", key, pos, "marked only under a dominating velocity != 0 test, with the tracker mutex held")
				}
			case *ssa.Call:
				bi, ok := x.Call.Value.(*ssa.Builtin)
				if !ok || bi.Name() != "delete" || !derivesFromField(x.Call.Args[0], ext, map[ssa.Value]bool{}) {
					continue
				}
				dels++
				atoms := vw.GuardsAt(b)
				isOn, zero := false, false
				for _, a := range atoms {
					op, l, r, ok := normAtom(a)
					if !ok {
						continue
					}
					if _, isC := l.IsConst(); isC {
						l, r, op = r, l, flipOp(op)
					}
					kk, isKK := r.IsIntConst()
					if !isKK {
						continue
					}
					if op == "==" && kk == onV && strings.Contains(l.String(), ".Type") {
						isOn = true
					}
					if op == "==" && kk == offV && strings.Contains(l.String(), ".Type") {
						delOnOff = true
					}
					if velocityTerm(l) {
						bd := boundsFrom([]Atom{a}, l.String(), bound{lo: 0, hi: 255, hasLo: true, hasHi: true})
						if bd.hi == 0 {
							zero = true
						}
					}
				}
				if isOn && zero {
					delOnZero = true
				}
				if !heldAt(x, dv.fields["externalTrackerMutex"]) {
					c.Bad("R17.1", fmt.Sprintf("device.handleInputEvents/clear#%d", dels), c.P.Pos(x.Pos()), "external tracker written without its mutex")
				}
			}
		}
	}
	pos := c.P.Pos(fn.Pos())
	if sets == 0 {
		c.Undec("R17.1", "device.handleInputEvents/mark-sounding", pos, "no store of `true` into the external tracker found")
	}
	c.Check(delOnZero, "R17.1", "device.handleInputEvents/note-on-velocity-0-clears", pos, "a Note On with velocity 0 deletes the entry like a Note Off",
		"no branch clears the entry for a Note On with velocity 0: the external highlight of that key is never removed")
	c.Check(delOnOff, "R17.1", "device.handleInputEvents/note-off-clears", pos, fmt.Sprintf("%d delete site(s) on the external tracker, one of them under Type() == NoteOff", dels), "Note Off does not clear the external highlight")
}

// ruleLedIndices: R17.2.
func ruleLedIndices(c *Ctx, dv *dev) {
	root := dv.fn["handleOpenrgb"]
	c.Fn(shortFn(root))
	type site struct {
		ok  bool
		why string
		pos token.Pos
		n   int
	}
	sites := map[string]*site{}
	fns := append([]*ssa.Function{root}, root.AnonFuncs...)
	for _, fn := range fns {
		vw := NewFnView(c.P, fn)
		for _, b := range fn.Blocks {
			for _, in := range b.Instrs {
				ia, ok := in.(*ssa.IndexAddr)
				if !ok {
					continue
				}
				st, ok := ia.X.Type().Underlying().(*types.Slice)
				if !ok {
					continue
				}
				if n, ok := st.Elem().(*types.Named); !ok || n.Obj().Name() != "Color" {
					continue
				}
				// only stores into the LED array
				isStore := false
				for _, r := range *ia.Referrers() {
					if s, ok := r.(*ssa.Store); ok && s.Addr == ia {
						isStore = true
					}
				}
				if !isStore {
					continue
				}
				key, okIdx, why := classifyLedIndex(vw, ia.Index, b)
				s := sites[key]
				if s == nil {
					s = &site{ok: true, pos: ia.Pos()}
					sites[key] = s
				}
				s.n++
				if !okIdx {
					s.ok, s.why = false, why
				} else if s.why == "" {
					s.why = why
				}
			}
		}
	}
	var keys []string
	for k := range sites {
		keys = append(keys, k)
	}
	sort.Strings(keys)
	for _, k := range keys {
		s := sites[k]
		key := "device.handleOpenrgb/" + k
		if s.ok {
			c.OK("R17.2", key, c.P.Pos(s.pos), fmt.Sprintf("%d write(s): %s", s.n, s.why))
		} else {
			c.Bad("R17.2", key, c.P.Pos(s.pos), fmt.Sprintf("%d write(s) index the LED array with the zero default of a failed map lookup (%s): for a layout without that LED, or a configuration without that action, LED 0 is painted; with an empty LED array the refresh goroutine panics (index out of range)", s.n, s.why))
		}
	}
}

func classifyLedIndex(vw *FnView, idx ssa.Value, at *ssa.BasicBlock) (key string, ok bool, why string) {
	switch x := idx.(type) {
	case *ssa.Const:
		return "ledArray[const]", false, "constant index"
	case *ssa.Lookup:
		// plain (not comma-ok) map lookup used as index
		inner := "?"
		switch k := x.Index.(type) {
		case *ssa.Lookup:
			if kc, isC := k.Index.(*ssa.Const); isC && kc.Value != nil {
				inner = strings.Trim(kc.Value.ExactString(), `"`)
			}
			return "ledArray[indexMap[actionToEvcode[" + inner + "]]]", false, "indexMap[...] read without comma-ok"
		default:
			return "ledArray[" + mapName(x.X) + "[key]]", false, mapName(x.X) + "[...] read without comma-ok"
		}
	case *ssa.Extract:
		if lk, isLk := x.Tuple.(*ssa.Lookup); isLk && lk.CommaOk && x.Index == 0 {
			// the ok flag must be known true here
			var okExt *ssa.Extract
			for _, r := range *lk.Referrers() {
				if e, isE := r.(*ssa.Extract); isE && e.Index == 1 {
					okExt = e
				}
			}
			if okExt != nil {
				want := vw.Term(okExt).String()
				if v, found := boolAtom(vw.GuardsAt(at), want); found && v {
					return "ledArray[id from comma-ok " + mapName(lk.X) + "]", true, "index from the hit edge of a comma-ok lookup"
				}
			}
			return "ledArray[id from comma-ok " + mapName(lk.X) + "]", false, "comma-ok lookup whose ok flag is not tested before use"
		}
	case *ssa.Phi, *ssa.BinOp:
		if nonNegativeIndex(idx) {
			return "ledArray[loop index]", true, "loop index over the array"
		}
	case *ssa.UnOp:
		// local variable (spilled) assigned from a comma-ok extract
		if a, isA := x.X.(*ssa.Alloc); isA {
			if w := wholeStore(a); w != nil {
				return classifyLedIndex(vw, w, at)
			}
		}
	}
	return "ledArray[?]", false, "index of unknown origin " + idx.String()
}

func mapName(v ssa.Value) string {
	switch x := v.(type) {
	case *ssa.UnOp:
		if fv, ok := x.X.(*ssa.FreeVar); ok {
			return fv.Name()
		}
	}
	return types.TypeString(v.Type(), func(p *types.Package) string { return p.Name() })
}

// ruleFinalRedFrame: R17.3.
func ruleFinalRedFrame(c *Ctx, dv *dev) {
	fn := dv.fn["handleOpenrgb"]
	pos := c.P.Pos(fn.Pos())
	// the UpdateLEDs call that is not inside a loop
	var final *ssa.Call
	var inLoop []*ssa.Call
	for _, b := range fn.Blocks {
		for _, in := range b.Instrs {
			if call, ok := in.(*ssa.Call); ok {
				if callee := call.Call.StaticCallee(); callee != nil && callee.Name() == "UpdateLEDs" {
					if inCycle(b) {
						inLoop = append(inLoop, call)
					} else {
						final = call
					}
				}
			}
		}
	}
	key := "device.handleOpenrgb/final-red-frame"
	if final == nil || len(inLoop) == 0 {
		c.Bad("R17.3", key, pos, "no UpdateLEDs call after the refresh loop: the LEDs keep their last colours on disconnect")
		return
	}
	// a loop that stores Color{Red: 0xff} into every element dominates the final call
	red := false
	for _, b := range fn.Blocks {
		if !inCycle(b) || !blockDominatesOrSame(b, final.Block()) && !reachesBlock(b, final.Block()) {
			continue
		}
		for _, in := range b.Instrs {
			st, ok := in.(*ssa.Store)
			if !ok {
				continue
			}
			ia, ok := st.Addr.(*ssa.IndexAddr)
			if !ok || ia.X != final.Call.Args[len(final.Call.Args)-1] && !sameSliceVar(ia.X, final.Call.Args[len(final.Call.Args)-1]) {
				continue
			}
			if isRedLiteral(st.Val) && nonNegativeIndex(ia.Index) {
				// the loop is after the refresh loop: it cannot reach an in-loop UpdateLEDs
				after := true
				for _, u := range inLoop {
					if reachesBlock(b, u.Block()) {
						after = false
					}
				}
				if after {
					red = true
				}
			}
		}
	}
	// every return reachable after the refresh loop passes the final call
	okRet := true
	for _, b := range fn.Blocks {
		if b == fn.Recover {
			continue
		}
		if _, isRet := b.Instrs[len(b.Instrs)-1].(*ssa.Return); isRet {
			for _, u := range inLoop {
				if reachesBlock(u.Block(), b) && !blockDominatesOrSame(final.Block(), b) {
					okRet = false
				}
			}
		}
	}
	c.Check(red && okRet, "R17.3", key, c.P.Pos(final.Pos()), "every LED is set to {Red: 0xff} by a loop over the array and the frame is sent on every exit of the refresh loop",
		fmt.Sprintf("on disconnect the last frame is not all red on every exit (red loop=%v, on every exit=%v)", red, okRet))
}

func sameSliceVar(a, b ssa.Value) bool {
	la, ok1 := a.(*ssa.UnOp)
	lb, ok2 := b.(*ssa.UnOp)
	if ok1 && ok2 && la.X == lb.X {
		return true
	}
	// phi / same value
	return a == b
}

func reachesBlock(from, to *ssa.BasicBlock) bool {
	seen := map[*ssa.BasicBlock]bool{}
	stack := append([]*ssa.BasicBlock{}, from.Succs...)
	for len(stack) > 0 {
		b := stack[len(stack)-1]
		stack = stack[:len(stack)-1]
		if b == to {
			return true
		}
		if seen[b] {
			continue
		}
		seen[b] = true
		stack = append(stack, b.Succs...)
	}
	return false
}

func isRedLiteral(v ssa.Value) bool {
	// load of a struct literal alloc with Red = 255 and nothing else
	lit := literalOf(v)
	if lit == nil {
		return false
	}
	fields := compositeFields(lit)
	okRed := false
	for f, val := range fields {
		k, isK := val.(*ssa.Const)
		if !isK {
			return false
		}
		switch f.Name() {
		case "Red":
			okRed = k.Int64() == 255
		default:
			if k.Int64() != 0 {
				return false
			}
		}
	}
	return okRed
}

// ruleFrameUnderLocks: R17.5.
func ruleFrameUnderLocks(c *Ctx, dv *dev) {
	named, _ := c.P.Struct(pkgDevice, "Device")
	la := newLockAnalysis(c.P, named)
	fn := dv.fn["handleOpenrgb"]
	la.Walk("T:handleOpenrgb", fn, lockset{}, nil)
	need := map[string]string{"octave": "field:eventProcessMutex", "semitone": "field:eventProcessMutex", "channel": "field:eventProcessMutex",
		"mapping": "field:eventProcessMutex", "noteTracker": "field:eventProcessMutex", "externalNoteTracker": "field:externalTrackerMutex"}
	cnt := map[string][2]int{}
	for _, a := range la.accesses {
		lk, watched := need[a.Field.Name()]
		if !watched {
			continue
		}
		v := cnt[a.Field.Name()]
		if a.Locks[lk] {
			v[0]++
		} else {
			v[1]++
		}
		cnt[a.Field.Name()] = v
	}
	var names []string
	for n := range need {
		names = append(names, n)
	}
	sort.Strings(names)
	for _, n := range names {
		v := cnt[n]
		key := "device.handleOpenrgb/reads(Device." + n + ")-under-" + strings.TrimPrefix(need[n], "field:")
		if v[0]+v[1] == 0 {
			c.Trivial("R17.5", key, c.P.Pos(fn.Pos()), "field not read by the LED loop")
			continue
		}
		c.Check(v[1] == 0, "R17.5", key, c.P.Pos(fn.Pos()), fmt.Sprintf("%d read(s), all inside the critical section", v[0]),
			fmt.Sprintf("%d of %d read(s) happen outside the critical section: the frame can mix two device states", v[1], v[0]+v[1]))
	}
	// the in-loop UpdateLEDs is sent inside the same critical section
	for _, b := range fn.Blocks {
		for _, in := range b.Instrs {
			if call, ok := in.(*ssa.Call); ok && inCycle(b) {
				if callee := call.Call.StaticCallee(); callee != nil && callee.Name() == "UpdateLEDs" {
					c.Check(heldAt(call, dv.fields["eventProcessMutex"]), "R17.5", "device.handleOpenrgb/frame-sent-in-critical-section", c.P.Pos(call.Pos()),
						"UpdateLEDs is called while the event mutex is still held", "the frame is sent after the event mutex was released")
				}
			}
		}
	}
}

// ruleLedOffset: R17.6 the LED transposition offset agrees with NoteOn.
func ruleLedOffset(c *Ctx, dv *dev) {
	fn := dv.fn["handleOpenrgb"]
	vw := NewFnView(c.P, fn)
	found := false
	for _, b := range fn.Blocks {
		for _, in := range b.Instrs {
			bo, ok := in.(*ssa.BinOp)
			if !ok || bo.Op != token.ADD || !isIntegerType(bo.Type()) {
				continue
			}
			t := vw.Term(bo)
			if !t.LoadsField(dv.fields["octave"]) || !t.LoadsField(dv.fields["semitone"]) {
				continue
			}
			// the outermost sum only
			outer := true
			for _, r := range *bo.Referrers() {
				if p, ok := r.(*ssa.BinOp); ok && p.Op == token.ADD && vw.Term(p).LoadsField(dv.fields["octave"]) && !strings.Contains(vw.Term(p).String(), ".Note") {
					outer = false
				}
			}
			if !outer {
				continue
			}
			found = true
			key := "device.handleOpenrgb/transposition-offset"
			l := linearize(t)
			bad := ""
			if !l.ok {
				bad = "offset is not an affine int form: " + l.why
			} else {
				oct, semi := int64(0), int64(0)
				for k, coef := range l.coef {
					switch {
					case dv.isFieldLoad(l.terms[k], "octave"):
						oct = coef
					case dv.isFieldLoad(l.terms[k], "semitone"):
						semi = coef
					case strings.HasSuffix(k, ".Note"):
					default:
						bad = "unexpected operand " + k
					}
				}
				if bad == "" && (oct != 12 || semi != 1) {
					bad = fmt.Sprintf("offset = %s: coefficients differ from NoteOn's 12*octave + semitone", l.String())
				}
			}
			c.Check(bad == "", "R17.6", key, c.P.Pos(bo.Pos()), "offset = 12*octave + semitone computed in int ("+l.String()+")", bad+": the LEDs would show a different transposition than the one that sounds")
		}
	}
	if !found {
		c.Undec("R17.6", "device.handleOpenrgb/transposition-offset", c.P.Pos(fn.Pos()), "offset computation not found")
	}
}
