package main

import (
	"fmt"
	"go/constant"
	"go/token"
	"go/types"
	"os"
	"sort"
	"strings"

	"golang.org/x/tools/go/ssa"
)

func init() {
	registry["C17"] = checkC17
}

func checkC17(c *Ctx) {
	dv := newDev(c, "R17.0")
	if !dv.ok || !dv.need("R17.0", []string{"handleInputEvents", "handleOpenrgb", "Panic", "ProcessEvents", "NoteOn"},
		[]string{"externalNoteTracker", "externalTrackerMutex", "eventProcessMutex", "octave", "semitone", "channel", "mapping", "noteTracker"}) {
		return
	}
	ruleVelocityZero(c, dv)
	ruleLedIndices(c, dv)
	ruleFinalRedFrame(c, dv)
	ruleExternalReset(c, dv, dv.fn["Panic"], "R17.4")
	ruleFrameUnderLocks(c, dv)
	ruleLedOffset(c, dv)
	ruleLayerOrder(c, dv)
	ruleNoNarrowTransposition(c, dv)
	ruleConfiguredColourUnmodified(c, dv)
	c.importRules(ownControllerRules, []string{"R16.11"}, "R17.13")             // the frame goes to the controller that belongs to this device: not to one handed out to every device that asks
	c.importRules(noSharedStateRules, []string{"R16.5"}, "R17.12")              // the highlight state belongs to one device object: nothing shared with other devices or earlier attaches
	c.importRules(transportRules, []string{"R15.1", "R15.2", "R15.3"}, "R17.8") // MIDI-input messages reach every connected device (fan-out ids, delivery loop)
	c.MinCount("R17.7", 8)
	c.MinCount("R17.1", 4)
	c.MinCount("R17.2", 3)
	c.MinCount("R17.3", 1)
	c.MinCount("R17.5", 5)
	c.MinCount("R17.6", 1)
	c.MinCount("R17.10", 1)
	c.MinCount("R17.11", 1)
	c.DecidedClause("MIDI-input tracking lights a key only for a Note On with non-zero velocity and clears it for Note Off and for Note On with velocity 0, under the tracker mutex; no LED slot is written through a failed map lookup; after the refresh loop every LED is set to red and the frame is sent; panic replaces the external highlight map; the whole frame is computed and sent inside one critical section of the event mutex (external notes under their own mutex); the LED transposition offset is the same affine int form 12*octave+semitone as in NoteOn, and no value computed from it is narrowed to 8 bits unless guards bound it to the narrow type's range")
	c.UndecidedClause("the colour function itself (which colour each LED shows for each reachable state and LED layout): a 170-line value-level function of the device state; deciding it means evaluating it, which is testing, not static analysis")
	c.Assumption("len(dev.Colors) == len(dev.LEDs) (OpenRGB protocol)")
}

// velocityTerm: t is the velocity byte of a MIDI event (ev[2] or ev.Velocity()).
func velocityTerm(t *Term) bool {
	t = t.StripConv()
	switch t.Op {
	case "index":
		k, ok := t.Args[1].IsIntConst()
		return ok && k == 2
	case "load":
		if t.Args[0].Op == "indexaddr" {
			k, ok := t.Args[0].Args[1].IsIntConst()
			return ok && k == 2
		}
	case "call":
		return strings.Contains(t.Aux, ".Velocity")
	}
	return false
}

// ruleVelocityZero: R17.1, decided on the paths of one iteration of the MIDI-input loop: under every assumption about
// the received message (Note On with velocity > 0, Note On with velocity 0, Note Off, another type) every path that
// is consistent with it must light / clear / leave alone the key, whatever shape (switch, if-chain, merged branches)
// the code has.  Atoms over ev.Type() and ev.Velocity() are only ever comparisons with constants, so a path is
// consistent with an assumption iff those comparisons evaluate to true on representative values.
func ruleVelocityZero(c *Ctx, dv *dev) {
	fn := dv.fn["handleInputEvents"]
	c.Fn(shortFn(fn))
	pos := c.P.Pos(fn.Pos())
	noteOn, _ := c.P.constValue(pkgMidi, "NoteOn")
	onV, _ := constant.Int64Val(noteOn)
	noteOff, _ := c.P.constValue(pkgMidi, "NoteOff")
	offV, _ := constant.Int64Val(noteOff)
	// the receive from midiIn: a select state or a plain receive
	var start *ssa.BasicBlock
	selIdx := int64(-1)
	hosts := []*ssa.Function{fn}
	for _, h := range c.P.Funcs { // the loop may have been moved into a helper that only this goroutine calls
		if dv.newHelpers()[h] && dv.ownerOf(h) == fn {
			hosts = append(hosts, h)
		}
	}
	for _, host := range hosts {
		for _, b := range host.Blocks {
			for _, in := range b.Instrs {
				switch x := in.(type) {
				case *ssa.Select:
					for i, st := range x.States {
						if derivesFromField(st.Chan, dv.fields["midiIn"], map[ssa.Value]bool{}) {
							start, selIdx = b, int64(i)
						}
					}
				case *ssa.UnOp:
					if x.Op == token.ARROW && derivesFromField(x.X, dv.fields["midiIn"], map[ssa.Value]bool{}) {
						start = b
					}
				}
			}
		}
	}
	if !c.Require(start != nil, "R17.1", "device.handleInputEvents/receive(midiIn)", "no receive from Device.midiIn found") {
		return
	}
	fn = start.Parent()
	paths, err := Enumerate(fn, SymConfig{Prog: c.P, MaxDepth: 3, Collapse: true, OnlyInline: dv.withHelpers(map[*ssa.Function]bool{}), Start: start, Stop: map[*ssa.BasicBlock]bool{start: true}})
	if !c.Require(err == nil, "R17.1", "device.handleInputEvents/paths", fmt.Sprint(err)) {
		return
	}
	c.Paths += len(paths)
	typeTerm := func(t *Term) bool {
		t = t.StripConv()
		return t.Op == "call" && strings.Contains(t.Aux, ".Type")
	}
	selTerm := func(t *Term) bool {
		t = t.StripConv()
		return t.Op == "extract" && t.Aux == "0" && len(t.Args) == 1 && t.Args[0].Op == "select"
	}
	cmp := func(v int64, op string, k int64) bool {
		switch op {
		case "==":
			return v == k
		case "!=":
			return v != k
		case "<":
			return v < k
		case "<=":
			return v <= k
		case ">":
			return v > k
		case ">=":
			return v >= k
		}
		return true
	}
	consistent := func(p *Path, typ, vel int64) bool {
		for _, a := range p.Atoms {
			op, l, r, ok := normAtom(a)
			if !ok {
				continue
			}
			if _, isC := l.IsConst(); isC {
				l, r, op = r, l, flipOp(op)
			}
			k, isK := r.IsIntConst()
			if !isK {
				continue
			}
			switch {
			case typeTerm(l):
				if !cmp(typ, op, k) {
					return false
				}
			case velocityTerm(l):
				if !cmp(vel, op, k) {
					return false
				}
			case selTerm(l) && selIdx >= 0:
				if !cmp(selIdx, op, k) {
					return false
				}
			}
		}
		return true
	}
	isExt := func(t *Term) bool {
		return t.Any(func(x *Term) bool { return dv.isFieldLoad(x, "externalNoteTracker") })
	}
	type fx struct {
		sets, clears, other         int
		unlocked, stale, transposed bool
	}
	effectsOf := func(p *Path) fx {
		var r fx
		for _, e := range p.Effects {
			switch e.Kind {
			case "mapset":
				if !isExt(e.Args[0]) {
					continue
				}
				if b, ok := e.Args[2].IsBoolConst(); ok && b {
					r.sets++
				} else if ok && !b {
					r.other++ // storing false keeps the key present: the frame loop tests presence
				} else {
					r.other++
				}
			case "mapdel":
				if !isExt(e.Args[0]) {
					continue
				}
				r.clears++
			default:
				continue
			}
			if !heldAt(e.Instr, dv.fields["externalTrackerMutex"]) && !lockedInCallers(dv, e.Instr) {
				r.unlocked = true
			}
			// the map written must be read from the Device field inside the same critical section: Panic replaces the
			// field, a reference taken earlier (outside the lock / before the loop) points to the discarded maps
			var root ssa.Value
			switch x := e.Instr.(type) {
			case *ssa.MapUpdate:
				root = x.Map
			case *ssa.Call:
				if len(x.Call.Args) > 0 {
					root = x.Call.Args[0]
				}
			}
			// the key is the received note number itself: the frame loop subtracts the transposition that is current when
			// it paints; a key transposed at arrival is wrong as soon as octave/semitone change before the Note Off
			if len(e.Args) > 1 {
				k := e.Args[1].StripConv()
				if !(k.Op == "call" && strings.Contains(k.Aux, ".Note")) {
					r.transposed = true
				}
			}
			if ld := fieldLoadOf(root, dv.fields["externalNoteTracker"]); ld == nil || !heldAt(ld, dv.fields["externalTrackerMutex"]) && !lockedInCallers(dv, ld) {
				r.stale = true
			}
		}
		return r
	}
	cases := []struct {
		key, what string
		typ       int64
		vels      []int64
		want      string // "set" | "clear" | "none"
	}{
		{"device.handleInputEvents/mark-sounding", "a Note On with velocity > 0", onV, []int64{1, 64, 127}, "set"},
		{"device.handleInputEvents/note-on-velocity-0-clears", "a Note On with velocity 0", onV, []int64{0}, "clear"},
		{"device.handleInputEvents/note-off-clears", "a Note Off", offV, []int64{0, 64}, "clear"},
		{"device.handleInputEvents/other-messages-ignored", "a Control Change", 0xB0, []int64{0, 64}, "none"},
	}
	for _, cs := range cases {
		n, bad := 0, ""
		for _, vel := range cs.vels {
			for _, p := range paths {
				if p.End == "cut" || !consistent(p, cs.typ, vel) {
					continue
				}
				n++
				r := effectsOf(p)
				switch {
				case r.unlocked:
					bad = "the external tracker is written without its mutex"
				case r.transposed:
					bad = "the tracker is keyed by something other than the received note number (ev.Note()): a note transposed when it arrives is cleared under the wrong key once octave/semitone change before its Note Off, and is painted on the wrong key meanwhile"
				case r.stale:
					bad = "the tracker map that is written was not read from Device.externalNoteTracker inside the critical section (a reference cached before the loop / outside the lock): after Panic replaced the map, MIDI-input notes go into the discarded one and are never shown"
				case r.other > 0:
					bad = "the entry is overwritten with a value other than true instead of being deleted: the frame loop tests presence, the key stays lit"
				case cs.want == "set" && (r.sets != 1 || r.clears != 0):
					bad = fmt.Sprintf("%s does not mark exactly that key as sounding (sets=%d clears=%d on a path)", cs.what, r.sets, r.clears)
				case cs.want == "clear" && (r.sets != 0 || r.clears < 1):
					if r.sets > 0 {
						bad = cs.what + " marks the key as sounding: a key is lit for every Note On without looking at the velocity (velocity 0 is the running-status spelling of Note Off) and stays lit"
					} else {
						bad = cs.what + " does not clear the external highlight of that key: it stays lit"
					}
				case cs.want == "none" && (r.sets != 0 || r.clears != 0):
					bad = cs.what + " changes the external highlight"
				}
			}
		}
		if n == 0 {
			c.Undec("R17.1", cs.key, pos, "no path of the MIDI-input loop is consistent with "+cs.what)
			continue
		}
		c.Check(bad == "", "R17.1", cs.key, pos, fmt.Sprintf("%d consistent path evaluation(s): %s -> %s, under the tracker mutex", n, cs.what, cs.want), bad)
	}
}

// fieldLoadOf: the load instruction of Device.<f> that v (a map reached through lookups) derives from, if it is a
// direct load in the same function.
func fieldLoadOf(v ssa.Value, f *types.Var) ssa.Instruction {
	for i := 0; i < 6 && v != nil; i++ {
		switch x := v.(type) {
		case *ssa.Lookup:
			v = x.X
		case *ssa.Extract:
			v = x.Tuple
		case *ssa.ChangeType:
			v = x.X
		case *ssa.UnOp:
			if x.Op == token.MUL && fieldOfAddr(x.X) == f {
				return x
			}
			return nil
		default:
			return nil
		}
	}
	return nil
}

// lockedInCallers: instr lies in a helper all of whose call sites hold the external tracker mutex.
func lockedInCallers(dv *dev, in ssa.Instruction) bool {
	fn := in.Parent()
	sites, ok := staticCallSites(dv.p, fn)
	if !ok {
		return false
	}
	for _, ci := range sites {
		if !heldAt(ci, dv.fields["externalTrackerMutex"]) {
			return false
		}
	}
	return true
}

// ruleLedIndices: R17.2.
func ruleLedIndices(c *Ctx, dv *dev) {
	root := dv.fn["handleOpenrgb"]
	c.Fn(shortFn(root))
	type site struct {
		ok  bool
		why string
		pos token.Pos
		n   int
	}
	sites := map[string]*site{}
	fns := append([]*ssa.Function{root}, root.AnonFuncs...)
	for _, h := range c.P.Funcs { // painting helpers/methods introduced by a refactoring (deterministic order)
		if dv.newHelpers()[h] && dv.ownerOf(h) == root {
			fns = append(fns, h)
		}
	}
	for _, fn := range fns {
		vw := NewFnView(c.P, fn)
		for _, b := range fn.Blocks {
			for _, in := range b.Instrs {
				ia, ok := in.(*ssa.IndexAddr)
				if !ok {
					continue
				}
				st, ok := ia.X.Type().Underlying().(*types.Slice)
				if !ok {
					continue
				}
				if n, ok := st.Elem().(*types.Named); !ok || n.Obj().Name() != "Color" {
					continue
				}
				// only stores into the LED array
				isStore := false
				for _, r := range *ia.Referrers() {
					if s, ok := r.(*ssa.Store); ok && s.Addr == ia {
						isStore = true
					}
				}
				if !isStore {
					continue
				}
				key, okIdx, why := classifyLedIndex(vw, ia.Index, b)
				s := sites[key]
				if s == nil {
					s = &site{ok: true, pos: ia.Pos()}
					sites[key] = s
				}
				s.n++
				if !okIdx {
					s.ok, s.why = false, why
				} else if s.why == "" {
					s.why = why
				}
			}
		}
	}
	var keys []string
	for k := range sites {
		keys = append(keys, k)
	}
	sort.Strings(keys)
	for _, k := range keys {
		s := sites[k]
		key := "device.handleOpenrgb/" + k
		if s.ok {
			c.OK("R17.2", key, c.P.Pos(s.pos), fmt.Sprintf("%d write(s): %s", s.n, s.why))
		} else {
			c.Bad("R17.2", key, c.P.Pos(s.pos), fmt.Sprintf("%d write(s) index the LED array with the zero default of a failed map lookup (%s): for a layout without that LED, or a configuration without that action, LED 0 is painted; with an empty LED array the refresh goroutine panics (index out of range)", s.n, s.why))
		}
	}
}

func classifyLedIndex(vw *FnView, idx ssa.Value, at *ssa.BasicBlock) (key string, ok bool, why string) {
	switch x := idx.(type) {
	case *ssa.Const:
		return "ledArray[const]", false, "constant index"
	case *ssa.Lookup:
		// plain (not comma-ok) map lookup used as index
		inner := "?"
		switch k := x.Index.(type) {
		case *ssa.Lookup:
			if kc, isC := k.Index.(*ssa.Const); isC && kc.Value != nil {
				inner = strings.Trim(kc.Value.ExactString(), `"`)
			}
			return "ledArray[indexMap[actionToEvcode[" + inner + "]]]", false, "indexMap[...] read without comma-ok"
		default:
			return "ledArray[" + mapName(x.X) + "[key]]", false, mapName(x.X) + "[...] read without comma-ok"
		}
	case *ssa.Extract:
		if lk, isLk := x.Tuple.(*ssa.Lookup); isLk && lk.CommaOk && x.Index == 0 {
			// the ok flag must be known true here
			var okExt *ssa.Extract
			for _, r := range *lk.Referrers() {
				if e, isE := r.(*ssa.Extract); isE && e.Index == 1 {
					okExt = e
				}
			}
			if okExt != nil {
				want := vw.Term(okExt).String()
				if v, found := boolAtom(vw.GuardsAt(at), want); found && v {
					return "ledArray[id from comma-ok " + mapName(lk.X) + "]", true, "index from the hit edge of a comma-ok lookup"
				}
			}
			return "ledArray[id from comma-ok " + mapName(lk.X) + "]", false, "comma-ok lookup whose ok flag is not tested before use"
		}
	case *ssa.Phi, *ssa.BinOp:
		if nonNegativeIndex(idx) {
			return "ledArray[loop index]", true, "loop index over the array"
		}
	case *ssa.UnOp:
		// local variable (spilled) assigned from a comma-ok extract
		if a, isA := x.X.(*ssa.Alloc); isA {
			if w := wholeStore(a); w != nil {
				return classifyLedIndex(vw, w, at)
			}
		}
		// an element of a local table of LED positions that was filled from hit edges only (positions looked up once,
		// before the refresh loop, instead of on every frame)
		if x.Op == token.MUL {
			if root := tableRoot(x.X); root != nil {
				n, bad := 0, ""
				for _, src := range tableIntSources(root) {
					if src.val == nil {
						bad = src.why
						break
					}
					n++
					if _, ok, why := classifyLedIndex(vw, src.val, src.at); !ok {
						bad = why
						break
					}
				}
				if bad == "" && n > 0 {
					return "ledArray[id from a local table of looked-up positions]", true, fmt.Sprintf("index read from a local table whose %d element source(s) are hit edges of comma-ok lookups", n)
				}
				if bad != "" {
					return "ledArray[id from a local table]", false, "local table of positions with an element of another origin: " + bad
				}
			}
		}
	}
	return "ledArray[?]", false, "index of unknown origin " + idx.String()
}

func mapName(v ssa.Value) string {
	switch x := v.(type) {
	case *ssa.UnOp:
		if fv, ok := x.X.(*ssa.FreeVar); ok {
			return fv.Name()
		}
	}
	return types.TypeString(v.Type(), func(p *types.Package) string { return p.Name() })
}

// ruleFinalRedFrame: R17.3.
func ruleFinalRedFrame(c *Ctx, dv *dev) {
	fn := dv.fn["handleOpenrgb"]
	pos := c.P.Pos(fn.Pos())
	// the UpdateLEDs call that is not inside a loop
	var final *ssa.Call
	var inLoop []*ssa.Call
	for _, b := range fn.Blocks {
		for _, in := range b.Instrs {
			if call, ok := in.(*ssa.Call); ok {
				if callee := call.Call.StaticCallee(); callee != nil && callee.Name() == "UpdateLEDs" {
					if inCycle(b) {
						inLoop = append(inLoop, call)
					} else {
						final = call
					}
				}
			}
		}
	}
	key := "device.handleOpenrgb/final-red-frame"
	if final == nil || len(inLoop) == 0 {
		c.Bad("R17.3", key, pos, "no UpdateLEDs call after the refresh loop: the LEDs keep their last colours on disconnect")
		return
	}
	// a loop that stores Color{Red: 0xff} into every element dominates the final call
	red := false
	for _, b := range fn.Blocks {
		if !inCycle(b) || !blockDominatesOrSame(b, final.Block()) && !reachesBlock(b, final.Block()) {
			continue
		}
		for _, in := range b.Instrs {
			st, ok := in.(*ssa.Store)
			if !ok {
				continue
			}
			ia, ok := st.Addr.(*ssa.IndexAddr)
			if !ok || ia.X != final.Call.Args[len(final.Call.Args)-1] && !sameSliceVar(ia.X, final.Call.Args[len(final.Call.Args)-1]) {
				continue
			}
			if isRedLiteral(st.Val) && nonNegativeIndex(ia.Index) {
				// the loop is after the refresh loop: it cannot reach an in-loop UpdateLEDs
				after := true
				for _, u := range inLoop {
					if reachesBlock(b, u.Block()) {
						after = false
					}
				}
				if after {
					red = true
				}
			}
		}
	}
	// every return reachable after the refresh loop passes the final call
	okRet := true
	for _, b := range fn.Blocks {
		if b == fn.Recover {
			continue
		}
		if _, isRet := b.Instrs[len(b.Instrs)-1].(*ssa.Return); isRet {
			for _, u := range inLoop {
				if reachesBlock(u.Block(), b) && !blockDominatesOrSame(final.Block(), b) {
					okRet = false
				}
			}
		}
	}
	c.Check(red && okRet, "R17.3", key, c.P.Pos(final.Pos()), "every LED is set to {Red: 0xff} by a loop over the array and the frame is sent on every exit of the refresh loop",
		fmt.Sprintf("on disconnect the last frame is not all red on every exit (red loop=%v, on every exit=%v)", red, okRet))
}

func sameSliceVar(a, b ssa.Value) bool {
	la, ok1 := a.(*ssa.UnOp)
	lb, ok2 := b.(*ssa.UnOp)
	if ok1 && ok2 && la.X == lb.X {
		return true
	}
	// phi / same value
	return a == b
}

func reachesBlock(from, to *ssa.BasicBlock) bool {
	seen := map[*ssa.BasicBlock]bool{}
	stack := append([]*ssa.BasicBlock{}, from.Succs...)
	for len(stack) > 0 {
		b := stack[len(stack)-1]
		stack = stack[:len(stack)-1]
		if b == to {
			return true
		}
		if seen[b] {
			continue
		}
		seen[b] = true
		stack = append(stack, b.Succs...)
	}
	return false
}

func isRedLiteral(v ssa.Value) bool {
	// load of a struct literal alloc with Red = 255 and nothing else
	lit := literalOf(v)
	if lit == nil {
		return false
	}
	fields := compositeFields(lit)
	okRed := false
	for f, val := range fields {
		k, isK := val.(*ssa.Const)
		if !isK {
			return false
		}
		switch f.Name() {
		case "Red":
			okRed = k.Int64() == 255
		default:
			if k.Int64() != 0 {
				return false
			}
		}
	}
	return okRed
}

// ruleFrameUnderLocks: R17.5.
func ruleFrameUnderLocks(c *Ctx, dv *dev) {
	named, _ := c.P.Struct(pkgDevice, "Device")
	la := newLockAnalysis(c.P, named)
	fn := dv.fn["handleOpenrgb"]
	la.Walk("T:handleOpenrgb", fn, lockset{}, nil)
	need := map[string]string{"octave": "field:eventProcessMutex", "semitone": "field:eventProcessMutex", "channel": "field:eventProcessMutex",
		"mapping": "field:eventProcessMutex", "noteTracker": "field:eventProcessMutex", "externalNoteTracker": "field:externalTrackerMutex"}
	cnt := map[string][2]int{}
	for _, a := range la.accesses {
		lk, watched := need[a.Field.Name()]
		if !watched {
			continue
		}
		v := cnt[a.Field.Name()]
		if a.Locks[lk] {
			v[0]++
		} else {
			v[1]++
		}
		cnt[a.Field.Name()] = v
	}
	var names []string
	for n := range need {
		names = append(names, n)
	}
	sort.Strings(names)
	for _, n := range names {
		v := cnt[n]
		key := "device.handleOpenrgb/reads(Device." + n + ")-under-" + strings.TrimPrefix(need[n], "field:")
		if v[0]+v[1] == 0 {
			c.Trivial("R17.5", key, c.P.Pos(fn.Pos()), "field not read by the LED loop")
			continue
		}
		c.Check(v[1] == 0, "R17.5", key, c.P.Pos(fn.Pos()), fmt.Sprintf("%d read(s), all inside the critical section", v[0]),
			fmt.Sprintf("%d of %d read(s) happen outside the critical section: the frame can mix two device states", v[1], v[0]+v[1]))
	}
	// the in-loop UpdateLEDs is sent inside the same critical section
	for _, b := range fn.Blocks {
		for _, in := range b.Instrs {
			if call, ok := in.(*ssa.Call); ok && inCycle(b) {
				if callee := call.Call.StaticCallee(); callee != nil && callee.Name() == "UpdateLEDs" {
					c.Check(heldAt(call, dv.fields["eventProcessMutex"]), "R17.5", "device.handleOpenrgb/frame-sent-in-critical-section", c.P.Pos(call.Pos()),
						"UpdateLEDs is called while the event mutex is still held", "the frame is sent after the event mutex was released")
				}
			}
		}
	}
}

// ruleLedOffset: R17.6 the LED transposition offset agrees with NoteOn.
func ruleLedOffset(c *Ctx, dv *dev) {
	fn := dv.fn["handleOpenrgb"]
	vw := NewFnView(c.P, fn)
	found := false
	for _, b := range fn.Blocks {
		for _, in := range b.Instrs {
			bo, ok := in.(*ssa.BinOp)
			if !ok || bo.Op != token.ADD || !isIntegerType(bo.Type()) {
				continue
			}
			t := vw.Term(bo)
			if !t.LoadsField(dv.fields["octave"]) || !t.LoadsField(dv.fields["semitone"]) {
				continue
			}
			// the outermost sum only
			outer := true
			for _, r := range *bo.Referrers() {
				if p, ok := r.(*ssa.BinOp); ok && p.Op == token.ADD && vw.Term(p).LoadsField(dv.fields["octave"]) && !strings.Contains(vw.Term(p).String(), ".Note") {
					outer = false
				}
			}
			if !outer {
				continue
			}
			found = true
			key := "device.handleOpenrgb/transposition-offset"
			l := linearize(t)
			bad := ""
			if !l.ok {
				bad = "offset is not an affine int form: " + l.why
			} else {
				oct, semi := int64(0), int64(0)
				for k, coef := range l.coef {
					switch {
					case dv.isFieldLoad(l.terms[k], "octave"):
						oct = coef
					case dv.isFieldLoad(l.terms[k], "semitone"):
						semi = coef
					case strings.HasSuffix(k, ".Note"):
					default:
						bad = "unexpected operand " + k
					}
				}
				if bad == "" && (oct != 12 || semi != 1) {
					bad = fmt.Sprintf("offset = %s: coefficients differ from NoteOn's 12*octave + semitone", l.String())
				}
			}
			c.Check(bad == "", "R17.6", key, c.P.Pos(bo.Pos()), "offset = 12*octave + semitone computed in int ("+l.String()+")", bad+": the LEDs would show a different transposition than the one that sounds")
		}
	}
	if !found {
		c.Undec("R17.6", "device.handleOpenrgb/transposition-offset", c.P.Pos(fn.Pos()), "offset computation not found")
	}
}

// ---- R17.7 layer precedence of the frame ---------------------------------------------------------------------------
//
// The frame is painted by successive overwrites (painter's algorithm); which colour a key finally shows when several
// things apply to it is decided by the ORDER of the layers.  The statement fixes part of that order: a mapped key shows
// its pitch-class colour unless something sounds on it; a pitch sounding on MIDI input shows the external colour when it
// is on the current channel and otherwise that channel's colour; a pitch sounding from the keyboard shows the active
// colour.  Decided structurally: every LED write site of the refresh loop is classified by the colour it stores, and the
// classes must be painted in the order  unavailable(reset) < pitch-class < channel colour < external(current channel),
// pitch-class < active, everything < UpdateLEDs - where "A before B" means: in the refresh loop body with its back edge
// removed, B's strongly connected component is reachable from A's and differs from it (two layers merged into one
// inner loop are NOT ordered: the last writer then depends on iteration order, not on the layer).
func ruleLayerOrder(c *Ctx, dv *dev) {
	root := dv.fn["handleOpenrgb"]
	pos := c.P.Pos(root.Pos())
	rule := "R17.7"
	// the refresh loop: the largest natural loop containing an UpdateLEDs call
	var upd *ssa.Call
	for _, b := range root.Blocks {
		for _, in := range b.Instrs {
			if call, ok := in.(*ssa.Call); ok {
				if callee := call.Call.StaticCallee(); callee != nil && callee.Name() == "UpdateLEDs" && inCycle(b) {
					upd = call
				}
			}
		}
	}
	if !c.Require(upd != nil, rule, "device.handleOpenrgb/refresh-loop", "no UpdateLEDs call inside a loop") {
		return
	}
	var header *ssa.BasicBlock
	var body map[*ssa.BasicBlock]bool
	for _, h := range root.Blocks {
		for _, p := range h.Preds {
			if !h.Dominates(p) {
				continue
			}
			// natural loop of back edge p->h
			lb := map[*ssa.BasicBlock]bool{h: true}
			stack := []*ssa.BasicBlock{p}
			for len(stack) > 0 {
				x := stack[len(stack)-1]
				stack = stack[:len(stack)-1]
				if lb[x] {
					continue
				}
				lb[x] = true
				stack = append(stack, x.Preds...)
			}
			if lb[upd.Block()] && len(lb) > len(body) {
				header, body = h, lb
			}
		}
	}
	if !c.Require(header != nil, rule, "device.handleOpenrgb/refresh-loop", "refresh loop not found") {
		return
	}
	// the loop is the union of the natural loops of all back edges to this header (a `continue` is its own back edge)
	for _, p := range header.Preds {
		if !header.Dominates(p) {
			continue
		}
		stack := []*ssa.BasicBlock{p}
		for len(stack) > 0 {
			x := stack[len(stack)-1]
			stack = stack[:len(stack)-1]
			if body[x] {
				continue
			}
			body[x] = true
			stack = append(stack, x.Preds...)
		}
	}
	// SCCs of the body without edges into the header
	succs := func(b *ssa.BasicBlock) []*ssa.BasicBlock {
		var out []*ssa.BasicBlock
		for _, s := range b.Succs {
			if body[s] && s != header {
				out = append(out, s)
			}
		}
		return out
	}
	index, low, comp := map[*ssa.BasicBlock]int{}, map[*ssa.BasicBlock]int{}, map[*ssa.BasicBlock]int{}
	onStack := map[*ssa.BasicBlock]bool{}
	var st []*ssa.BasicBlock
	idx, ncomp := 0, 0
	var strong func(v *ssa.BasicBlock)
	strong = func(v *ssa.BasicBlock) {
		idx++
		index[v], low[v] = idx, idx
		st = append(st, v)
		onStack[v] = true
		for _, w := range succs(v) {
			if index[w] == 0 {
				strong(w)
				if low[w] < low[v] {
					low[v] = low[w]
				}
			} else if onStack[w] && index[w] < low[v] {
				low[v] = index[w]
			}
		}
		if low[v] == index[v] {
			ncomp++
			for {
				w := st[len(st)-1]
				st = st[:len(st)-1]
				onStack[w] = false
				comp[w] = ncomp
				if w == v {
					break
				}
			}
		}
	}
	for _, b := range root.Blocks {
		if body[b] && index[b] == 0 {
			strong(b)
		}
	}
	reach := func(a, b *ssa.BasicBlock) bool { // b reachable from a inside the body (no back edge of the refresh loop)
		seen := map[*ssa.BasicBlock]bool{}
		stack := []*ssa.BasicBlock{a}
		for len(stack) > 0 {
			x := stack[len(stack)-1]
			stack = stack[:len(stack)-1]
			if x == b {
				return true
			}
			if seen[x] {
				continue
			}
			seen[x] = true
			stack = append(stack, succs(x)...)
		}
		return false
	}
	before := func(a, b *ssa.BasicBlock) bool { return comp[a] != comp[b] && reach(a, b) }

	// LED write sites and their classes
	type site struct {
		class string
		at    *ssa.BasicBlock // position in the refresh loop body
		pos   string
	}
	var sites []site
	var classify func(fn *ssa.Function, v ssa.Value, depth int) []string
	classify = func(fn *ssa.Function, v ssa.Value, depth int) []string {
		if depth > 4 {
			return []string{"other"}
		}
		if _, ok := v.(*ssa.Const); ok {
			return []string{"blank"}
		}
		if phi, ok := v.(*ssa.Phi); ok {
			// a colour chosen by a condition: the site paints every one of the candidate layers
			var out []string
			for _, e := range phi.Edges {
				out = append(out, classify(fn, e, depth+1)...)
			}
			return out
		}
		if prm, ok := v.(*ssa.Parameter); ok {
			// a colour handed to a painting helper/closure: what its call sites pass
			var out []string
			idx := paramIndex(prm)
			scan := func(f *ssa.Function) {
				for _, b := range f.Blocks {
					for _, in := range b.Instrs {
						if ci, ok := in.(ssa.CallInstruction); ok && (ci.Common().StaticCallee() == fn || closureOf(ci.Common().Value) == fn) && idx >= 0 && idx < len(ci.Common().Args) {
							out = append(out, classify(f, ci.Common().Args[idx], depth+1)...)
						}
					}
				}
			}
			scan(root)
			for _, af := range root.AnonFuncs {
				scan(af)
			}
			for h := range dv.newHelpers() {
				scan(h)
			}
			if len(out) == 0 {
				return []string{"other"}
			}
			return out
		}
		// a colour looked up by a small accessor (`palette.of(channel)`): what the accessor returns
		if call, ok := v.(*ssa.Call); ok {
			if callee := call.Call.StaticCallee(); callee != nil && c.P.OwnedFunc(callee) && len(callee.Blocks) > 0 && callee.Signature.Results().Len() == 1 && callee.Name() != "shiftColor" {
				var out []string
				for _, rb := range callee.Blocks {
					if ret, isRet := rb.Instrs[len(rb.Instrs)-1].(*ssa.Return); isRet && rb != callee.Recover {
						for _, cl := range classify(callee, ret.Results[0], depth+1) {
							if cl != "blank" && cl != "other" {
								out = append(out, cl)
							}
						}
					}
				}
				if len(out) > 0 {
					return out
				}
			}
		}
		s := NewFnView(c.P, fn).Term(v).String()
		switch {
		case strings.Contains(s, ".Colors.Unavailable"):
			return []string{"unavailable"}
		case strings.Contains(s, ".Colors.ActiveExternal"):
			return []string{"external"}
		case strings.Contains(s, ".Colors.Active"):
			return []string{"active"}
		case strings.Contains(s, ".Colors.C") || strings.Contains(s, ".Colors.Black") || strings.Contains(s, ".Colors.White") || strings.Contains(s, "shiftColor"):
			return []string{"pitch-class"}
		}
		// a lookup in a local colour table indexed by a channel number
		for i := 0; i < 4; i++ {
			switch x := v.(type) {
			case *ssa.UnOp:
				if a, ok := x.X.(*ssa.Alloc); ok {
					if w := wholeStore(a); w != nil {
						v = w
						continue
					}
				}
				// the table kept as a local array/slice indexed by the channel byte
				if ia, ok := x.X.(*ssa.IndexAddr); ok && x.Op == token.MUL {
					isByte := func(t types.Type) bool {
						b, isB := t.Underlying().(*types.Basic)
						return isB && b.Kind() == types.Uint8
					}
					byteIdx := isByte(ia.Index.Type())
					if cv, isConv := ia.Index.(*ssa.Convert); isConv && isByte(cv.X.Type()) {
						byteIdx = true // int(channel)
					}
					if byteIdx && fieldLoadOfAny(ia.X) == nil {
						if _, isGlobal := ia.X.(*ssa.Global); !isGlobal {
							return []string{"channel-colour"}
						}
					}
				}
			case *ssa.Extract:
				v = x.Tuple
				continue
			case *ssa.Lookup:
				if mt, ok := x.X.Type().Underlying().(*types.Map); ok {
					if b, isB := mt.Key().Underlying().(*types.Basic); isB && b.Kind() == types.Uint8 && fieldLoadOfAny(x.X) == nil {
						return []string{"channel-colour"}
					}
				}
			}
			break
		}
		return []string{"other"}
	}
	// an action-key LED: the LED index comes from a lookup keyed by a config.Action
	isActionIndex := func(idx ssa.Value) bool {
		seen := map[ssa.Value]bool{}
		var rec func(v ssa.Value, depth int) bool
		rec = func(v ssa.Value, depth int) bool {
			if v == nil || seen[v] || depth > 10 {
				return false
			}
			seen[v] = true
			switch x := v.(type) {
			case *ssa.Lookup:
				if mt, ok := x.X.Type().Underlying().(*types.Map); ok {
					if n, isN := mt.Key().(*types.Named); isN && n.Obj().Name() == "Action" {
						return true
					}
				}
				return rec(x.Index, depth+1)
			case *ssa.Extract:
				return rec(x.Tuple, depth+1)
			case *ssa.Phi:
				for _, e := range x.Edges {
					if rec(e, depth+1) {
						return true
					}
				}
			case *ssa.Convert:
				return rec(x.X, depth+1)
			case *ssa.ChangeType:
				return rec(x.X, depth+1)
			case *ssa.UnOp:
				if a, ok := x.X.(*ssa.Alloc); ok {
					if w := wholeStore(a); w != nil {
						return rec(w, depth+1)
					}
				}
			}
			return false
		}
		return rec(idx, 0)
	}
	isLedStore := func(in ssa.Instruction) (*ssa.Store, bool) {
		stx, ok := in.(*ssa.Store)
		if !ok {
			return nil, false
		}
		ia, ok := stx.Addr.(*ssa.IndexAddr)
		if !ok {
			return nil, false
		}
		if sl, ok := ia.X.Type().Underlying().(*types.Slice); ok {
			if n, ok := sl.Elem().(*types.Named); ok && n.Obj().Name() == "Color" {
				return stx, true
			}
		}
		return nil, false
	}
	// positions of a function's body in the refresh loop: the function itself (root) or the blocks of its call sites
	var positionsOf func(fn *ssa.Function, depth int) []*ssa.BasicBlock
	positionsOf = func(fn *ssa.Function, depth int) []*ssa.BasicBlock {
		if depth > 3 {
			return nil
		}
		var out []*ssa.BasicBlock
		var scan func(f *ssa.Function)
		scan = func(f *ssa.Function) {
			for _, b := range f.Blocks {
				for _, in := range b.Instrs {
					ci, ok := in.(ssa.CallInstruction)
					if !ok {
						continue
					}
					if ci.Common().StaticCallee() == fn || closureOf(ci.Common().Value) == fn {
						if f == root {
							if body[b] {
								out = append(out, b)
							}
						} else {
							out = append(out, positionsOf(f, depth+1)...)
						}
					}
				}
			}
		}
		scan(root)
		for _, af := range root.AnonFuncs {
			scan(af)
		}
		for h := range dv.newHelpers() {
			scan(h)
		}
		return out
	}
	hosts := append([]*ssa.Function{root}, root.AnonFuncs...)
	for h := range dv.newHelpers() {
		hosts = append(hosts, h)
	}
	for _, fn := range hosts {
		for _, b := range fn.Blocks {
			for _, in := range b.Instrs {
				stx, ok := isLedStore(in)
				if !ok {
					continue
				}
				ledIdx := stx.Addr.(*ssa.IndexAddr).Index
				classes := classify(fn, stx.Val, 0)
				if isActionIndex(ledIdx) {
					classes = []string{"action"}
				}
				if fn == root {
					if !body[b] {
						continue // initialisation / the final red frame
					}
					for _, cl := range classes {
						sites = append(sites, site{cl, b, c.P.Pos(stx.Pos())})
					}
					continue
				}
				// a store in a closure/helper: one site per call position; a colour parameter is classified per call
				if prm, isParam := stx.Val.(*ssa.Parameter); isParam && !isActionIndex(ledIdx) {
					idx := paramIndex(prm)
					scanCalls := func(f *ssa.Function) {
						for _, cb := range f.Blocks {
							for _, cin := range cb.Instrs {
								ci, ok := cin.(ssa.CallInstruction)
								if !ok || !(ci.Common().StaticCallee() == fn || closureOf(ci.Common().Value) == fn) || idx < 0 || idx >= len(ci.Common().Args) {
									continue
								}
								var ats []*ssa.BasicBlock
								if f == root {
									if body[cb] {
										ats = []*ssa.BasicBlock{cb}
									}
								} else {
									ats = positionsOf(f, 1)
								}
								for _, at := range ats {
									for _, cl := range classify(f, ci.Common().Args[idx], 1) {
										sites = append(sites, site{cl, at, c.P.Pos(ci.Pos())})
									}
								}
							}
						}
					}
					scanCalls(root)
					for _, af := range root.AnonFuncs {
						scanCalls(af)
					}
					for h := range dv.newHelpers() {
						scanCalls(h)
					}
					continue
				}
				for _, at := range positionsOf(fn, 0) {
					for _, cl := range classes {
						sites = append(sites, site{cl, at, c.P.Pos(stx.Pos())})
					}
				}
			}
		}
	}
	byClass := map[string][]site{}
	for _, s := range sites {
		byClass[s.class] = append(byClass[s.class], s)
	}
	for _, need := range []string{"unavailable", "pitch-class", "channel-colour", "external", "active"} {
		c.Check(len(byClass[need]) > 0, rule, "device.handleOpenrgb/layer("+need+")", pos, fmt.Sprintf("%d write site(s)", len(byClass[need])),
			"no LED write of the "+need+" colour found in the refresh loop (layer missing or not recognised)")
	}
	order := [][2]string{{"unavailable", "pitch-class"}, {"pitch-class", "channel-colour"}, {"channel-colour", "external"}, {"pitch-class", "external"}, {"pitch-class", "active"}, {"unavailable", "active"}}
	for _, o := range order {
		key := fmt.Sprintf("device.handleOpenrgb/layer-order(%s<%s)", o[0], o[1])
		if len(byClass[o[0]]) == 0 || len(byClass[o[1]]) == 0 {
			continue
		}
		bad := ""
		for _, a := range byClass[o[0]] {
			for _, b := range byClass[o[1]] {
				if !before(a.at, b.at) {
					bad = fmt.Sprintf("the %s colour (written at %s) is not painted strictly before the %s colour (written at %s): which of the two a key finally shows no longer follows the layer, e.g. a pitch sounding on the current channel and on another one shows the wrong colour", o[0], a.pos, o[1], b.pos)
				}
			}
		}
		c.Check(bad == "", rule, key, pos, "every "+o[0]+" write precedes every "+o[1]+" write in the refresh loop body", bad)
	}
	// R17.9 every refresh iteration sends the frame it computed: each way back to the loop header passes the UpdateLEDs
	// call, unless the skip is decided by comparing the computed frame itself with what was sent before (any coarser
	// "nothing changed" test - counts, a state summary - misses changes that keep the summary equal)
	{
		vw := NewFnView(c.P, root)
		skipBad := ""
		for _, p := range header.Preds {
			if os.Getenv("HIDI_DEBUG") != "" {
				fmt.Printf("DEBUG R17.9 header=%d pred=%d inBody=%v updBlock=%d dom=%v\n", header.Index, p.Index, body[p], upd.Block().Index, blockDominatesOrSame(upd.Block(), p))
			}
			if !body[p] || blockDominatesOrSame(upd.Block(), p) {
				continue
			}
			// a back edge that bypasses the send: acceptable only under a guard that reads the frame
			frameGuard := false
			for _, a := range vw.GuardsAt(p) {
				if a.Instr == nil || !body[a.Instr.Block()] {
					continue // only decisions taken inside the refresh loop
				}
				if a.Cond.Any(func(x *Term) bool {
					if x.Type == nil {
						return false
					}
					if sl, ok := x.Type.Underlying().(*types.Slice); ok {
						if n, ok := sl.Elem().(*types.Named); ok && n.Obj().Name() == "Color" {
							return true
						}
					}
					return false
				}) {
					frameGuard = true
				}
			}
			if !frameGuard {
				last := p.Instrs[len(p.Instrs)-1]
				skipBad = "an iteration of the refresh loop returns to the loop header without sending the frame (" + c.P.Pos(last.Pos()) + ") and the skip is not decided by comparing the computed frame with the previous one: state changes that the skip test does not see are never shown"
			}
		}
		c.Check(skipBad == "", "R17.9", "device.handleOpenrgb/every-iteration-sends-its-frame", pos, "every back edge of the refresh loop is dominated by UpdateLEDs (or skips under a comparison of the frame itself)", skipBad)
	}
	// everything is painted before the frame is sent
	bad := ""
	for _, s := range sites {
		if !before(s.at, upd.Block()) && s.at != upd.Block() {
			bad = "an LED is written after the frame was sent (at " + s.pos + ")"
		}
	}
	c.Check(bad == "", rule, "device.handleOpenrgb/paint-before-send", pos, fmt.Sprintf("%d write site(s), all before UpdateLEDs", len(sites)), bad)
}

// fieldLoadOfAny: v is a direct load of some struct field (used to tell a local colour table from a Device field).
func fieldLoadOfAny(v ssa.Value) ssa.Instruction {
	if u, ok := v.(*ssa.UnOp); ok && u.Op == token.MUL {
		if _, isFA := u.X.(*ssa.FieldAddr); isFA {
			return u
		}
	}
	return nil
}

// ruleNoNarrowTransposition: R17.10. The frame maps sounding pitches back to mapping notes (pitch - offset) and mapping notes
// to pitches (note + offset). The offset 12*octave+semitone is an unbounded int (octave steps have no limit), so a value
// computed from it may be converted to an 8-bit type only where dominating conditions bound it to that type's range:
// otherwise the conversion wraps and a pitch that is on no key aliases the note of another key (which then shows a
// highlight instead of the unavailable colour).
func ruleNoNarrowTransposition(c *Ctx, dv *dev) {
	root := dv.fn["handleOpenrgb"]
	pf := newParserFacts(c)
	if !c.Require(pf.err == nil, "R17.10", "anchor:facts", fmt.Sprint(pf.err)) {
		return
	}
	var fns []*ssa.Function
	var collect func(f *ssa.Function)
	collect = func(f *ssa.Function) {
		fns = append(fns, f)
		for _, af := range f.AnonFuncs {
			collect(af)
		}
	}
	collect(root)
	for h := range dv.newHelpers() {
		collect(h)
	}
	ord := map[string]int{}
	transpositionReads, narrowed := 0, 0
	defer func() {
		// a frame that reads the transposition but never narrows anything computed from it (`table[mapping][base]` with an int
		// index instead of `m[byte(base)]`) satisfies the rule by construction; the reads are the anchor
		if narrowed == 0 && transpositionReads > 0 {
			c.OK("R17.10", shortFn(root)+"/no-narrowed-transposition", c.P.Pos(root.Pos()), fmt.Sprintf("the frame code reads octave/semitone at %d place(s) and converts nothing computed from them to an 8-bit type", transpositionReads))
		}
	}()
	for _, fn := range fns {
		for _, b := range fn.Blocks {
			for _, in := range b.Instrs {
				if fa, ok := in.(*ssa.FieldAddr); ok {
					if f := fieldOfAddr(fa); f != nil && (sameField(f, dv.fields["octave"]) || sameField(f, dv.fields["semitone"])) {
						transpositionReads++
					}
				}
			}
		}
	}
	for _, fn := range fns {
		vw := pf.view(fn)
		for _, b := range fn.Blocks {
			for _, in := range b.Instrs {
				cv, ok := in.(*ssa.Convert)
				if !ok || !isIntegerType(cv.Type()) || !isIntegerType(cv.X.Type()) {
					continue
				}
				lo, hi := typeRangeOf(cv.Type())
				if lo == hi || hi > 255 {
					continue // not an 8-bit target
				}
				if slo, shi := typeRangeOf(cv.X.Type()); slo != shi && slo >= lo && shi <= hi {
					continue // widening or same width
				}
				t := vw.Term(cv.X)
				if !t.LoadsField(dv.fields["octave"]) && !t.LoadsField(dv.fields["semitone"]) && !paramCarriesTransposition(pf, dv, fn, cv.X, 0) {
					continue
				}
				ord[shortFn(fn)]++
				narrowed++
				key := fmt.Sprintf("%s/narrowed-transposition#%d", shortFn(fn), ord[shortFn(fn)])
				okR, why := pf.proveRange(cv.X, b, lo, hi, 0)
				c.Check(okR, "R17.10", key, c.P.Pos(cv.Pos()), "a value computed from the transposition is converted to 8 bits only inside its range: "+why,
					fmt.Sprintf("`%s` is computed from octave/semitone (an unbounded int) and converted to an 8-bit type without being bounded to %d..%d (%s): from |offset| >= 129 on it wraps, and a pitch that is on no key lights the key whose note it aliases", t, lo, hi, why))
			}
		}
	}
}

// paramCarriesTransposition: v is computed from a parameter of a painting helper / closure that its call sites bind to
// a value computed from octave/semitone (`lightNote(note, offset, colour)`).
func paramCarriesTransposition(pf *parserFacts, dv *dev, fn *ssa.Function, v ssa.Value, depth int) bool {
	if depth > 6 || v == nil {
		return false
	}
	switch x := v.(type) {
	case *ssa.BinOp:
		return paramCarriesTransposition(pf, dv, fn, x.X, depth+1) || paramCarriesTransposition(pf, dv, fn, x.Y, depth+1)
	case *ssa.Convert:
		return paramCarriesTransposition(pf, dv, fn, x.X, depth+1)
	case *ssa.Phi:
		for _, e := range x.Edges {
			if paramCarriesTransposition(pf, dv, fn, e, depth+1) {
				return true
			}
		}
	case *ssa.Parameter:
		idx := paramIndex(x)
		var sites []ssa.CallInstruction
		if cs, ok := closureCallSites(x.Parent()); ok {
			sites = cs
		} else if ss, all := staticCallSites(pf.p, x.Parent()); all {
			sites = ss
		}
		for _, cs := range sites {
			if idx < 0 || idx >= len(cs.Common().Args) {
				continue
			}
			a := cs.Common().Args[idx]
			at := pf.view(cs.Parent()).Term(a)
			if at.LoadsField(dv.fields["octave"]) || at.LoadsField(dv.fields["semitone"]) {
				return true
			}
		}
	}
	return false
}

// ruleConfiguredColourUnmodified: R17.11. A key shows its pitch-class colour: the configured C / black / white value. The
// refresh loop may hand that value to a transformation (the hue shift `shiftColor`) only under a condition that the shift
// is not zero: the RGB -> HSV -> RGB round trip truncates, and with nothing to shift about half of all colours came back
// one lower in a component (and any change inside the transformation changed every key colour).
func ruleConfiguredColourUnmodified(c *Ctx, dv *dev) {
	root := dv.fn["handleOpenrgb"]
	var fns []*ssa.Function
	var collect func(f *ssa.Function)
	collect = func(f *ssa.Function) {
		fns = append(fns, f)
		for _, af := range f.AnonFuncs {
			collect(af)
		}
	}
	collect(root)
	for h := range dv.newHelpers() {
		collect(h)
	}
	n := 0
	for _, fn := range fns {
		vw := NewFnView(c.P, fn)
		for _, b := range fn.Blocks {
			for _, in := range b.Instrs {
				call, ok := in.(*ssa.Call)
				if !ok {
					continue
				}
				callee := call.Call.StaticCallee()
				if callee == nil || !c.P.OwnedFunc(callee) || callee.Signature.Results().Len() != 1 {
					continue
				}
				if n, isN := callee.Signature.Results().At(0).Type().(*types.Named); !isN || n.Obj().Name() != "Color" {
					continue
				}
				// a configured pitch-class colour among the arguments
				isPitch := false
				var shiftArgs []*Term
				for _, a := range call.Call.Args {
					t := vw.Term(a)
					ts := t.String()
					if strings.Contains(ts, ".Colors.C") || strings.Contains(ts, ".Colors.Black") || strings.Contains(ts, ".Colors.White") {
						isPitch = true
					}
					if bt, isB := a.Type().Underlying().(*types.Basic); isB && bt.Info()&types.IsFloat != 0 {
						shiftArgs = append(shiftArgs, t)
					}
				}
				if !isPitch {
					continue
				}
				n++
				key := fmt.Sprintf("%s/%s(pitch-class colour)", shortFn(fn), callee.Name())
				guarded := false
				for _, a := range vw.GuardsAt(b) {
					if k, isK := a.Cond.IsConst(); isK && k.Kind() == constant.Bool && constant.BoolVal(k) != a.Taken {
						guarded = true // `if shift != 0` with the shift still the constant 0: the call is not reachable
						continue
					}
					op, l, r, okA := normAtom(a)
					if !okA {
						continue
					}
					if _, isK := l.IsConst(); isK {
						l, r = r, l
					}
					k, isK := r.IsConst()
					if !isK || op == "==" {
						continue
					}
					f, _ := constant.Float64Val(constant.ToFloat(k))
					if f != 0 {
						continue
					}
					for _, sa := range shiftArgs {
						if strings.Contains(sa.String(), l.String()) {
							guarded = true
						}
					}
				}
				c.Check(guarded, "R17.11", key, c.P.Pos(call.Pos()), "the configured colour is transformed only when the shift is not zero",
					"the configured pitch-class colour is passed through "+callee.Name()+" unconditionally (the shift is 0 unless stated otherwise): the transformation's float round trip does not return the colour it was given - the key does not show its configured colour")
			}
		}
	}
	if n == 0 {
		c.OK("R17.11", "device.handleOpenrgb/pitch-class colour stored as configured", c.P.Pos(root.Pos()), "no transformation is applied to the configured pitch-class colours")
	}
}

// tableRoot: addr is an element address inside a local container (slices/arrays nested in any way, made in this function);
// returns the container's origin (MakeSlice or Alloc), or nil.
func tableRoot(addr ssa.Value) ssa.Value {
	for i := 0; i < 12 && addr != nil; i++ {
		switch x := addr.(type) {
		case *ssa.IndexAddr:
			addr = x.X
		case *ssa.Index:
			addr = x.X
		case *ssa.UnOp:
			if x.Op != token.MUL {
				return nil
			}
			addr = x.X
		case *ssa.Slice:
			addr = x.X
		case *ssa.Phi:
			// the range loop's slice operand is loop invariant: all non-self edges must agree
			var one ssa.Value
			for _, e := range x.Edges {
				if e == x {
					continue
				}
				if one != nil && one != e {
					return nil
				}
				one = e
			}
			addr = one
		case *ssa.MakeSlice:
			return x
		case *ssa.Alloc:
			if w := wholeStore(x); w != nil {
				addr = w
				continue
			}
			return x
		default:
			return nil
		}
	}
	return nil
}

type tableSrc struct {
	val ssa.Value // an integer stored as an element (nil: a source that cannot be followed, see why)
	at  *ssa.BasicBlock
	why string
}

// tableIntSources: every integer that can become an element of the local container root: stores through element addresses,
// and the elements appended to slices that are stored there.
func tableIntSources(root ssa.Value) []tableSrc {
	fn := root.Parent()
	var out []tableSrc
	var fromSlice func(v ssa.Value, at *ssa.BasicBlock, depth int)
	fromSlice = func(v ssa.Value, at *ssa.BasicBlock, depth int) {
		if depth > 6 {
			out = append(out, tableSrc{why: "slice built too deep to follow"})
			return
		}
		switch x := v.(type) {
		case *ssa.Const:
			// nil slice
		case *ssa.Call:
			if b, ok := x.Call.Value.(*ssa.Builtin); ok && b.Name() == "append" && len(x.Call.Args) == 2 {
				if tableRoot(x.Call.Args[0]) != root {
					fromSlice(x.Call.Args[0], at, depth+1)
				}
				fromSlice(x.Call.Args[1], at, depth+1)
				return
			}
			out = append(out, tableSrc{why: "slice returned by " + x.Call.Value.Name()})
		case *ssa.Slice:
			if a, ok := x.X.(*ssa.Alloc); ok { // the variadic arguments of append
				for _, r := range *a.Referrers() {
					if ia, ok := r.(*ssa.IndexAddr); ok {
						for _, rr := range *ia.Referrers() {
							if st, ok := rr.(*ssa.Store); ok && st.Addr == ia {
								out = append(out, tableSrc{val: st.Val, at: st.Block()})
							}
						}
					}
				}
				return
			}
			if tableRoot(x.X) == root {
				return
			}
			out = append(out, tableSrc{why: "slice of " + x.X.Name()})
		case *ssa.UnOp:
			if tableRoot(x) == root {
				return // an element of the table itself
			}
			out = append(out, tableSrc{why: "slice loaded from elsewhere"})
		case *ssa.MakeSlice:
			if k, ok := x.Len.(*ssa.Const); ok && k.Int64() == 0 {
				return
			}
			out = append(out, tableSrc{why: "slice made with zero elements of its own (index 0)"})
		default:
			out = append(out, tableSrc{why: fmt.Sprintf("slice of unknown origin %s", v.Name())})
		}
	}
	if ms, ok := root.(*ssa.MakeSlice); ok {
		if el, ok := ms.Type().Underlying().(*types.Slice); ok && isIntegerType(el.Elem()) {
			if k, ok := ms.Len.(*ssa.Const); !ok || k.Int64() != 0 {
				out = append(out, tableSrc{why: "table made with zero elements of its own (index 0)"})
			}
		}
	}
	for _, b := range fn.Blocks {
		for _, in := range b.Instrs {
			st, ok := in.(*ssa.Store)
			if !ok {
				continue
			}
			if _, isIA := st.Addr.(*ssa.IndexAddr); !isIA || tableRoot(st.Addr) != root {
				continue
			}
			switch t := st.Val.Type().Underlying().(type) {
			case *types.Basic:
				if isIntegerType(t) {
					out = append(out, tableSrc{val: st.Val, at: b})
				}
			case *types.Slice:
				fromSlice(st.Val, b, 0)
			default:
				out = append(out, tableSrc{why: "whole rows stored into the table"})
			}
		}
	}
	return out
}
