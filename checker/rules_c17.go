package main

import (
	"fmt"
	"go/constant"
	"go/token"
	"go/types"
	"sort"
	"strings"

	"golang.org/x/tools/go/ssa"
)

func init() {
	registry["C17"] = checkC17
}

func checkC17(c *Ctx) {
	dv := newDev(c, "R17.0")
	if !dv.ok || !dv.need("R17.0", []string{"handleInputEvents", "handleOpenrgb", "Panic", "ProcessEvents", "NoteOn"},
		[]string{"externalNoteTracker", "externalTrackerMutex", "eventProcessMutex", "octave", "semitone", "channel", "mapping", "noteTracker"}) {
		return
	}
	ruleVelocityZero(c, dv)
	ruleLedIndices(c, dv)
	ruleFinalRedFrame(c, dv)
	ruleExternalReset(c, dv, dv.fn["Panic"], "R17.4")
	ruleFrameUnderLocks(c, dv)
	ruleLedOffset(c, dv)
	c.MinCount("R17.1", 4)
	c.MinCount("R17.2", 4)
	c.MinCount("R17.3", 1)
	c.MinCount("R17.5", 5)
	c.MinCount("R17.6", 1)
	c.DecidedClause("MIDI-input tracking lights a key only for a Note On with non-zero velocity and clears it for Note Off and for Note On with velocity 0, under the tracker mutex; no LED slot is written through a failed map lookup; after the refresh loop every LED is set to red and the frame is sent; panic replaces the external highlight map; the whole frame is computed and sent inside one critical section of the event mutex (external notes under their own mutex); the LED transposition offset is the same affine int form 12*octave+semitone as in NoteOn")
	c.UndecidedClause("the colour function itself (which colour each LED shows for each reachable state and LED layout): a 170-line value-level function of the device state; deciding it means evaluating it, which is testing, not static analysis")
	c.Assumption("len(dev.Colors) == len(dev.LEDs) (OpenRGB protocol)")
}

// velocityTerm: t is the velocity byte of a MIDI event (ev[2] or ev.Velocity()).
func velocityTerm(t *Term) bool {
	t = t.StripConv()
	switch t.Op {
	case "index":
		k, ok := t.Args[1].IsIntConst()
		return ok && k == 2
	case "load":
		if t.Args[0].Op == "indexaddr" {
			k, ok := t.Args[0].Args[1].IsIntConst()
			return ok && k == 2
		}
	case "call":
		return strings.Contains(t.Aux, ".Velocity")
	}
	return false
}

// ruleVelocityZero: R17.1, decided on the paths of one iteration of the MIDI-input loop: under every assumption about
// the received message (Note On with velocity > 0, Note On with velocity 0, Note Off, another type) every path that
// is consistent with it must light / clear / leave alone the key, whatever shape (switch, if-chain, merged branches)
// the code has.  Atoms over ev.Type() and ev.Velocity() are only ever comparisons with constants, so a path is
// consistent with an assumption iff those comparisons evaluate to true on representative values.
func ruleVelocityZero(c *Ctx, dv *dev) {
	fn := dv.fn["handleInputEvents"]
	c.Fn(shortFn(fn))
	pos := c.P.Pos(fn.Pos())
	noteOn, _ := c.P.constValue(pkgMidi, "NoteOn")
	onV, _ := constant.Int64Val(noteOn)
	noteOff, _ := c.P.constValue(pkgMidi, "NoteOff")
	offV, _ := constant.Int64Val(noteOff)
	// the receive from midiIn: a select state or a plain receive
	var start *ssa.BasicBlock
	selIdx := int64(-1)
	for _, b := range fn.Blocks {
		for _, in := range b.Instrs {
			switch x := in.(type) {
			case *ssa.Select:
				for i, st := range x.States {
					if derivesFromField(st.Chan, dv.fields["midiIn"], map[ssa.Value]bool{}) {
						start, selIdx = b, int64(i)
					}
				}
			case *ssa.UnOp:
				if x.Op == token.ARROW && derivesFromField(x.X, dv.fields["midiIn"], map[ssa.Value]bool{}) {
					start = b
				}
			}
		}
	}
	if !c.Require(start != nil, "R17.1", "device.handleInputEvents/receive(midiIn)", "no receive from Device.midiIn found") {
		return
	}
	paths, err := Enumerate(fn, SymConfig{Prog: c.P, MaxDepth: 3, Collapse: true, OnlyInline: dv.withHelpers(map[*ssa.Function]bool{}), Start: start, Stop: map[*ssa.BasicBlock]bool{start: true}})
	if !c.Require(err == nil, "R17.1", "device.handleInputEvents/paths", fmt.Sprint(err)) {
		return
	}
	c.Paths += len(paths)
	typeTerm := func(t *Term) bool {
		t = t.StripConv()
		return t.Op == "call" && strings.Contains(t.Aux, ".Type")
	}
	selTerm := func(t *Term) bool {
		t = t.StripConv()
		return t.Op == "extract" && t.Aux == "0" && len(t.Args) == 1 && t.Args[0].Op == "select"
	}
	cmp := func(v int64, op string, k int64) bool {
		switch op {
		case "==":
			return v == k
		case "!=":
			return v != k
		case "<":
			return v < k
		case "<=":
			return v <= k
		case ">":
			return v > k
		case ">=":
			return v >= k
		}
		return true
	}
	consistent := func(p *Path, typ, vel int64) bool {
		for _, a := range p.Atoms {
			op, l, r, ok := normAtom(a)
			if !ok {
				continue
			}
			if _, isC := l.IsConst(); isC {
				l, r, op = r, l, flipOp(op)
			}
			k, isK := r.IsIntConst()
			if !isK {
				continue
			}
			switch {
			case typeTerm(l):
				if !cmp(typ, op, k) {
					return false
				}
			case velocityTerm(l):
				if !cmp(vel, op, k) {
					return false
				}
			case selTerm(l) && selIdx >= 0:
				if !cmp(selIdx, op, k) {
					return false
				}
			}
		}
		return true
	}
	isExt := func(t *Term) bool {
		return t.Any(func(x *Term) bool { return dv.isFieldLoad(x, "externalNoteTracker") })
	}
	type fx struct{ sets, clears, other int; unlocked, stale bool }
	effectsOf := func(p *Path) fx {
		var r fx
		for _, e := range p.Effects {
			switch e.Kind {
			case "mapset":
				if !isExt(e.Args[0]) {
					continue
				}
				if b, ok := e.Args[2].IsBoolConst(); ok && b {
					r.sets++
				} else if ok && !b {
					r.other++ // storing false keeps the key present: the frame loop tests presence
				} else {
					r.other++
				}
			case "mapdel":
				if !isExt(e.Args[0]) {
					continue
				}
				r.clears++
			default:
				continue
			}
			if !heldAt(e.Instr, dv.fields["externalTrackerMutex"]) && !lockedInCallers(dv, e.Instr) {
				r.unlocked = true
			}
			// the map written must be read from the Device field inside the same critical section: Panic replaces the
			// field, a reference taken earlier (outside the lock / before the loop) points to the discarded maps
			var root ssa.Value
			switch x := e.Instr.(type) {
			case *ssa.MapUpdate:
				root = x.Map
			case *ssa.Call:
				if len(x.Call.Args) > 0 {
					root = x.Call.Args[0]
				}
			}
			if ld := fieldLoadOf(root, dv.fields["externalNoteTracker"]); ld == nil || !heldAt(ld, dv.fields["externalTrackerMutex"]) && !lockedInCallers(dv, ld) {
				r.stale = true
			}
		}
		return r
	}
	cases := []struct {
		key, what string
		typ       int64
		vels      []int64
		want      string // "set" | "clear" | "none"
	}{
		{"device.handleInputEvents/mark-sounding", "a Note On with velocity > 0", onV, []int64{1, 64, 127}, "set"},
		{"device.handleInputEvents/note-on-velocity-0-clears", "a Note On with velocity 0", onV, []int64{0}, "clear"},
		{"device.handleInputEvents/note-off-clears", "a Note Off", offV, []int64{0, 64}, "clear"},
		{"device.handleInputEvents/other-messages-ignored", "a Control Change", 0xB0, []int64{0, 64}, "none"},
	}
	for _, cs := range cases {
		n, bad := 0, ""
		for _, vel := range cs.vels {
			for _, p := range paths {
				if p.End == "cut" || !consistent(p, cs.typ, vel) {
					continue
				}
				n++
				r := effectsOf(p)
				switch {
				case r.unlocked:
					bad = "the external tracker is written without its mutex"
				case r.stale:
					bad = "the tracker map that is written was not read from Device.externalNoteTracker inside the critical section (a reference cached before the loop / outside the lock): after Panic replaced the map, MIDI-input notes go into the discarded one and are never shown"
				case r.other > 0:
					bad = "the entry is overwritten with a value other than true instead of being deleted: the frame loop tests presence, the key stays lit"
				case cs.want == "set" && (r.sets != 1 || r.clears != 0):
					bad = fmt.Sprintf("%s does not mark exactly that key as sounding (sets=%d clears=%d on a path)", cs.what, r.sets, r.clears)
				case cs.want == "clear" && (r.sets != 0 || r.clears < 1):
					if r.sets > 0 {
						bad = cs.what + " marks the key as sounding: a key is lit for every Note On without looking at the velocity (velocity 0 is the running-status spelling of Note Off) and stays lit"
					} else {
						bad = cs.what + " does not clear the external highlight of that key: it stays lit"
					}
				case cs.want == "none" && (r.sets != 0 || r.clears != 0):
					bad = cs.what + " changes the external highlight"
				}
			}
		}
		if n == 0 {
			c.Undec("R17.1", cs.key, pos, "no path of the MIDI-input loop is consistent with "+cs.what)
			continue
		}
		c.Check(bad == "", "R17.1", cs.key, pos, fmt.Sprintf("%d consistent path evaluation(s): %s -> %s, under the tracker mutex", n, cs.what, cs.want), bad)
	}
}

// fieldLoadOf: the load instruction of Device.<f> that v (a map reached through lookups) derives from, if it is a
// direct load in the same function.
func fieldLoadOf(v ssa.Value, f *types.Var) ssa.Instruction {
	for i := 0; i < 6 && v != nil; i++ {
		switch x := v.(type) {
		case *ssa.Lookup:
			v = x.X
		case *ssa.Extract:
			v = x.Tuple
		case *ssa.ChangeType:
			v = x.X
		case *ssa.UnOp:
			if x.Op == token.MUL && fieldOfAddr(x.X) == f {
				return x
			}
			return nil
		default:
			return nil
		}
	}
	return nil
}

// lockedInCallers: instr lies in a helper all of whose call sites hold the external tracker mutex.
func lockedInCallers(dv *dev, in ssa.Instruction) bool {
	fn := in.Parent()
	sites, ok := staticCallSites(dv.p, fn)
	if !ok {
		return false
	}
	for _, ci := range sites {
		if !heldAt(ci, dv.fields["externalTrackerMutex"]) {
			return false
		}
	}
	return true
}

// ruleLedIndices: R17.2.
func ruleLedIndices(c *Ctx, dv *dev) {
	root := dv.fn["handleOpenrgb"]
	c.Fn(shortFn(root))
	type site struct {
		ok  bool
		why string
		pos token.Pos
		n   int
	}
	sites := map[string]*site{}
	fns := append([]*ssa.Function{root}, root.AnonFuncs...)
	for _, fn := range fns {
		vw := NewFnView(c.P, fn)
		for _, b := range fn.Blocks {
			for _, in := range b.Instrs {
				ia, ok := in.(*ssa.IndexAddr)
				if !ok {
					continue
				}
				st, ok := ia.X.Type().Underlying().(*types.Slice)
				if !ok {
					continue
				}
				if n, ok := st.Elem().(*types.Named); !ok || n.Obj().Name() != "Color" {
					continue
				}
				// only stores into the LED array
				isStore := false
				for _, r := range *ia.Referrers() {
					if s, ok := r.(*ssa.Store); ok && s.Addr == ia {
						isStore = true
					}
				}
				if !isStore {
					continue
				}
				key, okIdx, why := classifyLedIndex(vw, ia.Index, b)
				s := sites[key]
				if s == nil {
					s = &site{ok: true, pos: ia.Pos()}
					sites[key] = s
				}
				s.n++
				if !okIdx {
					s.ok, s.why = false, why
				} else if s.why == "" {
					s.why = why
				}
			}
		}
	}
	var keys []string
	for k := range sites {
		keys = append(keys, k)
	}
	sort.Strings(keys)
	for _, k := range keys {
		s := sites[k]
		key := "device.handleOpenrgb/" + k
		if s.ok {
			c.OK("R17.2", key, c.P.Pos(s.pos), fmt.Sprintf("%d write(s): %s", s.n, s.why))
		} else {
			c.Bad("R17.2", key, c.P.Pos(s.pos), fmt.Sprintf("%d write(s) index the LED array with the zero default of a failed map lookup (%s): for a layout without that LED, or a configuration without that action, LED 0 is painted; with an empty LED array the refresh goroutine panics (index out of range)", s.n, s.why))
		}
	}
}

func classifyLedIndex(vw *FnView, idx ssa.Value, at *ssa.BasicBlock) (key string, ok bool, why string) {
	switch x := idx.(type) {
	case *ssa.Const:
		return "ledArray[const]", false, "constant index"
	case *ssa.Lookup:
		// plain (not comma-ok) map lookup used as index
		inner := "?"
		switch k := x.Index.(type) {
		case *ssa.Lookup:
			if kc, isC := k.Index.(*ssa.Const); isC && kc.Value != nil {
				inner = strings.Trim(kc.Value.ExactString(), `"`)
			}
			return "ledArray[indexMap[actionToEvcode[" + inner + "]]]", false, "indexMap[...] read without comma-ok"
		default:
			return "ledArray[" + mapName(x.X) + "[key]]", false, mapName(x.X) + "[...] read without comma-ok"
		}
	case *ssa.Extract:
		if lk, isLk := x.Tuple.(*ssa.Lookup); isLk && lk.CommaOk && x.Index == 0 {
			// the ok flag must be known true here
			var okExt *ssa.Extract
			for _, r := range *lk.Referrers() {
				if e, isE := r.(*ssa.Extract); isE && e.Index == 1 {
					okExt = e
				}
			}
			if okExt != nil {
				want := vw.Term(okExt).String()
				if v, found := boolAtom(vw.GuardsAt(at), want); found && v {
					return "ledArray[id from comma-ok " + mapName(lk.X) + "]", true, "index from the hit edge of a comma-ok lookup"
				}
			}
			return "ledArray[id from comma-ok " + mapName(lk.X) + "]", false, "comma-ok lookup whose ok flag is not tested before use"
		}
	case *ssa.Phi, *ssa.BinOp:
		if nonNegativeIndex(idx) {
			return "ledArray[loop index]", true, "loop index over the array"
		}
	case *ssa.UnOp:
		// local variable (spilled) assigned from a comma-ok extract
		if a, isA := x.X.(*ssa.Alloc); isA {
			if w := wholeStore(a); w != nil {
				return classifyLedIndex(vw, w, at)
			}
		}
	}
	return "ledArray[?]", false, "index of unknown origin " + idx.String()
}

func mapName(v ssa.Value) string {
	switch x := v.(type) {
	case *ssa.UnOp:
		if fv, ok := x.X.(*ssa.FreeVar); ok {
			return fv.Name()
		}
	}
	return types.TypeString(v.Type(), func(p *types.Package) string { return p.Name() })
}

// ruleFinalRedFrame: R17.3.
func ruleFinalRedFrame(c *Ctx, dv *dev) {
	fn := dv.fn["handleOpenrgb"]
	pos := c.P.Pos(fn.Pos())
	// the UpdateLEDs call that is not inside a loop
	var final *ssa.Call
	var inLoop []*ssa.Call
	for _, b := range fn.Blocks {
		for _, in := range b.Instrs {
			if call, ok := in.(*ssa.Call); ok {
				if callee := call.Call.StaticCallee(); callee != nil && callee.Name() == "UpdateLEDs" {
					if inCycle(b) {
						inLoop = append(inLoop, call)
					} else {
						final = call
					}
				}
			}
		}
	}
	key := "device.handleOpenrgb/final-red-frame"
	if final == nil || len(inLoop) == 0 {
		c.Bad("R17.3", key, pos, "no UpdateLEDs call after the refresh loop: the LEDs keep their last colours on disconnect")
		return
	}
	// a loop that stores Color{Red: 0xff} into every element dominates the final call
	red := false
	for _, b := range fn.Blocks {
		if !inCycle(b) || !blockDominatesOrSame(b, final.Block()) && !reachesBlock(b, final.Block()) {
			continue
		}
		for _, in := range b.Instrs {
			st, ok := in.(*ssa.Store)
			if !ok {
				continue
			}
			ia, ok := st.Addr.(*ssa.IndexAddr)
			if !ok || ia.X != final.Call.Args[len(final.Call.Args)-1] && !sameSliceVar(ia.X, final.Call.Args[len(final.Call.Args)-1]) {
				continue
			}
			if isRedLiteral(st.Val) && nonNegativeIndex(ia.Index) {
				// the loop is after the refresh loop: it cannot reach an in-loop UpdateLEDs
				after := true
				for _, u := range inLoop {
					if reachesBlock(b, u.Block()) {
						after = false
					}
				}
				if after {
					red = true
				}
			}
		}
	}
	// every return reachable after the refresh loop passes the final call
	okRet := true
	for _, b := range fn.Blocks {
		if b == fn.Recover {
			continue
		}
		if _, isRet := b.Instrs[len(b.Instrs)-1].(*ssa.Return); isRet {
			for _, u := range inLoop {
				if reachesBlock(u.Block(), b) && !blockDominatesOrSame(final.Block(), b) {
					okRet = false
				}
			}
		}
	}
	c.Check(red && okRet, "R17.3", key, c.P.Pos(final.Pos()), "every LED is set to {Red: 0xff} by a loop over the array and the frame is sent on every exit of the refresh loop",
		fmt.Sprintf("on disconnect the last frame is not all red on every exit (red loop=%v, on every exit=%v)", red, okRet))
}

func sameSliceVar(a, b ssa.Value) bool {
	la, ok1 := a.(*ssa.UnOp)
	lb, ok2 := b.(*ssa.UnOp)
	if ok1 && ok2 && la.X == lb.X {
		return true
	}
	// phi / same value
	return a == b
}

func reachesBlock(from, to *ssa.BasicBlock) bool {
	seen := map[*ssa.BasicBlock]bool{}
	stack := append([]*ssa.BasicBlock{}, from.Succs...)
	for len(stack) > 0 {
		b := stack[len(stack)-1]
		stack = stack[:len(stack)-1]
		if b == to {
			return true
		}
		if seen[b] {
			continue
		}
		seen[b] = true
		stack = append(stack, b.Succs...)
	}
	return false
}

func isRedLiteral(v ssa.Value) bool {
	// load of a struct literal alloc with Red = 255 and nothing else
	lit := literalOf(v)
	if lit == nil {
		return false
	}
	fields := compositeFields(lit)
	okRed := false
	for f, val := range fields {
		k, isK := val.(*ssa.Const)
		if !isK {
			return false
		}
		switch f.Name() {
		case "Red":
			okRed = k.Int64() == 255
		default:
			if k.Int64() != 0 {
				return false
			}
		}
	}
	return okRed
}

// ruleFrameUnderLocks: R17.5.
func ruleFrameUnderLocks(c *Ctx, dv *dev) {
	named, _ := c.P.Struct(pkgDevice, "Device")
	la := newLockAnalysis(c.P, named)
	fn := dv.fn["handleOpenrgb"]
	la.Walk("T:handleOpenrgb", fn, lockset{}, nil)
	need := map[string]string{"octave": "field:eventProcessMutex", "semitone": "field:eventProcessMutex", "channel": "field:eventProcessMutex",
		"mapping": "field:eventProcessMutex", "noteTracker": "field:eventProcessMutex", "externalNoteTracker": "field:externalTrackerMutex"}
	cnt := map[string][2]int{}
	for _, a := range la.accesses {
		lk, watched := need[a.Field.Name()]
		if !watched {
			continue
		}
		v := cnt[a.Field.Name()]
		if a.Locks[lk] {
			v[0]++
		} else {
			v[1]++
		}
		cnt[a.Field.Name()] = v
	}
	var names []string
	for n := range need {
		names = append(names, n)
	}
	sort.Strings(names)
	for _, n := range names {
		v := cnt[n]
		key := "device.handleOpenrgb/reads(Device." + n + ")-under-" + strings.TrimPrefix(need[n], "field:")
		if v[0]+v[1] == 0 {
			c.Trivial("R17.5", key, c.P.Pos(fn.Pos()), "field not read by the LED loop")
			continue
		}
		c.Check(v[1] == 0, "R17.5", key, c.P.Pos(fn.Pos()), fmt.Sprintf("%d read(s), all inside the critical section", v[0]),
			fmt.Sprintf("%d of %d read(s) happen outside the critical section: the frame can mix two device states", v[1], v[0]+v[1]))
	}
	// the in-loop UpdateLEDs is sent inside the same critical section
	for _, b := range fn.Blocks {
		for _, in := range b.Instrs {
			if call, ok := in.(*ssa.Call); ok && inCycle(b) {
				if callee := call.Call.StaticCallee(); callee != nil && callee.Name() == "UpdateLEDs" {
					c.Check(heldAt(call, dv.fields["eventProcessMutex"]), "R17.5", "device.handleOpenrgb/frame-sent-in-critical-section", c.P.Pos(call.Pos()),
						"UpdateLEDs is called while the event mutex is still held", "the frame is sent after the event mutex was released")
				}
			}
		}
	}
}

// ruleLedOffset: R17.6 the LED transposition offset agrees with NoteOn.
func ruleLedOffset(c *Ctx, dv *dev) {
	fn := dv.fn["handleOpenrgb"]
	vw := NewFnView(c.P, fn)
	found := false
	for _, b := range fn.Blocks {
		for _, in := range b.Instrs {
			bo, ok := in.(*ssa.BinOp)
			if !ok || bo.Op != token.ADD || !isIntegerType(bo.Type()) {
				continue
			}
			t := vw.Term(bo)
			if !t.LoadsField(dv.fields["octave"]) || !t.LoadsField(dv.fields["semitone"]) {
				continue
			}
			// the outermost sum only
			outer := true
			for _, r := range *bo.Referrers() {
				if p, ok := r.(*ssa.BinOp); ok && p.Op == token.ADD && vw.Term(p).LoadsField(dv.fields["octave"]) && !strings.Contains(vw.Term(p).String(), ".Note") {
					outer = false
				}
			}
			if !outer {
				continue
			}
			found = true
			key := "device.handleOpenrgb/transposition-offset"
			l := linearize(t)
			bad := ""
			if !l.ok {
				bad = "offset is not an affine int form: " + l.why
			} else {
				oct, semi := int64(0), int64(0)
				for k, coef := range l.coef {
					switch {
					case dv.isFieldLoad(l.terms[k], "octave"):
						oct = coef
					case dv.isFieldLoad(l.terms[k], "semitone"):
						semi = coef
					case strings.HasSuffix(k, ".Note"):
					default:
						bad = "unexpected operand " + k
					}
				}
				if bad == "" && (oct != 12 || semi != 1) {
					bad = fmt.Sprintf("offset = %s: coefficients differ from NoteOn's 12*octave + semitone", l.String())
				}
			}
			c.Check(bad == "", "R17.6", key, c.P.Pos(bo.Pos()), "offset = 12*octave + semitone computed in int ("+l.String()+")", bad+": the LEDs would show a different transposition than the one that sounds")
		}
	}
	if !found {
		c.Undec("R17.6", "device.handleOpenrgb/transposition-offset", c.P.Pos(fn.Pos()), "offset computation not found")
	}
}
