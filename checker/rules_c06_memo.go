package main

import (
	"fmt"
	"regexp"
	"sort"
	"strings"

	"golang.org/x/tools/go/ssa"
)

var devFieldRef = regexp.MustCompile(`\bd\.([A-Za-z_][A-Za-z_0-9]*)`)

// pureMappingConfig: the term is made of nothing but the configuration of the selected mapping (and constants, and the
// identity of the event's axis used as an index): it mentions d.config.KeyMappings[d.mapping], no device state other than
// config and mapping, and not the reported position.
func pureMappingConfig(t *Term) bool {
	s := t.String()
	if !strings.Contains(s, ".KeyMappings[d.mapping") {
		return false
	}
	if strings.Contains(s, "Event.Value") || strings.Contains(s, "call:") && !strings.Contains(s, "call:fmt.Sprintf") {
		return false
	}
	for _, m := range devFieldRef.FindAllStringSubmatch(s, -1) {
		if m[1] != "config" && m[1] != "mapping" {
			return false
		}
	}
	return true
}

// ruleNoMappingMemo: R6.21. The deadzone, the flip, the kind of the axis ... are those of the mapping selected *now*: the
// axis handler reads them from d.config.KeyMappings[d.mapping] on every event. A value of the selected mapping that the
// handler puts aside in the device under a key that does not name the mapping (a memo per sub-handler and axis) is the
// old mapping's value after the next mapping_up / mapping_down / reset - unless every function that changes the mapping
// also empties that memo.
func ruleNoMappingMemo(c *Ctx, dv *dev, paths []*Path, rule string) {
	fn := dv.fn["handleABSEvent"]
	pos := c.P.Pos(fn.Pos())
	type memo struct {
		field string
		pos   string
		what  string
	}
	found := map[string]memo{}
	writes := 0
	for _, p := range paths {
		for _, e := range p.Effects {
			var target, key, val *Term
			switch e.Kind {
			case "mapset":
				if len(e.Args) != 3 {
					continue
				}
				target, key, val = e.Args[0], e.Args[1], e.Args[2]
			case "store":
				if e.Local || len(e.Args) != 2 {
					continue
				}
				target, val = e.Args[0], e.Args[1]
			default:
				continue
			}
			ts := target.String()
			m := devFieldRef.FindStringSubmatch(ts)
			if m == nil || !strings.HasPrefix(strings.TrimLeft(ts, "&*("), "d.") || m[1] == "config" {
				continue
			}
			writes++
			if !pureMappingConfig(val) {
				continue
			}
			ks := ts
			if key != nil {
				ks += " " + key.String()
			}
			if strings.Contains(strings.Replace(ks, "d."+m[1], "", 1), "d.mapping") {
				continue // the key names the mapping
			}
			if _, ok := found[m[1]]; !ok {
				found[m[1]] = memo{m[1], c.P.Pos(e.Instr.Pos()), truncate(val.String(), 100)}
			}
		}
	}
	names := make([]string, 0, len(found))
	for k := range found {
		names = append(names, k)
	}
	sort.Strings(names)
	bad := 0
	for _, name := range names {
		mm := found[name]
		f := dv.fields[name]
		// emptied wherever the mapping changes?
		cleared, switches := true, 0
		if mf := dv.fields["mapping"]; mf != nil && f != nil {
			for _, w := range c.P.writersOfField(mf) {
				owner := dv.ownerOf(w.Fn)
				if sameAnchorName(dv.refName(owner), "NewDevice") {
					continue
				}
				switches++
				ok := false
				for _, fw := range c.P.writersOfField(f) {
					if dv.ownerOf(fw.Fn) == owner && forgetsOnly(fw) {
						ok = true
					}
				}
				if !ok {
					cleared = false
				}
			}
		} else {
			cleared = false
		}
		key := "device.handleABSEvent/no-memo-of-the-selected-mapping(Device." + name + ")"
		if cleared && switches > 0 {
			c.OK(rule, key, mm.pos, "a memo of the selected mapping's configuration, emptied by every function that changes the mapping")
			continue
		}
		bad++
		c.Bad(rule, key, mm.pos, fmt.Sprintf("the axis handler puts a value of the selected mapping's configuration (%s) aside in Device.%s under a key that does not name the mapping, and not every function that changes the mapping empties it: after a mapping switch the axis is shaped with the old mapping's value", mm.what, name))
	}
	if bad == 0 && len(names) == 0 {
		c.OK(rule, "device.handleABSEvent/no-memo-of-the-selected-mapping", pos, fmt.Sprintf("%d write(s) to device state on %d path(s): none stores a value made of the selected mapping's configuration alone", writes, len(paths)))
	}
}

var _ = (*ssa.Function)(nil)
