package main

import (
	"fmt"
	"go/types"
	"os"
	"sort"
	"strings"

	"golang.org/x/tools/go/ssa"
)

// ruleRequiredWhereUsedUnguarded: R10.13 (imported by C08 as R8.15). For a mapping type T the axis handler uses some
// numeric fields of config.Analog only behind a presence flag the parser derives from the file (NoteNeg and CCNeg behind
// Bidirectional) and others unconditionally (Note, CC). A field of the second kind must come from the file on every
// accepted path of the parser's case T: if the parser lets the case go on with the variable still at its initial constant
// (the file gave no value), the handler works with that constant as if it had been configured - an axis with only
// `note_negative` sounds note 0 when pushed the other way. Parser side: the value stored into the field is followed back
// through phis and conversions; an incoming constant on an edge that leaves a block of case T is a default inside T.
// Runtime side: every use of the field in the handler's case T lies under a taken test of a bool field of the same
// mapping entry.
func ruleRequiredWhereUsedUnguarded(c *Ctx, pf *parserFacts, rule string) {
	dv := newDev(c, rule)
	if !dv.ok || dv.fn["handleABSEvent"] == nil {
		return
	}
	fn := dv.fn["handleABSEvent"]
	keys, _, _, _, ok := c.P.mapLiteral(pkgConfig, "SupportedMappingTypes")
	if !c.Require(ok, rule, "anchor:config.SupportedMappingTypes", "table not found") {
		return
	}
	_, ast := c.P.Struct(pkgConfig, "Analog")
	if !c.Require(ast != nil, rule, "anchor:config.Analog", "struct not found") {
		return
	}
	numeric := func(f *types.Var) bool {
		b, ok := f.Type().Underlying().(*types.Basic)
		return ok && b.Info()&types.IsInteger != 0
	}
	isAnalogField := func(f *types.Var) bool {
		for i := 0; i < ast.NumFields(); i++ {
			if ast.Field(i) == f {
				return true
			}
		}
		return false
	}
	// parser side: defaults inside a case
	defaults := map[string]map[string]string{} // case -> field -> position
	for _, fs := range pf.fieldStores("Analog") {
		if fs.Field == nil || !numeric(fs.Field) {
			continue
		}
		seen := map[ssa.Value]bool{}
		var walk func(v ssa.Value, depth int)
		walk = func(v ssa.Value, depth int) {
			if v == nil || seen[v] || depth > 8 {
				return
			}
			seen[v] = true
			switch x := v.(type) {
			case *ssa.Phi:
				for i, e := range x.Edges {
					if k, isK := e.(*ssa.Const); isK && k.Value != nil {
						if t := pf.caseAt(x.Block().Preds[i]); t != "" {
							if defaults[t] == nil {
								defaults[t] = map[string]string{}
							}
							defaults[t][fs.Field.Name()] = c.P.Pos(x.Pos())
						}
						continue
					}
					walk(e, depth+1)
				}
			case *ssa.Convert:
				walk(x.X, depth+1)
			case *ssa.ChangeType:
				walk(x.X, depth+1)
			}
		}
		walk(fs.Val, 0)
	}
	// presence flags: bool fields of the entry that the parser computes (not copied from a bool of the file)
	presence := map[string]bool{}
	for _, fs := range pf.fieldStores("Analog") {
		if fs.Field == nil {
			continue
		}
		if bt, isB := fs.Field.Type().Underlying().(*types.Basic); !isB || bt.Kind() != types.Bool {
			continue
		}
		copied := false
		switch x := fs.Val.(type) {
		case *ssa.Field:
			copied = true
		case *ssa.UnOp:
			if _, isFA := x.X.(*ssa.FieldAddr); isFA {
				copied = true
			}
		}
		if !copied {
			presence[fs.Field.Name()] = true
		}
	}
	// runtime side: unguarded uses per case
	pos := c.P.Pos(fn.Pos())
	n := 0
	for _, t := range constStrings(keys) {
		region := caseRegion(fn, dv, t)
		if region == nil {
			continue
		}
		unguarded := map[string]string{}
		used := map[string]bool{}
		var hostBlocks []*ssa.BasicBlock
		for _, h := range dv.hostsOf(fn) {
			hostBlocks = append(hostBlocks, h.Blocks...)
		}
		for _, b := range hostBlocks {
			for _, in := range b.Instrs {
				var f *types.Var
				switch x := in.(type) {
				case *ssa.Field:
					f = x.X.Type().Underlying().(*types.Struct).Field(x.Field)
				case *ssa.FieldAddr:
					f = fieldOfAddr(x)
				}
				if f == nil || !isAnalogField(f) || !numeric(f) {
					continue
				}
				for _, ub := range useBlocks(in.(ssa.Value)) {
					if !region[ub] {
						continue
					}
					used[f.Name()] = true
					guarded := false
					for _, a := range NewFnView(c.P, ub.Parent()).GuardsAt(ub) {
						cnd, taken := a.Cond, a.Taken
						for cnd.Op == "unop" && cnd.Aux == "!" {
							cnd, taken = cnd.Args[0], !taken
						}
						// `a && b` as a switch case: phi(false, b) taken true says b
						if cnd.Op == "phi" && taken {
							var live []*Term
							for _, x := range cnd.Args {
								if bv, isB := x.IsBoolConst(); isB && !bv {
									continue
								}
								live = append(live, x)
							}
							if len(live) == 1 {
								cnd = live[0]
								for cnd.Op == "unop" && cnd.Aux == "!" {
									cnd, taken = cnd.Args[0], !taken
								}
							}
						}
						if !taken || cnd.Type == nil {
							continue
						}
						if bt, isB := cnd.Type.Underlying().(*types.Basic); !isB || bt.Kind() != types.Bool {
							continue
						}
						cs := cnd.String()
						for name := range presence {
							if strings.HasSuffix(cs, "."+name) {
								guarded = true
							}
						}
					}
					if !guarded {
						unguarded[f.Name()] = c.P.Pos(in.Pos())
						if os.Getenv("HIDI_DEBUG") == "R10.13" {
							fmt.Fprintln(os.Stderr, "UNGUARDED", t, f.Name(), c.P.Pos(in.Pos()), "use block", ub.Index, ub.Comment)
							for _, a := range NewFnView(c.P, ub.Parent()).GuardsAt(ub) {
								fmt.Fprintln(os.Stderr, "    ", a.Taken, truncate(a.Cond.String(), 160))
							}
						}
					}
				}
			}
		}
		var names []string
		for f := range used {
			names = append(names, f)
		}
		sort.Strings(names)
		for _, f := range names {
			n++
			key := fmt.Sprintf("analog-type[%s]/Analog.%s/from-the-file-where-used-without-a-presence-test", t, f)
			dpos, hasDefault := defaults[t][f]
			upos, isUnguarded := unguarded[f]
			switch {
			case hasDefault && isUnguarded:
				c.Bad(rule, key, dpos, fmt.Sprintf("for type %q the parser can leave Analog.%s at a constant (the file gave no value, the phi at %s) and the axis handler uses it at %s without testing a presence flag: the axis acts on that constant as if it had been configured", t, f, dpos, upos))
			case hasDefault:
				c.OK(rule, key, dpos, "optional in the file; every use in the handler lies under a presence flag of the mapping entry")
			default:
				c.OK(rule, key, pos, "set from the file on every accepted path of this case")
			}
		}
	}
	if n == 0 {
		c.Undec(rule, "analog-fields-used", pos, "no numeric field of config.Analog is used in any case of the axis handler")
	}
}

// requiredFieldRules: R10.13 alone (imported by C08).
func requiredFieldRules(c *Ctx) {
	if pf := newParserFacts(c); pf.err == nil {
		ruleRequiredWhereUsedUnguarded(c, pf, "R10.13")
	}
}
